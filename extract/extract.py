#!/usr/bin/env python3
"""Translator: table-shaped source in /repo -> lean/ClapModel/Gen/*.lean.
Fail-closed: a pattern that no longer matches is an error (exit 1)."""
import re, sys, os
REPO = "/repo"
GEN = "/verif/lean/ClapModel/Gen"
errors = []

def write_if_changed(path, text):
    if os.path.exists(path) and open(path).read() == text:
        return
    open(path, "w").write(text)

def main():
    os.makedirs(GEN, exist_ok=True)
    if errors:
        for e in errors:
            print("extract: " + e)
        sys.exit(1)

if __name__ == "__main__":
    main()
