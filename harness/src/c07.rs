//! C07 — occurrences combine by action: last-wins, append-in-order, saturating count.
//! Oracle: an independent abstract simulator of "occurrences combine by action" evaluated on the
//! intended occurrence list, compared with the typed getters of the real `ArgMatches`.
use crate::spec::*;
use crate::util::*;
use clap::error::ErrorKind;
use std::collections::BTreeMap;

#[derive(Clone, Debug)]
struct Occ { arg: usize, vals: Vec<String> }

pub fn run(o: &Opts) -> Report {
    let mut rep = Report::new("C07", "three option args (actions Set/Append/Count/SetTrue/SetFalse; num_args 1, 1..=2, 0..=1 with/without default_missing, 0..; overrides_with self/each other in any direction; args_override_self) + a counting flag x occurrence sequences (0..310 repeats incl. 254/255/256, interleaved, long/short/cluster/attached/= spellings); oracle = abstract occurrence simulator vs typed getters; model must predict the whole ArgMatches; non-trivial = at least two occurrences of one arg; distinct by canonical request");
    let mut rng = Rng::new(o.seed ^ 0xC07);
    let mut reqs = vec![]; let mut impls = vec![];
    let n_cases = if o.thorough() { 60_000 } else { 8_000 };
    let names = [("m", 'm', "main"), ("o", 'o', "other"), ("q", 'q', "quux")];
    for _ in 0..n_cases {
        let mut args: Vec<ArgS> = vec![];
        for (id, sh, lg) in names {
            let action = *rng.pick(&["set", "append", "append", "count", "setTrue", "setFalse"]);
            let mut a = ArgS { id: id.into(), short: Some(sh), long: Some(lg.into()), action: Some(action), ..Default::default() };
            if matches!(action, "set" | "append") {
                match rng.below(8) {
                    0 => a.num_vals = Some((1, Some(2))),
                    1 => { a.num_vals = Some((0, Some(1))); a.default_missing = vec!["miss".into()]; }
                    2 => a.num_vals = Some((0, Some(1))),
                    3 => a.num_vals = Some((0, None)),
                    _ => {}
                }
            }
            args.push(a);
        }
        // override relations
        for i in 0..3 { for j in 0..3 { if rng.chance(1, 5) { let tgt = args[j].id.clone(); args[i].overrides.push(tgt); } } }
        args.push(ArgS { id: "f".into(), short: Some('f'), long: Some("flag".into()), action: Some("count"), ..Default::default() });
        let mut cmd = CmdS { name: "prog".into(), args: args.clone(), ..Default::default() };
        cmd.settings.args_override_self = rng.chance(1, 4);
        if !real_valid(&cmd) { rep.count("invalid_definition(skipped)"); continue; }
        // occurrence sequence
        let total = match rng.below(12) { 0 => 0, 1 => 1, 2 => 254 + rng.below(4), 3 => 290 + rng.below(20), _ => 2 + rng.below(8) };
        let heavy = if total > 40 { (0..3).find(|&i| !matches!(args[i].action, Some("set") | Some("append"))) } else { None };
        let total = if total > 40 && heavy.is_none() { 3 + total % 7 } else { total };
        let mut occs: Vec<Occ> = vec![];
        for k in 0..total {
            let ai = match heavy { Some(h) if rng.chance(9, 10) => h, _ => rng.below(3) };
            let a = &args[ai];
            let nv = if !matches!(a.action, Some("set") | Some("append")) { 0 } else { match a.num_vals { Some((lo, Some(hi))) => lo + rng.below(hi - lo + 1), Some((lo, None)) => lo + rng.below(3), None => 1 } };
            occs.push(Occ { arg: ai, vals: (0..nv).map(|j| format!("v{k}_{j}")).collect() });
        }
        // render; `f` flags are sprinkled in to terminate value lists
        let mut argv: Vec<Vec<u8>> = vec![b"prog".to_vec()];
        let mut i = 0;
        while i < occs.len() {
            let oc = &occs[i];
            let a = &args[oc.arg];
            let (sh, lg) = (a.short.unwrap(), a.long.clone().unwrap());
            let takes = matches!(a.action, Some("set") | Some("append"));
            if !takes {
                let mut run = 1;
                while i + run < occs.len() && occs[i + run].arg == oc.arg && run < 9 && rng.chance(2, 3) { run += 1; }
                if run > 1 || rng.chance(1, 2) { argv.push(format!("-{}", sh.to_string().repeat(run)).into_bytes()); i += run; continue; }
                argv.push(format!("--{lg}").into_bytes());
            } else if oc.vals.is_empty() {
                argv.push(if rng.chance(1, 2) { format!("--{lg}").into_bytes() } else { format!("-{sh}").into_bytes() });
                // an empty occurrence must be followed by something that is not a value
                if i + 1 == occs.len() || true { if i + 1 < occs.len() || rng.chance(1, 2) { /* next token is a flag anyway */ } }
            } else if oc.vals.len() == 1 && a.num_vals.map(|(_, hi)| hi == Some(1) || hi.is_none() && false).unwrap_or(true) {
                match rng.below(5) {
                    0 => argv.push(format!("--{lg}={}", oc.vals[0]).into_bytes()),
                    1 => argv.push(format!("-{sh}{}", oc.vals[0]).into_bytes()),
                    2 => argv.push(format!("-{sh}={}", oc.vals[0]).into_bytes()),
                    3 => { argv.push(format!("-{sh}").into_bytes()); argv.push(oc.vals[0].clone().into_bytes()); }
                    _ => { argv.push(format!("--{lg}").into_bytes()); argv.push(oc.vals[0].clone().into_bytes()); }
                }
            } else {
                argv.push(format!("--{lg}").into_bytes());
                for v in &oc.vals { argv.push(v.clone().into_bytes()); }
                // values could run on into the next occurrence's values only if that starts without a flag; it never does
            }
            i += 1;
        }
        let (canon, mm, err) = real_parse(&cmd, &argv);
        let req = parse_request(&cmd, &argv);
        // ---- the abstract simulator
        let related = |x: usize, y: usize| args[x].overrides.contains(&args[y].id) || args[y].overrides.contains(&args[x].id);
        let mut st: BTreeMap<usize, Vec<Vec<String>>> = BTreeMap::new();
        let mut cnt: BTreeMap<usize, u32> = BTreeMap::new();
        let mut conflict = false;
        for oc in &occs {
            let x = oc.arg;
            let a = &args[x];
            let action = a.action.unwrap();
            let vals: Vec<String> = if oc.vals.is_empty() && !a.default_missing.is_empty() { a.default_missing.clone() } else { oc.vals.clone() };
            let prev_count = *cnt.get(&x).unwrap_or(&0);
            let self_rel = args[x].overrides.contains(&args[x].id);
            match action {
                "set" | "setTrue" | "setFalse" => {
                    if st.contains_key(&x) && !(cmd.settings.args_override_self || self_rel) { conflict = true; break; }
                    st.remove(&x);
                }
                "count" => { st.remove(&x); }
                _ => {}
            }
            for y in 0..3 { if related(x, y) && (y != x || self_rel) { st.remove(&y); cnt.remove(&y); } }
            match action {
                "set" => { st.insert(x, vec![vals]); }
                "setTrue" => { st.insert(x, vec![vec!["true".into()]]); }
                "setFalse" => { st.insert(x, vec![vec!["false".into()]]); }
                "count" => { let n = (prev_count + 1).min(255); cnt.insert(x, n); st.insert(x, vec![vec![n.to_string()]]); }
                _ => { st.entry(x).or_default().push(vals); }
            }
        }
        match (&mm, &err) {
            (Some(mt), _) => {
                if conflict { rep.oracle_fail("set-repeat-accepted-without-self-override", &req, &format!("argv={:?}", argv.iter().map(|a| String::from_utf8_lossy(a).to_string()).collect::<Vec<_>>())); }
                else {
                    for x in 0..3 {
                        let a = &args[x];
                        let id = a.id.as_str();
                        let exp = st.get(&x);
                        match a.action.unwrap() {
                            "count" => { let e = exp.map(|g| g[0][0].parse::<u8>().unwrap()).unwrap_or(0); if mt.get_count(id) != e { rep.oracle_fail("count-not-saturating-number-of-occurrences", &req, &format!("{id}: get_count={} expected={e}", mt.get_count(id))); } }
                            "setTrue" => { let e = exp.is_some(); if mt.get_flag(id) != e { rep.oracle_fail("flag-truth-value", &req, &format!("{id}: get_flag={} expected={e}", mt.get_flag(id))); } }
                            "setFalse" => { let e = exp.is_none(); if mt.get_flag(id) != e { rep.oracle_fail("flag-truth-value", &req, &format!("{id}: get_flag={} expected={e}", mt.get_flag(id))); } }
                            act => {
                                let got: Vec<Vec<String>> = mt.get_occurrences::<String>(id).map(|o| o.map(|g| g.cloned().collect()).collect()).unwrap_or_default();
                                let e: Vec<Vec<String>> = exp.cloned().unwrap_or_default();
                                if got != e { rep.oracle_fail(if act == "set" { "set-last-occurrence-wins" } else { "append-order-or-boundaries" }, &req, &format!("{id}: got={got:?} expected={e:?}")); }
                            }
                        }
                    }
                }
            }
            (None, Some(e)) => {
                if e.kind() == ErrorKind::ArgumentConflict && !conflict { rep.oracle_fail("conflict-reported-without-a-repeated-set", &req, &format!("argv={:?}", argv.iter().map(|a| String::from_utf8_lossy(a).to_string()).collect::<Vec<_>>())); }
                else if e.kind() != ErrorKind::ArgumentConflict { rep.oracle_fail("unexpected-rejection", &req, &format!("{:?} argv={:?}", e.kind(), argv.iter().map(|a| String::from_utf8_lossy(a).to_string()).collect::<Vec<_>>())); }
            }
            _ => rep.oracle_fail("panic", &req, &canon),
        }
        rep.case(&req, occs.len() >= 2);
        if total >= 254 { rep.count("repeats>=254"); }
        rep.count(if canon.starts_with("OK") { "ok" } else { "rejected" });
        reqs.push(req); impls.push(canon);
    }
    if o.driver != "none" {
        let model = driver_batch(&o.driver, &reqs, o.par);
        for ((req, m), i) in reqs.iter().zip(model.iter()).zip(impls.iter()) { if m != i { rep.disagree("parse", req, m, i); } }
    }
    {
        use crate::pcorr::*;
        // `args_override_self` set on an ancestor reaches every level below it: a repeated `Set` option is last-wins there too
        let mk = |at: usize| { let mut leaf = CmdS { name: "leaf".into(), ..Default::default() };
            leaf.args.push(ArgS { id: "opt".into(), long: Some("opt".into()), action: Some("set"), ..Default::default() });
            leaf.args.push(ArgS { id: "flag".into(), long: Some("flag".into()), action: Some("setTrue"), ..Default::default() });
            let mut mid = CmdS { name: "mid".into(), ..Default::default() }; mid.subs.push(leaf);
            let mut c = CmdS { name: "prog".into(), ..Default::default() };
            if at == 0 { c.settings.args_override_self = true; } else { mid.settings.args_override_self = true; }
            c.subs.push(mid); c };
        let mut cases: Vec<(CmdS, Vec<Vec<u8>>, Expect)> = vec![];
        for at in [0usize, 1] {
            cases.push((mk(at), bv(&["prog", "mid", "leaf", "--opt", "a", "--opt", "b"]), Box::new(|m| want_occs(m, &["mid", "leaf"], "opt", &[&["b"]]))));
            cases.push((mk(at), bv(&["prog", "mid", "leaf", "--flag", "--flag", "--opt=x"]), Box::new(|m| want_occs(m, &["mid", "leaf"], "flag", &[&["true"]]))));
        }
        run_expect(&mut rep, o, "inherited-args_override_self-lost-below", cases);
    }
    {
        use crate::pcorr::*;
        use clap::parser::ValueSource;
        // a positional with a bounded, variable number of values and no explicit action is `Set`: split into two
        // occurrences by a flag it is a repeat (conflict), or last-wins with self-override
        let mkp = |num: (usize, Option<usize>), over: bool| { let mut c = CmdS { name: "prog".into(), ..Default::default() };
            c.settings.args_override_self = over;
            c.args.push(ArgS { id: "f".into(), short: Some('f'), action: Some("setTrue"), ..Default::default() });
            c.args.push(ArgS { id: "p".into(), num_vals: Some(num), ..Default::default() });
            c };
        let mut kinds = vec![]; let mut oks: Vec<(CmdS, Vec<Vec<u8>>, Expect)> = vec![];
        for num in [(1, Some(2)), (1, Some(3)), (0, Some(1))] {
            kinds.push((mkp(num, false), bv(&["prog", "a", "-f", "b"]), clap::error::ErrorKind::ArgumentConflict));
            oks.push((mkp(num, true), bv(&["prog", "a", "-f", "b"]), Box::new(|m| want_occs(m, &[], "p", &[&["b"]]))));
            oks.push((mkp(num, false), bv(&["prog", "-f", "a"]), Box::new(|m| want_occs(m, &[], "p", &[&["a"]]))));
        }
        run_expect_kind(&mut rep, o, "repeated-set-positional-accepted", kinds);
        run_expect(&mut rep, o, "set-positional-keeps-earlier-occurrence", oks);
        // a REQUIRED flag that is absent from an accepted line (the requirement is waived by a present conflicting arg, or
        // by a subcommand under subcommand_negates_reqs) still has its action's default: false / true / 0
        let mkr = |action: &'static str, via_sub: bool| { let mut c = CmdS { name: "prog".into(), ..Default::default() };
            c.args.push(ArgS { id: "req".into(), long: Some("req".into()), action: Some(action), required: true, ..Default::default() });
            c.args.push(ArgS { id: "alt".into(), long: Some("alt".into()), action: Some("setTrue"), blacklist: vec!["req".into()], ..Default::default() });
            if via_sub { c.settings.subcommand_negates_reqs = true; c.subs.push(CmdS { name: "sub".into(), ..Default::default() }); }
            c };
        let mut cases: Vec<(CmdS, Vec<Vec<u8>>, Expect)> = vec![];
        for (action, dflt) in [("setTrue", "false"), ("setFalse", "true"), ("count", "0")] {
            cases.push((mkr(action, false), bv(&["prog", "--alt"]), Box::new(move |m| { want_occs(m, &[], "req", &[&[dflt]])?; want_source(m, "req", Some(ValueSource::DefaultValue)) })));
            cases.push((mkr(action, true), bv(&["prog", "sub"]), Box::new(move |m| { want_occs(m, &[], "req", &[&[dflt]])?; want_source(m, "req", Some(ValueSource::DefaultValue)) })));
        }
        run_expect(&mut rep, o, "absent-required-flag-has-no-default", cases);
    }
    crate::pcorr::run_generic(&mut rep, o, 0xC07);
    rep
}
