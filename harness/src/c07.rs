//! C07 — occurrences combine by action: last-wins, append-in-order, saturating count.
use crate::spec::*;
use crate::util::*;
use clap::error::ErrorKind;

/// an occurrence of the main arg `m` (values) or of the companion `o`
#[derive(Clone, Debug)]
enum Occ { Main(Vec<String>), Other(Vec<String>), Flag }

pub fn run(o: &Opts) -> Report {
    let mut rep = Report::new("C07", "one main arg with action in {Set, Append, Count, SetTrue, SetFalse} x {args_override_self, overrides_with(self), overrides_with(other) in either direction, plain} x occurrence sequences (0..300 repeats incl. 254/255/256, interleaved with a companion option and a flag, long/short/cluster/attached spellings); typed getters compared with the action's specification; model must predict the whole ArgMatches; non-trivial = at least two occurrences of the main arg; distinct by canonical request");
    let mut rng = Rng::new(o.seed ^ 0xC07);
    let mut reqs = vec![]; let mut impls = vec![];
    let n_cases = if o.thorough() { 40_000 } else { 6_000 };
    for case_i in 0..n_cases {
        let action = *rng.pick(&["set", "append", "count", "setTrue", "setFalse"]);
        let takes = matches!(action, "set" | "append");
        let self_override = rng.below(4); // 0 none, 1 args_override_self, 2 overrides_with(self), 3 none
        let rel = rng.below(5); // 0: m overrides o, 1: o overrides m, 2: both, _ none
        let mut m = ArgS { id: "m".into(), short: Some('m'), long: Some("main".into()), action: Some(action), ..Default::default() };
        let mut other = ArgS { id: "o".into(), short: Some('o'), long: Some("other".into()), action: Some(if rng.chance(1, 2) { "set" } else { "append" }), ..Default::default() };
        let flag = ArgS { id: "f".into(), short: Some('f'), long: Some("flag".into()), action: Some("count"), ..Default::default() };
        if takes && rng.chance(1, 4) { m.num_vals = Some((1, Some(2))); }
        if takes && rng.chance(1, 6) { m.num_vals = Some((0, Some(1))); m.default_missing = vec!["miss".into()]; }
        if takes && rng.chance(1, 6) { m.delim = Some(','); }
        if self_override == 2 { m.overrides.push("m".into()); }
        if rel == 0 || rel == 2 { m.overrides.push("o".into()); }
        if rel == 1 || rel == 2 { other.overrides.push("m".into()); }
        let mut cmd = CmdS { name: "prog".into(), args: vec![m.clone(), other.clone(), flag], ..Default::default() };
        cmd.settings.args_override_self = self_override == 1;
        if !real_valid(&cmd) { rep.count("invalid_definition(skipped)"); continue; }
        // occurrence sequence
        let n_main = match rng.below(12) { 0 => 0, 1 => 1, 2 => 254 + rng.below(4), 3 => 290 + rng.below(20), _ => 2 + rng.below(5) };
        let n_main = if takes && n_main > 40 { 2 + n_main % 7 } else { n_main };
        let mut occs: Vec<Occ> = vec![];
        for k in 0..n_main {
            let nv = match m.num_vals { Some((lo, Some(hi))) => lo + rng.below(hi - lo + 1), _ => 1 };
            occs.push(Occ::Main((0..nv).map(|j| format!("v{k}_{j}")).collect()));
            if n_main < 40 && rng.chance(1, 3) { occs.push(if rng.chance(1, 2) { Occ::Other(vec![format!("w{k}")]) } else { Occ::Flag }); }
        }
        if rng.chance(1, 3) { occs.insert(0, Occ::Other(vec!["w_first".into()])); }
        if rng.chance(1, 3) { occs.push(Occ::Other(vec!["w_last".into()])); }
        // render
        let mut argv: Vec<Vec<u8>> = vec![b"prog".to_vec()];
        let mut i = 0;
        while i < occs.len() {
            match &occs[i] {
                Occ::Main(vals) => {
                    if !takes {
                        // cluster consecutive flag occurrences sometimes
                        let mut run = 1;
                        while i + run < occs.len() && matches!(occs[i + run], Occ::Main(_)) && run < 9 && rng.chance(2, 3) { run += 1; }
                        if run > 1 || rng.chance(1, 2) { argv.push(format!("-{}", "m".repeat(run)).into_bytes()); i += run; continue; }
                        argv.push(b"--main".to_vec());
                    } else if vals.is_empty() { argv.push(if rng.chance(1, 2) { b"--main".to_vec() } else { b"-m".to_vec() }); }
                    else if vals.len() == 1 {
                        match rng.below(5) {
                            0 => argv.push(format!("--main={}", vals[0]).into_bytes()),
                            1 => argv.push(format!("-m{}", vals[0]).into_bytes()),
                            2 => argv.push(format!("-m={}", vals[0]).into_bytes()),
                            3 => { argv.push(b"-m".to_vec()); argv.push(vals[0].clone().into_bytes()); }
                            _ => { argv.push(b"--main".to_vec()); argv.push(vals[0].clone().into_bytes()); }
                        }
                    } else { argv.push(b"--main".to_vec()); for v in vals { argv.push(v.clone().into_bytes()); } }
                }
                Occ::Other(vals) => { argv.push(b"--other".to_vec()); argv.push(vals[0].clone().into_bytes()); }
                Occ::Flag => argv.push(b"-f".to_vec()),
            }
            i += 1;
        }
        let (canon, mm, err) = real_parse(&cmd, &argv);
        let req = parse_request(&cmd, &argv);
        // ---- oracle: the action's specification
        let mains: Vec<&Vec<String>> = occs.iter().filter_map(|x| if let Occ::Main(v) = x { Some(v) } else { None }).collect();
        let others: Vec<usize> = occs.iter().enumerate().filter_map(|(k, x)| matches!(x, Occ::Other(_)).then_some(k)).collect();
        let main_pos: Vec<usize> = occs.iter().enumerate().filter_map(|(k, x)| matches!(x, Occ::Main(_)).then_some(k)).collect();
        // `overrides_with` is symmetric in effect: whichever of the two is given later removes the other
        let related = rel <= 2;
        let m_over_o = related; let o_over_m = related;
        let self_ov = self_override == 1 || self_override == 2;
        let simple = m.delim.is_none(); // with a delimiter the values are split; checked by C02
        // occurrences of main that survive overriding by `o` (an `o` occurrence removes every earlier main occurrence)
        let last_o = others.last().copied();
        let surviving: Vec<usize> = main_pos.iter().copied().filter(|&k| !(o_over_m && last_o.map(|l| l > k).unwrap_or(false))).collect();
        let other_is_set = other.action == Some("set");
        let other_repeat_conflict = other_is_set && others.len() > 1 && !cmd.settings.args_override_self
            && !(m_over_o && { // every earlier `o` removed by a main occurrence in between
                others.windows(2).all(|w| main_pos.iter().any(|&k| k > w[0] && k < w[1])) });
        match (&mm, &err) {
            (Some(mt), _) => {
                let fail = |rep: &mut Report, class: &str, d: String| rep.oracle_fail(class, &req, &d);
                match action {
                    "count" => {
                        let exp = surviving.len().min(255) as u8;
                        let got = mt.get_count("m");
                        if got != exp { fail(&mut rep, "count-not-saturating-number-of-occurrences", format!("get_count={got} expected={exp} ({} occurrences)", surviving.len())); }
                    }
                    "setTrue" | "setFalse" => {
                        let present = !surviving.is_empty();
                        let exp = if action == "setTrue" { present } else { !present };
                        if mt.get_flag("m") != exp { fail(&mut rep, "flag-truth-value", format!("get_flag={} expected={exp}", mt.get_flag("m"))); }
                    }
                    "append" if simple => {
                        let got: Vec<Vec<String>> = mt.get_occurrences::<String>("m").map(|o| o.map(|g| g.cloned().collect()).collect()).unwrap_or_default();
                        // `overrides_with(self)` makes every new occurrence remove the earlier ones (the override rule applied to itself)
                        let kept: Vec<usize> = if self_override == 2 { surviving.last().copied().into_iter().collect() } else { surviving.clone() };
                        let exp: Vec<Vec<String>> = kept.iter().map(|&k| if let Occ::Main(v) = &occs[k] { if v.is_empty() { vec!["miss".to_string()] } else { v.clone() } } else { vec![] }).collect();
                        if got != exp { fail(&mut rep, "append-order-or-boundaries", format!("got={got:?} expected={exp:?}")); }
                    }
                    "set" if simple => {
                        let got: Vec<String> = mt.get_many::<String>("m").map(|v| v.cloned().collect()).unwrap_or_default();
                        let exp: Vec<String> = surviving.last().map(|&k| if let Occ::Main(v) = &occs[k] { if v.is_empty() { vec!["miss".to_string()] } else { v.clone() } } else { vec![] }).unwrap_or_default();
                        if got != exp { fail(&mut rep, "set-last-occurrence-wins", format!("got={got:?} expected={exp:?}")); }
                        // a successful parse with a repeated Set needs self-override (or an override by `o` in between)
                        let repeat_unexcused = main_pos.windows(2).any(|w| !(o_over_m && others.iter().any(|&l| l > w[0] && l < w[1])));
                        if main_pos.len() > 1 && !self_ov && repeat_unexcused { fail(&mut rep, "set-repeat-accepted-without-self-override", format!("argv={:?}", argv.iter().map(|a| String::from_utf8_lossy(a).to_string()).collect::<Vec<_>>())); }
                    }
                    _ => {}
                }
                // override symmetry: if m overrides o, `o` occurrences before the last main occurrence are gone
                if m_over_o && !others.is_empty() && !main_pos.is_empty() {
                    let last_m = *main_pos.last().unwrap();
                    let exp_o: Vec<String> = others.iter().filter(|&&k| k > last_m).map(|&k| if let Occ::Other(v) = &occs[k] { v[0].clone() } else { String::new() }).collect();
                    let got_o: Vec<String> = mt.get_many::<String>("o").map(|v| v.cloned().collect()).unwrap_or_default();
                    let exp_o = if other_is_set { exp_o.last().cloned().into_iter().collect::<Vec<_>>() } else { exp_o };
                    if got_o != exp_o { fail(&mut rep, "override-does-not-remove-earlier-occurrences", format!("o: got={got_o:?} expected={exp_o:?}")); }
                }
            }
            (None, Some(e)) => {
                // the only legitimate rejections here: a repeated Set without self-override -> ArgumentConflict
                let main_repeat_conflict = matches!(action, "set" | "setTrue" | "setFalse") && !self_ov
                    && main_pos.windows(2).any(|w| !(o_over_m && false) && !(o_over_m_removed(o_over_m, &others, w)));
                if e.kind() == ErrorKind::ArgumentConflict && !(main_repeat_conflict || other_repeat_conflict) {
                    rep.oracle_fail("conflict-reported-without-a-repeated-set", &req, &format!("argv={:?}", argv.iter().map(|a| String::from_utf8_lossy(a).to_string()).collect::<Vec<_>>()));
                } else if e.kind() != ErrorKind::ArgumentConflict {
                    rep.oracle_fail("unexpected-rejection", &req, &format!("{:?}", e.kind()));
                }
            }
            _ => rep.oracle_fail("panic", &req, &canon),
        }
        rep.case(&req, mains.len() >= 2);
        rep.count(&format!("action:{action}"));
        if n_main >= 254 { rep.count("repeats>=254"); }
        let _ = case_i;
        reqs.push(req); impls.push(canon);
    }
    if o.driver != "none" {
        let model = driver_batch(&o.driver, &reqs, o.par);
        for ((req, m), i) in reqs.iter().zip(model.iter()).zip(impls.iter()) { if m != i { rep.disagree("parse", req, m, i); } }
    }
    rep
}

/// between two consecutive main occurrences, did an `o` that overrides `m` remove the earlier one?
fn o_over_m_removed(o_over_m: bool, others: &[usize], w: &[usize]) -> bool {
    o_over_m && others.iter().any(|&l| l > w[0] && l < w[1])
}
