//! C13 — lexing any OS string is a lossless, consistent decomposition.
use crate::util::*;
use clap_lex::RawArgs;
use std::ffi::OsStr;
use std::os::unix::ffi::OsStrExt as _;
use std::panic::catch_unwind;

pub const ALPHABET: &[u8] = &[
    b'-', b'=', b'.', b'e', b'E', b'1', b'a', 0x00, 0x80, 0xC3, 0xA9, 0xE2, 0x82, 0xAC, 0xF0, 0x9F, 0xFF,
];

fn cp_list(s: &clap_lex::ShortFlags<'_>) -> (String, Vec<u8>) {
    // walk a clone with next_flag until None; also return the concatenated bytes
    let mut it = s.clone();
    let mut parts = vec![];
    let mut bytes = vec![];
    let mut guard = 0;
    while let Some(f) = it.next_flag() {
        match f {
            Ok(c) => {
                parts.push(format!("c{}", c as u32));
                let mut buf = [0u8; 4];
                bytes.extend_from_slice(c.encode_utf8(&mut buf).as_bytes());
            }
            Err(suf) => {
                parts.push(format!("b{}", hex(suf.as_bytes())));
                bytes.extend_from_slice(suf.as_bytes());
            }
        }
        guard += 1;
        if guard > 100000 {
            parts.push("LOOP".into());
            break;
        }
    }
    (parts.join(","), bytes)
}

/// the real lexer's answer in the driver's canonical form, plus oracle verdicts
pub fn real_lex(bytes: &[u8], rep: Option<&mut Vec<(String, String)>>) -> String {
    let os = OsStr::from_bytes(bytes);
    let raw = RawArgs::new([os]);
    let mut cur = raw.cursor();
    let arg = raw.next(&mut cur).unwrap();
    let long = match arg.to_long() {
        None => "~".to_string(),
        Some((name, val)) => {
            let (nb, u) = match name {
                Ok(s) => (s.as_bytes(), true),
                Err(o) => (o.as_bytes(), false),
            };
            format!("{}:{}:{}", hex(nb), b01(u), opt_hex(val.map(|v| v.as_bytes())))
        }
    };
    let short = match arg.to_short() {
        None => "~".to_string(),
        Some(s) => {
            let (w, _) = cp_list(&s);
            let mut c = s.clone();
            let v = c.next_value_os().map(|v| v.as_bytes().to_vec());
            format!("{}/{}/{}{}", w, opt_hex(v.as_deref()), b01(s.is_negative_number()), b01(s.is_empty()))
        }
    };
    let line = format!(
        "E{} S{} X{} N{} L{} H{} long={} short={}",
        b01(arg.is_empty()), b01(arg.is_stdio()), b01(arg.is_escape()), b01(arg.is_negative_number()),
        b01(arg.is_long()), b01(arg.is_short()), long, short
    );
    if let Some(fails) = rep {
        oracle(bytes, &arg, fails);
    }
    line
}

/// The property's statement evaluated on the real return values.
fn oracle(bytes: &[u8], arg: &clap_lex::ParsedArg<'_>, fails: &mut Vec<(String, String)>) {
    let esc = arg.is_escape();
    let stdio = arg.is_stdio();
    let long = arg.is_long();
    let short = arg.is_short();
    let neg = arg.is_negative_number();
    let mut fail = |class: &str, d: String| fails.push((class.to_string(), d));
    if esc != (bytes == b"--") { fail("escape-iff-dashdash", format!("is_escape={esc}")); }
    if stdio != (bytes == b"-") { fail("stdio-iff-dash", format!("is_stdio={stdio}")); }
    if (esc as u8 + stdio as u8 + long as u8 + short as u8) > 1 {
        fail("classes-exclusive", format!("esc={esc} stdio={stdio} long={long} short={short}"));
    }
    if long != arg.to_long().is_some() { fail("is_long-iff-to_long", String::new()); }
    if short != arg.to_short().is_some() { fail("is_short-iff-to_short", String::new()); }
    // plain value = starts with no dash (or is empty)
    let plain = !(esc || stdio || long || short);
    if plain != !bytes.starts_with(b"-") { fail("plain-iff-no-dash", String::new()); }
    if neg && !short {
        let class = if bytes == b"-" { "negnum-not-short:stdio" } else { "negnum-not-short" };
        fail(class, "is_negative_number() holds but is_short() does not".into());
    }
    if neg && std::str::from_utf8(bytes).is_err() { fail("negnum-nonutf8", String::new()); }
    // long reassembly
    if let Some((name, val)) = arg.to_long() {
        let nb = match name { Ok(s) => s.as_bytes(), Err(o) => o.as_bytes() };
        let mut re = b"--".to_vec();
        re.extend_from_slice(nb);
        if let Some(v) = val { re.push(b'='); re.extend_from_slice(v.as_bytes()); }
        if re != bytes { fail("long-reassembly", format!("got {}", hex(&re))); }
        if nb.contains(&b'=') { fail("long-name-has-eq", String::new()); }
        if name.is_ok() != std::str::from_utf8(nb).is_ok() { fail("long-name-utf8-flag", String::new()); }
        if nb.is_empty() && val.is_none() { fail("long-empty", String::new()); }
    }
    // short walk lossless
    if let Some(s) = arg.to_short() {
        let (_, walked) = cp_list(&s);
        if walked != bytes[1..] { fail("short-walk-lossless", format!("walked {}", hex(&walked))); }
        // after k next_flag calls, next_value_os returns exactly the unread bytes
        let mut it = s.clone();
        let mut consumed = 0usize;
        loop {
            let mut probe = it.clone();
            let rest = probe.next_value_os().map(|v| v.as_bytes().to_vec()).unwrap_or_default();
            if rest != bytes[1 + consumed..] {
                fail("next_value_os-unread", format!("after {} bytes got {}", consumed, hex(&rest)));
                break;
            }
            // never inside a UTF-8 sequence: the consumed prefix must be valid UTF-8 while chars are produced
            match it.next_flag() {
                Some(Ok(c)) => {
                    consumed += c.len_utf8();
                    if std::str::from_utf8(&bytes[1..1 + consumed]).is_err() {
                        fail("split-inside-utf8", format!("at {}", consumed));
                        break;
                    }
                }
                Some(Err(suf)) => {
                    // "its characters in order FOLLOWED BY any non-UTF-8 tail": the tail starts where the valid prefix ends,
                    // i.e. it does not begin with a complete, valid UTF-8 character
                    let t = suf.as_bytes();
                    let starts_valid = (1..=t.len().min(4)).any(|k| std::str::from_utf8(&t[..k]).map(|x| x.chars().count() == 1).unwrap_or(false));
                    if starts_valid { fail("tail-swallows-valid-char", format!("tail {} begins with a valid character", hex(t))); }
                    consumed += t.len();
                }
                None => break,
            }
        }
        if s.is_negative_number() != neg && std::str::from_utf8(bytes).is_ok() {
            fail("shortflags-negnum-agrees", String::new());
        }
    }
}

const OPS: &[&str] = &["f", "v", "e", "n", "a0", "a1", "a2", "a5"];

pub fn real_short(bytes: &[u8], ops: &[&str]) -> String {
    let os = OsStr::from_bytes(bytes);
    let raw = RawArgs::new([os]);
    let mut cur = raw.cursor();
    let arg = raw.next(&mut cur).unwrap();
    let Some(mut s) = arg.to_short() else { return "~".into() };
    let mut out = vec![];
    for op in ops {
        match *op {
            "f" => out.push(match s.next_flag() {
                None => "~".to_string(),
                Some(Ok(c)) => format!("c{}", c as u32),
                Some(Err(o)) => format!("b{}", hex(o.as_bytes())),
            }),
            "v" => out.push(opt_hex(s.next_value_os().map(|v| v.as_bytes()))),
            "e" => out.push(b01(s.is_empty()).to_string()),
            "n" => out.push(b01(s.is_negative_number()).to_string()),
            a => {
                let n: usize = a[1..].parse().unwrap();
                out.push(match s.advance_by(n) { Ok(()) => "ok".to_string(), Err(i) => format!("err{i}") });
            }
        }
    }
    out.join(" ")
}

fn gen_exhaustive(len: usize, out: &mut Vec<Vec<u8>>) {
    let k = ALPHABET.len();
    let total = k.pow(len as u32);
    for mut n in 0..total {
        let mut v = Vec::with_capacity(len);
        for _ in 0..len { v.push(ALPHABET[n % k]); n /= k; }
        out.push(v);
    }
}

fn random_bytes(rng: &mut Rng) -> Vec<u8> {
    let len = rng.below(40);
    let mut v = vec![];
    // structured prefix
    match rng.below(6) { 0 => v.extend_from_slice(b"--"), 1 | 2 => v.push(b'-'), _ => {} }
    while v.len() < len {
        match rng.below(10) {
            0 => v.push(rng.below(256) as u8),
            1 => v.extend_from_slice("é".as_bytes()),
            2 => v.extend_from_slice("€".as_bytes()),
            3 => v.extend_from_slice("🦀".as_bytes()),
            4 => v.push(b'='),
            5 => v.extend_from_slice(&"🦀".as_bytes()[..rng.below(4)]),
            _ => v.push(*rng.pick(ALPHABET)),
        }
    }
    v
}

pub fn run(o: &Opts) -> Report {
    let mut rep = Report::new("C13", "byte strings: exhaustive over a 17-symbol boundary alphabet up to a length bound, then random (<=40 bytes) from VERIF_SEED; short-flag op sequences over {next_flag,next_value_os,is_empty,is_negative_number,advance_by}; non-trivial = starts with '-' and has length >= 2; distinct by canonical request");
    let mut cases: Vec<Vec<u8>> = vec![];
    if let Some(r) = &o.replay {
        let v: serde_json::Value = serde_json::from_str(&std::fs::read_to_string(r).unwrap()).unwrap();
        cases.push(unhex(v["case"].as_str().unwrap_or("-")));
    } else {
        let maxlen = if o.thorough() { 5 } else { 4 };
        for l in 0..=maxlen { gen_exhaustive(l, &mut cases); }
        rep.exhaustive = true;
        rep.count_n("exhaustive_strings", cases.len() as u64);
        let mut rng = Rng::new(o.seed);
        let nrand = if o.thorough() { 400_000 } else { 60_000 };
        for _ in 0..nrand { cases.push(random_bytes(&mut rng)); }
    }
    // --- lex requests
    let mut reqs = Vec::with_capacity(cases.len());
    let mut impls = Vec::with_capacity(cases.len());
    for b in &cases {
        let req = format!("lex {}", hex(b));
        let mut fails = vec![];
        let b2 = b.clone();
        let r = catch_unwind(move || { let mut f = vec![]; let l = real_lex(&b2, Some(&mut f)); (l, f) });
        let line = match r { Ok((l, f)) => { fails = f; l } Err(_) => "PANIC".to_string() };
        if line == "PANIC" { rep.oracle_fail("panic", &hex(b), "the real lexer panicked"); }
        for (class, d) in fails { rep.oracle_fail(&class, &hex(b), &d); }
        let nontrivial = b.len() >= 2 && b[0] == b'-';
        rep.case(&req, nontrivial);
        if line.contains("long=~") { rep.count("not_long"); } else { rep.count("long"); }
        if line.ends_with("short=~") { rep.count("not_short"); } else { rep.count("short"); }
        if std::str::from_utf8(b).is_err() { rep.count("invalid_utf8"); }
        reqs.push(req);
        impls.push(line);
    }
    // --- short op sequences on the short-looking strings
    let mut rng = Rng::new(o.seed ^ 0x5151);
    let stride = if o.thorough() { 1 } else { 3 };
    for (i, b) in cases.iter().enumerate() {
        if !(b.len() >= 2 && b[0] == b'-' && b[1] != b'-') || i % stride != 0 { continue; }
        let n = 1 + rng.below(if o.thorough() { 12 } else { 6 });
        let ops: Vec<&str> = (0..n).map(|_| *rng.pick(OPS)).collect();
        let req = format!("short {} {}", hex(b), ops.join(" "));
        let b2 = b.clone();
        let ops2 = ops.clone();
        let line = catch_unwind(move || real_short(&b2, &ops2)).unwrap_or_else(|_| "PANIC".into());
        if line == "PANIC" { rep.oracle_fail("panic", &req, "short-flag iterator panicked"); }
        rep.case(&req, true);
        rep.count("short_op_sequences");
        reqs.push(req);
        impls.push(line);
    }
    let model = driver_batch(&o.driver, &reqs, o.par);
    for ((req, m), i) in reqs.iter().zip(model.iter()).zip(impls.iter()) {
        if m != i { rep.disagree("lex", req, m, i); }
    }
    rep
}
