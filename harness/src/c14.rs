//! C14 — OS-string helpers and the argument cursor behave like their simple models.
use crate::util::*;
use clap_lex::{OsStrExt as _, RawArgs, SeekFrom};
use std::ffi::{OsStr, OsString};
use std::os::unix::ffi::{OsStrExt as _, OsStringExt as _};
use std::panic::{catch_unwind, AssertUnwindSafe};

const NEEDLES: &[&str] = &["-", "--", "=", "é", "=é", ",", "a", "aa", "1e", "aab", "--=", "-=-", "abab", "aba", "é=é", "a1a",
    // U+FFFD is what a lossy conversion puts in place of invalid bytes: a needle made of it must only match itself
    "\u{FFFD}", "a\u{FFFD}"];
const OSOPS: &[&str] = &["find", "contains", "starts", "strip", "splitonce", "split"];

fn naive_find(h: &[u8], n: &[u8]) -> Option<usize> {
    if n.len() > h.len() { return None; }
    (0..=h.len() - n.len()).find(|&i| &h[i..i + n.len()] == n)
}

/// real helper result in the driver's format + the byte-level oracle's expectation
fn real_osstr(op: &str, h: &[u8], n: &str) -> (String, String) {
    let os = OsStr::from_bytes(h);
    let nb = n.as_bytes();
    match op {
        "find" => {
            let f = |r: Option<usize>| r.map(|i| i.to_string()).unwrap_or("~".into());
            (f(os.find(n)), f(naive_find(h, nb)))
        }
        "contains" => (b01(os.contains(n)).into(), b01(naive_find(h, nb).is_some()).into()),
        "starts" => (b01(os.starts_with(n)).into(), b01(h.len() >= nb.len() && &h[..nb.len()] == nb).into()),
        "strip" => (
            opt_hex(os.strip_prefix(n).map(|s| s.as_bytes())),
            opt_hex(if h.len() >= nb.len() && &h[..nb.len()] == nb { Some(&h[nb.len()..]) } else { None }),
        ),
        "splitonce" => (
            match os.split_once(n) { None => "~".into(), Some((a, b)) => format!("{} {}", hex(a.as_bytes()), hex(b.as_bytes())) },
            match naive_find(h, nb) { None => "~".into(), Some(i) => format!("{} {}", hex(&h[..i]), hex(&h[i + nb.len()..])) },
        ),
        "split" => {
            let got: Vec<String> = os.split(n).take(10_000).map(|p| hex(p.as_bytes())).collect();
            let mut exp = vec![];
            let mut rest = h;
            loop {
                match naive_find(rest, nb) {
                    Some(i) => { exp.push(hex(&rest[..i])); rest = &rest[i + nb.len()..]; }
                    None => { exp.push(hex(rest)); break; }
                }
            }
            (got.join(" "), exp.join(" "))
        }
        _ => unreachable!(),
    }
}

#[derive(Clone, Debug)]
enum COp { Next, Peek, Remaining, IsEnd, SeekStart(u64), SeekEnd(i64), SeekCur(i64), Insert(Vec<Vec<u8>>) }

fn fmt_op(o: &COp) -> String {
    match o {
        COp::Next => "n".into(), COp::Peek => "p".into(), COp::Remaining => "r".into(), COp::IsEnd => "e".into(),
        COp::SeekStart(u) => format!("ss{u}"), COp::SeekEnd(i) => format!("se{i}"), COp::SeekCur(i) => format!("sc{i}"),
        COp::Insert(v) => format!("i{}", v.iter().map(|b| hex(b)).collect::<Vec<_>>().join(",")),
    }
}

/// run on the real RawArgs; returns per-op results (driver format), stops at the first panic
fn real_cursor(items: &[Vec<u8>], ops: &[COp]) -> Vec<String> {
    let mut raw = RawArgs::new(items.iter().map(|b| OsString::from_vec(b.clone())));
    let mut cur = raw.cursor();
    let mut out = vec![];
    for op in ops {
        let r = catch_unwind(AssertUnwindSafe(|| match op {
            COp::Next => opt_hex(raw.next_os(&mut cur).map(|s| s.as_bytes())),
            COp::Peek => opt_hex(raw.peek_os(&cur).map(|s| s.as_bytes())),
            COp::IsEnd => b01(raw.is_end(&cur)).to_string(),
            COp::Remaining => format!("[{}]", raw.remaining(&mut cur).map(|s| hex(s.as_bytes())).collect::<Vec<_>>().join(",")),
            COp::SeekStart(u) => { raw.seek(&mut cur, SeekFrom::Start(*u)); "ok".into() }
            COp::SeekEnd(i) => { raw.seek(&mut cur, SeekFrom::End(*i)); "ok".into() }
            COp::SeekCur(i) => { raw.seek(&mut cur, SeekFrom::Current(*i)); "ok".into() }
            COp::Insert(v) => { raw.insert(&cur, v.iter().map(|b| OsString::from_vec(b.clone()))); "ok".into() }
        }));
        match r { Ok(s) => out.push(s), Err(_) => { out.push("PANIC".into()); break; } }
    }
    out
}

/// the abstract spec: an index `k` into a growable list; reads at k >= len see nothing
fn spec_cursor(items: &[Vec<u8>], ops: &[COp]) -> Vec<String> {
    let mut v: Vec<Vec<u8>> = items.to_vec();
    let mut k: i128 = 0;
    let mut out = vec![];
    let clamp = |x: i128, len: usize| -> i128 { x.max(0).min(len as i128) };
    for op in ops {
        let len = v.len();
        let at = |k: i128| -> Option<&Vec<u8>> { if k >= 0 && (k as usize) < len { Some(&v[k as usize]) } else { None } };
        match op {
            COp::Next => { out.push(opt_hex(at(k).map(|b| &b[..]))); k += 1; }
            COp::Peek => out.push(opt_hex(at(k).map(|b| &b[..]))),
            COp::IsEnd => out.push(b01(at(k).is_none()).into()),
            COp::Remaining => {
                let s = (k.min(len as i128)) as usize;
                out.push(format!("[{}]", v[s..].iter().map(|b| hex(b)).collect::<Vec<_>>().join(",")));
                k = len as i128;
            }
            COp::SeekStart(u) => { k = clamp(*u as i128, len); out.push("ok".into()); }
            COp::SeekEnd(i) => { k = clamp(len as i128 + *i as i128, len); out.push("ok".into()); }
            COp::SeekCur(i) => { k = clamp(k + *i as i128, len); out.push("ok".into()); }
            COp::Insert(ins) => {
                let s = (k.min(len as i128)) as usize;
                let tail = v.split_off(s);
                v.extend(ins.iter().cloned());
                v.extend(tail);
                out.push("ok".into());
            }
        }
    }
    out
}

fn op_pool(len: usize) -> Vec<COp> {
    let mut v = vec![COp::Next, COp::Peek, COp::Remaining, COp::IsEnd, COp::Insert(vec![]), COp::Insert(vec![b"x".to_vec()]),
        COp::Insert(vec![b"y".to_vec(), b"--z".to_vec()])];
    for u in [0u64, 1, 2, len as u64, len as u64 + 1, u64::MAX, 1 << 63, (1u64 << 63) - 1] { v.push(COp::SeekStart(u)); }
    for i in [0i64, 1, -1, 2, -2, i64::MIN, i64::MAX, len as i64, -(len as i64) - 1] { v.push(COp::SeekEnd(i)); v.push(COp::SeekCur(i)); }
    v
}

pub fn run(o: &Opts) -> Report {
    let mut rep = Report::new("C14", "OsStrExt: haystacks exhaustive over a boundary alphabet up to a length bound (then random <=48 bytes) x 18 UTF-8 needles (incl. U+FFFD) x {find,contains,starts_with,strip_prefix,split_once,split}; RawArgs cursor: all op sequences up to a length bound over 0..3 items and an offset pool incl. i64/u64 extremes, then random sequences up to length 40; non-trivial = needle occurs in haystack / sequence contains a seek or insert; distinct by canonical request");
    let mut reqs: Vec<String> = vec![];
    let mut impls: Vec<String> = vec![];
    let mut rng = Rng::new(o.seed);
    if let Some(r) = &o.replay {
        let v: serde_json::Value = serde_json::from_str(&std::fs::read_to_string(r).unwrap()).unwrap();
        let case = v["case"].as_str().unwrap_or("").to_string();
        rep.notes.push(format!("replay of: {case}"));
        let toks: Vec<&str> = case.split(' ').collect();
        if toks[0] == "osstr" {
            let (got, exp) = real_osstr(toks[1], &unhex(toks[2]), std::str::from_utf8(&unhex(toks[3])).unwrap());
            rep.notes.push(format!("impl={got} byte-level={exp}"));
            reqs.push(case.clone()); impls.push(got);
        }
        // cursor replays are re-generated below from the same text by the driver only
        let model = driver_batch(&o.driver, &reqs, 1);
        rep.notes.push(format!("model={:?}", model));
        return rep;
    }
    // ---------- OsStrExt
    let alphabet = crate::c13::ALPHABET;
    let mut hays: Vec<Vec<u8>> = vec![];
    let maxlen = if o.thorough() { 4 } else { 3 };
    for l in 0..=maxlen {
        let k = alphabet.len();
        for mut n in 0..k.pow(l as u32) {
            let mut v = Vec::with_capacity(l);
            for _ in 0..l { v.push(alphabet[n % k]); n /= k; }
            hays.push(v);
        }
    }
    // long haystacks over tiny alphabets: self-overlapping needles, partial matches
    for alpha in [&b"ab"[..], &b"-="[..], &b"a1"[..]] {
        let l = if o.thorough() { 10 } else { 8 };
        for len in 5..=l {
            for mut n in 0..(alpha.len() as u64).pow(len as u32) {
                let mut v = Vec::with_capacity(len);
                for _ in 0..len { v.push(alpha[(n % alpha.len() as u64) as usize]); n /= alpha.len() as u64; }
                hays.push(v);
            }
        }
    }
    for h in [&[0xFFu8][..], &[b'a', 0xFF], &[0xEF, 0xBF, 0xBD], &[0xFF, 0xEF, 0xBF, 0xBD], &[b'a', 0xEF, 0xBF, 0xBD, 0xFF], &[0xC3], &[b'a', 0xC3, b'='], &[0xEF, 0xBF], &[0xF0, 0x9F, 0x98]] { hays.push(h.to_vec()); }
    rep.exhaustive = true;
    rep.count_n("haystacks_exhaustive", hays.len() as u64);
    for _ in 0..(if o.thorough() { 60_000 } else { 8_000 }) {
        let len = rng.below(48);
        let mut v = vec![];
        while v.len() < len {
            match rng.below(8) {
                0 => v.push(rng.below(256) as u8),
                1 => v.extend_from_slice(rng.pick(NEEDLES).as_bytes()),
                2 => v.extend_from_slice(&"é".as_bytes()[..1 + rng.below(2)]),
                _ => v.push(*rng.pick(alphabet)),
            }
        }
        hays.push(v);
    }
    for h in &hays {
        for n in NEEDLES {
            for op in OSOPS {
                let req = format!("osstr {} {} {}", op, hex(h), hex(n.as_bytes()));
                let r = catch_unwind(|| real_osstr(op, h, n));
                let (got, exp) = match r { Ok(x) => x, Err(_) => ("PANIC".to_string(), "no-panic".to_string()) };
                if got != exp {
                    let class = if got == "PANIC" { "osstr-panic".to_string() } else { format!("osstr-{op}-differs-from-bytes") };
                    rep.oracle_fail(&class, &req, &format!("impl={got} byte-level={exp}"));
                }
                let nontrivial = naive_find(h, n.as_bytes()).is_some();
                rep.case(&req, nontrivial);
                if nontrivial { rep.count("needle_present"); } else { rep.count("needle_absent"); }
                reqs.push(req);
                impls.push(got);
            }
        }
    }
    // ---------- cursor
    let item_sets: Vec<Vec<Vec<u8>>> = vec![vec![], vec![b"a".to_vec()], vec![b"a".to_vec(), b"-b".to_vec()], vec![b"a".to_vec(), b"--".to_vec(), vec![0xff]]];
    let mut seqs: Vec<(Vec<Vec<u8>>, Vec<COp>)> = vec![];
    let exh_len = if o.thorough() { 4 } else { 3 };
    for items in &item_sets {
        let pool = op_pool(items.len());
        // all sequences up to exh_len over the pool
        let k = pool.len();
        for l in 1..=exh_len {
            for mut n in 0..k.pow(l as u32) {
                let mut s = Vec::with_capacity(l);
                for _ in 0..l { s.push(pool[n % k].clone()); n /= k; }
                seqs.push((items.clone(), s));
            }
        }
    }
    rep.count_n("cursor_sequences_exhaustive", seqs.len() as u64);
    for _ in 0..(if o.thorough() { 200_000 } else { 30_000 }) {
        let items = rng.pick(&item_sets).clone();
        let pool = op_pool(items.len());
        let l = 1 + rng.below(40);
        let mut s = vec![];
        for _ in 0..l {
            s.push(match rng.below(12) {
                0 => COp::SeekCur(rng.next() as i64),
                1 => COp::SeekEnd(-(rng.below(5) as i64)),
                2 => COp::SeekStart(rng.below(6) as u64),
                _ => rng.pick(&pool).clone(),
            });
        }
        seqs.push((items, s));
    }
    for (items, ops) in &seqs {
        let req = format!("cursor {} {} {}", items.len(), items.iter().map(|b| hex(b)).collect::<Vec<_>>().join(" "),
            ops.iter().map(fmt_op).collect::<Vec<_>>().join(" ")).replace("  ", " ");
        let got = real_cursor(items, ops);
        let exp = spec_cursor(items, ops);
        if got != exp {
            let class = if got.last().map(|s| s == "PANIC").unwrap_or(false) {
                // which op panicked, and was the cursor one past the end because next() returned None?
                let idx = got.len() - 1;
                let past_end = matches!(ops[idx], COp::Remaining | COp::Insert(_));
                if past_end { "cursor-panic:remaining-or-insert-after-next-past-end".to_string() } else { "cursor-panic".to_string() }
            } else { "cursor-differs-from-list-index".to_string() };
            rep.oracle_fail(&class, &req, &format!("impl={} spec={}", got.join(" "), exp.join(" ")));
        }
        let nontrivial = ops.iter().any(|o| matches!(o, COp::SeekStart(_) | COp::SeekEnd(_) | COp::SeekCur(_) | COp::Insert(_)));
        rep.case(&req, nontrivial);
        rep.count("cursor_sequences");
        reqs.push(req);
        impls.push(got.join(" "));
    }
    if o.driver != "none" {
        let model = driver_batch(&o.driver, &reqs, o.par);
        for ((req, m), i) in reqs.iter().zip(model.iter()).zip(impls.iter()) {
            if m != i { rep.disagree("c14", req, m, i); }
        }
    } else { rep.notes.push("driver unavailable: model comparison skipped".into()); }
    rep
}
