use crate::util::*;
pub fn run(_o: &Opts) -> Report { Report::new("C14", "todo") }
