//! C01 — parsing is total.
use crate::pcorr;
use crate::pcorr::bv;
use crate::spec::*;
use crate::util::*;

pub fn run(o: &Opts) -> Report {
    let mut rep = Report::new("C01", "random valid command trees (all modelled settings: relations, groups, defaults/env, hyphen values, terminators, last, trailing_var_arg, require_equals, flag subcommands, inference, external subcommands, ignore_errors) x argv from a token grammar (flags, clusters, =-forms, --, -, numbers, subcommand names, unknown flags, non-UTF-8); real parse under catch_unwind, every error rendered; non-trivial = successful parse of >= 2 tokens; distinct by canonical request");
    rep.check_wf = true;
    let cfg = GenCfg { relations: true, defaults: true, subs: true, exotic: true, groups: true, flagsubs: true, settings: true, globals: true };
    let (n_cmds, n_argv) = if o.thorough() { (15000, 30) } else { (2500, 20) };
    pcorr::run(&mut rep, o, cfg, n_cmds, n_argv, 7, 0xC01, |_, _| vec![], |case, rep| {
        if case.canon.starts_with("PANIC") {
            let site = case.canon.to_string();
            let class = if site.contains("called_`Option::unwrap()`") { "panic:parser-unwrap".to_string() } else { format!("panic:{}", site.chars().skip(6).take(60).collect::<String>()) };
            rep.oracle_fail(&class, case.req, case.canon);
        }
        if let Some(e) = case.err {
            let r = std::panic::catch_unwind(std::panic::AssertUnwindSafe(|| e.render().to_string()));
            if r.is_err() { rep.oracle_fail("error-render-panics", case.req, case.canon); }
            if case.cmd.settings.ignore_errors && e.use_stderr() { rep.oracle_fail("ignore_errors-returned-an-error", case.req, case.canon); }
        }
    });
    {
        use crate::pcorr::*;
        // requires-cycles are valid definitions ("both or neither"); the transitive walk must terminate from everywhere
        let mk = |outside: bool| { let mut c = CmdS { name: "prog".into(), ..Default::default() };
            let flag = |id: &str, req: &[&str]| ArgS { id: id.into(), long: Some(id.into()), action: Some("setTrue"), requires: req.iter().map(|r| (PredS::Present, r.to_string())).collect(), ..Default::default() };
            if outside { c.args.push(flag("xx", &["aa"])); }
            c.args.push(flag("aa", &["bb"])); c.args.push(flag("bb", &["cc"])); c.args.push(flag("cc", &["aa"])); c };
        let cases: Vec<(CmdS, Vec<Vec<u8>>, Expect)> = vec![
            (mk(true), bv(&["prog", "--xx", "--aa", "--bb", "--cc"]), Box::new(|_| Ok(()))),
            (mk(false), bv(&["prog", "--aa", "--bb", "--cc"]), Box::new(|_| Ok(()))),
            (mk(true), bv(&["prog", "--bb", "--cc", "--aa"]), Box::new(|_| Ok(()))),
        ];
        run_expect(&mut rep, o, "requires-cycle", cases);
        // two levels of short flag subcommands, each dispatched from the MIDDLE of a flag group, the second from a later group
        let mkf = || { let mut c = CmdS { name: "prog".into(), ..Default::default() };
            c.args.push(ArgS { id: "x".into(), short: Some('x'), action: Some("count"), ..Default::default() });
            let mut s1 = CmdS { name: "sync".into(), short_flag: Some('S'), ..Default::default() };
            s1.args.push(ArgS { id: "a".into(), short: Some('a'), action: Some("setTrue"), ..Default::default() });
            s1.args.push(ArgS { id: "z".into(), short: Some('z'), action: Some("count"), ..Default::default() });
            let mut s2 = CmdS { name: "trim".into(), short_flag: Some('T'), ..Default::default() };
            s2.args.push(ArgS { id: "b".into(), short: Some('b'), action: Some("setTrue"), ..Default::default() });
            s1.subs.push(s2); c.subs.push(s1); c };
        let fcases: Vec<(CmdS, Vec<Vec<u8>>, Expect)> = vec![
            (mkf(), bv(&["prog", "-xxSa", "-Tb"]), Box::new(|m| { want_occs(m, &[], "x", &[&["2"]])?; want_occs(m, &["sync"], "a", &[&["true"]])?; want_occs(m, &["sync", "trim"], "b", &[&["true"]]) })),
            (mkf(), bv(&["prog", "-xSa", "-zzTb"]), Box::new(|m| { want_occs(m, &["sync"], "z", &[&["2"]])?; want_occs(m, &["sync", "trim"], "b", &[&["true"]]) })),
            (mkf(), bv(&["prog", "-xxxSzaTb"]), Box::new(|m| { want_occs(m, &[], "x", &[&["3"]])?; want_occs(m, &["sync", "trim"], "b", &[&["true"]]) })),
            (mkf(), bv(&["prog", "-S", "-a", "-zTb"]), Box::new(|m| { want_occs(m, &["sync"], "z", &[&["1"]])?; want_occs(m, &["sync", "trim"], "b", &[&["true"]]) })),
        ];
        run_expect(&mut rep, o, "nested-flag-subcommands-from-separate-groups", fcases);
        // real crate only: an explicit help request is a structured error whatever the possible values look like (all
        // hidden, with help texts; none; mixed)
        {
            use clap::builder::PossibleValue;
            use clap::{Arg, ArgAction, Command};
            for shape in 0..4 {
                let mk = move || { let pvs: Vec<PossibleValue> = match shape {
                        0 => vec![PossibleValue::new("old").hide(true).help("deprecated"), PossibleValue::new("older").hide(true).help("deprecated too")],
                        1 => vec![PossibleValue::new("old").hide(true).help("deprecated"), PossibleValue::new("new").help("current")],
                        2 => vec![PossibleValue::new("old").hide(true), PossibleValue::new("older").hide(true)],
                        _ => vec![PossibleValue::new("plain")] };
                    Command::new("prog").arg(Arg::new("mode").long("mode").action(ArgAction::Set).value_parser(pvs.clone()).help("the mode"))
                        .subcommand(Command::new("sub").arg(Arg::new("pm").action(ArgAction::Set).value_parser(pvs))) };
                for argv in [vec!["prog", "--help"], vec!["prog", "-h"], vec!["prog", "help"], vec!["prog", "help", "sub"], vec!["prog", "sub", "--help"], vec!["prog", "sub", "-h"], vec!["prog", "--mode", "nope"], vec!["prog", "--mode", "old"]] {
                    let key = format!("possible-values-shape#{shape} argv={argv:?}");
                    rep.case(&key, true); rep.count("shape:help-with-hidden-possible-values");
                    let av: Vec<String> = argv.iter().map(|x| x.to_string()).collect();
                    let wants_help = argv.iter().any(|w| *w == "--help" || *w == "-h" || *w == "help");
                    match std::panic::catch_unwind(move || mk().try_get_matches_from(av).map(|_| ()).map_err(|e| { let _ = e.render().to_string(); e.kind() })) {
                        Err(_) => rep.oracle_fail("panic", &key, "parsing or rendering panicked"),
                        Ok(r) => { if wants_help && r != Err(clap::error::ErrorKind::DisplayHelp) { rep.oracle_fail("help-request-not-a-help-error", &key, &format!("{r:?}")); } }
                    }
                }
            }
        }
        // whatever the configuration checks accept must parse to a result: groups nested in themselves are rejected by
        // the unchanged checks (then these shapes are skipped); if they are ever accepted, parsing still has to return
        for k in 0..3 {
            let mut c = CmdS { name: "prog".into(), ..Default::default() };
            let flag = |id: &str| ArgS { id: id.into(), long: Some(id.into()), action: Some("setTrue"), ..Default::default() };
            c.args.push(flag("aa")); c.args.push(flag("bb"));
            let mut x = flag("xx"); x.blacklist = vec!["g1".into()]; c.args.push(x);
            match k {
                0 => c.groups.push(GroupS { id: "g1".into(), args: vec!["aa".into(), "g1".into()], ..Default::default() }),
                1 => { c.groups.push(GroupS { id: "g1".into(), args: vec!["aa".into(), "g2".into()], ..Default::default() }); c.groups.push(GroupS { id: "g2".into(), args: vec!["bb".into(), "g1".into()], ..Default::default() }); }
                _ => c.groups.push(GroupS { id: "g1".into(), args: vec!["aa".into(), "g1".into()], required: true, ..Default::default() }),
            }
            if !real_valid(&c) { rep.count("self-nested-group-rejected-by-the-configuration-checks"); continue; }
            for argv in [bv(&["prog", "--xx", "--aa"]), bv(&["prog", "--bb"]), bv(&["prog"])] {
                let (canon, _, _) = real_parse(&c, &argv);
                if canon.starts_with("PANIC") { rep.oracle_fail("panic:accepted-self-nested-group", &parse_request(&c, &argv), &canon); }
                rep.count("self-nested-group-accepted-and-parsed");
            }
        }
    }
    {
        // the configuration gate. The property quantifies over the definitions the configuration checks ACCEPT, so a
        // weakened check shows up as an accepted definition that then panics. One dangling reference (an id that names
        // no arg and no group) is planted at a random site of a valid definition; the unchanged checks reject most sites
        // (counted); whatever they accept must still parse to a result for every argv, and its errors must render.
        let mut rng = Rng::new(o.seed ^ 0xDA61);
        let cfg = GenCfg { relations: true, defaults: true, subs: false, exotic: false, groups: true, flagsubs: false, settings: false, globals: false };
        let sites = ["arg.requires", "arg.requires_if", "arg.conflicts_with", "arg.overrides_with", "arg.required_if_eq", "arg.required_if_eq_all",
            "arg.required_unless", "arg.required_unless_all", "arg.default_value_if", "group.args", "group.requires", "group.conflicts", "arg.group"];
        let n = if o.thorough() { 6000 } else { 900 };
        let mut done = 0;
        let mut tried = 0;
        while done < n && tried < n * 20 {
            tried += 1;
            let mut c = gen_cmd(&mut rng, &cfg, 0, "prog");
            if c.args.is_empty() { continue; }
            // a required option makes `missing required argument` errors (and their usage synthesis) frequent
            if !c.args.iter().any(|a| a.id == "rq") { c.args.push(ArgS { id: "rq".into(), long: Some("rq".into()), required: true, ..Default::default() }); }
            if c.groups.is_empty() { let m = c.args[rng.below(c.args.len())].id.clone(); c.groups.push(GroupS { id: "gq".into(), args: vec![m], ..Default::default() }); }
            if !real_valid(&c) { continue; }
            let site = sites[rng.below(sites.len())];
            let ghost = "ghost".to_string();
            let ai = rng.below(c.args.len());
            let gi = rng.below(c.groups.len());
            match site {
                "arg.requires" => c.args[ai].requires.push((PredS::Present, ghost)),
                "arg.requires_if" => c.args[ai].requires.push((PredS::Equals("v".into()), ghost)),
                "arg.conflicts_with" => c.args[ai].blacklist.push(ghost),
                "arg.overrides_with" => c.args[ai].overrides.push(ghost),
                "arg.required_if_eq" => { c.args[ai].required = false; c.args[ai].r_ifs.push((ghost, "v".into())) }
                "arg.required_if_eq_all" => { c.args[ai].required = false; c.args[ai].r_ifs_all.push((ghost, "v".into())) }
                "arg.required_unless" => { c.args[ai].required = false; c.args[ai].r_unless.push(ghost) }
                "arg.required_unless_all" => { c.args[ai].required = false; c.args[ai].r_unless_all.push(ghost) }
                "arg.default_value_if" => c.args[ai].default_ifs.push((ghost, PredS::Present, Some("d".into()))),
                "group.args" => c.groups[gi].args.push(ghost),
                "group.requires" => c.groups[gi].requires.push(ghost),
                "group.conflicts" => c.groups[gi].conflicts.push(ghost),
                _ => c.args[ai].groups.push(ghost),
            }
            done += 1;
            if !real_valid(&c) { rep.count(&format!("dangling-reference-rejected:{site}")); continue; }
            rep.count(&format!("dangling-reference-accepted:{site}"));
            let mut argvs: Vec<Vec<Vec<u8>>> = (0..6).map(|_| gen_argv(&mut rng, &c, 6)).collect();
            argvs.push(bv(&["prog"]));
            for a in &c.args {
                if let Some(l) = &a.long {
                    let flag = matches!(a.action, Some("setTrue") | Some("setFalse") | Some("count"));
                    argvs.push(if flag { bv(&["prog", &format!("--{l}")]) } else { bv(&["prog", &format!("--{l}=v")]) });
                    argvs.push(if flag { bv(&["prog", &format!("--{l}"), "--rq=v"]) } else { bv(&["prog", &format!("--{l}=v"), "--rq=v"]) });
                }
            }
            for argv in argvs {
                let (canon, _, e) = real_parse(&c, &argv);
                let req = parse_request(&c, &argv);
                if canon.starts_with("PANIC") { rep.oracle_fail(&format!("panic:accepted-definition-with-dangling-reference:{site}"), &req, &canon); }
                if let Some(e) = e {
                    let r = std::panic::catch_unwind(std::panic::AssertUnwindSafe(|| e.render().to_string()));
                    if r.is_err() { rep.oracle_fail(&format!("error-render-panics:accepted-definition-with-dangling-reference:{site}"), &req, &canon); }
                }
                rep.count("dangling-reference-accepted-and-parsed");
            }
        }
    }
    rep
}
