//! C01 — parsing is total.
use crate::pcorr;
use crate::spec::*;
use crate::util::*;

pub fn run(o: &Opts) -> Report {
    let mut rep = Report::new("C01", "random valid command trees (all modelled settings: relations, groups, defaults/env, hyphen values, terminators, last, trailing_var_arg, require_equals, flag subcommands, inference, external subcommands, ignore_errors) x argv from a token grammar (flags, clusters, =-forms, --, -, numbers, subcommand names, unknown flags, non-UTF-8); real parse under catch_unwind, every error rendered; non-trivial = successful parse of >= 2 tokens; distinct by canonical request");
    rep.check_wf = true;
    let cfg = GenCfg { relations: true, defaults: true, subs: true, exotic: true, groups: true, flagsubs: true, settings: true, globals: true };
    let (n_cmds, n_argv) = if o.thorough() { (15000, 30) } else { (2500, 20) };
    pcorr::run(&mut rep, o, cfg, n_cmds, n_argv, 7, 0xC01, |_, _| vec![], |case, rep| {
        if case.canon.starts_with("PANIC") {
            let site = case.canon.to_string();
            let class = if site.contains("called_`Option::unwrap()`") { "panic:parser-unwrap".to_string() } else { format!("panic:{}", site.chars().skip(6).take(60).collect::<String>()) };
            rep.oracle_fail(&class, case.req, case.canon);
        }
        if let Some(e) = case.err {
            let r = std::panic::catch_unwind(std::panic::AssertUnwindSafe(|| e.render().to_string()));
            if r.is_err() { rep.oracle_fail("error-render-panics", case.req, case.canon); }
            if case.cmd.settings.ignore_errors && e.use_stderr() { rep.oracle_fail("ignore_errors-returned-an-error", case.req, case.canon); }
        }
    });
    {
        use crate::pcorr::*;
        // requires-cycles are valid definitions ("both or neither"); the transitive walk must terminate from everywhere
        let mk = |outside: bool| { let mut c = CmdS { name: "prog".into(), ..Default::default() };
            let flag = |id: &str, req: &[&str]| ArgS { id: id.into(), long: Some(id.into()), action: Some("setTrue"), requires: req.iter().map(|r| (PredS::Present, r.to_string())).collect(), ..Default::default() };
            if outside { c.args.push(flag("xx", &["aa"])); }
            c.args.push(flag("aa", &["bb"])); c.args.push(flag("bb", &["cc"])); c.args.push(flag("cc", &["aa"])); c };
        let cases: Vec<(CmdS, Vec<Vec<u8>>, Expect)> = vec![
            (mk(true), bv(&["prog", "--xx", "--aa", "--bb", "--cc"]), Box::new(|_| Ok(()))),
            (mk(false), bv(&["prog", "--aa", "--bb", "--cc"]), Box::new(|_| Ok(()))),
            (mk(true), bv(&["prog", "--bb", "--cc", "--aa"]), Box::new(|_| Ok(()))),
        ];
        run_expect(&mut rep, o, "requires-cycle", cases);
        // whatever the configuration checks accept must parse to a result: groups nested in themselves are rejected by
        // the unchanged checks (then these shapes are skipped); if they are ever accepted, parsing still has to return
        for k in 0..3 {
            let mut c = CmdS { name: "prog".into(), ..Default::default() };
            let flag = |id: &str| ArgS { id: id.into(), long: Some(id.into()), action: Some("setTrue"), ..Default::default() };
            c.args.push(flag("aa")); c.args.push(flag("bb"));
            let mut x = flag("xx"); x.blacklist = vec!["g1".into()]; c.args.push(x);
            match k {
                0 => c.groups.push(GroupS { id: "g1".into(), args: vec!["aa".into(), "g1".into()], ..Default::default() }),
                1 => { c.groups.push(GroupS { id: "g1".into(), args: vec!["aa".into(), "g2".into()], ..Default::default() }); c.groups.push(GroupS { id: "g2".into(), args: vec!["bb".into(), "g1".into()], ..Default::default() }); }
                _ => c.groups.push(GroupS { id: "g1".into(), args: vec!["aa".into(), "g1".into()], required: true, ..Default::default() }),
            }
            if !real_valid(&c) { rep.count("self-nested-group-rejected-by-the-configuration-checks"); continue; }
            for argv in [bv(&["prog", "--xx", "--aa"]), bv(&["prog", "--bb"]), bv(&["prog"])] {
                let (canon, _, _) = real_parse(&c, &argv);
                if canon.starts_with("PANIC") { rep.oracle_fail("panic:accepted-self-nested-group", &parse_request(&c, &argv), &canon); }
                rep.count("self-nested-group-accepted-and-parsed");
            }
        }
    }
    rep
}
