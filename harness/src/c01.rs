//! C01 — parsing is total.
use crate::pcorr;
use crate::spec::*;
use crate::util::*;

pub fn run(o: &Opts) -> Report {
    let mut rep = Report::new("C01", "random valid command trees (all modelled settings: relations, groups, defaults/env, hyphen values, terminators, last, trailing_var_arg, require_equals, flag subcommands, inference, external subcommands, ignore_errors) x argv from a token grammar (flags, clusters, =-forms, --, -, numbers, subcommand names, unknown flags, non-UTF-8); real parse under catch_unwind, every error rendered; non-trivial = successful parse of >= 2 tokens; distinct by canonical request");
    rep.check_wf = true;
    let cfg = GenCfg { relations: true, defaults: true, subs: true, exotic: true, groups: true, flagsubs: true, settings: true, globals: true };
    let (n_cmds, n_argv) = if o.thorough() { (15000, 30) } else { (2500, 20) };
    pcorr::run(&mut rep, o, cfg, n_cmds, n_argv, 7, 0xC01, |_, _| vec![], |case, rep| {
        if case.canon.starts_with("PANIC") {
            let site = case.canon.to_string();
            let class = if site.contains("called_`Option::unwrap()`") { "panic:parser-unwrap".to_string() } else { format!("panic:{}", site.chars().skip(6).take(60).collect::<String>()) };
            rep.oracle_fail(&class, case.req, case.canon);
        }
        if let Some(e) = case.err {
            let r = std::panic::catch_unwind(std::panic::AssertUnwindSafe(|| e.render().to_string()));
            if r.is_err() { rep.oracle_fail("error-render-panics", case.req, case.canon); }
            if case.cmd.settings.ignore_errors && e.use_stderr() { rep.oracle_fail("ignore_errors-returned-an-error", case.req, case.canon); }
        }
    });
    rep
}
