//! C04 — typed values are exactly what the value parser's language admits.
use crate::util::*;
use clap::builder::{PossibleValue, PossibleValuesParser, TypedValueParser};
use clap::error::{ContextKind, ErrorKind};
use clap::{Arg, ArgAction, Command};
use std::ffi::OsStr;
use std::ops::Bound;
use std::os::unix::ffi::OsStrExt as _;
use std::panic::{catch_unwind, AssertUnwindSafe};

/// a command holding `arg`, built, and the built copy of the arg (an unbuilt `Arg` cannot be displayed)
fn built(arg: Arg) -> (Command, Arg) {
    let id = arg.get_id().clone();
    let mut cmd = Command::new("p").arg(arg);
    cmd.build();
    let a = cmd.get_arguments().find(|a| a.get_id() == &id).unwrap().clone();
    (cmd, a)
}

fn kind_s(k: ErrorKind) -> String { format!("ERR {k:?}") }

/// independent reading of a decimal integer literal (the oracle); `None` = not in the grammar
fn big_read(s: &[u8], signed: bool) -> Option<Option<i128>> {
    let s = std::str::from_utf8(s).ok()?;
    let b = s.as_bytes();
    let (neg, digits) = match b.first() {
        None => return None,
        Some(b'+') => (false, &b[1..]),
        Some(b'-') if signed => (true, &b[1..]),
        _ => (false, b),
    };
    if digits.is_empty() || !digits.iter().all(|c| c.is_ascii_digit()) { return None; }
    let t: Vec<u8> = digits.iter().copied().skip_while(|c| *c == b'0').collect();
    if t.len() > 30 { return Some(None); } // astronomically large: in no range
    let mut v: i128 = 0;
    for c in &t { v = v * 10 + (*c - b'0') as i128; }
    Some(Some(if neg { -v } else { v }))
}

fn ty_range(ty: &str) -> (i128, i128) {
    match ty {
        "u8" => (0, u8::MAX as i128), "i8" => (i8::MIN as i128, i8::MAX as i128),
        "u16" => (0, u16::MAX as i128), "i16" => (i16::MIN as i128, i16::MAX as i128),
        "u32" => (0, u32::MAX as i128), "i32" => (i32::MIN as i128, i32::MAX as i128),
        "u64" => (0, u64::MAX as i128), _ => (i64::MIN as i128, i64::MAX as i128),
    }
}

fn res_s<T: Into<i128>>(r: Result<T, clap::Error>, name: &str, fails: &mut Vec<(String, String)>) -> String {
    match r {
        Ok(v) => format!("OK {}", v.into()),
        Err(e) => { check_err(&e, name, fails); kind_s(e.kind()) }
    }
}

/// a rejection must be a value error that names the argument
fn check_err(e: &clap::Error, name: &str, fails: &mut Vec<(String, String)>) {
    match e.kind() {
        ErrorKind::InvalidValue | ErrorKind::ValueValidation => {
            let named = e.get(ContextKind::InvalidArg).map(|v| v.to_string().contains(name)).unwrap_or(false);
            if !named { fails.push(("rejection-does-not-name-the-argument".into(), format!("{:?}", e.kind()))); }
            let _ = catch_unwind(AssertUnwindSafe(|| e.render().to_string())).map_err(|_| fails.push(("error-render-panics".into(), String::new())));
        }
        ErrorKind::InvalidUtf8 => {}
        k => fails.push(("rejection-is-not-a-value-error".into(), format!("{k:?}"))),
    }
}

fn real_factory(ty: &str, range: Option<(Bound<i64>, Bound<i64>)>, urange: Option<(Bound<u64>, Bound<u64>)>, raw: &[u8], fails: &mut Vec<(String, String)>, two_step: bool) -> String {
    let (cmd, arg) = built(Arg::new("num").long("num").action(ArgAction::Set));
    let os = OsStr::from_bytes(raw);
    macro_rules! go { ($t:ty) => {{
        let p = clap::value_parser!($t);
        // `range` narrows: the same interval may be reached in two steps, lower bound first
        let p = match range { Some((lo, hi)) if two_step => p.range((lo, Bound::Unbounded)).range((Bound::Unbounded, hi)), Some(r) => p.range(r), None => p };
        res_s(p.parse_ref(&cmd, Some(&arg), os), "--num", fails)
    }}; }
    match ty {
        "u8" => go!(u8), "i8" => go!(i8), "u16" => go!(u16), "i16" => go!(i16), "u32" => go!(u32), "i32" => go!(i32), "i64" => go!(i64),
        _ => {
            let p = clap::value_parser!(u64);
            let p = match urange { Some(r) => p.range(r), None => p };
            res_s(p.parse_ref(&cmd, Some(&arg), os), "--num", fails)
        }
    }
}

fn bound_tok(b: &Bound<i64>) -> String { match b { Bound::Included(i) => format!("i{i}"), Bound::Excluded(i) => format!("x{i}"), Bound::Unbounded => "u".into() } }
fn bound_in(lo: &Bound<i64>, hi: &Bound<i64>, v: i128) -> bool {
    (match lo { Bound::Included(a) => (*a as i128) <= v, Bound::Excluded(a) => (*a as i128) < v, Bound::Unbounded => true })
        && (match hi { Bound::Included(b) => v <= *b as i128, Bound::Excluded(b) => v < *b as i128, Bound::Unbounded => true })
}

fn candidates(mags: &[i128], rng: &mut Rng, n: usize) -> Vec<Vec<u8>> {
    let signs: [&[u8]; 6] = [b"", b"", b"+", b"-", b"--", b"+-"];
    let zeros: [&[u8]; 3] = [b"", b"0", b"000"];
    let sufs: [&[u8]; 8] = [b"", b"", b"", b" ", b"_", b"x", b"\xff", "é".as_bytes()];
    let mut out = vec![b"".to_vec(), b"+".to_vec(), b"-".to_vec(), b"0".to_vec(), b"-0".to_vec(), b"+0".to_vec(), b" 1".to_vec(), "١".as_bytes().to_vec()];
    for m in mags {
        for s in [&b""[..], b"+", b"-"] { let mut v = s.to_vec(); v.extend_from_slice(m.to_string().as_bytes()); out.push(v); }
    }
    for _ in 0..n {
        let mut v = rng.pick(&signs[..]).to_vec();
        v.extend_from_slice(*rng.pick(&zeros[..]));
        let m = if rng.chance(3, 4) { *rng.pick(mags) } else { (rng.next() as i128) >> rng.below(64) };
        v.extend_from_slice(m.abs().to_string().as_bytes());
        v.extend_from_slice(*rng.pick(&sufs[..]));
        out.push(v);
    }
    out
}

#[derive(Clone, Copy, Debug, PartialEq)]
enum En { Alpha, Beta, Gamma }
impl clap::ValueEnum for En {
    fn value_variants<'a>() -> &'a [Self] { &[En::Alpha, En::Beta, En::Gamma] }
    fn to_possible_value(&self) -> Option<PossibleValue> {
        Some(match self {
            En::Alpha => PossibleValue::new("alpha").aliases(["a", "first"]),
            En::Beta => PossibleValue::new("beta").alias("Alpha").alias("b"),
            En::Gamma => PossibleValue::new("gamma").hide(true),
        })
    }
}
const EN_PVS: &str = "3 616c706861,61,6669727374 62657461,416c706861,62 67616d6d61";

fn case_variants(s: &str, rng: &mut Rng, k: usize) -> Vec<String> {
    let mut v = vec![s.to_string(), s.to_uppercase()];
    for _ in 0..k { v.push(s.chars().map(|c| if rng.chance(1, 2) { c.to_ascii_uppercase() } else { c }).collect()); }
    v
}

pub fn run(o: &Opts) -> Report {
    let mut rep = Report::new("C04", "integer parsers: 8 factory widths (plain, with .range(), RangedI64/U64) and the six From<Range*> conversions (through a real Command) x boundary-derived candidate strings (signs, zeros, boundary-1/0/+1, 2^63, 2^64, 10^30, junk suffixes, non-UTF-8) + random; bool/boolish/falsey: every literal in every ASCII case + near misses; possible values / value enum: names, aliases, case variants, prefixes, with/without ignore_case; typed store: all op sequences up to a length bound over 3 stored args x 4 types x unknown id, then random; non-trivial = accepted value or a mismatching typed access; distinct by canonical request");
    let mut rng = Rng::new(o.seed);
    let mut reqs: Vec<String> = vec![];
    let mut impls: Vec<String> = vec![];
    let thorough = o.thorough();
    let mags: Vec<i128> = {
        let mut m = vec![0i128, 1, 2, 9, 10, 99, 100, 1i128 << 63, (1i128 << 63) - 1, (1i128 << 63) + 1, (1i128 << 64) - 1, 1i128 << 64, (1i128 << 64) + 1, 10i128.pow(30), 3000, 2999, 3001];
        for ty in ["u8", "i8", "u16", "i16", "u32", "i32"] { let (lo, hi) = ty_range(ty); for d in [-1i128, 0, 1] { m.push((lo + d).abs()); m.push(hi + d); } }
        m.sort(); m.dedup(); m
    };
    // ---------------- integer factories (plain and ranged)
    for ty in ["u8", "i8", "u16", "i16", "u32", "i32", "u64", "i64"] {
        let (tlo, thi) = ty_range(ty);
        let cands = candidates(&mags, &mut rng, if thorough { 4000 } else { 600 });
        // range variants inside the type's own bounds (`.range()` debug-asserts that)
        let mut ranges: Vec<Option<(Bound<i64>, Bound<i64>)>> = vec![None];
        if ty != "u64" {
            let pick = |rng: &mut Rng| -> i64 { let span = (thi - tlo) as u128; (tlo + (rng.next() as u128 % (span + 1)) as i128) as i64 };
            for _ in 0..(if thorough { 12 } else { 5 }) {
                let (a, b) = { let x = pick(&mut rng); let y = pick(&mut rng); (x.min(y), x.max(y)) };
                let lo = match rng.below(3) { 0 => Bound::Included(a), 1 if (a as i128) < thi => Bound::Excluded(a), _ => Bound::Unbounded };
                let hi = match rng.below(3) { 0 => Bound::Included(b), 1 if (b as i128) > tlo => Bound::Excluded(b), _ => Bound::Unbounded };
                ranges.push(Some((lo, hi)));
            }
            ranges.push(Some((Bound::Included(tlo as i64), Bound::Excluded(thi as i64))));
            ranges.push(Some((Bound::Excluded(tlo as i64), Bound::Included(thi as i64))));
        }
        for r in &ranges {
            // extra candidates at the range's own ends
            let mut cs = cands.clone();
            if let Some((lo, hi)) = r {
                for b in [lo, hi] { if let Bound::Included(i) | Bound::Excluded(i) = b { for d in [-1i128, 0, 1] { cs.push((*i as i128 + d).to_string().into_bytes()); } } }
            }
            for c in cs {
                let req = match r {
                    None => format!("ifac {} {}", ty, hex(&c)),
                    Some((lo, hi)) => format!("ifacr {} {} {} {}", ty, bound_tok(lo), bound_tok(hi), hex(&c)),
                };
                let mut fails = vec![];
                let two_step = matches!(r, Some((Bound::Included(_), Bound::Included(_)))) && c.len() % 2 == 0;
                if two_step { rep.count("int_range_narrowed_in_two_steps"); }
                let got = catch_unwind(AssertUnwindSafe(|| real_factory(ty, *r, None, &c, &mut fails, two_step))).unwrap_or_else(|_| "PANIC".into());
                // oracle: the independent reading
                let exp = match big_read(&c, ty != "u64") {
                    _ if std::str::from_utf8(&c).is_err() => "ERR InvalidUtf8".to_string(),
                    Some(Some(v)) if v >= tlo && v <= thi && r.as_ref().map(|(lo, hi)| bound_in(lo, hi, v)).unwrap_or(true) => format!("OK {v}"),
                    _ => "ERR ValueValidation".to_string(),
                };
                if got != exp { rep.oracle_fail(if got == "PANIC" { "int-parser-panic" } else if got.starts_with("OK") { "int-accepted-outside-language" } else { "int-rejected-inside-language-or-wrong-kind" }, &req, &format!("impl={got} expected={exp}")); }
                for (c2, d) in fails { rep.oracle_fail(&c2, &req, &d); }
                rep.case(&req, got.starts_with("OK"));
                rep.count(if got.starts_with("OK") { "int_accept" } else { "int_reject" });
                reqs.push(req); impls.push(got);
            }
        }
    }
    // ---------------- From<Range*<i64>> for ValueParser, through a real Command
    for kind in ["Range", "RangeInclusive", "RangeFrom", "RangeTo", "RangeToInclusive", "RangeFull"] {
        for _ in 0..(if thorough { 40 } else { 12 }) {
            let (s, e) = { let picks = [-3000i64, -1, 0, 1, 10, 3000, i64::MAX - 1, i64::MIN + 1, 255]; let x = *rng.pick(&picks); let y = *rng.pick(&picks); (x.min(y), x.max(y)) };
            if s == e && kind == "Range" { continue; }
            let vp: clap::builder::ValueParser = match kind {
                "Range" => (s..e).into(), "RangeInclusive" => (s..=e).into(), "RangeFrom" => (s..).into(),
                "RangeTo" => (..e).into(), "RangeToInclusive" => (..=e).into(), _ => (..).into(),
            };
            let mut cs: Vec<Vec<u8>> = vec![];
            for b in [s, e] { for d in [-1i128, 0, 1] { cs.push((b as i128 + d).to_string().into_bytes()); cs.push(format!("+0{}", (b as i128 + d).abs()).into_bytes()); } }
            cs.push(b"x".to_vec()); cs.push(vec![0xff]); cs.push(b"".to_vec());
            for c in cs {
                let req = format!("ifrom {} {} {} {}", kind, s, e, hex(&c));
                let mut argv: Vec<std::ffi::OsString> = vec!["p".into()];
                let mut a = b"--num=".to_vec(); a.extend_from_slice(&c);
                argv.push(std::ffi::OsString::from(OsStr::from_bytes(&a)));
                let cmd = Command::new("p").arg(Arg::new("num").long("num").value_parser(vp.clone()).action(ArgAction::Set));
                let got = match catch_unwind(AssertUnwindSafe(|| cmd.try_get_matches_from(argv))) {
                    Err(_) => "PANIC".to_string(),
                    Ok(Ok(m)) => format!("OK {}", m.get_one::<i64>("num").copied().unwrap_or(0)),
                    Ok(Err(er)) => kind_s(er.kind()),
                };
                let lo_ok = |v: i128| match kind { "Range" | "RangeInclusive" | "RangeFrom" => v >= s as i128, _ => true };
                let hi_ok = |v: i128| match kind { "Range" | "RangeTo" => v < e as i128, "RangeInclusive" | "RangeToInclusive" => v <= e as i128, _ => true };
                let exp = match big_read(&c, true) {
                    _ if std::str::from_utf8(&c).is_err() => "ERR InvalidUtf8".to_string(),
                    Some(Some(v)) if v >= i64::MIN as i128 && v <= i64::MAX as i128 && lo_ok(v) && hi_ok(v) => format!("OK {v}"),
                    _ => "ERR ValueValidation".to_string(),
                };
                if got != exp { rep.oracle_fail(if got.starts_with("OK") { "from-range-accepted-outside-range" } else { "from-range-rejected-inside-range-or-wrong-kind" }, &req, &format!("impl={got} expected={exp}")); }
                rep.case(&req, got.starts_with("OK"));
                rep.count("from_range");
                reqs.push(req); impls.push(got);
            }
        }
    }
    // ---------------- booleans
    let t_lits = ["y", "yes", "t", "true", "on", "1"];
    let f_lits = ["n", "no", "f", "false", "off", "0"];
    let mut bcands: Vec<Vec<u8>> = vec![b"".to_vec(), vec![0xff], b" true".to_vec(), b"true ".to_vec(), b"tru".to_vec(), b"truee".to_vec(), b"of".to_vec(), b"ye".to_vec(), b"2".to_vec(), b"00".to_vec(), b"nope".to_vec(),
        "\u{212A}".as_bytes().to_vec(), "o\u{212A}".as_bytes().to_vec(), "İ".as_bytes().to_vec(), "ＴＲＵＥ".as_bytes().to_vec(), b"true\0".to_vec(), "ｙ".as_bytes().to_vec()];
    for l in t_lits.iter().chain(f_lits.iter()) {
        // every ASCII case pattern
        let n = l.len();
        for mask in 0..(1u32 << n) {
            let s: String = l.chars().enumerate().map(|(i, c)| if mask >> i & 1 == 1 { c.to_ascii_uppercase() } else { c }).collect();
            bcands.push(s.into_bytes());
        }
        let mut x = l.as_bytes().to_vec(); x.push(b'x'); bcands.push(x);
        bcands.push(l.as_bytes()[..l.len() - 1].to_vec());
    }
    bcands.sort(); bcands.dedup();
    for c in &bcands {
        // the language of the three boolean parsers is a property of the parser alone: the argument's `ignore_case`
        // (which widens possible-value matching) must not widen it
        for (p, ic) in [("bool", false), ("boolish", false), ("falsey", false), ("bool", true), ("boolish", true), ("falsey", true)] {
            let req = format!("bval {} {}", p, hex(c));
            let (cmd, arg) = built(Arg::new("flag").long("flag").ignore_case(ic).action(ArgAction::Set)); let os = OsStr::from_bytes(c);
            if ic { rep.count("bool_with_ignore_case_arg"); }
            let mut fails = vec![];
            let r = match p {
                "bool" => clap::builder::BoolValueParser::new().parse_ref(&cmd, Some(&arg), os),
                "boolish" => clap::builder::BoolishValueParser::new().parse_ref(&cmd, Some(&arg), os),
                _ => clap::builder::FalseyValueParser::new().parse_ref(&cmd, Some(&arg), os),
            };
            let got = match r { Ok(v) => format!("OK {}", b01(v)), Err(e) => { check_err(&e, "--flag", &mut fails); kind_s(e.kind()) } };
            // oracle from the documentation
            let utf = std::str::from_utf8(c).ok();
            let lower = utf.map(|s| s.to_ascii_lowercase());
            let is_t = lower.as_deref().map(|s| t_lits.contains(&s)).unwrap_or(false);
            let is_f = lower.as_deref().map(|s| f_lits.contains(&s)).unwrap_or(false);
            let exp = match p {
                "bool" => if c == b"true" { "OK 1".into() } else if c == b"false" { "OK 0".into() } else { "ERR InvalidValue".to_string() },
                "boolish" => if utf.is_none() { "ERR InvalidUtf8".into() } else if is_t { "OK 1".into() } else if is_f { "OK 0".into() } else { "ERR ValueValidation".to_string() },
                _ => if utf.is_none() { "ERR InvalidUtf8".into() } else if c.is_empty() || is_f { "OK 0".into() } else { "OK 1".to_string() },
            };
            if got != exp { rep.oracle_fail("bool-parser-language", &req, &format!("impl={got} documented={exp}")); }
            for (c2, d) in fails { rep.oracle_fail(&c2, &req, &d); }
            rep.case(&req, got.starts_with("OK"));
            rep.count("bool");
            reqs.push(req); impls.push(got);
        }
    }
    // ---------------- possible values
    let names = ["fast", "slow", "Quick", "q", "a-b", "x", "Fast2", "é", "ab"];
    for _ in 0..(if thorough { 4000 } else { 600 }) {
        let n = 1 + rng.below(3);
        let mut pvs: Vec<(String, Vec<String>)> = vec![];
        for _ in 0..n { let nm = rng.pick(&names).to_string(); let al: Vec<String> = (0..rng.below(3)).map(|_| rng.pick(&names).to_string()).collect(); pvs.push((nm, al)); }
        let ic = rng.chance(1, 2);
        let mut cands: Vec<Vec<u8>> = vec![];
        for (nm, al) in &pvs { for s in std::iter::once(nm).chain(al.iter()) { for v in case_variants(s, &mut rng, 1) { cands.push(v.into_bytes()); } cands.push(s.as_bytes()[..s.len().saturating_sub(1)].to_vec()); let mut x = s.clone().into_bytes(); x.push(b's'); cands.push(x); } }
        cands.push(vec![0xff]); cands.push(b"".to_vec()); cands.push(rng.pick(&names).as_bytes().to_vec());
        // hidden values are hidden from help and error listings only; they stay part of the language
        let hid: Vec<bool> = pvs.iter().map(|_| rng.chance(1, 3)).collect();
        let parser = PossibleValuesParser::new(pvs.iter().zip(hid.iter()).map(|((nm, al), h)| PossibleValue::new(nm.clone()).aliases(al.clone()).hide(*h)).collect::<Vec<_>>());
        let pv_tok = pvs.iter().map(|(nm, al)| std::iter::once(nm).chain(al.iter()).map(|s| hex(s.as_bytes())).collect::<Vec<_>>().join(",")).collect::<Vec<_>>().join(" ");
        for c in cands {
            // with ignore_case only ASCII candidates (Unicode folding is unicase's business)
            if ic && !c.is_ascii() { continue; }
            let req = format!("pval {} {} {} {}", b01(ic), pvs.len(), pv_tok, hex(&c));
            let (cmd, arg) = built(Arg::new("mode").long("mode").ignore_case(ic).action(ArgAction::Set));
            let mut fails = vec![];
            let got = match parser.parse_ref(&cmd, Some(&arg), OsStr::from_bytes(&c)) { Ok(s) => format!("OK {}", hex(s.as_bytes())), Err(e) => { check_err(&e, "--mode", &mut fails); kind_s(e.kind()) } };
            let all: Vec<&String> = pvs.iter().flat_map(|(nm, al)| std::iter::once(nm).chain(al.iter())).collect();
            let exp = match std::str::from_utf8(&c) {
                Err(_) => "ERR InvalidUtf8".to_string(),
                Ok(s) => if all.iter().any(|n| if ic { n.eq_ignore_ascii_case(s) } else { n.as_str() == s }) { format!("OK {}", hex(&c)) } else { "ERR InvalidValue".to_string() },
            };
            if got != exp { rep.oracle_fail(if got.starts_with("OK") { "possible-value-accepted-undeclared" } else { "possible-value-rejected-declared-or-wrong-kind" }, &req, &format!("impl={got} expected={exp}")); }
            for (c2, d) in fails { rep.oracle_fail(&c2, &req, &d); }
            rep.case(&req, got.starts_with("OK"));
            rep.count(if ic { "possible_ignore_case" } else { "possible_exact" });
            if hid.iter().any(|h| *h) { rep.count("possible_with_hidden_value"); }
            reqs.push(req); impls.push(got);
        }
    }
    // value enum (fixed variants, first match wins)
    for ic in [false, true] {
        let mut cands: Vec<String> = vec![];
        for s in ["alpha", "a", "first", "beta", "Alpha", "b", "gamma", "delta", "", "alph"] { cands.extend(case_variants(s, &mut rng, 2)); }
        cands.sort(); cands.dedup();
        for c in cands {
            let req = format!("eval {} {} {}", b01(ic), EN_PVS, hex(c.as_bytes()));
            let (cmd, arg) = built(Arg::new("en").long("en").ignore_case(ic).action(ArgAction::Set));
            let p = clap::builder::EnumValueParser::<En>::new();
            let got = match p.parse_ref(&cmd, Some(&arg), OsStr::new(&c)) { Ok(v) => format!("OK {}", match v { En::Alpha => 0, En::Beta => 1, En::Gamma => 2 }), Err(e) => kind_s(e.kind()) };
            rep.case(&req, got.starts_with("OK")); rep.count("value_enum");
            reqs.push(req); impls.push(got);
        }
    }
    // ---------------- typed access histories on a real ArgMatches
    let tys = ["string", "i64", "bool", "u8"];
    let ids = ["a", "b", "c", "d", "zz"];
    let mut pool: Vec<String> = vec![];
    for id in ids { for t in tys { for k in ["g1", "gm", "r1", "rm"] { pool.push(format!("{k}:{}:{t}", hex(id.as_bytes()))); } } for k in ["raw", "has", "clr"] { pool.push(format!("{k}:{}", hex(id.as_bytes()))); } }
    let mut seqs: Vec<Vec<String>> = vec![];
    for a in &pool { seqs.push(vec![a.clone()]); }
    let l2 = if thorough { pool.len() } else { 24 };
    for (i, a) in pool.iter().enumerate() { for b in pool.iter().skip(i % 3).step_by(if thorough { 1 } else { 3 }).take(l2) { seqs.push(vec![a.clone(), b.clone(), "raw:61".into(), "raw:62".into()]); } }
    for _ in 0..(if thorough { 30000 } else { 4000 }) { let l = 1 + rng.below(12); seqs.push((0..l).map(|_| rng.pick(&pool).clone()).collect()); }
    for ops in &seqs {
        // a: String (two values), b: i64, c: bool flag (defaulted false when absent) — present set varies
        let with_c = ops.len() % 2 == 0;
        let mut argv = vec!["p", "--a", "x", "--b", "5", "--a", "y"];
        if with_c { argv.push("--c"); }
        // `d`: an i64 option given without a value (`num_args(0..=1)`, no default_missing_value): present, zero values
        argv.push("--d");
        let cmd = Command::new("p")
            .arg(Arg::new("d").long("d").value_parser(clap::value_parser!(i64)).num_args(0..=1).action(ArgAction::Set))
            .arg(Arg::new("a").long("a").action(ArgAction::Append))
            .arg(Arg::new("b").long("b").value_parser(clap::value_parser!(i64)).action(ArgAction::Set))
            .arg(Arg::new("c").long("c").action(ArgAction::SetTrue));
        let mut m = cmd.try_get_matches_from(argv).unwrap();
        let order = |m: &clap::ArgMatches| m.ids().map(|i| hex(i.as_str().as_bytes())).collect::<Vec<_>>().join(",");
        let init_order: Vec<String> = m.ids().map(|i| i.as_str().to_string()).collect();
        let decl = format!("4 61 62 63 64 {} {}", init_order.len(), init_order.iter().map(|id| match id.as_str() {
            "a" => "61 string 2 78 79".to_string(), "b" => "62 i64 1 35".to_string(), "d" => "64 i64 0".to_string(), _ => format!("63 bool 1 {}", hex(if with_c { b"true" } else { b"false" })) }).collect::<Vec<_>>().join(" "));
        let req = format!("store {} {}", decl, ops.join(" "));
        let mut outs = vec![];
        let mut nontrivial = false;
        for op in ops {
            let parts: Vec<&str> = op.split(':').collect();
            let id = String::from_utf8(unhex(parts[1])).unwrap();
            let before = order(&m);
            let before_dbg = format!("{:?}", m);
            macro_rules! typed { ($f:ident, $many:expr) => {{
                match parts[2] {
                    "string" => typed!(@go $f, String, $many), "i64" => typed!(@go $f, i64, $many),
                    "bool" => typed!(@go $f, bool, $many), _ => typed!(@go $f, u8, $many),
                }
            }};
            (@go $f:ident, $t:ty, $many:expr) => {{
                let r = catch_unwind(AssertUnwindSafe(|| m.$f::<$t>(&id).map(|o| o.map(|v| $many(v)))));
                match r { Err(_) => "PANIC".to_string(), Ok(Ok(None)) => "none".to_string(), Ok(Ok(Some(s))) => s, Ok(Err(e)) => match e { clap::parser::MatchesError::Downcast { .. } => "err:downcast".to_string(), _ => "err:unknown".to_string() } }
            }}; }
            fn one<T: ToString>(v: T) -> String { format!("one:{}", hex(v.to_string().as_bytes())) }
            let res = match parts[0] {
                "g1" => typed!(try_get_one, |v: &_| one(ToString::to_string(v))),
                "gm" => typed!(try_get_many, |v: clap::parser::ValuesRef<'_, _>| format!("many:{}", v.map(|x| hex(ToString::to_string(x).as_bytes())).collect::<Vec<_>>().join(","))),
                "r1" => typed!(try_remove_one, |v| one(v)),
                "rm" => typed!(try_remove_many, |v: clap::parser::Values<_>| format!("many:{}", v.map(|x| hex(ToString::to_string(&x).as_bytes())).collect::<Vec<_>>().join(","))),
                "raw" => match m.try_get_raw(&id) { Ok(None) => "none".into(), Ok(Some(v)) => format!("many:{}", v.map(|x| hex(x.as_bytes())).collect::<Vec<_>>().join(",")), Err(_) => "err:unknown".into() },
                "has" => match m.try_contains_id(&id) { Ok(b) => format!("bool:{}", b01(b)), Err(_) => "err:unknown".into() },
                _ => match m.try_clear_id(&id) { Ok(b) => format!("bool:{}", b01(b)), Err(_) => "err:unknown".into() },
            };
            // oracle: typed access with another type than the arg's declared one fails while the arg is present
            if matches!(parts[0], "g1" | "gm" | "r1" | "rm") {
                let declared = match id.as_str() { "a" => Some("string"), "b" | "d" => Some("i64"), "c" => Some("bool"), _ => None };
                let present = before.split(',').any(|x| x == hex(id.as_bytes()));
                if let Some(dt) = declared { if present && parts[2] != dt && res != "err:downcast" { rep.oracle_fail("wrong-type-access-succeeds", &req, &format!("op {op} on `{id}` (declared {dt}) answered {res}")); } }
            }
            // oracle: a failing typed access (or any read) leaves the stored values undisturbed
            let is_read = matches!(parts[0], "g1" | "gm" | "raw" | "has");
            if res.starts_with("err:") || is_read || res == "PANIC" {
                if res.starts_with("err:") { nontrivial = true; }
                let after_dbg = format!("{:?}", m);
                if res == "PANIC" { rep.oracle_fail("typed-access-panic", &req, op); }
                else if after_dbg != before_dbg {
                    let class = if order(&m) != before { "failed-typed-access-reorders-ids" } else { "failed-typed-access-disturbs-values" };
                    rep.oracle_fail(class, &req, &format!("op {op}: ids before={before} after={}", order(&m)));
                }
            }
            outs.push(format!("{}|{}", res, order(&m)));
        }
        rep.case(&req, nontrivial);
        rep.count("typed_access_histories");
        reqs.push(req); impls.push(outs.join(" "));
    }
    if o.driver != "none" {
        let model = driver_batch(&o.driver, &reqs, o.par);
        for ((req, m), i) in reqs.iter().zip(model.iter()).zip(impls.iter()) {
            if m != i { rep.disagree("c04", req, m, i); }
        }
    }
    rep
}
