//! C18 — the dynamic completion engine never fails and only offers valid continuations.
use crate::util::*;
use clap::builder::PossibleValue;
use clap::{Arg, ArgAction, Command};
use std::ffi::OsString;
use std::os::unix::ffi::OsStringExt;

#[derive(Clone, Debug)]
struct EA { id: String, short: Option<char>, vshorts: Vec<char>, long: Option<String>, vlongs: Vec<String>, hlongs: Vec<String>, kind: u8, // 0 flag 1 option 2 positional
    num: Option<(usize, Option<usize>)>, allow_hyphen: bool, hide: bool, pvs: Option<Vec<(String, bool)>>, delim: Option<char> }
#[derive(Clone, Debug)]
struct EC { name: String, valiases: Vec<String>, haliases: Vec<String>, hide: bool, args: Vec<EA>, subs: Vec<EC>,
    /// declare the positionals in reverse index order (`.index(2)` before `.index(1)`)
    swap_pos: bool }

fn gen_ec(rng: &mut Rng, depth: usize, idx: &mut usize, name: String) -> EC {
    let mut shorts: Vec<char> = "abcdefgijkmnopqrstuwxyz".chars().collect();
    let nargs = rng.below(5);
    let mut args = vec![]; let mut npos = 0;
    for _ in 0..nargs {
        *idx += 1; let i = *idx;
        let kind = if npos < 2 && rng.chance(1, 5) { npos += 1; 2 } else { rng.below(2) as u8 };
        let short = if kind != 2 && rng.chance(2, 3) { Some(shorts.remove(rng.below(shorts.len()))) } else { None };
        let long = if kind != 2 && (short.is_none() || rng.chance(2, 3)) { Some(format!("{}{i}", rng.pick(&["opt", "op", "long", "lo"]))) } else { None };
        let takes = kind >= 1;
        args.push(EA {
            id: format!("arg{i}"), short,
            vshorts: if short.is_some() && rng.chance(1, 5) { vec![shorts.remove(rng.below(shorts.len()))] } else { vec![] },
            vlongs: if long.is_some() && rng.chance(1, 4) { vec![format!("optalias{i}")] } else { vec![] },
            hlongs: if long.is_some() && rng.chance(1, 4) { vec![format!("ophidden{i}")] } else { vec![] },
            long, kind,
            num: if kind == 1 { *rng.pick(&[None, None, Some((0, Some(1))), Some((2, Some(2))), Some((1, None)), Some((1, Some(3)))]) } else if kind == 2 && npos == 2 { *rng.pick(&[None, Some((1, None)), Some((1, Some(2)))]) } else { None },
            allow_hyphen: takes && rng.chance(1, 6), hide: rng.chance(1, 6),
            pvs: if takes && rng.chance(1, 3) { Some((0..1 + rng.below(3)).map(|j| (format!("{}{i}{j}", rng.pick(&["val", "va", "x"])), rng.chance(1, 5))).collect()) } else { None },
            delim: if takes && rng.chance(1, 5) { Some(*rng.pick(&[',', ',', '\u{3001}', '\u{a7}'])) } else { None },
        });
    }
    let nsubs = if depth >= 2 { 0 } else { rng.below(4) };
    let subs = (0..nsubs).map(|_| { *idx += 1; let i = *idx;
        let nm = format!("{}{i}", rng.pick(&["sub", "su", "cmd", "s"]));
        let mut s = gen_ec(rng, depth + 1, idx, nm);
        if rng.chance(1, 4) { s.valiases.push(format!("subalias{i}")); }
        if rng.chance(1, 3) {
            // hidden aliases that sort before, after, or as a prefix of the visible name
            let h = match rng.below(4) { 0 => format!("aa{i}"), 1 => format!("zz{i}"), 2 => s.name[..1].to_string() + &format!("{i}"), _ => format!("suhidden{i}") };
            s.haliases.push(h);
        }
        s.hide = rng.chance(1, 6);
        s }).collect();
    let swap_pos = rng.chance(1, 3);
    EC { name, valiases: vec![], haliases: vec![], hide: false, args, subs, swap_pos }
}

fn build(c: &EC) -> Command {
    let mut r = Command::new(c.name.clone());
    for a in &c.valiases { r = r.visible_alias(a.clone()); }
    for a in &c.haliases { r = r.alias(a.clone()); }
    if c.hide { r = r.hide(true); }
    let mut pos = 0;
    let mut built: Vec<(bool, Arg)> = vec![];
    for a in &c.args {
        let mut x = Arg::new(a.id.clone());
        if let Some(s) = a.short { x = x.short(s); }
        for s in &a.vshorts { x = x.visible_short_alias(*s); }
        if let Some(l) = &a.long { x = x.long(l.clone()); }
        for l in &a.vlongs { x = x.visible_alias(l.clone()); }
        for l in &a.hlongs { x = x.alias(l.clone()); }
        x = match a.kind { 0 => x.action(ArgAction::SetTrue), 1 => x.action(ArgAction::Append), _ => { pos += 1; if a.num.is_some() { x.index(pos).action(ArgAction::Append) } else { x.index(pos).action(ArgAction::Set) } } };
        if let Some((lo, hi)) = a.num { x = match hi { Some(h) => x.num_args(lo..=h), None => x.num_args(lo..) }; }
        if a.allow_hyphen { x = x.allow_hyphen_values(true); }
        if a.hide { x = x.hide(true); }
        if let Some(p) = &a.pvs { x = x.value_parser(p.iter().map(|(n, h)| PossibleValue::new(n.clone()).hide(*h)).collect::<Vec<_>>()); }
        if let Some(d) = a.delim { x = x.value_delimiter(d); }
        built.push((a.kind == 2, x));
    }
    if c.swap_pos { if let Some(k) = built.iter().position(|(p, _)| *p) { let first = built.remove(k); built.push(first); } }
    for (_, x) in built { r = r.arg(x); }
    for s in &c.subs { r = r.subcommand(build(s)); }
    r
}

fn enc_list(out: &mut Vec<String>, l: &[String]) { out.push(l.len().to_string()); for x in l { out.push(hex(x.as_bytes())); } }

fn encode(cmd: &Command, out: &mut Vec<String>) {
    enc_list(out, &cmd.get_name_and_visible_aliases().iter().map(|s| s.to_string()).collect::<Vec<_>>());
    enc_list(out, &cmd.get_aliases().map(|s| s.to_string()).collect::<Vec<_>>());
    out.push(format!("{}{}", b01(cmd.is_hide_set()), b01(cmd.is_no_binary_name_set())));
    let args: Vec<&Arg> = cmd.get_arguments().collect();
    out.push(args.len().to_string());
    for a in args {
        out.push(hex(a.get_id().as_str().as_bytes()));
        enc_list(out, &a.get_short_and_visible_aliases().unwrap_or_default().iter().map(|c| c.to_string()).collect::<Vec<_>>());
        enc_list(out, &a.get_long_and_visible_aliases().unwrap_or_default().iter().map(|c| c.to_string()).collect::<Vec<_>>());
        enc_list(out, &a.get_aliases().unwrap_or_default().iter().map(|c| c.to_string()).collect::<Vec<_>>());
        out.push(a.get_long().map(|l| hex(l.as_bytes())).unwrap_or("~".into()));
        let num = a.get_num_args().expect("built");
        out.push(format!("{}{}{}", b01(num.takes_values()), b01(a.is_allow_hyphen_values_set()), b01(a.is_hide_set())));
        out.push(num.min_values().to_string());
        out.push(if num.max_values() == usize::MAX { "1000000000".into() } else { num.max_values().to_string() });
        out.push(a.get_index().map(|i| i.to_string()).unwrap_or("~".into()));
        let pvs = if num.takes_values() { a.get_value_parser().possible_values().map(|p| p.collect::<Vec<_>>()) } else { None };
        match pvs { None => out.push("~".into()), Some(p) => { out.push(p.len().to_string()); for v in p { out.push(hex(v.get_name().as_bytes())); out.push(b01(v.is_hide_set()).into()); } } }
        out.push(a.get_value_delimiter().map(|c| hex(c.to_string().as_bytes())).unwrap_or("~".into()));
    }
    let subs: Vec<&Command> = cmd.get_subcommands().collect();
    out.push(subs.len().to_string());
    for s in subs { encode(s, out); }
}

fn real_complete(c: &EC, argv: &[Vec<u8>], idx: usize) -> String {
    let r = std::panic::catch_unwind(|| {
        let mut cmd = build(c);
        clap_complete::engine::complete(&mut cmd, argv.iter().map(|a| OsString::from_vec(a.clone())).collect(), idx, None)
    });
    match r {
        Err(_) => "PANIC".into(),
        Ok(Err(_)) => "NONE".into(),
        Ok(Ok(cs)) => {
            let mut items: Vec<String> = cs.iter().map(|c| format!("{}:{}", hex(&c.get_value().to_os_string().into_vec()), b01(c.is_hide_set()))).collect();
            items.sort();
            format!("CANDS {}", items.join(" ")).trim_end().to_string()
        }
    }
}

/// a well-formed prefix: (words, level reached)
/// the third component: is a multi-valued positional open at the cursor (engine state `Pos`)?
fn gen_prefix<'a>(rng: &mut Rng, root: &'a EC) -> (Vec<String>, &'a EC, bool, bool) {
    let mut words = vec![root.name.clone()];
    let mut cur = root;
    for _ in 0..rng.below(5) {
        match rng.below(4) {
            0 => { // a flag
                let flags: Vec<&EA> = cur.args.iter().filter(|a| a.kind == 0).collect();
                if let Some(f) = flags.get(rng.below(flags.len().max(1))) { if let Some(l) = &f.long { words.push(format!("--{l}")); } else if let Some(s) = f.short { words.push(format!("-{s}")); } }
            }
            1 => { // an option with exactly one value, attached
                let opts: Vec<&EA> = cur.args.iter().filter(|a| a.kind == 1 && a.num.is_none()).collect();
                if let Some(o) = opts.get(rng.below(opts.len().max(1))) {
                    let v = o.pvs.as_ref().map(|p| p[0].0.clone()).unwrap_or("v".into());
                    if let Some(l) = &o.long { if rng.chance(1, 2) { words.push(format!("--{l}={v}")); } else { words.push(format!("--{l}")); words.push(v); } }
                    else if let Some(s) = o.short { words.push(format!("-{s}")); words.push(v); }
                    // ... or by one of its shorts (the primary one or a visible alias), value separate or attached
                    if o.long.is_some() && rng.chance(1, 3) { words.pop(); if words.last().map(|x| x.starts_with("--")).unwrap_or(false) && words.len() > 1 { words.pop(); }
                        let v = o.pvs.as_ref().map(|p| p[0].0.clone()).unwrap_or("v".into());
                        let sh: Vec<char> = o.short.iter().chain(o.vshorts.iter()).cloned().collect();
                        if let Some(c) = sh.get(rng.below(sh.len().max(1))) { if rng.chance(1, 2) { words.push(format!("-{c}")); words.push(v); } else { words.push(format!("-{c}{v}")); } } }
                }
            }
            _ => { // descend
                if !cur.subs.is_empty() && rng.chance(2, 3) {
                    let s = &cur.subs[rng.below(cur.subs.len())];
                    let names: Vec<&String> = std::iter::once(&s.name).chain(s.valiases.iter()).chain(s.haliases.iter()).collect();
                    words.push((*rng.pick(&names[..])).clone());
                    cur = s;
                }
            }
        }
    }
    // values for the positionals of the level reached, as the last words before the cursor: the first positional takes
    // one word (state `ValueDone`, second positional next); a word for a multi-valued second positional leaves it open
    let mut pos_state = false;
    // the last positional that received a word takes hyphen values: the PARSER then reads every later `--long` as a value
    let mut after_hyphen_pos = false;
    let ps: Vec<&EA> = cur.args.iter().filter(|a| a.kind == 2).collect();
    if !ps.is_empty() && rng.chance(1, 3) {
        let word = |a: &EA, k: usize| a.pvs.as_ref().map(|p| p[0].0.clone()).unwrap_or(format!("pw{k}"));
        words.push(word(ps[0], 1)); after_hyphen_pos = ps[0].allow_hyphen;
        if ps.len() > 1 && rng.chance(1, 2) { words.push(word(ps[1], 2)); pos_state = ps[1].num.is_some(); after_hyphen_pos = ps[1].allow_hyphen; }
    }
    (words, cur, pos_state, after_hyphen_pos)
}

pub fn run(o: &Opts) -> Report {
    let mut rep = Report::new("C18", "random command trees (depth <= 3; flags, options with 0..many values, positionals, visible and hidden aliases, hidden items, allow_hyphen_values, delimiters, possible values) x (A) well-formed prefixes (flags, option=value / option value pairs, subcommand descents by name / visible alias / hidden alias) followed by a cursor word (empty, -, --, prefixes of longs / subcommands / clusters, junk) and (B) arbitrary argv from a pool with dash-looking values, --, unknown flags, options without their value, clusters, = forms and non-UTF-8 bytes x EVERY cursor index; real engine under catch_unwind; oracle on (A): every option/subcommand candidate extends the word, is a spelling of an option, alias or subcommand of the level reached and is not rejected as unknown by the real parser, every visible option/subcommand with a spelling extending the word is represented, hidden ones only when nothing visible matched; model: the candidate set (value, hidden) or no-completion or panic predicted for every case; non-trivial = cursor index >= 2");
    let mut rng = Rng::new(o.seed ^ 0xC18);
    let n = if o.thorough() { 6000 } else { 500 };
    let mut reqs = vec![]; let mut impls = vec![];
    for ci in 0..n {
        let mut idx = 0;
        let root = gen_ec(&mut rng, 0, &mut idx, "prog".into());
        if std::panic::catch_unwind(|| { let mut c = build(&root); c.build(); }).is_err() { rep.count("invalid_definition(skipped)"); continue; }
        rep.count("commands");
        let mut enc = vec![]; { let mut b = build(&root); b.build(); encode(&b, &mut enc); }
        let enc = enc.join(" ");
        // (A) well-formed prefixes
        for _ in 0..(if o.thorough() { 12 } else { 8 }) {
            let (mut words, level, pos_state, _after_hyphen_pos) = gen_prefix(&mut rng, &root);
            if pos_state { rep.count("wellformed_cases_in_open_positional"); }
            let mut pool: Vec<String> = vec!["".into(), "-".into(), "--".into(), "--o".into(), "--op".into(), "s".into(), "su".into(), "zz".into(), "--zz".into()];
            for a in &level.args { if let Some(l) = &a.long { pool.push(format!("--{}", &l[..l.len() / 2])); pool.push(format!("--{l}")); } if a.kind == 0 { if let Some(s) = a.short { pool.push(format!("-{s}")); } }
                // a cluster that ends in a value-taking short (primary or visible alias): what follows is its value
                if a.kind == 1 { for c in a.short.iter().chain(a.vshorts.iter()) { pool.push(format!("-{c}")); if let Some(f) = level.args.iter().find(|f| f.kind == 0 && f.short.is_some()) { pool.push(format!("-{}{c}", f.short.unwrap())); }
                    if let Some(p) = &a.pvs { pool.push(format!("-{c}{}", &p[0].0[..1])); } } } }
            for s in &level.subs { pool.push(s.name[..s.name.len() / 2].to_string()); pool.push(s.name.clone()); }
            let w = rng.pick(&pool[..]).clone();
            words.push(w.clone());
            let argv: Vec<Vec<u8>> = words.iter().map(|x| x.as_bytes().to_vec()).collect();
            let cursor = argv.len() - 1;
            let got = real_complete(&root, &argv, cursor);
            let key = format!("cmd#{ci} argv={words:?} idx={cursor} level={} {root:?}", level.name);
            rep.case(&format!("{ci} {words:?} {cursor}"), cursor >= 2);
            rep.count("wellformed_cases");
            reqs.push(format!("engine {enc} {cursor} {}{}", argv.len(), argv.iter().map(|a| format!(" {}", if a.is_empty() { "-".to_string() } else { hex(a) })).collect::<String>()));
            impls.push((got.clone(), key.clone()));
            if got == "PANIC" { rep.oracle_fail("engine-panics", &key, "complete panicked"); continue; }
            if !got.starts_with("CANDS") { continue; }
            let cands: Vec<(String, bool)> = got.split(' ').skip(1).filter(|x| !x.is_empty()).map(|x| { let (v, h) = x.split_once(':').unwrap(); (String::from_utf8_lossy(&unhex(v)).to_string(), h == "1") }).collect();
            // spellings of the level
            let mut long_sp: Vec<(String, &EA)> = vec![]; let mut short_sp: Vec<(char, &EA)> = vec![];
            for a in &level.args {
                for l in a.long.iter().chain(a.vlongs.iter()).chain(a.hlongs.iter()) { long_sp.push((format!("--{l}"), a)); }
                for s in a.short.iter().chain(a.vshorts.iter()) { short_sp.push((*s, a)); }
            }
            let sub_sp: Vec<(String, &EC, bool)> = level.subs.iter().flat_map(|s| std::iter::once((s.name.clone(), s, true)).chain(s.valiases.iter().map(move |a| (a.clone(), s, true))).chain(s.haliases.iter().map(move |a| (a.clone(), s, false)))).collect();
            let pos_values: Vec<String> = level.args.iter().filter(|a| a.kind == 2).flat_map(|a| a.pvs.clone().unwrap_or_default().into_iter().map(|p| p.0)).collect();
            // a short cluster whose flags are followed by a value-taking short: the rest of the word is that option's value,
            // so every candidate keeps the cluster up to that short and completes the value (a possible value, if declared)
            let mut value_cluster = false;
            if w.starts_with('-') && !w.starts_with("--") && w.len() >= 2 {
                let chars: Vec<char> = w.chars().skip(1).collect();
                for (i, ch) in chars.iter().enumerate() {
                    match short_sp.iter().find(|(c, _)| c == ch) {
                        Some((_, a)) if a.kind == 0 => continue,
                        Some((_, a)) if a.kind == 1 => {
                            value_cluster = true;
                            let head: String = std::iter::once('-').chain(chars[..=i].iter().cloned()).collect();
                            for (v, _) in &cands {
                                if !v.starts_with(head.as_str()) { rep.oracle_fail("candidate-does-not-extend-word", &key, &format!("candidate {v:?} drops the cluster {head:?} of word {w:?}")); continue; }
                                let val = v[head.len()..].strip_prefix('=').unwrap_or(&v[head.len()..]);
                                if let Some(p) = &a.pvs { let last = val.rsplit(a.delim.unwrap_or('\u{0}')).next().unwrap_or(val);
                                    if !p.iter().any(|(n, _)| n == last) { rep.oracle_fail("candidate-rejected-by-parser", &key, &format!("candidate {v:?}: {val:?} is offered as the value of -{ch} ({}) but is not one of its possible values {p:?}", a.id)); } }
                            }
                            break;
                        }
                        _ => break,
                    }
                }
            }
            for (v, _) in &cands {
                if value_cluster { break; }
                if pos_values.contains(v) { continue; }
                if w.contains('=') { continue; } // `--opt=value` completions are value candidates
                if !v.starts_with(w.as_str()) { rep.oracle_fail("candidate-does-not-extend-word", &key, &format!("candidate {v:?} for word {w:?}")); }
                let is_long = long_sp.iter().any(|(s, _)| s == v) || v == "--help";
                let is_short = v.starts_with('-') && !v.starts_with("--") && v.len() >= 2 && { let last = v.chars().last().unwrap(); short_sp.iter().any(|(c, _)| *c == last) || last == 'h' };
                let is_sub = sub_sp.iter().any(|(s, _, _)| s == v) || v == "help";
                if !(is_long || is_short || is_sub) { rep.oracle_fail("candidate-names-nothing-of-the-level", &key, &format!("candidate {v:?} is not an option, alias or subcommand of level {}", level.name)); continue; }
                // accepted as such by the real parser
                let mut line: Vec<String> = words[..cursor].to_vec(); line.push(v.clone());
                // the rejection must be ABOUT the candidate (an earlier word of the line may be what the parser objects to,
                // e.g. `-yv` read as a hyphen value of the current positional instead of option `-y` with value `v`)
                let r = std::panic::catch_unwind(|| build(&root).ignore_errors(false).try_get_matches_from(line.clone()).err().map(|e| {
                    let named = [clap::error::ContextKind::InvalidArg, clap::error::ContextKind::InvalidSubcommand].iter().filter_map(|c| e.get(*c)).any(|cv| match cv { clap::error::ContextValue::String(x) => x == v, _ => false });
                    (e.kind(), named) }));
                if let Ok(Some((k, named))) = r { if named && matches!(k, clap::error::ErrorKind::UnknownArgument | clap::error::ErrorKind::InvalidSubcommand) && !(is_short && v.len() > 2) {
                    rep.oracle_fail("candidate-rejected-by-parser", &key, &format!("candidate {v:?}: parser says {k:?} for {line:?}")); } }
            }
            // completeness and the hidden rule (only when the word cannot be an option value: no `=`)
            if !w.contains('=') && !value_cluster {
                let any_visible = cands.iter().any(|(_, h)| !*h);
                if any_visible && cands.iter().any(|(_, h)| *h) { rep.oracle_fail("hidden-offered-next-to-visible", &key, &format!("{cands:?}")); }
                for a in level.args.iter().filter(|a| !a.hide && a.kind != 2) {
                    let mut sp: Vec<String> = a.long.iter().chain(a.vlongs.iter()).map(|l| format!("--{l}")).collect();
                    if w.is_empty() || w == "-" { sp.extend(a.short.iter().chain(a.vshorts.iter()).map(|s| format!("-{s}"))); }
                    let all_sp: Vec<String> = a.long.iter().chain(a.vlongs.iter()).chain(a.hlongs.iter()).map(|l| format!("--{l}")).chain(a.short.iter().chain(a.vshorts.iter()).map(|s| format!("-{s}"))).collect();
                    if sp.iter().any(|s| s.starts_with(w.as_str())) && !cands.iter().any(|(v, _)| all_sp.contains(v)) {
                        rep.oracle_fail("visible-option-not-offered", &key, &format!("{} has spelling(s) {sp:?} extending {w:?} but no candidate names it: {cands:?}", a.id));
                    }
                }
                if !w.starts_with('-') && !pos_state {
                    for s in level.subs.iter().filter(|s| !s.hide) {
                        let sp: Vec<&String> = std::iter::once(&s.name).chain(s.valiases.iter()).collect();
                        let all: Vec<&String> = sp.iter().cloned().chain(s.haliases.iter()).collect();
                        if sp.iter().any(|x| x.starts_with(w.as_str())) && !cands.iter().any(|(v, _)| all.contains(&v)) {
                            rep.oracle_fail("visible-subcommand-not-offered", &key, &format!("{} extends {w:?} but is not offered: {cands:?}", s.name));
                        }
                    }
                }
            }
        }
        // (B) arbitrary argv x every cursor index
        let mut all_nodes: Vec<&EC> = vec![&root]; let mut k = 0; while k < all_nodes.len() { let n = all_nodes[k]; for s in &n.subs { all_nodes.push(s); } k += 1; }
        let mut pool: Vec<Vec<u8>> = vec![b"--".to_vec(), b"-".to_vec(), b"--unk".to_vec(), b"-Z".to_vec(), b"".to_vec(), b"=x".to_vec(), b"-5".to_vec(), b"--unk=v".to_vec(), vec![0x2d, 0xff, 0x61], vec![0x2d, 0x2d, 0xfe], vec![0xc3], b"val".to_vec(), b"-a=".to_vec()];
        for nd in &all_nodes {
            pool.push(nd.name.as_bytes().to_vec());
            for a in &nd.args {
                if let Some(l) = &a.long { pool.push(format!("--{l}").into_bytes()); pool.push(format!("--{l}=").into_bytes()); pool.push(format!("--{l}=va").into_bytes()); pool.push(format!("--{}", &l[..l.len() - 1]).into_bytes()); }
                if let Some(s) = a.short { pool.push(format!("-{s}").into_bytes()); pool.push(format!("-{s}x").into_bytes()); pool.push(format!("-{s}=v").into_bytes()); let mut nb = format!("-{s}").into_bytes(); nb.push(0xff); pool.push(nb); }
                if let Some(p) = &a.pvs {
                    let d = a.delim.unwrap_or(',');
                    pool.push(p[0].0.as_bytes().to_vec()); pool.push(format!("{}{d}", p[0].0).into_bytes()); pool.push(format!("{}{d}{}", p[0].0, &p[0].0[..1]).into_bytes());
                    if let Some(l) = &a.long { pool.push(format!("--{l}={}{d}{}", p[0].0, &p[0].0[..1]).into_bytes()); }
                    if let Some(s) = a.short { pool.push(format!("-{s}{}{d}{}", p[0].0, &p[0].0[..1]).into_bytes()); }
                }
            }
        }
        for _ in 0..(if o.thorough() { 10 } else { 6 }) {
            let len = 1 + rng.below(5);
            let mut argv: Vec<Vec<u8>> = vec![b"prog".to_vec()];
            for _ in 0..len { argv.push(rng.pick(&pool[..]).clone()); }
            for cursor in 0..=argv.len() {
                let got = real_complete(&root, &argv, cursor);
                let key = format!("cmd#{ci} argv={:?} idx={cursor} {root:?}", argv.iter().map(|a| String::from_utf8_lossy(a).to_string()).collect::<Vec<_>>());
                rep.case(&format!("{ci} {argv:?} {cursor}"), cursor >= 2);
                rep.count("arbitrary_cases");
                if got == "PANIC" { rep.oracle_fail("engine-panics", &key, "complete panicked"); }
                reqs.push(format!("engine {enc} {cursor} {}{}", argv.len(), argv.iter().map(|a| format!(" {}", if a.is_empty() { "-".to_string() } else { hex(a) })).collect::<String>()));
                impls.push((got, key));
            }
        }
    }
    if o.driver != "none" {
        let model = driver_batch(&o.driver, &reqs, o.par);
        for ((req, m), (i, key)) in reqs.iter().zip(model.iter()).zip(impls.iter()) {
            let mm = if m.starts_with("PANIC") { "PANIC".to_string() } else { m.trim_end().to_string() };
            if &mm != i { rep.disagree("engine", &format!("{key} :: {}", &req[req.len().saturating_sub(120)..]), m, i); }
        }
    }
    rep
}
