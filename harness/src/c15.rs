//! C15 — derived parsers are exactly their command plus field extraction, and round-trip.
use crate::util::*;
use clap::{ArgAction, Args, CommandFactory, FromArgMatches, Parser, Subcommand, ValueEnum};

// ---------------------------------------------------------------- the derive corpus
#[derive(ValueEnum, Clone, Copy, Debug, PartialEq)]
pub enum Mode { Fast, #[value(alias = "s", alias = "slowly")] Slow, #[value(skip)] Internal, #[value(name = "auto-mode")] Auto, #[value(alias = "LAST")] Last, #[value(name = "OAuth2", alias = "TOTP")] Oauth }

#[derive(Args, Clone, Debug, PartialEq, Default)]
pub struct Inner { #[arg(long)] inner_flag: bool, #[arg(long)] inner_opt: Option<String>, #[arg(long)] inner_vec: Vec<String> }

#[derive(Args, Clone, Debug, PartialEq)]
pub struct RemoveArgs { #[arg(long)] force: bool, target: String }

#[derive(Subcommand, Clone, Debug, PartialEq)]
pub enum Sub {
    Add { #[arg(long)] name: Option<String>, #[arg(long)] tag: Vec<String> },
    Remove(RemoveArgs),
    List,
    #[command(subcommand)] Nested(Deep),
}
#[derive(Subcommand, Clone, Debug, PartialEq)]
pub enum Deep { Leaf { #[arg(long)] x: Option<String> }, Twig }

#[derive(Parser, Clone, Debug, PartialEq)]
#[command(name = "big")]
pub struct Big {
    #[arg(long)] flag: bool,
    #[arg(short = 'c', long, action = ArgAction::Count)] count: u8,
    #[arg(long)] req: String,
    #[arg(long)] opt: Option<String>,
    #[arg(long)] optopt: Option<Option<String>>,
    #[arg(long)] vec: Vec<String>,
    #[arg(long)] optvec: Option<Vec<String>>,
    #[arg(long, value_enum)] mode: Option<Mode>,
    #[arg(long, default_value = "dflt")] defaulted: String,
    #[arg(long, value_delimiter = ',')] delim: Vec<String>,
    #[arg(long, allow_negative_numbers = true)] num: Option<i64>,
    #[command(flatten)] inner: Inner,
    #[command(subcommand)] cmd: Option<Sub>,
}

#[derive(Parser, Clone, Debug, PartialEq)]
#[command(name = "pos")]
pub struct Pos { first: String, second: Option<String>, rest: Vec<String>, #[arg(long)] flag: bool }

#[derive(Parser, Clone, Debug, PartialEq)]
#[command(name = "pos2")]
pub struct Pos2 { #[arg(long)] tag: Option<String>, items: Option<Vec<String>>, #[command(subcommand)] cmd: Sub }

// path-spelled `Vec` / `Option`: the documented opt-out of shape inference - a plain required `T`-shaped argument
fn csv(s: &str) -> Result<Vec<String>, std::convert::Infallible> { Ok(s.split(',').map(str::to_owned).collect()) }
fn maybe(s: &str) -> Result<Option<String>, std::convert::Infallible> { Ok(if s == "-" { None } else { Some(s.to_owned()) }) }
#[derive(Parser, Clone, Debug, PartialEq)]
#[command(name = "paths")]
pub struct Paths {
    #[arg(long, value_parser = csv)] list: std::vec::Vec<String>,
    #[arg(value_parser = maybe)] name: std::option::Option<String>,
    #[arg(long)] plain: Vec<String>,
}

// an explicit requirement on a nested subcommand enum: update mode must still relax it
#[derive(Subcommand, Clone, Debug, PartialEq)]
pub enum RemoteCmd { Add { name: String }, Show }
#[derive(Subcommand, Clone, Debug, PartialEq)]
#[command(arg_required_else_help = true)]
pub enum StashCmd { Push { #[arg(short)] message: Option<String> }, Pop }
#[derive(Parser, Clone, Debug, PartialEq)]
#[command(name = "git")]
pub enum Git {
    #[command(subcommand, subcommand_required = true)] Remote(RemoteCmd),
    #[command(subcommand)] Stash(StashCmd),
    Status,
}

// several flattened child enums in one subcommand enum, used as an optional subcommand field and flattened once more
#[derive(Subcommand, Clone, Debug, PartialEq)]
pub enum FlA { Alpha { #[arg(long)] x: Option<String> }, Aleph }
#[derive(Subcommand, Clone, Debug, PartialEq)]
pub enum FlB { Beta { #[arg(long)] y: Option<String> }, Beth }
#[derive(Subcommand, Clone, Debug, PartialEq)]
pub enum FlC { Gamma }
#[derive(Subcommand, Clone, Debug, PartialEq)]
pub enum Both { #[command(flatten)] A(FlA), #[command(flatten)] B(FlB), #[command(flatten)] C(FlC), Own }
#[derive(Parser, Clone, Debug, PartialEq)]
#[command(name = "fl")]
pub struct Fl { #[arg(long)] v: bool, #[command(subcommand)] cmd: Option<Both> }
#[derive(Parser, Clone, Debug, PartialEq)]
#[command(name = "fo")]
pub enum Outer { #[command(flatten)] In(Both), Top }
// a struct-like variant with required fields: an update names the variant and only some of its fields
#[derive(Parser, Clone, Debug, PartialEq)]
#[command(name = "upd")]
pub enum Upd { Fetch { #[arg(long)] depth: u32, #[arg(long)] remote: String, #[arg(long)] tag: Option<String> }, Push(PushArgs), Other }
#[derive(Args, Clone, Debug, PartialEq)]
pub struct PushArgs { #[arg(long)] to: String, #[arg(long)] force: bool }

// a plain field whose only default is CONDITIONAL stays required: a conditional default guarantees no value
#[derive(Parser, Clone, Debug, PartialEq)]
#[command(name = "cd")]
pub struct CondDef { #[arg(long)] mode: Option<String>, #[arg(long, default_value_if("mode", "fast", "9"))] level: u32 }
// `Option<subcommand>` whose variants have only optional leaves (no defaults): an update naming the CURRENT variant
// and some of its args merges in place
#[derive(Subcommand, Clone, Debug, PartialEq)]
pub enum OptSub { Add { #[arg(long)] a: Option<u32>, #[arg(long)] b: Option<u32> }, Sync { #[arg(long)] jobs: Option<u32>, #[arg(long)] name: Option<String> } }
#[derive(Parser, Clone, Debug, PartialEq)]
#[command(name = "os")]
pub struct OptSubHolder { #[arg(long)] tag: Option<String>, #[command(subcommand)] cmd: Option<OptSub> }

// ---------------------------------------------------------------- canonical field values
fn h(s: &str) -> String { if s.is_empty() { "-".into() } else { hex(s.as_bytes()) } }
fn c_one(v: &str) -> String { format!("one:{}", h(v)) }
fn c_opt(v: &Option<String>) -> String { match v { None => "opt:~".into(), Some(x) => format!("opt:{}", h(x)) } }
fn c_optopt(v: &Option<Option<String>>) -> String { match v { None => "optopt:~".into(), Some(None) => "optopt:S~".into(), Some(Some(x)) => format!("optopt:S{}", h(x)) } }
fn c_list(v: &[String]) -> String { v.iter().map(|x| h(x)).collect::<Vec<_>>().join(",") }
fn c_vec(v: &[String]) -> String { format!("vec:{}", c_list(v)) }
fn c_optvec(v: &Option<Vec<String>>) -> String { match v { None => "optvec:~".into(), Some(x) => format!("optvec:S{}", c_list(x)) } }
fn c_groups(v: &[Vec<String>]) -> String { v.iter().map(|g| c_list(g)).collect::<Vec<_>>().join(";") }
fn c_vecvec(v: &[Vec<String>]) -> String { format!("vecvec:{}", c_groups(v)) }
fn c_optvecvec(v: &Option<Vec<Vec<String>>>) -> String { match v { None => "optvecvec:~".into(), Some(x) => format!("optvecvec:S{}", c_groups(x)) } }

/// (id, Ty shape, canonical value) of every `String`-valued field handled through a `Ty` row
fn big_fields(b: &Big) -> Vec<(&'static str, &'static str, String)> {
    vec![("req", "other", c_one(&b.req)), ("opt", "option", c_opt(&b.opt)), ("optopt", "optionOption", c_optopt(&b.optopt)), ("vec", "vec", c_vec(&b.vec)),
        ("optvec", "optionVec", c_optvec(&b.optvec)), 
        ("defaulted", "other", c_one(&b.defaulted)), ("delim", "vec", c_vec(&b.delim)), ("inner_opt", "option", c_opt(&b.inner.inner_opt)), ("inner_vec", "vec", c_vec(&b.inner.inner_vec))]
}
fn pos_fields(p: &Pos) -> Vec<(&'static str, &'static str, String)> { vec![("first", "other", c_one(&p.first)), ("second", "option", c_opt(&p.second)), ("rest", "vec", c_vec(&p.rest))] }
fn pos2_fields(p: &Pos2) -> Vec<(&'static str, &'static str, String)> { vec![("tag", "option", c_opt(&p.tag)), ("items", "optionVec", c_optvec(&p.items))] }

fn entry_of(m: &clap::ArgMatches, id: &str) -> String {
    match m.try_get_raw_occurrences(id) {
        Ok(Some(occ)) => { let gs: Vec<Vec<String>> = occ.map(|g| g.map(|v| v.to_string_lossy().to_string()).collect()).collect();
            format!("{} {}", gs.len(), gs.iter().map(|g| format!("{}{}", g.len(), g.iter().map(|v| format!(" {}", h(v))).collect::<String>())).collect::<Vec<_>>().join(" ")).trim_end().to_string() }
        _ => "~".into(),
    }
}

fn word(rng: &mut Rng) -> String { format!("{}{}", rng.pick(&["v", "val", "x", "a1", "Word"]), rng.below(50)) }
fn words(rng: &mut Rng, lo: usize, hi: usize) -> Vec<String> { let n = lo + rng.below(hi - lo + 1); (0..n).map(|_| word(rng)).collect() }

fn gen_sub(rng: &mut Rng) -> Sub {
    match rng.below(5) {
        0 => Sub::Add { name: if rng.chance(1, 2) { Some(word(rng)) } else { None }, tag: words(rng, 0, 2) },
        1 => Sub::Remove(RemoveArgs { force: rng.chance(1, 2), target: word(rng) }),
        2 => Sub::List,
        3 => Sub::Nested(Deep::Leaf { x: if rng.chance(1, 2) { Some(word(rng)) } else { None } }),
        _ => Sub::Nested(Deep::Twig),
    }
}
fn sub_argv(s: &Sub, out: &mut Vec<String>) {
    match s {
        Sub::Add { name, tag } => { out.push("add".into()); if let Some(n) = name { out.push("--name".into()); out.push(n.clone()); } for t in tag { out.push("--tag".into()); out.push(t.clone()); } }
        Sub::Remove(r) => { out.push("remove".into()); if r.force { out.push("--force".into()); } out.push(r.target.clone()); }
        Sub::List => out.push("list".into()),
        Sub::Nested(Deep::Leaf { x }) => { out.push("nested".into()); out.push("leaf".into()); if let Some(v) = x { out.push("--x".into()); out.push(v.clone()); } }
        Sub::Nested(Deep::Twig) => { out.push("nested".into()); out.push("twig".into()); }
    }
}
fn mode_name(m: Mode) -> &'static str { match m { Mode::Fast => "fast", Mode::Slow => "slow", Mode::Internal => "internal", Mode::Auto => "auto-mode", Mode::Last => "last", Mode::Oauth => "OAuth2" } }

fn gen_big(rng: &mut Rng) -> Big {
    Big {
        flag: rng.chance(1, 2), count: rng.below(4) as u8, req: word(rng), opt: if rng.chance(1, 2) { Some(word(rng)) } else { None },
        optopt: match rng.below(3) { 0 => None, 1 => Some(None), _ => Some(Some(word(rng))) }, vec: words(rng, 0, 3),
        optvec: if rng.chance(1, 2) { Some(words(rng, 1, 3)) } else { None },
        mode: if rng.chance(1, 2) { Some(*rng.pick(&[Mode::Fast, Mode::Slow, Mode::Auto, Mode::Last, Mode::Oauth])) } else { None },
        defaulted: if rng.chance(1, 2) { "dflt".into() } else { word(rng) }, delim: words(rng, 0, 3),
        num: if rng.chance(1, 2) { Some(rng.below(2000) as i64 - 1000) } else { None },
        inner: Inner { inner_flag: rng.chance(1, 2), inner_opt: if rng.chance(1, 2) { Some(word(rng)) } else { None }, inner_vec: words(rng, 0, 2) },
        cmd: if rng.chance(2, 3) { Some(gen_sub(rng)) } else { None },
    }
}
fn big_argv(b: &Big, rng: &mut Rng) -> Vec<String> {
    let mut parts: Vec<Vec<String>> = vec![];
    if b.flag { parts.push(vec!["--flag".into()]); }
    for _ in 0..b.count { parts.push(vec![if rng.chance(1, 2) { "-c".into() } else { "--count".into() }]); }
    parts.push(vec!["--req".into(), b.req.clone()]);
    if let Some(v) = &b.opt { parts.push(if rng.chance(1, 2) { vec![format!("--opt={v}")] } else { vec!["--opt".into(), v.clone()] }); }
    match &b.optopt { None => {}, Some(None) => parts.push(vec!["--optopt".into()]), Some(Some(v)) => parts.push(vec![format!("--optopt={v}")]) }
    if !b.delim.is_empty() { parts.push(vec!["--delim".into(), b.delim.join(",")]); }
    if let Some(m) = b.mode { parts.push(vec!["--mode".into(), mode_name(m).into()]); }
    if b.defaulted != "dflt" || rng.chance(1, 2) { parts.push(vec!["--defaulted".into(), b.defaulted.clone()]); }
    if let Some(n) = b.num { parts.push(vec![format!("--num={n}")]); }
    if b.inner.inner_flag { parts.push(vec!["--inner-flag".into()]); }
    if let Some(v) = &b.inner.inner_opt { parts.push(vec!["--inner-opt".into(), v.clone()]); }
    // shuffle the single-occurrence parts; keep the per-element order of multi-occurrence fields
    for i in (1..parts.len()).rev() { let j = rng.below(i + 1); parts.swap(i, j); }
    // `--optopt` without a value must be followed by another flag, or it would take the next word as its value
    if parts.last().map(|p| p.len() == 1 && p[0] == "--optopt").unwrap_or(false) { let l = parts.pop().unwrap(); parts.insert(0, l); }
    let mut out = vec!["big".to_string()];
    for p in parts { out.extend(p); }
    for v in &b.vec { out.push("--vec".into()); out.push(v.clone()); }
    if let Some(vs) = &b.optvec { for v in vs { out.push("--optvec".into()); out.push(v.clone()); } }
    for v in &b.inner.inner_vec { out.push("--inner-vec".into()); out.push(v.clone()); }
    // a multi-value option must be closed before a subcommand name: end with a flag-like part when needed
    if let Some(s) = &b.cmd { sub_argv(s, &mut out); }
    out
}

pub fn run(o: &Opts) -> Report {
    let mut rep = Report::new("C15", "a corpus of real derived types (bool, counter, required, Option, Option<Option>, Vec, Option<Vec>, Vec<Vec>, Option<Vec<Vec>>, value enum with aliases / skip / rename, default_value, value_delimiter, numbers, flatten, Option<subcommand> and required subcommand with struct / tuple / unit / nested variants, positional required / optional / Vec / Option<Vec>) x random values -> canonical argv -> parse (round trip), random argv incl. invalid ones (parse succeeds exactly when the generated command accepts it), field-by-field comparison with what the matches hold (typed accessors: oracle; raw occurrences through the extracted per-shape rows: model), update sequences, and every name/alias of the value enum; non-trivial = argv with at least 4 tokens");
    let mut rng = Rng::new(o.seed ^ 0xC15);
    let n = if o.thorough() { 20000 } else { 1500 };
    let mut reqs: Vec<String> = vec![]; let mut impls: Vec<String> = vec![]; let mut keys: Vec<String> = vec![];
    // augment: the real command's per-arg action / num_args / required against the rows
    {
        let c = Big::command();
        for (id, ty, pos, is_bool, has_default) in [("flag", "other", 0, 1, 0), ("req", "other", 0, 0, 0), ("opt", "option", 0, 0, 0), ("optopt", "optionOption", 0, 0, 0), ("vec", "vec", 0, 0, 0), ("optvec", "optionVec", 0, 0, 0),
            ("defaulted", "other", 0, 0, 1), ("inner_opt", "option", 0, 0, 0)] {
            let a = c.get_arguments().find(|a| a.get_id() == id).unwrap();
            let mut b = c.clone(); b.build();
            let ab = b.get_arguments().find(|a| a.get_id() == id).unwrap();
            let na = a.get_num_args().map(|r| format!("{r}")).unwrap_or("~".into());
            reqs.push(format!("daugment {ty} {pos} {is_bool} {has_default}")); keys.push(format!("Big::{id} augment"));
            impls.push(format!("{:?} {} {}", ab.get_action(), na, b01(a.is_required_set())));
        }
        let c = Pos::command();
        for (id, ty) in [("first", "other"), ("second", "option"), ("rest", "vec")] {
            let a = c.get_arguments().find(|a| a.get_id() == id).unwrap();
            let mut b = c.clone(); b.build();
            let ab = b.get_arguments().find(|a| a.get_id() == id).unwrap();
            let na = a.get_num_args().map(|r| format!("{r}")).unwrap_or("~".into());
            reqs.push(format!("daugment {ty} 1 0 0")); keys.push(format!("Pos::{id} augment"));
            impls.push(format!("{:?} {} {}", ab.get_action(), na, b01(a.is_required_set())));
        }
    }
    // value enum (a broken derive can make `to_possible_value` answer None for a listed variant: everything under catch_unwind)
    {
        let variants: Vec<(usize, Vec<String>)> = Mode::value_variants().iter().enumerate().map(|(i, v)| {
            let names = std::panic::catch_unwind(|| v.to_possible_value().map(|pv| pv.get_name_and_aliases().map(|s| s.to_string()).collect::<Vec<_>>()));
            match names { Ok(Some(ns)) => (i, ns), _ => { rep.oracle_fail("value-enum-variant-without-possible-value", &format!("Mode variant #{i} {v:?}"), "to_possible_value() is None or panics for a variant listed by value_variants()"); (i, vec![]) } } }).collect();
        // names the DECLARATION gives each listed variant (what must map back), independent of the derive's own tables
        let declared: [(Mode, &[&str]); 5] = [(Mode::Fast, &["fast"]), (Mode::Slow, &["slow", "s", "slowly"]), (Mode::Auto, &["auto-mode"]), (Mode::Last, &["last", "LAST"]), (Mode::Oauth, &["OAuth2", "TOTP"])];
        for (variant, names) in declared { for nm in names {
            rep.count("value_enum_names");
            for ic in [false, true] {
                let r = std::panic::catch_unwind(|| Mode::from_str(nm, ic));
                match r { Ok(Ok(v)) if v == variant => {}, other => rep.oracle_fail("value-enum-name-does-not-map-back", &format!("Mode name {nm:?} ignore_case={ic}"), &format!("from_str gave {other:?}, expected {variant:?}")) }
            }
            let r2 = std::panic::catch_unwind(|| Big::try_parse_from(["big", "--req", "r", "--mode", nm]).map(|b| b.mode));
            match r2 { Ok(Ok(Some(v))) if v == variant => {}, other => rep.oracle_fail("value-enum-name-does-not-map-back", &format!("--mode {nm}"), &format!("parsed {:?}, expected {variant:?}", other.map(|x| x.map_err(|e| e.kind())))) }
        } }
        let enc = format!("{}{}", variants.len(), variants.iter().map(|(i, ns)| format!(" {i} {}{}", ns.len(), ns.iter().map(|n| format!(" {}", h(n))).collect::<String>())).collect::<String>());
        let mut inputs: Vec<String> = variants.iter().flat_map(|(_, ns)| ns.clone()).collect();
        inputs.extend(["FAST", "Slow", "internal", "auto", "S", "last", "LAST", "", "fas", "oauth2", "OAUTH2", "totp", "OAuth"].iter().map(|s| s.to_string()));
        for inp in &inputs { for ic in [false, true] {
            let real = match std::panic::catch_unwind(|| Mode::from_str(inp, ic)) { Ok(Ok(v)) => Mode::value_variants().iter().position(|x| *x == v).unwrap().to_string(), Ok(Err(_)) => "none".into(), Err(_) => "PANIC".into() };
            reqs.push(format!("venum {enc} {} {}", h(inp), b01(ic))); impls.push(real); keys.push(format!("Mode::from_str({inp:?}, {ic})"));
        } }
    }
    for ci in 0..n {
        // (1) round trip + fields on Big
        let v = gen_big(&mut rng);
        let argv = big_argv(&v, &mut rng);
        let key = format!("Big#{ci} argv={argv:?}");
        rep.case(&key, argv.len() >= 4);
        let parsed = std::panic::catch_unwind(|| Big::try_parse_from(argv.clone()));
        let matches = match std::panic::catch_unwind(|| Big::command().try_get_matches_from(argv.clone())) { Ok(m) => m, Err(_) => { rep.oracle_fail("derive-panics", &key, "command().try_get_matches_from panicked"); continue; } };
        match (&parsed, &matches) {
            (Err(_), _) => { rep.oracle_fail("derive-panics", &key, "try_parse_from panicked"); continue; }
            (Ok(p), m) if p.is_ok() != m.is_ok() => { rep.oracle_fail("parse-differs-from-command", &key, &format!("try_parse_from ok={} command ok={}", p.is_ok(), m.is_ok())); continue; }
            _ => {}
        }
        let Ok(Ok(p)) = parsed else { rep.oracle_fail("canonical-argv-rejected", &key, &format!("value {v:?}")); continue; };
        if p != v { rep.oracle_fail("round-trip-changes-value", &key, &format!("printed {v:?}\nparsed  {p:?}")); }
        rep.count("roundtrips_big");
        let m = matches.unwrap();
        // typed oracle
        let t_opt = |id: &str| m.get_one::<String>(id).cloned();
        let t_vec = |id: &str| m.get_many::<String>(id).map(|x| x.cloned().collect::<Vec<_>>());
        let checks: Vec<(&str, bool)> = vec![
            ("flag", p.flag == m.get_flag("flag")), ("count", p.count == m.get_count("count")), ("req", Some(p.req.clone()) == t_opt("req")), ("opt", p.opt == t_opt("opt")),
            ("optopt", p.optopt == if m.contains_id("optopt") { Some(t_opt("optopt")) } else { None }), ("vec", p.vec == t_vec("vec").unwrap_or_default()),
            ("optvec", p.optvec == t_vec("optvec")),
            ("mode", p.mode == m.get_one::<Mode>("mode").copied()), ("defaulted", Some(p.defaulted.clone()) == t_opt("defaulted")), ("delim", p.delim == t_vec("delim").unwrap_or_default()),
            ("num", p.num == m.get_one::<i64>("num").copied()), ("inner_flag", p.inner.inner_flag == m.get_flag("inner_flag")), ("inner_opt", p.inner.inner_opt == t_opt("inner_opt")),
            ("cmd", p.cmd.is_some() == m.subcommand_name().is_some())];
        for (f, ok) in checks { if !ok { rep.oracle_fail("field-differs-from-matches", &key, &format!("field {f} of {p:?}")); } }
        // model: extraction from the raw occurrences through the extracted rows
        for (id, ty, canon) in big_fields(&p) {
            reqs.push(format!("dextract {ty} {}", entry_of(&m, id))); impls.push(canon); keys.push(format!("{key} field {id}"));
        }
        // (2) arbitrary argv: success exactly when the command succeeds
        if ci % 2 == 0 {
            let pool = ["--flag", "-c", "--req", "--opt", "--optopt", "--vec", "--optvec", "--mode", "slowly", "bogus", "--num", "-5", "--delim", "a,b", "--unk", "add", "remove", "list", "nested", "leaf", "--", "val", "--req=r", "--inner-flag", "--tag", "--name", "--force", "twig"];
            let l = rng.below(8);
            let mut a: Vec<String> = vec!["big".into()];
            if rng.chance(3, 4) { a.push("--req=r".into()); }
            for _ in 0..l { a.push(rng.pick(&pool[..]).to_string()); }
            let key2 = format!("Big argv={a:?}");
            let pr = std::panic::catch_unwind(|| Big::try_parse_from(a.clone()));
            let mr = match std::panic::catch_unwind(|| Big::command().try_get_matches_from(a.clone())) { Ok(m) => m, Err(_) => { rep.oracle_fail("derive-panics", &key2, "command().try_get_matches_from panicked"); continue; } };
            rep.case(&key2, a.len() >= 4); rep.count("arbitrary_argv");
            match pr {
                Err(_) => rep.oracle_fail("derive-panics", &key2, "try_parse_from panicked"),
                Ok(r) => {
                    if r.is_ok() != mr.is_ok() { rep.oracle_fail("parse-differs-from-command", &key2, &format!("try_parse_from {:?} vs command {:?}", r.as_ref().map(|_| ()).map_err(|e| e.kind()), mr.as_ref().map(|_| ()).map_err(|e| e.kind()))); }
                    if let (Ok(p), Ok(m)) = (r, mr) { rep.count("arbitrary_argv_ok"); for (id, ty, canon) in big_fields(&p) { reqs.push(format!("dextract {ty} {}", entry_of(&m, id))); impls.push(canon); keys.push(format!("{key2} field {id}")); } }
                }
            }
        }
        // (3) positionals
        if ci % 3 == 0 {
            let pv = Pos { first: word(&mut rng), second: if rng.chance(2, 3) { Some(word(&mut rng)) } else { None }, rest: vec![], flag: rng.chance(1, 2) };
            let pv = Pos { rest: if pv.second.is_some() { words(&mut rng, 0, 3) } else { vec![] }, ..pv };
            let mut a = vec!["pos".to_string(), pv.first.clone()]; if let Some(s) = &pv.second { a.push(s.clone()); } a.extend(pv.rest.iter().cloned()); if pv.flag { a.insert(1 + rng.below(a.len()), "--flag".into()); }
            let key3 = format!("Pos argv={a:?}");
            rep.case(&key3, a.len() >= 4); rep.count("roundtrips_pos");
            match Pos::try_parse_from(a.clone()) { Ok(p) => { if p != pv { rep.oracle_fail("round-trip-changes-value", &key3, &format!("{pv:?} vs {p:?}")); }
                    let m = Pos::command().try_get_matches_from(a.clone()).unwrap();
                    for (id, ty, canon) in pos_fields(&p) { reqs.push(format!("dextract {ty} {}", entry_of(&m, id))); impls.push(canon); keys.push(format!("{key3} field {id}")); } }
                Err(e) => rep.oracle_fail("canonical-argv-rejected", &key3, &format!("{:?}", e.kind())) }
            let p2 = Pos2 { tag: if rng.chance(1, 2) { Some(word(&mut rng)) } else { None }, items: if rng.chance(1, 2) { Some(words(&mut rng, 1, 3)) } else { None }, cmd: gen_sub(&mut rng) };
            let mut a = vec!["pos2".to_string()]; if let Some(t) = &p2.tag { a.push("--tag".into()); a.push(t.clone()); }
            // positional values before a subcommand name would swallow it: Option<Vec> positional is printed only when followed by `--tag`-style separation is impossible, so print items only with subcommand-free shapes
            let p2 = if p2.items.is_some() { Pos2 { items: None, ..p2 } } else { p2 };
            sub_argv(&p2.cmd, &mut a);
            let key4 = format!("Pos2 argv={a:?}");
            rep.case(&key4, a.len() >= 4); rep.count("roundtrips_pos2");
            match Pos2::try_parse_from(a.clone()) { Ok(p) => { if p != p2 { rep.oracle_fail("round-trip-changes-value", &key4, &format!("{p2:?} vs {p:?}")); }
                    let m = Pos2::command().try_get_matches_from(a.clone()).unwrap();
                    for (id, ty, canon) in pos2_fields(&p) { reqs.push(format!("dextract {ty} {}", entry_of(&m, id))); impls.push(canon); keys.push(format!("{key4} field {id}")); } }
                Err(e) => rep.oracle_fail("canonical-argv-rejected", &key4, &format!("{:?}", e.kind())) }
        }
        // (4) update: only the fields named on the command line change
        if ci % 2 == 1 {
            let mut cur = v.clone();
            for _ in 0..1 + rng.below(3) {
                let before = cur.clone();
                let (a, named): (Vec<String>, Vec<&str>) = match rng.below(6) {
                    0 => (vec!["big".into(), "--opt".into(), "upd".into()], vec!["opt"]),
                    1 => (vec!["big".into(), "--vec".into(), "u1".into(), "--vec".into(), "u2".into()], vec!["vec"]),
                    2 => (vec!["big".into(), "--req".into(), "newreq".into()], vec!["req"]),
                    3 => (vec!["big".into()], vec![]),
                    4 => (vec!["big".into(), "--flag".into(), "--inner-opt".into(), "io".into()], vec!["flag", "inner_opt"]),
                    _ => (vec!["big".into(), "--optopt".into()], vec!["optopt"]),
                };
                let keyu = format!("Big update start={before:?} argv={a:?}");
                rep.count("updates");
                let r = std::panic::catch_unwind(move || { let mut c = before.clone(); let r = c.try_update_from(a.clone()); (c, r.map_err(|e| e.kind())) });
                let (after, res) = match r { Ok(x) => x, Err(_) => { rep.oracle_fail("derive-panics", &keyu, "try_update_from panicked"); continue; } };
                if res.is_err() { continue; }
                let before = cur.clone();
                let fields_b = [("flag", format!("{:?}", before.flag)), ("count", format!("{:?}", before.count)), ("req", before.req.clone()), ("opt", format!("{:?}", before.opt)), ("optopt", format!("{:?}", before.optopt)),
                    ("vec", format!("{:?}", before.vec)), ("optvec", format!("{:?}", before.optvec)), ("mode", format!("{:?}", before.mode)),
                    ("defaulted", before.defaulted.clone()), ("delim", format!("{:?}", before.delim)), ("num", format!("{:?}", before.num)), ("inner_flag", format!("{:?}", before.inner.inner_flag)), ("inner_opt", format!("{:?}", before.inner.inner_opt)),
                    ("inner_vec", format!("{:?}", before.inner.inner_vec)), ("cmd", format!("{:?}", before.cmd))];
                let fields_a = [("flag", format!("{:?}", after.flag)), ("count", format!("{:?}", after.count)), ("req", after.req.clone()), ("opt", format!("{:?}", after.opt)), ("optopt", format!("{:?}", after.optopt)),
                    ("vec", format!("{:?}", after.vec)), ("optvec", format!("{:?}", after.optvec)), ("mode", format!("{:?}", after.mode)),
                    ("defaulted", after.defaulted.clone()), ("delim", format!("{:?}", after.delim)), ("num", format!("{:?}", after.num)), ("inner_flag", format!("{:?}", after.inner.inner_flag)), ("inner_opt", format!("{:?}", after.inner.inner_opt)),
                    ("inner_vec", format!("{:?}", after.inner.inner_vec)), ("cmd", format!("{:?}", after.cmd))];
                for ((f, b), (_, a2)) in fields_b.iter().zip(fields_a.iter()) {
                    if !named.contains(f) && b != a2 {
                        // fields whose arg carries an implicit or explicit default (bool, counter, default_value) sit in the matches even when not named
                        let defaulted = matches!(*f, "flag" | "count" | "defaulted" | "inner_flag");
                        rep.oracle_fail(if defaulted { "update-resets-unnamed-field:defaulted-arg" } else { "update-changes-unnamed-field" }, &keyu, &format!("field {f}: {b} -> {a2}"));
                    }
                }
                cur = after;
            }
        }
    }
    // path-spelled types and explicit nested requirements (real crate only)
    for k in 0..(if o.thorough() { 200 } else { 30 }) {
        let items = words(&mut rng, 1, 3);
        let name = if k % 3 == 0 { None } else { Some(word(&mut rng)) };
        let plain = words(&mut rng, 0, 2);
        let v = Paths { list: items.clone(), name: name.clone(), plain: plain.clone() };
        let mut a: Vec<String> = vec!["paths".into(), "--list".into(), items.join(",")];
        for p in &plain { a.push("--plain".into()); a.push(p.clone()); }
        a.push(name.clone().unwrap_or("-".into()));
        let key = format!("Paths argv={a:?}");
        rep.case(&key, true); rep.count("path_spelled_types");
        let a2 = a.clone();
        match std::panic::catch_unwind(move || (Paths::try_parse_from(a2.clone()), Paths::command().try_get_matches_from(a2).map(|m| (m.get_one::<Vec<String>>("list").cloned(), m.get_one::<Option<String>>("name").cloned())))) {
            Err(_) => rep.oracle_fail("derive-panics", &key, "a path-spelled Vec/Option field"),
            Ok((Ok(p), Ok((l, n)))) => { if p != v { rep.oracle_fail("round-trip-changes-value", &key, &format!("{v:?} vs {p:?}")); } if l != Some(items.clone()) || n != Some(name.clone()) { rep.oracle_fail("field-differs-from-matches", &key, &format!("matches hold list={l:?} name={n:?}")); } }
            Ok((p, m)) => rep.oracle_fail("canonical-argv-rejected", &key, &format!("parse ok={} command ok={}", p.is_ok(), m.is_ok())),
        }
        // they are required, like any other plain `T`
        for short in [vec!["paths".to_string(), "--list".into(), "a".into()], vec!["paths".to_string(), "x".into()]] {
            let s2 = short.clone();
            match std::panic::catch_unwind(move || Paths::try_parse_from(s2)) { Err(_) => rep.oracle_fail("derive-panics", &format!("Paths argv={short:?}"), "panicked"), Ok(Ok(p)) => rep.oracle_fail("missing-required-accepted", &format!("Paths argv={short:?}"), &format!("{p:?}")), Ok(Err(_)) => {} }
        }
        // several flattened children: every child's subcommands belong to the enum, wherever the enum is used
        {
            let w = word(&mut rng);
            let both: Vec<(Both, Vec<String>)> = vec![
                (Both::A(FlA::Alpha { x: Some(w.clone()) }), vec!["alpha".into(), "--x".into(), w.clone()]), (Both::A(FlA::Aleph), vec!["aleph".into()]),
                (Both::B(FlB::Beta { y: Some(w.clone()) }), vec!["beta".into(), "--y".into(), w.clone()]), (Both::B(FlB::Beth), vec!["beth".into()]),
                (Both::C(FlC::Gamma), vec!["gamma".into()]), (Both::Own, vec!["own".into()])];
            let (bv_, tail) = both[k % both.len()].clone();
            rep.count("flattened_children");
            // as an optional subcommand field
            let want = Fl { v: k % 2 == 0, cmd: Some(bv_.clone()) };
            let mut a: Vec<String> = vec!["fl".into()]; if want.v { a.push("--v".into()); } a.extend(tail.clone());
            let key = format!("Fl argv={a:?}"); rep.case(&key, true);
            let a2 = a.clone();
            match std::panic::catch_unwind(move || (Fl::try_parse_from(a2.clone()).map_err(|e| e.kind()), Fl::command().try_get_matches_from(a2).map(|m| m.subcommand_name().map(str::to_owned)).map_err(|e| e.kind()))) {
                Err(_) => rep.oracle_fail("derive-panics", &key, "flattened children"),
                Ok((Ok(p), Ok(sc))) => { if p != want { rep.oracle_fail(if p.cmd.is_none() && sc.is_some() { "field-differs-from-matches" } else { "round-trip-changes-value" }, &key, &format!("{want:?} vs {p:?}; the matches hold subcommand {sc:?}")); } }
                Ok((p, m)) => rep.oracle_fail(if p.is_ok() != m.is_ok() { "parse-differs-from-command" } else { "canonical-argv-rejected" }, &key, &format!("parse={p:?} command={m:?}")),
            }
            // flattened once more into an outer enum
            let wanto = Outer::In(bv_.clone());
            let mut ao: Vec<String> = vec!["fo".into()]; ao.extend(tail.clone());
            let keyo = format!("Outer argv={ao:?}"); rep.case(&keyo, true);
            let ao2 = ao.clone();
            match std::panic::catch_unwind(move || (Outer::try_parse_from(ao2.clone()).map_err(|e| e.kind()), Outer::command().try_get_matches_from(ao2).map(|_| ()).map_err(|e| e.kind()))) {
                Err(_) => rep.oracle_fail("derive-panics", &keyo, "flattened children"),
                Ok((Ok(p), Ok(()))) => { if p != wanto { rep.oracle_fail("round-trip-changes-value", &keyo, &format!("{wanto:?} vs {p:?}")); } }
                Ok((p, m)) => rep.oracle_fail(if p.is_ok() != m.is_ok() { "parse-differs-from-command" } else { "canonical-argv-rejected" }, &keyo, &format!("parse={p:?} command={m:?}")),
            }
            // update: switching to a subcommand of a later child, and naming one without fields
            let st = Fl { v: true, cmd: Some(Both::Own) };
            let keyu = format!("Fl update start={st:?} argv={a:?}");
            let st2 = st.clone(); let a3 = a.clone();
            match std::panic::catch_unwind(move || { let mut c = st2; let r = c.try_update_from(a3).map_err(|e| e.kind()); (c, r) }) {
                Err(_) => rep.oracle_fail("derive-panics", &keyu, "try_update_from panicked"),
                Ok((_, Err(kind))) => rep.oracle_fail("update-rejected-by-a-requirement", &keyu, &format!("{kind:?}")),
                Ok((after, Ok(()))) => { if after.cmd != Some(bv_.clone()) { rep.oracle_fail("update-ignores-named-subcommand", &keyu, &format!("{after:?}")); } }
            }
        }
        // a struct-like variant with required fields: the update names the variant and a subset of its fields
        {
            let (d, r, t) = (1 + rng.below(9) as u32, word(&mut rng), word(&mut rng));
            let start = Upd::Fetch { depth: d, remote: r.clone(), tag: None };
            let cases: Vec<(Vec<String>, Upd)> = vec![
                (vec!["upd".into(), "fetch".into(), "--tag".into(), t.clone()], Upd::Fetch { depth: d, remote: r.clone(), tag: Some(t.clone()) }),
                (vec!["upd".into(), "fetch".into()], start.clone()),
                (vec!["upd".into(), "fetch".into(), "--depth".into(), "77".into()], Upd::Fetch { depth: 77, remote: r.clone(), tag: None }),
                (vec!["upd".into()], start.clone())];
            let (argv, want) = cases[k % cases.len()].clone();
            let keyu = format!("Upd update start={start:?} argv={argv:?}");
            rep.count("updates_struct_variant_subset"); rep.case(&keyu, true);
            let st = start.clone();
            match std::panic::catch_unwind(move || { let mut c = st; let r = c.try_update_from(argv).map_err(|e| e.kind()); (c, r) }) {
                Err(_) => rep.oracle_fail("derive-panics", &keyu, "try_update_from panicked"),
                Ok((_, Err(kind))) => rep.oracle_fail("update-rejected-by-a-requirement", &keyu, &format!("{kind:?}")),
                Ok((after, Ok(()))) => { if after != want { rep.oracle_fail("update-changes-unnamed-field", &keyu, &format!("{start:?} -> {after:?}, expected {want:?}")); } }
            }
            let startp = Upd::Push(PushArgs { to: r.clone(), force: false });
            let argvp: Vec<String> = vec!["upd".into(), "push".into(), "--force".into()];
            let keyp = format!("Upd update start={startp:?} argv={argvp:?}");
            let stp = startp.clone();
            match std::panic::catch_unwind(move || { let mut c = stp; let r = c.try_update_from(argvp).map_err(|e| e.kind()); (c, r) }) {
                Err(_) => rep.oracle_fail("derive-panics", &keyp, "try_update_from panicked"),
                Ok((_, Err(kind))) => rep.oracle_fail("update-rejected-by-a-requirement", &keyp, &format!("{kind:?}")),
                Ok((after, Ok(()))) => { if after != Upd::Push(PushArgs { to: r.clone(), force: true }) { rep.oracle_fail("update-changes-unnamed-field", &keyp, &format!("{startp:?} -> {after:?}")); } }
            }
        }
        // update that stops at the outer subcommand: a no-op, whatever requirement the variant or the nested enum declares
        let starts = [(Git::Remote(RemoteCmd::Show), "remote"), (Git::Remote(RemoteCmd::Add { name: word(&mut rng) }), "remote"), (Git::Stash(StashCmd::Pop), "stash"), (Git::Stash(StashCmd::Push { message: Some(word(&mut rng)) }), "stash")];
        let (start, outer) = starts[k % 4].clone();
        let argv = vec!["git", outer];
        let keyu = format!("Git update start={start:?} argv={argv:?}");
        rep.count("updates_nested_requirement");
        let st = start.clone(); let av = argv.clone();
        match std::panic::catch_unwind(move || { let mut c = st.clone(); let r = c.try_update_from(av).map_err(|e| e.kind()); (c, r) }) {
            Err(_) => rep.oracle_fail("derive-panics", &keyu, "try_update_from panicked"),
            Ok((_, Err(kind))) => rep.oracle_fail("update-rejected-by-a-requirement", &keyu, &format!("{kind:?}")),
            Ok((after, Ok(()))) => { if after != start { rep.oracle_fail("update-changes-unnamed-field", &keyu, &format!("{start:?} -> {after:?}")); } }
        }
    }
    // conditional default only: the derived parser and its command agree on every line, and the default fires
    for a in [vec!["cd"], vec!["cd", "--mode", "fast"], vec!["cd", "--mode", "slow"], vec!["cd", "--level", "3"], vec!["cd", "--mode", "slow", "--level", "4"], vec!["cd", "--mode", "fast", "--level", "4"]] {
        let key = format!("CondDef argv={a:?}");
        rep.count("conditional_default_only"); rep.case(&key, a.len() >= 4);
        let a2: Vec<String> = a.iter().map(|x| x.to_string()).collect();
        match std::panic::catch_unwind(move || (CondDef::try_parse_from(a2.clone()).map_err(|e| e.kind()), CondDef::command().try_get_matches_from(a2).map(|_| ()).map_err(|e| e.kind()))) {
            Err(_) => rep.oracle_fail("derive-panics", &key, "conditional default"),
            Ok((p, m)) => {
                if p.is_ok() != m.is_ok() { rep.oracle_fail("parse-differs-from-command", &key, &format!("parse={p:?} command={m:?}")); }
                if let Ok(v) = p {
                    let want = if a.contains(&"--level") { a[a.iter().position(|x| *x == "--level").unwrap() + 1].parse::<u32>().unwrap() } else { 9 };
                    if v.level != want { rep.oracle_fail("field-differs-from-matches", &key, &format!("level = {} expected {want}", v.level)); }
                }
            }
        }
    }
    // Option<subcommand>: update histories naming the current variant with a subset of its args, or the other variant
    for round in 0..(if o.thorough() { 400 } else { 60 }) {
        let mut cur = OptSubHolder { tag: if rng.chance(1, 2) { Some(word(&mut rng)) } else { None },
            cmd: match rng.below(3) { 0 => None, 1 => Some(OptSub::Add { a: Some(1 + rng.below(9) as u32), b: Some(1 + rng.below(9) as u32) }), _ => Some(OptSub::Sync { jobs: Some(1 + rng.below(9) as u32), name: Some(word(&mut rng)) }) } };
        for step in 0..(1 + rng.below(3)) {
            let mut argv = vec!["os".to_string()];
            let mut want = cur.clone();
            if rng.chance(1, 4) { let t = word(&mut rng); argv.extend(["--tag".to_string(), t.clone()]); want.tag = Some(t); }
            match rng.below(3) {
                0 => {}
                1 => {
                    argv.push("add".into());
                    let (mut a0, mut b0) = match &cur.cmd { Some(OptSub::Add { a, b }) => (*a, *b), _ => (None, None) };
                    if rng.chance(1, 2) { let v = 10 + rng.below(9) as u32; argv.extend(["--a".to_string(), v.to_string()]); a0 = Some(v); }
                    if rng.chance(1, 2) { let v = 20 + rng.below(9) as u32; argv.extend(["--b".to_string(), v.to_string()]); b0 = Some(v); }
                    want.cmd = Some(OptSub::Add { a: a0, b: b0 });
                }
                _ => {
                    argv.push("sync".into());
                    let (mut j0, mut n0) = match &cur.cmd { Some(OptSub::Sync { jobs, name }) => (*jobs, name.clone()), _ => (None, None) };
                    if rng.chance(1, 2) { let v = 30 + rng.below(9) as u32; argv.extend(["--jobs".to_string(), v.to_string()]); j0 = Some(v); }
                    if rng.chance(1, 2) { let v = word(&mut rng); argv.extend(["--name".to_string(), v.clone()]); n0 = Some(v); }
                    want.cmd = Some(OptSub::Sync { jobs: j0, name: n0 });
                }
            }
            let key = format!("OptSubHolder update#{round}.{step} start={cur:?} argv={argv:?}");
            // the same step for the model (`Derive.updateOptSub`): the field and the subcommand part of the line
            let enc_val = |v: &Option<OptSub>| match v { None => "~".to_string(),
                Some(OptSub::Add { a, b }) => format!("{} 2 {} {} {} {}", h("add"), h("a"), a.map(|x| h(&x.to_string())).unwrap_or("~".into()), h("b"), b.map(|x| h(&x.to_string())).unwrap_or("~".into())),
                Some(OptSub::Sync { jobs, name }) => format!("{} 2 {} {} {} {}", h("sync"), h("jobs"), jobs.map(|x| h(&x.to_string())).unwrap_or("~".into()), h("name"), name.as_ref().map(|x| h(x)).unwrap_or("~".into())) };
            let enc_line = match argv.iter().position(|w| w == "add" || w == "sync") { None => "~".to_string(), Some(k) => {
                let rest = &argv[k + 1..]; let mut t = format!("{} {}", h(&argv[k]), rest.len() / 2);
                for pair in rest.chunks(2) { t.push_str(&format!(" {} {}", h(&pair[0][2..]), h(&pair[1]))); } t } };
            let req_m = format!("optsub {} {}", enc_val(&cur.cmd), enc_line);
            rep.count("updates_optional_subcommand"); rep.case(&key, argv.len() >= 3);
            let (st, av) = (cur.clone(), argv.clone());
            match std::panic::catch_unwind(move || { let mut c = st; let r = c.try_update_from(av).map_err(|e| e.kind()); (c, r) }) {
                Err(_) => { rep.oracle_fail("derive-panics", &key, "try_update_from panicked"); break; }
                Ok((_, Err(kind))) => { rep.oracle_fail("update-rejected-by-a-requirement", &key, &format!("{kind:?}")); break; }
                Ok((after, Ok(()))) => { if after != want { rep.oracle_fail("update-changes-unnamed-field", &key, &format!("{cur:?} -> {after:?}, expected {want:?}")); }
                    reqs.push(req_m); impls.push(format!("OK {}", enc_val(&after.cmd))); keys.push(key.clone());
                    cur = after; }
            }
        }
    }
    if o.driver != "none" {
        let model = driver_batch(&o.driver, &reqs, o.par);
        for (((req, m), i), k) in reqs.iter().zip(model.iter()).zip(impls.iter()).zip(keys.iter()) {
            if m.trim_end() != i.trim_end() { rep.disagree(req.split(' ').next().unwrap(), &format!("{k} :: {req}"), m, i); }
        }
        rep.count_n("model_field_extractions", reqs.len() as u64);
    }
    rep
}
