//! C05 — everything after `--` is delivered verbatim as positional values.
use crate::invoc::*;
use crate::spec::*;
use crate::util::*;
use clap::error::ErrorKind;
use std::os::unix::ffi::OsStrExt as _;

pub fn run(o: &Opts) -> Report {
    let mut rep = Report::new("C05", "conventional commands whose last positional is multi-valued (with/without last(true), with options, flags, a subcommand, inference) x prefixes rendered from random invocations x tails over {--help,-h,-x,--alpha=v,--,'',plain,-,--version,non-UTF-8,-<0xff>,help,sub1,a,b}*; oracle: positionals receive pre-positionals ++ tail byte-for-byte, no subcommand/help/version from the tail, non-positional args equal those of the prefix alone; model must predict the whole ArgMatches; non-trivial = tail of >= 2 tokens; distinct by canonical request");
    let mut rng = Rng::new(o.seed ^ 0xC05);
    let mut reqs = vec![]; let mut impls = vec![];
    let n_cmds = if o.thorough() { 10000 } else { 1500 };
    let mut done = 0;
    while done < n_cmds {
        let mut cv = gen_conventional(&mut rng, true);
        let Some(&lastp) = cv.pos.last() else { continue };
        if !is_multi(&cv.cmd.args[lastp]) { continue; }
        // the tail-receiving positional takes bytes as they are
        cv.cmd.args[lastp].delim = None;
        if rng.chance(1, 2) { cv.cmd.args[lastp].vp = Some(VpS::Os); }
        // exotic value settings on the collecting args: negative numbers / hyphen values
        let neg = rng.chance(1, 3);
        if neg { for &i in cv.opts.iter().chain(cv.pos.iter()) { if rng.chance(1, 2) { cv.cmd.args[i].allow_negative = true; } } }
        let hyph = !neg && rng.chance(1, 5);
        if hyph { for &i in cv.opts.iter() { if rng.chance(1, 2) { cv.cmd.args[i].allow_hyphen = true; } } }
        let use_last = rng.chance(1, 4);
        if use_last { cv.cmd.args[lastp].last = true; }
        // a capturing last positional that is not `last`: the tail still fills the positionals in order
        let tva = !use_last && rng.chance(1, 3);
        if tva { cv.cmd.args[lastp].trailing_var_arg = true; }
        // early-tail mode: `--` arrives before every single positional is filled, the tail fills them in order
        let early_tail = !use_last && cv.pos.len() >= 2 && rng.chance(1, 3);
        if early_tail { for &i in cv.pos.iter() { cv.cmd.args[i].delim = None; } }
        if rng.chance(1, 2) { cv.cmd.subs.push(CmdS { name: "sub1".into(), args: vec![ArgS { id: "x".into(), long: Some("xx".into()), action: Some("setTrue"), ..Default::default() }], ..Default::default() }); cv.cmd.settings.infer_subcommands = rng.chance(1, 3); }
        // `dont_delimit_trailing_values` concerns values after `--` only; an option that stands right before the `--` without
        // a value gets its `default_missing_value`, split at the option's delimiter like any other value
        if rng.chance(1, 3) { cv.cmd.settings.dont_delimit_trailing_values = true; }
        for &i in cv.opts.iter() { let a = &mut cv.cmd.args[i]; if let (Some(d), false) = (a.delim, a.default_missing.is_empty()) { if rng.chance(2, 3) { a.default_missing = vec![format!("dm1{d}dm2")]; } } }
        if !real_valid(&cv.cmd) { rep.count("invalid_definition(skipped)"); continue; }
        done += 1;
        for _ in 0..10 {
            let mut inv = gen_invocation(&mut rng, &cv, true);
            if use_last { // with `last`, values for the last positional may only come after `--`
                let single = cv.pos.len() - 1; let mut seen = 0;
                inv.items.retain(|it| match it { Item::Pos { .. } => { seen += 1; seen <= single } _ => true });
                for it in inv.items.iter_mut() { if let Item::Pos { vals } = it { vals.truncate(1); } }
                if inv.items.iter().filter(|it| matches!(it, Item::Pos { .. })).count() < single { continue; }
                if inv.tail.is_none() { inv.tail = Some(vec![b"t".to_vec()]); }
            }
            if tva { // once a trailing_var_arg positional collects, `--` itself is one of its values (documented): keep it empty before the `--`
                let single = cv.pos.len() - 1; let mut seen = 0;
                inv.items.retain(|it| match it { Item::Pos { .. } => { seen += 1; seen <= single } _ => true });
                for it in inv.items.iter_mut() { if let Item::Pos { vals } = it { vals.truncate(1); } }
            }
            if early_tail && inv.tail.is_some() {
                // drop the last single-positional value of the prefix (and what the multi positional got): the tail supplies them
                let mut kept = 0; let singles = cv.pos.len() - 1; let drop_from = rng.below(singles);
                inv.items.retain(|it| match it { Item::Pos { .. } => { kept += 1; kept <= drop_from } _ => true });
                if inv.tail.as_ref().map(|t| t.is_empty()).unwrap_or(true) { inv.tail = Some(vec![b"t1".to_vec(), b"-t2".to_vec()]); }
            }
            let Some(tail) = inv.tail.clone() else { continue };
            let mut tail = tail;
            if rng.chance(1, 3) { tail.push(b"sub1".to_vec()); }
            inv.tail = Some(tail.clone());
            let mut argv = render(&mut rng, &cv, &inv, false);
            // sometimes the arg that is collecting when `--` arrives has just taken a negative number
            if neg && !tva && rng.chance(1, 2) { let at = argv.len() - tail.len() - 1; argv.insert(at, rng.pick(&["-1", "-2.5", "-3e4"]).as_bytes().to_vec()); }
            let pre: Vec<Vec<u8>> = argv[..argv.len() - tail.len() - 1].to_vec();
            // an option that takes hyphen values may legitimately swallow the `--` (documented); skip those lines
            if hyph { let (c0, _, _) = real_parse(&cv.cmd, &pre); let _ = c0; }
            let (canon, mm, err) = real_parse(&cv.cmd, &argv);
            let (_, pm, _) = real_parse(&cv.cmd, &pre);
            let req = parse_request(&cv.cmd, &argv);
            match (&mm, &err) {
                // an option taking hyphen values may legitimately swallow `--` and what follows (documented exemption):
                // those lines only go through the model comparison
                (Some(_), _) | (None, Some(_)) if hyph => {}
                (Some(m), _) => {
                    if m.subcommand_name().is_some() { rep.oracle_fail("tail-token-dispatched-a-subcommand", &req, &format!("{:?}", m.subcommand_name())); }
                    // positional values, in index order
                    let posvals = |mt: &clap::ArgMatches| -> Vec<Vec<u8>> { cv.pos.iter().flat_map(|&i| mt.get_raw(&cv.cmd.args[i].id).map(|r| r.map(|v| v.as_bytes().to_vec()).collect::<Vec<_>>()).unwrap_or_default()).collect() };
                    let got = posvals(m);
                    if let Some(pmt) = &pm {
                        let mut exp = posvals(pmt);
                        // splitting of earlier (single) positionals at their delimiter is the same in both parses
                        exp.extend(tail.iter().cloned());
                        // … and in order: tail tokens first fill the single positionals the prefix left empty, the rest goes to the last one
                        if !hyph {
                            let per = |mt: &clap::ArgMatches, i: usize| -> Vec<Vec<u8>> { mt.get_raw(&cv.cmd.args[i].id).map(|r| r.map(|v| v.as_bytes().to_vec()).collect::<Vec<_>>()).unwrap_or_default() };
                            let mut it = tail.iter();
                            for (k, &i) in cv.pos.iter().enumerate() {
                                let mut want = per(pmt, i);
                                if k + 1 < cv.pos.len() { if want.is_empty() { if let Some(t) = it.next() { want.push(t.clone()); } } } else { want.extend(it.by_ref().cloned()); }
                                let have = per(m, i);
                                if have != want { rep.oracle_fail("tail-fills-positionals-out-of-order", &req, &format!("{}: got {:?} expected {:?}", cv.cmd.args[i].id, have.iter().map(|v| String::from_utf8_lossy(v).to_string()).collect::<Vec<_>>(), want.iter().map(|v| String::from_utf8_lossy(v).to_string()).collect::<Vec<_>>())); break; }
                            }
                        }
                        if got != exp && !hyph { rep.oracle_fail("tail-not-delivered-verbatim", &req, &format!("positionals got {:?} expected {:?}", got.iter().map(|v| String::from_utf8_lossy(v).to_string()).collect::<Vec<_>>(), exp.iter().map(|v| String::from_utf8_lossy(v).to_string()).collect::<Vec<_>>())); }
                        for &i in cv.opts.iter().chain(cv.flags.iter()) {
                            let id = &cv.cmd.args[i].id;
                            let a: Vec<Vec<u8>> = m.get_raw(id).map(|r| r.map(|v| v.as_bytes().to_vec()).collect()).unwrap_or_default();
                            let b: Vec<Vec<u8>> = pmt.get_raw(id).map(|r| r.map(|v| v.as_bytes().to_vec()).collect()).unwrap_or_default();
                            if a != b || m.value_source(id) != pmt.value_source(id) { rep.oracle_fail("tail-changed-an-option-or-flag", &req, &format!("{id}: with tail {:?}, without {:?}", a, b)); }
                        }
                    } else if !got.ends_with(&tail) { rep.oracle_fail("tail-not-delivered-verbatim", &req, &format!("positionals got {:?}", got.iter().map(|v| String::from_utf8_lossy(v).to_string()).collect::<Vec<_>>())); }
                }
                (None, Some(e)) => {
                    match e.kind() {
                        ErrorKind::DisplayHelp | ErrorKind::DisplayVersion | ErrorKind::InvalidSubcommand | ErrorKind::DisplayHelpOnMissingArgumentOrSubcommand => rep.oracle_fail("tail-token-interpreted", &req, &format!("{:?}", e.kind())),
                        ErrorKind::UnknownArgument if pm.is_some() && !hyph => rep.oracle_fail("tail-token-interpreted", &req, &format!("UnknownArgument although the prefix alone parses: argv={:?}", argv.iter().map(|a| String::from_utf8_lossy(a).to_string()).collect::<Vec<_>>())),
                        _ => {}
                    }
                }
                _ => rep.oracle_fail("panic", &req, &canon),
            }
            rep.case(&req, tail.len() >= 2);
            rep.count(if canon.starts_with("OK") { "ok" } else { "rejected" });
            if use_last { rep.count("with_last"); }
            reqs.push(req); impls.push(canon);
        }
    }
    if o.driver != "none" {
        let model = driver_batch(&o.driver, &reqs, o.par);
        for ((req, m), i) in reqs.iter().zip(model.iter()).zip(impls.iter()) { if m != i { rep.disagree("parse", req, m, i); } }
    }
    {
        use crate::pcorr::*;
        // `subcommand_precedence_over_arg` does not reach behind `--`
        let mk = || { let mut c = CmdS { name: "prog".into(), ..Default::default() };
            c.settings.subcommand_precedence_over_arg = true;
            c.args.push(ArgS { id: "verbose".into(), short: Some('v'), action: Some("setTrue"), ..Default::default() });
            c.args.push(ArgS { id: "rest".into(), num_vals: Some((0, None)), ..Default::default() });
            let mut run = CmdS { name: "run".into(), aliases: vec!["r".into()], ..Default::default() };
            run.args.push(ArgS { id: "what".into(), num_vals: Some((0, None)), ..Default::default() });
            c.subs.push(run); c };
        let cases: Vec<(CmdS, Vec<Vec<u8>>, Expect)> = vec![
            (mk(), bv(&["prog", "-v", "--", "a", "run", "b"]), Box::new(|m| { want_no_sub(m)?; want_occs(m, &[], "rest", &[&["a", "run", "b"]]) })),
            (mk(), bv(&["prog", "--", "x", "help", "run"]), Box::new(|m| { want_no_sub(m)?; want_occs(m, &[], "rest", &[&["x", "help", "run"]]) })),
            (mk(), bv(&["prog", "--", "r", "--", ""]), Box::new(|m| { want_no_sub(m)?; want_occs(m, &[], "rest", &[&["r", "--", ""]]) })),
            (mk(), bv(&["prog", "a", "run", "b"]), Box::new(|m| { want_occs(m, &[], "rest", &[&["a"]])?; want_occs(m, &["run"], "what", &[&["b"]]) })),
        ];
        run_expect(&mut rep, o, "tail-token-dispatched-as-subcommand", cases);
        // `[inputs]... [-- <rest>...]`: the whole tail belongs to the `last(true)` positional
        let mk2 = |lo: usize| { let mut c = CmdS { name: "prog".into(), ..Default::default() };
            c.args.push(ArgS { id: "verbose".into(), short: Some('v'), action: Some("setTrue"), ..Default::default() });
            c.args.push(ArgS { id: "inputs".into(), num_vals: Some((lo, None)), ..Default::default() });
            c.args.push(ArgS { id: "rest".into(), num_vals: Some((0, None)), last: true, ..Default::default() }); c };
        let mut cases2: Vec<(CmdS, Vec<Vec<u8>>, Expect)> = vec![];
        for lo in [0usize, 1] {
            cases2.push((mk2(lo), bv(&["prog", "in1", "in2", "--", "a", "b", "c"]), Box::new(|m| { want_occs(m, &[], "inputs", &[&["in1", "in2"]])?; want_occs(m, &[], "rest", &[&["a", "b", "c"]]) })));
            cases2.push((mk2(lo), bv(&["prog", "-v", "in1", "--", "a", "--", "", "run", "--opt=x"]), Box::new(|m| { want_occs(m, &[], "inputs", &[&["in1"]])?; want_occs(m, &[], "rest", &[&["a", "--", "", "run", "--opt=x"]]) })));
            cases2.push((mk2(lo), bv(&["prog", "in1", "--", "--help", "-v", "x", "y"]), Box::new(|m| want_occs(m, &[], "rest", &[&["--help", "-v", "x", "y"]]))));
        }
        run_expect(&mut rep, o, "tail-diverted-from-the-last-positional", cases2);
    }
    crate::pcorr::run_generic(&mut rep, o, 0xC05);
    rep
}
