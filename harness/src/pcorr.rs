//! Shared correspondence loop for the parser-level properties: generate valid commands,
//! generate argv for each, run the real parser and the Lean model, compare.
use crate::spec::*;
use crate::util::*;
use clap::ArgMatches;

pub struct Case<'a> {
    pub cmd: &'a CmdS,
    pub argv: &'a [Vec<u8>],
    pub canon: &'a str,
    pub matches: Option<&'a ArgMatches>,
    pub err: Option<&'a clap::Error>,
    pub req: &'a str,
}

pub fn run<F: FnMut(&Case<'_>, &mut Report)>(rep: &mut Report, o: &Opts, cfg: GenCfg, n_cmds: usize, n_argv: usize, maxlen: usize,
    seed_salt: u64, mut gen_extra: impl FnMut(&mut Rng, &CmdS) -> Vec<Vec<Vec<u8>>>, mut oracle: F) {
    let mut rng = Rng::new(o.seed ^ seed_salt);
    let mut reqs = vec![];
    let mut impls = vec![];
    let mut readable: Vec<String> = vec![];
    let mut tried = 0u64;
    let mut accepted = 0u64;
    let mut wf_reqs: Vec<String> = vec![];
    while (accepted as usize) < n_cmds && tried < (n_cmds as u64) * 30 {
        tried += 1;
        let cmd = gen_cmd(&mut rng, &cfg, 0, "prog");
        if !real_valid(&cmd) { rep.count("generated_invalid_definition(skipped)"); continue; }
        accepted += 1;
        if rep.check_wf { wf_reqs.push(format!("wf {} {}", cmd.depth(), cmd.encode())); }
        let mut argvs: Vec<Vec<Vec<u8>>> = (0..n_argv).map(|_| gen_argv(&mut rng, &cmd, maxlen)).collect();
        argvs.extend(gen_extra(&mut rng, &cmd));
        for argv in argvs {
            let (canon, m, e) = real_parse(&cmd, &argv);
            let req = parse_request(&cmd, &argv);
            let case = Case { cmd: &cmd, argv: &argv, canon: &canon, matches: m.as_ref(), err: e.as_ref(), req: &req };
            oracle(&case, rep);
            let key = canon.split(' ').take(2).collect::<Vec<_>>().join(" ");
            rep.count(&format!("outcome:{}", if canon.starts_with("OK") { "OK".to_string() } else { key }));
            rep.case(&req, canon.starts_with("OK") && argv.len() > 2);
            readable.push(format!("{}\nargv={:?}", cmd.summary(0), argv.iter().map(|a| String::from_utf8_lossy(a).to_string()).collect::<Vec<_>>()));
            reqs.push(req);
            impls.push(canon);
        }
    }
    rep.count_n("valid_definitions", accepted);
    if o.driver != "none" && !wf_reqs.is_empty() {
        // do the hypotheses of the totality theorem (Clap.C01.tryGetMatchesFrom_total) hold for the built model of
        // each command the real library accepted? (statistics: how much of the generated space the theorem covers)
        for (req, m) in wf_reqs.iter().zip(driver_batch(&o.driver, &wf_reqs, o.par).iter()) {
            if m.starts_with("WF tree=1 height=1") { rep.count("totality_theorem_hypotheses_hold"); }
            if m.ends_with("user=1") { rep.count("totality_theorem_user_level_hypotheses_hold"); }
            if !(m == "WF tree=1 height=1 user=1") { rep.count(&format!("totality_theorem_hypotheses_fail:{m}")); if rep.notes.len() < 12 { rep.notes.push(format!("WF hypothesis not met: {m} for {req}")); } }
        }
    }
    if o.driver != "none" {
        let model = driver_batch(&o.driver, &reqs, o.par);
        for (idx, ((req, m), i)) in reqs.iter().zip(model.iter()).zip(impls.iter()).enumerate() {
            let same = if i.starts_with("PANIC") && m.starts_with("ERR PANIC") { true } else { m == i };
            if !same { rep.disagree("parse", req, m, i); if rep.notes.len() < 12 { rep.notes.push(readable[idx].clone()); } }
        }
    }
}

/// fixed witnesses (corpus of past findings): same treatment as generated cases, always run
pub fn run_fixed<F: FnMut(&Case<'_>, &mut Report)>(rep: &mut Report, o: &Opts, cases: &[(CmdS, Vec<Vec<u8>>)], mut oracle: F) {
    let mut reqs = vec![]; let mut impls = vec![];
    for (cmd, argv) in cases {
        if !real_valid(cmd) { rep.notes.push(format!("fixed witness no longer a valid definition: {}", cmd.summary(0))); continue; }
        let (canon, m, e) = real_parse(cmd, argv);
        let req = parse_request(cmd, argv);
        let case = Case { cmd, argv, canon: &canon, matches: m.as_ref(), err: e.as_ref(), req: &req };
        oracle(&case, rep);
        rep.case(&req, true);
        rep.count("fixed_witnesses");
        reqs.push(req); impls.push(canon);
    }
    if o.driver != "none" {
        let model = driver_batch(&o.driver, &reqs, 1);
        for ((req, m), i) in reqs.iter().zip(model.iter()).zip(impls.iter()) {
            let same = if i.starts_with("PANIC") && m.starts_with("ERR PANIC") { true } else { m == i };
            if !same { rep.disagree("parse", req, m, i); }
        }
    }
}


/// the widest generator (every modelled setting) as a second pass of a property's check: the parser model is one
/// model, so a change that moves the real parser away from it anywhere is a broken tie for every parser property
pub fn run_generic(rep: &mut Report, o: &Opts, salt: u64) {
    let cfg = GenCfg { relations: true, defaults: true, subs: true, exotic: true, groups: true, flagsubs: true, settings: true, globals: true };
    let (n_cmds, n_argv) = if o.thorough() { (6000, 25) } else { (1000, 16) };
    run(rep, o, cfg, n_cmds, n_argv, 7, salt ^ 0x9e37, |_, _| vec![], |case, rep| {
        if case.canon.starts_with("PANIC") { rep.oracle_fail("panic", case.req, case.canon); }
        rep.count("generic_pass_cases");
    });
}


pub type Expect = Box<dyn Fn(&ArgMatches) -> Result<(), String>>;

/// hand-picked shapes with a stated expectation on the real matches (plus the usual model comparison)
pub fn run_expect(rep: &mut Report, o: &Opts, class: &str, cases: Vec<(CmdS, Vec<Vec<u8>>, Expect)>) {
    let mut reqs = vec![]; let mut impls = vec![];
    for (cmd, argv, expect) in &cases {
        if !real_valid(cmd) { rep.notes.push(format!("{class}: shape is not a valid definition: {}", cmd.summary(0))); continue; }
        let (canon, m, e) = real_parse(cmd, argv);
        let req = parse_request(cmd, argv);
        let shown: Vec<String> = argv.iter().map(|a| String::from_utf8_lossy(a).to_string()).collect();
        match (&m, &e) {
            (Some(m), _) => { if let Err(msg) = expect(m) { rep.oracle_fail(class, &req, &format!("{msg}; argv={shown:?}")); } }
            (None, Some(e)) => rep.oracle_fail(class, &req, &format!("rejected with {:?}; argv={shown:?}", e.kind())),
            _ => rep.oracle_fail("panic", &req, &canon),
        }
        rep.case(&req, true);
        rep.count(&format!("shape:{class}"));
        reqs.push(req); impls.push(canon);
    }
    if o.driver != "none" {
        let model = driver_batch(&o.driver, &reqs, 1);
        for ((req, m), i) in reqs.iter().zip(model.iter()).zip(impls.iter()) { if m != i { rep.disagree("parse", req, m, i); } }
    }
}

/// shapes that must be REJECTED with a given kind (plus the usual model comparison)
pub fn run_expect_kind(rep: &mut Report, o: &Opts, class: &str, cases: Vec<(CmdS, Vec<Vec<u8>>, clap::error::ErrorKind)>) {
    let mut reqs = vec![]; let mut impls = vec![];
    for (cmd, argv, kind) in &cases {
        if !real_valid(cmd) { rep.notes.push(format!("{class}: shape is not a valid definition: {}", cmd.summary(0))); continue; }
        let (canon, m, e) = real_parse(cmd, argv);
        let req = parse_request(cmd, argv);
        let shown: Vec<String> = argv.iter().map(|a| String::from_utf8_lossy(a).to_string()).collect();
        match (&m, &e) {
            (Some(_), _) => rep.oracle_fail(class, &req, &format!("accepted, expected {kind:?}; argv={shown:?}")),
            (None, Some(e)) => { if e.kind() != *kind { rep.oracle_fail(class, &req, &format!("rejected with {:?}, expected {kind:?}; argv={shown:?}", e.kind())); } }
            _ => rep.oracle_fail("panic", &req, &canon),
        }
        rep.case(&req, true);
        rep.count(&format!("shape:{class}"));
        reqs.push(req); impls.push(canon);
    }
    if o.driver != "none" {
        let model = driver_batch(&o.driver, &reqs, 1);
        for ((req, m), i) in reqs.iter().zip(model.iter()).zip(impls.iter()) { if m != i { rep.disagree("parse", req, m, i); } }
    }
}

pub fn bv(v: &[&str]) -> Vec<Vec<u8>> { v.iter().map(|x| x.as_bytes().to_vec()).collect() }

/// the raw occurrences of `id` at the level reached through `path`
pub fn occs(m: &ArgMatches, path: &[&str], id: &str) -> Result<Vec<Vec<Vec<u8>>>, String> {
    use std::os::unix::ffi::OsStrExt as _;
    let mut cur = m;
    for p in path { match cur.subcommand() { Some((n, sm)) if n == *p => cur = sm, other => return Err(format!("expected subcommand {p:?}, found {:?}", other.map(|x| x.0))) } }
    Ok(cur.try_get_raw_occurrences(id).map_err(|e| format!("{e}"))?.map(|o| o.map(|g| g.map(|v| v.as_bytes().to_vec()).collect()).collect()).unwrap_or_default())
}

pub fn want_occs(m: &ArgMatches, path: &[&str], id: &str, want: &[&[&str]]) -> Result<(), String> {
    let got = occs(m, path, id)?;
    let want: Vec<Vec<Vec<u8>>> = want.iter().map(|g| g.iter().map(|x| x.as_bytes().to_vec()).collect()).collect();
    if got != want { return Err(format!("`{id}` at {path:?}: got {:?}, expected {:?}", got.iter().map(|g| g.iter().map(|v| String::from_utf8_lossy(v).to_string()).collect::<Vec<_>>()).collect::<Vec<_>>(), want.iter().map(|g| g.iter().map(|v| String::from_utf8_lossy(v).to_string()).collect::<Vec<_>>()).collect::<Vec<_>>())); }
    Ok(())
}

pub fn want_no_sub(m: &ArgMatches) -> Result<(), String> { match m.subcommand_name() { None => Ok(()), Some(n) => Err(format!("a subcommand was dispatched: {n:?}")) } }
pub fn want_source(m: &ArgMatches, id: &str, want: Option<clap::parser::ValueSource>) -> Result<(), String> { let got = m.value_source(id); if got == want { Ok(()) } else { Err(format!("value_source({id}) = {got:?}, expected {want:?}")) } }
