//! C11 — parsing is deterministic, re-entrant and independent of build timing.
use crate::spec::*;
use crate::util::*;
use clap::Command;

#[derive(Clone, Debug)]
enum Op { Parse(usize), Build, Help, LongHelp, Usage, Clone }

fn run_parse(cmd: &mut Command, argv: &[Vec<u8>]) -> (String, String) {
    let r = std::panic::catch_unwind(std::panic::AssertUnwindSafe(|| cmd.try_get_matches_from_mut(argv_os(argv))));
    match r {
        Err(_) => ("PANIC".into(), String::new()),
        Ok(Ok(m)) => (format!("OK {}", canon_matches(&m)), String::new()),
        Ok(Err(e)) => (format!("ERR {}", canon_kind(e.kind())), e.render().to_string()),
    }
}

pub fn run(o: &Opts) -> Report {
    let mut rep = Report::new("C11", "random valid command trees (all modelled settings) x a pool of argv per command (successful, failing with various kinds, help/version) x histories of {try_get_matches_from_mut(argv_i), build(), render_help(), render_long_help(), render_usage(), clone()} on ONE Command value (exhaustive short histories, random up to length 10); oracle: every parse in a history returns the same matches / kind AND the same rendered message as a fresh Command; model predicts the fresh result; non-trivial = history with >= 2 operations before the compared parse; distinct by (request, history)");
    let mut rng = Rng::new(o.seed ^ 0xC11);
    let cfg = GenCfg { relations: true, defaults: true, subs: true, exotic: true, groups: true, flagsubs: true, settings: true, globals: true };
    let mut reqs = vec![]; let mut impls = vec![];
    let n_cmds = if o.thorough() { 5000 } else { 700 };
    let mut done = 0;
    while done < n_cmds {
        let spec = gen_cmd(&mut rng, &cfg, 0, "prog");
        if !real_valid(&spec) { rep.count("invalid_definition(skipped)"); continue; }
        done += 1;
        let mut pool: Vec<Vec<Vec<u8>>> = (0..5).map(|_| gen_argv(&mut rng, &spec, 6)).collect();
        pool.push(vec![b"prog".to_vec(), b"--help".to_vec()]);
        pool.push(vec![b"prog".to_vec(), b"--zzzz".to_vec()]);
        pool.push(vec![b"prog".to_vec()]);
        // fresh results
        let mut envs: Vec<String> = vec![];
        let fresh: Vec<(String, String)> = pool.iter().map(|a| { envs.clear(); let mut c = spec.build(&mut envs); run_parse(&mut c, a) }).collect();
        for (i, a) in pool.iter().enumerate() { reqs.push(parse_request(&spec, a)); impls.push(fresh[i].0.clone()); }
        // histories
        let mut hists: Vec<Vec<Op>> = vec![];
        let base_ops = [Op::Build, Op::Help, Op::LongHelp, Op::Usage, Op::Clone];
        for a in &base_ops { for i in 0..pool.len().min(3) { hists.push(vec![a.clone(), Op::Parse(i)]); } }
        for i in 0..pool.len() { for j in 0..pool.len() { if (i + j + done) % 3 == 0 { hists.push(vec![Op::Parse(i), Op::Parse(j)]); } } }
        for _ in 0..(if o.thorough() { 30 } else { 12 }) {
            let l = 2 + rng.below(9);
            hists.push((0..l).map(|_| match rng.below(10) { 0 => Op::Build, 1 => Op::Help, 2 => Op::LongHelp, 3 => Op::Usage, 4 => Op::Clone, _ => Op::Parse(rng.below(pool.len())) }).collect());
        }
        for h in &hists {
            envs.clear();
            let mut cmd = spec.build(&mut envs);
            let mut trace = vec![];
            for (k, op) in h.iter().enumerate() {
                trace.push(format!("{op:?}"));
                let r = std::panic::catch_unwind(std::panic::AssertUnwindSafe(|| match op {
                    Op::Build => { cmd.build(); None }
                    Op::Help => { let _ = cmd.render_help(); None }
                    Op::LongHelp => { let _ = cmd.render_long_help(); None }
                    Op::Usage => { let _ = cmd.render_usage(); None }
                    Op::Clone => { cmd = cmd.clone(); None }
                    Op::Parse(i) => Some((*i, run_parse(&mut cmd, &pool[*i]))),
                }));
                let key = format!("{} HISTORY {}", parse_request(&spec, match op { Op::Parse(i) => &pool[*i], _ => &pool[0] }), trace.join(","));
                match r {
                    Err(_) => { rep.oracle_fail("history-operation-panics", &key, &format!("{op:?} after {:?}", &trace[..k])); break; }
                    Ok(Some((i, got))) => {
                        if got.0 != fresh[i].0 { rep.oracle_fail("parse-result-depends-on-history", &key, &format!("after {:?}: got {} | fresh {}", &trace[..k], &got.0[..got.0.len().min(300)], &fresh[i].0[..fresh[i].0.len().min(300)])); }
                        else if got.1 != fresh[i].1 {
                            // build() expands the generated help subcommand's tree; its own usage then reads `[COMMAND]` instead of `[COMMAND]...`
                            let norm = |s: &str| s.replace("[COMMAND]...", "[COMMAND]");
                            let class = if norm(&got.1) == norm(&fresh[i].1) && trace[..k].iter().any(|t| t == "Build") { "error-message-depends-on-history:help-subcommand-usage-after-build" } else { "error-message-depends-on-history" };
                            rep.oracle_fail(class, &key, &format!("after {:?}: got {:?} | fresh {:?}", &trace[..k], &got.1[..got.1.len().min(200)], &fresh[i].1[..fresh[i].1.len().min(200)])); }
                        rep.case(&key, k >= 2);
                        rep.count("parses_in_histories");
                    }
                    Ok(None) => {}
                }
            }
        }
        for e in envs.drain(..) { std::env::remove_var(e); }
    }
    rep.count_n("commands", done as u64);
    if o.driver != "none" {
        let model = driver_batch(&o.driver, &reqs, o.par);
        for ((req, m), i) in reqs.iter().zip(model.iter()).zip(impls.iter()) {
            let same = if i.starts_with("PANIC") && m.starts_with("ERR PANIC") { true } else { m == i };
            if !same { rep.disagree("parse", req, m, i); }
        }
    }
    rep
}
