//! C11 — parsing is deterministic, re-entrant and independent of build timing.
use crate::spec::*;
use crate::util::*;
use clap::Command;

#[derive(Clone, Debug)]
enum Op { Parse(usize), Build, Help, LongHelp, Usage, Clone }

fn run_parse(cmd: &mut Command, argv: &[Vec<u8>]) -> (String, String) {
    let _guard = RealCall::new(&format!("{} argv={:?}", cmd.get_name(), argv.iter().map(|a| String::from_utf8_lossy(a).to_string()).collect::<Vec<_>>()));
    let r = std::panic::catch_unwind(std::panic::AssertUnwindSafe(|| cmd.try_get_matches_from_mut(argv_os(argv))));
    match r {
        Err(_) => ("PANIC".into(), String::new()),
        Ok(Ok(m)) => (format!("OK {}", canon_matches(&m)), String::new()),
        Ok(Err(e)) => (format!("ERR {}", canon_kind(e.kind())), e.render().to_string()),
    }
}

pub fn run(o: &Opts) -> Report {
    let mut rep = Report::new("C11", "random valid command trees (all modelled settings) x a pool of argv per command (successful, failing with various kinds, help/version) x histories of {try_get_matches_from_mut(argv_i), build(), render_help(), render_long_help(), render_usage(), clone()} on ONE Command value (exhaustive short histories, random up to length 10); oracle: every parse in a history returns the same matches / kind AND the same rendered message as a fresh Command; model predicts the fresh result; non-trivial = history with >= 2 operations before the compared parse; distinct by (request, history)");
    let mut rng = Rng::new(o.seed ^ 0xC11);
    let cfg = GenCfg { relations: true, defaults: true, subs: true, exotic: true, groups: true, flagsubs: true, settings: true, globals: true };
    let mut reqs = vec![]; let mut impls = vec![];
    let n_cmds = if o.thorough() { 5000 } else { 700 };
    let mut done = 0;
    while done < n_cmds {
        let spec = gen_cmd(&mut rng, &cfg, 0, "prog");
        if !real_valid(&spec) { rep.count("invalid_definition(skipped)"); continue; }
        done += 1;
        let mut pool: Vec<Vec<Vec<u8>>> = (0..5).map(|_| gen_argv(&mut rng, &spec, 6)).collect();
        pool.push(vec![b"prog".to_vec(), b"--help".to_vec()]);
        pool.push(vec![b"prog".to_vec(), b"--zzzz".to_vec()]);
        pool.push(vec![b"prog".to_vec()]);
        // fresh results
        let mut envs: Vec<String> = vec![];
        let fresh: Vec<(String, String)> = pool.iter().map(|a| { envs.clear(); let mut c = spec.build(&mut envs); run_parse(&mut c, a) }).collect();
        for (i, a) in pool.iter().enumerate() { reqs.push(parse_request(&spec, a)); impls.push(fresh[i].0.clone()); }
        // histories
        let mut hists: Vec<Vec<Op>> = vec![];
        let base_ops = [Op::Build, Op::Help, Op::LongHelp, Op::Usage, Op::Clone];
        for a in &base_ops { for i in 0..pool.len().min(3) { hists.push(vec![a.clone(), Op::Parse(i)]); } }
        for i in 0..pool.len() { for j in 0..pool.len() { if (i + j + done) % 3 == 0 { hists.push(vec![Op::Parse(i), Op::Parse(j)]); } } }
        for _ in 0..(if o.thorough() { 30 } else { 12 }) {
            let l = 2 + rng.below(9);
            hists.push((0..l).map(|_| match rng.below(10) { 0 => Op::Build, 1 => Op::Help, 2 => Op::LongHelp, 3 => Op::Usage, 4 => Op::Clone, _ => Op::Parse(rng.below(pool.len())) }).collect());
        }
        for h in &hists {
            envs.clear();
            let mut cmd = spec.build(&mut envs);
            let mut trace = vec![];
            for (k, op) in h.iter().enumerate() {
                trace.push(format!("{op:?}"));
                let r = std::panic::catch_unwind(std::panic::AssertUnwindSafe(|| match op {
                    Op::Build => { cmd.build(); None }
                    Op::Help => { let _ = cmd.render_help(); None }
                    Op::LongHelp => { let _ = cmd.render_long_help(); None }
                    Op::Usage => { let _ = cmd.render_usage(); None }
                    Op::Clone => { cmd = cmd.clone(); None }
                    Op::Parse(i) => Some((*i, run_parse(&mut cmd, &pool[*i]))),
                }));
                let key = format!("{} HISTORY {}", parse_request(&spec, match op { Op::Parse(i) => &pool[*i], _ => &pool[0] }), trace.join(","));
                match r {
                    Err(_) => { rep.oracle_fail("history-operation-panics", &key, &format!("{op:?} after {:?}", &trace[..k])); break; }
                    Ok(Some((i, got))) => {
                        if got.0 != fresh[i].0 { rep.oracle_fail("parse-result-depends-on-history", &key, &format!("after {:?}: got {} | fresh {}", &trace[..k], &got.0[..got.0.len().min(300)], &fresh[i].0[..fresh[i].0.len().min(300)])); }
                        else if got.1 != fresh[i].1 {
                            // build() expands the generated help subcommand's tree; its own usage then reads `[COMMAND]` instead of `[COMMAND]...`
                            let norm = |s: &str| s.replace("[COMMAND]...", "[COMMAND]");
                            let class = if norm(&got.1) == norm(&fresh[i].1) && trace[..k].iter().any(|t| t == "Build") { "error-message-depends-on-history:help-subcommand-usage-after-build" } else { "error-message-depends-on-history" };
                            rep.oracle_fail(class, &key, &format!("after {:?}: got {:?} | fresh {:?}", &trace[..k], &got.1[..got.1.len().min(200)], &fresh[i].1[..fresh[i].1.len().min(200)])); }
                        rep.case(&key, k >= 2);
                        rep.count("parses_in_histories");
                    }
                    Ok(None) => {}
                }
            }
        }
        for e in envs.drain(..) { std::env::remove_var(e); }
    }
    // two families outside the generated trees (real crate only): a typed external-subcommand parser, and several
    // global options without defaults given above a subcommand chain
    {
        use clap::{Arg, ArgAction, value_parser};
        let ext = |kind: usize| {
            let c = Command::new("prog").allow_external_subcommands(true).arg(Arg::new("flag").long("flag").action(ArgAction::SetTrue));
            match kind { 0 => c.external_subcommand_value_parser(value_parser!(u16)), 1 => c.external_subcommand_value_parser(value_parser!(String)), _ => c }
        };
        let glob = |n: usize| {
            let mut c = Command::new("prog");
            for i in 0..n { c = c.arg(Arg::new(format!("g{i}")).long(format!("g{i}")).global(true).action(ArgAction::Set)); }
            c.subcommand(Command::new("mid").subcommand(Command::new("leaf").arg(Arg::new("x").long("x").action(ArgAction::SetTrue))))
        };
        let t = |v: &[&str]| -> Vec<Vec<u8>> { v.iter().map(|x| x.as_bytes().to_vec()).collect() };
        let mut fams: Vec<(String, Box<dyn Fn() -> Command>, Vec<Vec<Vec<u8>>>)> = vec![];
        for kind in 0..3 {
            fams.push((format!("typed-external-subcommand#{kind}"), Box::new(move || ext(kind)), vec![
                t(&["prog", "ports", "80", "443"]), t(&["prog", "ports", "80", "http"]), t(&["prog", "--flag", "ports", "70000"]),
                { let mut v = t(&["prog", "ports"]); v.push(vec![0x38, 0xff]); v }, t(&["prog", "--flag"]), t(&["prog", "ports"])]));
        }
        for n in 2..5 {
            let mut pool = vec![];
            let all: Vec<String> = (0..n).map(|i| format!("--g{i}=v{i}")).collect();
            let mut a = vec!["prog".to_string()]; a.extend(all.iter().cloned()); a.extend(["mid".to_string(), "leaf".to_string(), "--x".to_string()]);
            pool.push(a.iter().map(|x| x.as_bytes().to_vec()).collect::<Vec<_>>());
            let mut b = vec!["prog".to_string()]; b.extend(all.iter().rev().cloned()); b.push("mid".to_string());
            pool.push(b.iter().map(|x| x.as_bytes().to_vec()).collect::<Vec<_>>());
            let mut c = vec!["prog".to_string(), all[0].clone(), "mid".to_string()]; c.extend(all[1..].iter().cloned()); c.push("leaf".to_string());
            pool.push(c.iter().map(|x| x.as_bytes().to_vec()).collect::<Vec<_>>());
            fams.push((format!("globals-without-defaults#{n}"), Box::new(move || glob(n)), pool));
        }
        for (fname, mk, pool) in &fams {
            let fresh: Vec<(String, String)> = pool.iter().map(|a| { let mut c = mk(); run_parse(&mut c, a) }).collect();
            // determinism of fresh definitions
            for round in 0..(if o.thorough() { 40 } else { 12 }) {
                for (i, a) in pool.iter().enumerate() {
                    let mut c = mk();
                    let got = run_parse(&mut c, a);
                    let key = format!("{fname} argv#{i} fresh-round#{round}");
                    if got != fresh[i] { rep.oracle_fail("parse-result-differs-between-fresh-definitions", &key, &format!("got {} | first {}", &got.0[..got.0.len().min(300)], &fresh[i].0[..fresh[i].0.len().min(300)])); }
                    rep.case(&key, true);
                }
            }
            // histories on one definition
            for hround in 0..(if o.thorough() { 60 } else { 20 }) {
                let mut cmd = mk();
                let mut trace = vec![];
                for _ in 0..(2 + rng.below(5)) {
                    if rng.chance(1, 5) { cmd = cmd.clone(); trace.push("Clone".to_string()); continue; }
                    if rng.chance(1, 6) { cmd.build(); trace.push("Build".to_string()); continue; }
                    let i = rng.below(pool.len());
                    let got = run_parse(&mut cmd, &pool[i]);
                    let key = format!("{fname} argv#{i} history#{hround} after {trace:?}");
                    if got.0 != fresh[i].0 { rep.oracle_fail("parse-result-depends-on-history", &key, &format!("got {} | fresh {}", &got.0[..got.0.len().min(300)], &fresh[i].0[..fresh[i].0.len().min(300)])); }
                    rep.case(&key, !trace.is_empty());
                    rep.count("parses_in_family_histories");
                    trace.push(format!("Parse({i})"));
                }
            }
        }
    }
    // a three-level tree with a propagated version: names derived from the path (`tool-remote-add 1.0`), the generated
    // `help` subcommand addressed through itself (`help help <sub>`), unknown flags that send the suggestion search into
    // the subcommands - with every kind of operation in between, kinds AND messages compared with a fresh definition
    {
        use clap::{Arg, ArgAction};
        let deep = || Command::new("tool").version("1.0").propagate_version(true)
            .subcommand(Command::new("remote").about("manage remotes")
                .subcommand(Command::new("add").arg(Arg::new("name").long("name").action(ArgAction::Set)))
                .subcommand(Command::new("rm")))
            .subcommand(Command::new("status").arg(Arg::new("short").long("short").action(ArgAction::SetTrue)));
        let t = |v: &[&str]| -> Vec<Vec<u8>> { v.iter().map(|x| x.as_bytes().to_vec()).collect() };
        let pool = vec![t(&["tool", "--zzzzzz"]), t(&["tool", "remote", "add", "--version"]), t(&["tool", "remote", "add", "--help"]), t(&["tool", "remote", "--zzzz"]),
            t(&["tool", "help", "help", "status"]), t(&["tool", "remote", "help", "help", "add"]), t(&["tool", "help", "remote", "add"]), t(&["tool", "remote", "add", "--name", "x"]),
            t(&["tool", "remote", "add", "--nam"]), t(&["tool", "statu"]), t(&["tool", "remote", "-V"]), t(&["tool", "--shor"]), t(&["tool", "remote", "rm", "extra"])];
        let fresh: Vec<(String, String)> = pool.iter().map(|a| { let mut c = deep(); run_parse(&mut c, a) }).collect();
        let ops = [Op::Build, Op::Help, Op::LongHelp, Op::Usage, Op::Clone];
        let mut hists: Vec<Vec<Op>> = vec![];
        for a in &ops { for i in 0..pool.len() { hists.push(vec![a.clone(), Op::Parse(i)]); } }
        for i in 0..pool.len() { for j in 0..pool.len() { hists.push(vec![Op::Parse(i), Op::Parse(j)]); } }
        for _ in 0..(if o.thorough() { 400 } else { 60 }) {
            let l = 3 + rng.below(5);
            hists.push((0..l).map(|_| match rng.below(10) { 0 => Op::Build, 1 => Op::Help, 2 => Op::LongHelp, 3 => Op::Usage, 4 => Op::Clone, _ => Op::Parse(rng.below(pool.len())) }).collect());
        }
        for h in &hists {
            let mut cmd = deep();
            let mut trace: Vec<String> = vec![];
            for op in h {
                match op {
                    Op::Build => cmd.build(),
                    Op::Help => { let _ = cmd.render_help(); }
                    Op::LongHelp => { let _ = cmd.render_long_help(); }
                    Op::Usage => { let _ = cmd.render_usage(); }
                    Op::Clone => cmd = cmd.clone(),
                    Op::Parse(i) => {
                        let got = run_parse(&mut cmd, &pool[*i]);
                        let key = format!("deep-version-tree argv={:?} after {trace:?}", pool[*i].iter().map(|x| String::from_utf8_lossy(x).to_string()).collect::<Vec<_>>());
                        // `build()` expands the tree of the generated help subcommand, lazy building does not (F21 / F27)
                        let via_help = pool[*i].iter().any(|w| w == b"help") && trace.iter().any(|t| t == "Build");
                        if got.0 != fresh[*i].0 {
                            rep.oracle_fail(if via_help { "parse-result-depends-on-history:help-subcommand-after-build" } else { "parse-result-depends-on-history" }, &key, &format!("got {} | fresh {}", &got.0[..got.0.len().min(300)], &fresh[*i].0[..fresh[*i].0.len().min(300)]));
                        } else if got.1 != fresh[*i].1 {
                            rep.oracle_fail(if via_help { "error-message-depends-on-history:help-subcommand-usage-after-build" } else { "error-message-depends-on-history" }, &key, &format!("got {:?} | fresh {:?}", &got.1[..got.1.len().min(300)], &fresh[*i].1[..fresh[*i].1.len().min(300)]));
                        }
                        rep.case(&key, !trace.is_empty());
                        rep.count("parses_in_deep_tree_histories");
                    }
                }
                trace.push(format!("{op:?}").split('(').next().unwrap().to_string());
            }
        }
    }
    rep.count_n("commands", done as u64);
    if o.driver != "none" {
        let model = driver_batch(&o.driver, &reqs, o.par);
        for ((req, m), i) in reqs.iter().zip(model.iter()).zip(impls.iter()) {
            let same = if i.starts_with("PANIC") && m.starts_with("ERR PANIC") { true } else { m == i };
            if !same { rep.disagree("parse", req, m, i); }
        }
    }
    rep
}
