mod util;
mod c13;
mod spec;
mod pcorr;
mod c01;
mod invoc;
mod c02;
mod c03;
mod c04;
mod c05;
mod c06;
mod c08;
mod c09;
mod c10;
mod c11;
mod c12;
mod usage;
mod c07;
mod c14;
mod c15;
mod c16;
mod c17;
mod c18;
mod c19;
mod c20;

use util::Opts;

fn main() {
    let args: Vec<String> = std::env::args().collect();
    let mut prop = String::new();
    let mut o = Opts {
        tier: "quick".into(),
        seed: 1,
        driver: "/verif/lean/.lake/build/bin/driver".into(),
        out: "/dev/stdout".into(),
        replay: None,
        par: 16,
        search: false,
    };
    let mut i = 1;
    while i < args.len() {
        match args[i].as_str() {
            "--tier" => { o.tier = args[i + 1].clone(); i += 1; }
            "--seed" => { o.seed = args[i + 1].parse().unwrap_or(1); i += 1; }
            "--driver" => { o.driver = args[i + 1].clone(); i += 1; }
            "--out" => { o.out = args[i + 1].clone(); i += 1; }
            "--replay" => { o.replay = Some(args[i + 1].clone()); i += 1; }
            "--search" => { o.search = true; }
            "--par" => { o.par = args[i + 1].parse().unwrap_or(16); i += 1; }
            p => prop = p.to_string(),
        }
        i += 1;
    }
    util::quiet_panics();
    util::start_watchdog(&prop, &o.out, if o.tier == "thorough" { 120 } else { 45 }, 12_000);
    let rep = match prop.as_str() {
        "C13" => c13::run(&o),
        "C01" => c01::run(&o),
        "C02" => c02::run(&o),
        "C03" => c03::run(&o),
        "C04" => c04::run(&o),
        "C05" => c05::run(&o),
        "C06" => c06::run(&o),
        "C08" => c08::run(&o),
        "C09" => c09::run(&o),
        "C10" => c10::run(&o),
        "C11" => c11::run(&o),
        "C12" => c12::run(&o),
        "C15" => c15::run(&o),
        "C16" => c16::run(&o),
        "C17" => c17::run(&o),
        "C18" => c18::run(&o),
        "C19" => c19::run(&o),
        "C07" => c07::run(&o),
        "C14" => c14::run(&o),
        "C20" => c20::run(&o),
        _ => {
            eprintln!("unknown property {prop}");
            std::process::exit(3);
        }
    };
    rep.write(&o.out);
}
