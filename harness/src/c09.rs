//! C09 — subcommand dispatch follows argv, and global arguments agree at every level.
use crate::spec::*;
use crate::util::*;
use clap::parser::ValueSource;
use std::os::unix::ffi::OsStrExt as _;

struct Tree { cmd: CmdS }

fn gen_tree(rng: &mut Rng) -> Tree {
    // root -> 1..2 mids -> 0..2 leaves; each level: 0..2 globals (set with/without default, count, setTrue), one local flag
    fn level(rng: &mut Rng, name: &str, depth: usize) -> CmdS {
        let mut c = CmdS { name: name.to_string(), ..Default::default() };
        let ng = rng.below(3);
        for k in 0..ng {
            let id = format!("g{depth}{k}");
            let mut a = ArgS { id: id.clone(), long: Some(id.clone()), global: true, ..Default::default() };
            match rng.below(4) {
                0 => { a.action = Some("count"); a.short = Some(['v', 'w', 'x', 'y'][depth]); }
                1 => a.action = Some("setTrue"),
                2 => { a.action = Some("set"); a.default_vals = vec![format!("d{depth}{k}")]; }
                _ => { a.action = Some(if rng.chance(1, 2) { "set" } else { "append" }); }
            }
            if a.action == Some("count") && c.args.iter().any(|x: &ArgS| x.short == a.short) { a.short = None; }
            c.args.push(a);
        }
        c.args.push(ArgS { id: format!("l{depth}"), long: Some(format!("local{depth}")), action: Some("setTrue"), ..Default::default() });
        if rng.chance(1, 3) { c.args.push(ArgS { id: format!("p{depth}"), ..Default::default() }); }
        c.settings.infer_subcommands = rng.chance(1, 4);
        c.settings.args_override_self = rng.chance(1, 2);
        c
    }
    let mut root = level(rng, "prog", 0);
    for m in 0..1 + rng.below(2) {
        let mut mid = level(rng, ["mid", "other"][m], 1);
        if rng.chance(1, 2) { mid.aliases.push(["mi-alias", "ot-alias"][m].to_string()); }
        if rng.chance(1, 3) { mid.short_flag = Some(['M', 'O'][m]); }
        if rng.chance(1, 3) { mid.long_flag = Some(["midflag", "otherflag"][m].to_string()); }
        if rng.chance(1, 5) { mid.long_flag_aliases.push(["midfa", "otherfa"][m].to_string()); }
        for l in 0..rng.below(3) {
            let mut leaf = level(rng, ["leaf", "twig"][l], 2);
            if rng.chance(1, 2) { leaf.aliases.push(["le-alias", "tw-alias"][l].to_string()); }
            if rng.chance(1, 3) { leaf.short_flag = Some(['L', 'T'][l]); }
            if rng.chance(1, 4) { leaf.long_flag = Some(["leafflag", "twigflag"][l].to_string()); }
            // a fourth level: dispatch-relevant settings set on the root have to reach the level that picks it
            if rng.chance(1, 3) {
                for b in 0..1 + rng.below(2) {
                    let mut bud = level(rng, ["bud", "sprout"][b], 3);
                    if rng.chance(1, 2) { bud.aliases.push(["bu-alias", "sp-alias"][b].to_string()); }
                    leaf.subs.push(bud);
                }
            }
            mid.subs.push(leaf);
        }
        if rng.chance(1, 5) { mid.settings.allow_external_subcommands = true; }
        root.subs.push(mid);
    }
    if rng.chance(1, 6) { root.settings.allow_external_subcommands = true; }
    Tree { cmd: root }
}

pub fn run(o: &Opts) -> Report {
    let mut rep = Report::new("C09", "trees root->mid->leaf(->bud) with 0-2 global args per level (Count/SetTrue/Set with default/Set/Append), aliases, short/long flag subcommands (incl. clusters), long-flag aliases without a primary long flag, inference (also inherited from an ancestor's global setting), external subcommands x argv built from an intended chain with each global given at random levels at or below its defining one (repeated, different values, defaulted); oracle: reported chain = intended chain, external args verbatim, each global equal (value and source) at every level at/below its definition and explicit beats default; model must predict the whole ArgMatches; non-trivial = chain of >= 2 levels with a global given; distinct by canonical request");
    let mut rng = Rng::new(o.seed ^ 0xC09);
    let mut reqs = vec![]; let mut impls = vec![];
    let n_trees = if o.thorough() { 10000 } else { 1500 };
    for _ in 0..n_trees {
        let t = gen_tree(&mut rng);
        if !real_valid(&t.cmd) { rep.count("invalid_definition(skipped)"); continue; }
        for _ in 0..10 {
            // intended chain
            let mut chain: Vec<&CmdS> = vec![&t.cmd];
            while let Some(last) = chain.last().copied() { if last.subs.is_empty() || rng.chance(1, 4) { break; } let s = rng.pick(&last.subs); chain.push(s); }
            let external = chain.last().unwrap().settings.allow_external_subcommands && !chain.last().unwrap().args.iter().any(|a| a.long.is_none() && a.short.is_none()) && rng.chance(1, 2);
            let mut argv: Vec<Vec<u8>> = vec![b"prog".to_vec()];
            let mut given: Vec<(String, usize)> = vec![]; // (global id, level index where given)
            let mut cluster_into: Option<char> = None;
            for (li, c) in chain.iter().enumerate() {
                // globals visible here: defined at this level or above
                let visible: Vec<&ArgS> = chain[..=li].iter().flat_map(|x| x.args.iter().filter(|a| a.global)).collect();
                for _ in 0..rng.below(3) {
                    if visible.is_empty() { break; }
                    let g = *rng.pick(&visible);
                    match g.action { Some("count") | Some("setTrue") => {
                            if g.action == Some("setTrue") && given.iter().any(|(id, l)| id == &g.id && *l == li) && !c.settings.args_override_self { continue; }
                            argv.push(format!("--{}", g.id).into_bytes());
                        }
                        Some("set") => { if given.iter().any(|(id, l)| id == &g.id && *l == li) && !c.settings.args_override_self { continue; } argv.push(format!("--{}=val{}_{}", g.id, li, argv.len()).into_bytes()); }
                        _ => argv.push(format!("--{}=val{}_{}", g.id, li, argv.len()).into_bytes()),
                    }
                    given.push((g.id.clone(), li));
                }
                if rng.chance(1, 3) { argv.push(format!("--local{li}").into_bytes()); }
                let _ = cluster_into.take();
                if li + 1 < chain.len() {
                    let sc = chain[li + 1];
                    let spell = rng.below(6);
                    // a short flag subcommand inside a cluster: `-vMv` = count `v` here, dispatch `M`, count `v` again in the subcommand
                    let counter = visible.iter().find(|g| g.action == Some("count") && g.short.is_some()).map(|g| ((*g).id.clone(), g.short.unwrap()));
                    if let (Some(f), Some((gid, gs)), true) = (sc.short_flag, counter.clone(), rng.chance(1, 3)) {
                        let mut tokc = format!("-{gs}{f}");
                        given.push((gid.clone(), li));
                        if rng.chance(1, 2) { tokc.push(gs); given.push((gid.clone(), li + 1)); }
                        argv.push(tokc.into_bytes());
                        continue;
                    }
                    let tok = match (spell, sc.short_flag, &sc.long_flag, sc.aliases.first(), sc.long_flag_aliases.first()) {
                        (0, Some(f), _, _, _) => format!("-{f}"),
                        (1, _, Some(l), _, _) => format!("--{l}"),
                        (2, _, _, Some(al), _) => al.clone(),
                        (3, _, _, _, Some(lfa)) => format!("--{lfa}"),
                        (4, _, _, _, _) if chain[..=li].iter().any(|x| x.settings.infer_subcommands) && c.subs.iter().filter(|s| s.name.starts_with(&sc.name[..2]) || s.aliases.iter().any(|a| a.starts_with(&sc.name[..2]))).count() == 1 => sc.name[..2].to_string(),
                        _ => sc.name.clone(),
                    };
                    argv.push(tok.into_bytes());
                }
            }
            let ext_args: Vec<Vec<u8>> = if external { vec![b"ext-cmd".to_vec(), b"--g00".to_vec(), b"x".to_vec(), vec![0xff], b"--".to_vec(), b"mid".to_vec()] } else { vec![] };
            argv.extend(ext_args.iter().cloned());
            let (canon, mm, err) = real_parse(&t.cmd, &argv);
            let req = parse_request(&t.cmd, &argv);
            if let Some(m) = &mm {
                // 1. chain
                let mut got_chain = vec![]; let mut cur = m; let mut levels = vec![m];
                while let Some((n, sm)) = cur.subcommand() { got_chain.push(n.to_string()); cur = sm; levels.push(sm); }
                let mut exp_chain: Vec<String> = chain[1..].iter().map(|c| c.name.clone()).collect();
                if external { exp_chain.push("ext-cmd".into()); }
                if got_chain != exp_chain { rep.oracle_fail("subcommand-chain-differs-from-argv", &req, &format!("got {got_chain:?} intended {exp_chain:?} argv={:?}", argv.iter().map(|a| String::from_utf8_lossy(a).to_string()).collect::<Vec<_>>())); }
                else {
                    if external {
                        let ext = levels.last().unwrap();
                        let got: Vec<Vec<u8>> = ext.get_raw("").map(|r| r.map(|v| v.as_bytes().to_vec()).collect()).unwrap_or_default();
                        if got != ext_args[1..].to_vec() { rep.oracle_fail("external-subcommand-args-not-verbatim", &req, &format!("{:?}", got)); }
                    }
                    // 3. globals agree at every level at/below the defining one
                    for (di, c) in chain.iter().enumerate() {
                        for g in c.args.iter().filter(|a| a.global) {
                            let lv: Vec<&&clap::ArgMatches> = levels.iter().skip(di).take(chain.len() - di).collect();
                            let view: Vec<(Option<ValueSource>, Vec<Vec<u8>>)> = lv.iter().map(|mt| (mt.value_source(&g.id), mt.get_raw(&g.id).map(|r| r.map(|v| v.as_bytes().to_vec()).collect()).unwrap_or_default())).collect();
                            if view.windows(2).any(|w| w[0] != w[1]) { rep.oracle_fail("global-differs-between-levels", &req, &format!("{}: {:?}", g.id, view.iter().map(|(s, v)| (s.clone(), v.iter().map(|x| String::from_utf8_lossy(x).to_string()).collect::<Vec<_>>())).collect::<Vec<_>>())); }
                            let explicit_somewhere = given.iter().any(|(id, _)| id == &g.id);
                            if explicit_somewhere && view.iter().any(|(s, _)| *s != Some(ValueSource::CommandLine)) { rep.oracle_fail("explicit-global-lost-to-a-default", &req, &format!("{}: {:?}", g.id, view.iter().map(|(s, _)| s.clone()).collect::<Vec<_>>())); }
                        }
                    }
                }
            } else if let Some(e) = &err {
                rep.oracle_fail("intended-chain-rejected", &req, &format!("{:?} argv={:?}", e.kind(), argv.iter().map(|a| String::from_utf8_lossy(a).to_string()).collect::<Vec<_>>()));
            } else { rep.oracle_fail("panic", &req, &canon); }
            rep.case(&req, chain.len() >= 2 && !given.is_empty());
            rep.count(&format!("chain_len:{}", chain.len()));
            if external { rep.count("external"); }
            reqs.push(req); impls.push(canon);
        }
    }
    if o.driver != "none" {
        let model = driver_batch(&o.driver, &reqs, o.par);
        for ((req, m), i) in reqs.iter().zip(model.iter()).zip(impls.iter()) { if m != i { rep.disagree("parse", req, m, i); } }
    }
    {
        use crate::pcorr::*;
        use clap::parser::ValueSource;
        // a user-defined subcommand that happens to be called `help` (the generated one is disabled) is a level like any
        // other: the parent's globals are defined there
        let mkh = || { let mut c = CmdS { name: "prog".into(), ..Default::default() };
            c.settings.disable_help_subcommand = true;
            c.args.push(ArgS { id: "verbose".into(), short: Some('v'), long: Some("verbose".into()), action: Some("count"), global: true, ..Default::default() });
            c.args.push(ArgS { id: "format".into(), long: Some("format".into()), action: Some("set"), global: true, ..Default::default() });
            let mut h = CmdS { name: "help".into(), ..Default::default() };
            h.args.push(ArgS { id: "topic".into(), ..Default::default() });
            let mut man = CmdS { name: "man".into(), ..Default::default() };
            man.subs.push(CmdS { name: "search".into(), ..Default::default() });
            c.subs.push(h); c.subs.push(man); c };
        let cases: Vec<(CmdS, Vec<Vec<u8>>, Expect)> = vec![
            (mkh(), bv(&["prog", "help", "-v", "topic"]), Box::new(|m| { want_occs(m, &["help"], "verbose", &[&["1"]])?; want_occs(m, &[], "verbose", &[&["1"]])?; want_occs(m, &["help"], "topic", &[&["topic"]]) })),
            (mkh(), bv(&["prog", "-vv", "help", "topic"]), Box::new(|m| { want_occs(m, &["help"], "verbose", &[&["2"]])?; want_occs(m, &[], "verbose", &[&["2"]]) })),
            (mkh(), bv(&["prog", "help", "--format", "yaml"]), Box::new(|m| { want_occs(m, &["help"], "format", &[&["yaml"]])?; want_occs(m, &[], "format", &[&["yaml"]]) })),
            (mkh(), bv(&["prog", "man", "search", "--format", "yaml"]), Box::new(|m| { want_occs(m, &["man", "search"], "format", &[&["yaml"]])?; want_occs(m, &[], "format", &[&["yaml"]]) })),
        ];
        run_expect(&mut rep, o, "global-not-defined-at-a-level", cases);
        // the command-level hyphen switches belong to the level that sets them (model and real crate)
        let mks = || { let mut c = CmdS { name: "prog".into(), ..Default::default() };
            c.settings.allow_hyphen_values = true; c.settings.allow_negative_numbers = true;
            c.args.push(ArgS { id: "color".into(), long: Some("color".into()), action: Some("set"), global: true, num_vals: Some((0, Some(1))), default_missing: vec!["always".into()], ..Default::default() });
            c.args.push(ArgS { id: "level".into(), long: Some("level".into()), action: Some("set"), global: true, ..Default::default() });
            let mut run = CmdS { name: "run".into(), ..Default::default() };
            run.args.push(ArgS { id: "x".into(), short: Some('x'), action: Some("setTrue"), ..Default::default() });
            c.subs.push(run); c };
        let sc: Vec<(CmdS, Vec<Vec<u8>>, Expect)> = vec![
            (mks(), bv(&["prog", "run", "--color", "-x"]), Box::new(|m| { want_occs(m, &["run"], "color", &[&["always"]])?; want_occs(m, &["run"], "x", &[&["true"]])?; want_occs(m, &[], "color", &[&["always"]]) })),
            (mks(), bv(&["prog", "--color", "-x", "run"]), Box::new(|m| { want_occs(m, &[], "color", &[&["-x"]])?; want_occs(m, &["run"], "color", &[&["-x"]]) })),
            (mks(), bv(&["prog", "--level", "-5", "run"]), Box::new(|m| want_occs(m, &["run"], "level", &[&["-5"]]))),
        ];
        run_expect(&mut rep, o, "parent-switch-leaks-into-a-subcommand's-globals", sc);
        run_expect_kind(&mut rep, o, "parent-switch-leaks-into-a-subcommand's-globals", vec![(mks(), bv(&["prog", "run", "--level", "-5"]), clap::error::ErrorKind::UnknownArgument)]);
        // real crate only (the command-level switches `Command::allow_hyphen_values` / `allow_negative_numbers` are not in
        // the model): they concern the args of the level that sets them; a global handed down to a subcommand is parsed
        // there by the subcommand's own rules
        {
            use clap::{Arg, ArgAction, Command};
            let mk = || Command::new("prog").allow_hyphen_values(true).allow_negative_numbers(true)
                .arg(Arg::new("color").long("color").global(true).action(ArgAction::Set).num_args(0..=1).default_missing_value("always"))
                .arg(Arg::new("level").long("level").global(true).action(ArgAction::Set))
                .subcommand(Command::new("run").arg(Arg::new("x").short('x').action(ArgAction::SetTrue))
                    .subcommand(Command::new("deep").arg(Arg::new("y").short('y').action(ArgAction::SetTrue))));
            let get = |m: &clap::ArgMatches, path: &[&str], id: &str| -> Option<(Option<ValueSource>, Vec<String>)> {
                let mut cur = m; for p in path { cur = cur.subcommand_matches(p)?; }
                Some((cur.value_source(id), cur.get_raw(id).map(|r| r.map(|v| v.to_string_lossy().to_string()).collect()).unwrap_or_default())) };
            let mut chk = |argv: &[&str], f: &dyn Fn(Result<&clap::ArgMatches, clap::error::ErrorKind>) -> Result<(), String>| {
                let key = format!("command-level-hyphen-switch argv={argv:?}");
                let av: Vec<String> = argv.iter().map(|x| x.to_string()).collect();
                rep.case(&key, true); rep.count("shape:command-level-hyphen-switch");
                match std::panic::catch_unwind(|| mk().try_get_matches_from(av)) {
                    Err(_) => rep.oracle_fail("panic", &key, "parse panicked"),
                    Ok(r) => { let v = match &r { Ok(m) => Ok(m), Err(e) => Err(e.kind()) }; if let Err(msg) = f(v) { rep.oracle_fail("parent-switch-leaks-into-a-subcommand's-globals", &key, &msg); } }
                }
            };
            chk(&["prog", "run", "--color", "-x"], &|r| { let m = r.map_err(|k| format!("rejected: {k:?}"))?;
                let c = get(m, &["run"], "color"); let x = m.subcommand_matches("run").map(|s| s.get_flag("x"));
                if c != Some((Some(ValueSource::CommandLine), vec!["always".to_string()])) || x != Some(true) { return Err(format!("color at run = {c:?}, x = {x:?}; expected always / true")); }
                if get(m, &[], "color") != c { return Err(format!("color differs between levels: {:?} vs {c:?}", get(m, &[], "color"))); } Ok(()) });
            chk(&["prog", "run", "deep", "--color", "-y"], &|r| { let m = r.map_err(|k| format!("rejected: {k:?}"))?;
                let c = get(m, &["run", "deep"], "color"); let y = m.subcommand_matches("run").and_then(|s| s.subcommand_matches("deep")).map(|s| s.get_flag("y"));
                if c != Some((Some(ValueSource::CommandLine), vec!["always".to_string()])) || y != Some(true) { return Err(format!("color at deep = {c:?}, y = {y:?}")); } Ok(()) });
            chk(&["prog", "run", "--level", "-5"], &|r| match r { Err(_) => Ok(()), Ok(m) => Err(format!("accepted: level at run = {:?}", get(m, &["run"], "level"))) });
            chk(&["prog", "--level", "-5", "run"], &|r| { let m = r.map_err(|k| format!("rejected: {k:?}"))?;
                let l = get(m, &["run"], "level"); if l != Some((Some(ValueSource::CommandLine), vec!["-5".to_string()])) { return Err(format!("level at run = {l:?}")); } Ok(()) });
        }
    }
    crate::pcorr::run_generic(&mut rep, o, 0xC09);
    rep
}
