//! Command specifications shared by the parser-level properties (C01–C11):
//! a plain-data mirror of the modelled part of `Command`/`Arg`/`ArgGroup`,
//! its line-protocol encoding, the real `clap::Command` built from it,
//! generators, and the canonical form of `ArgMatches` / errors.
use crate::util::*;
use clap::builder::{ArgPredicate, OsStr as COsStr, PossibleValue, PossibleValuesParser, ValueRange};
use clap::error::ErrorKind;
use clap::{Arg, ArgAction, ArgGroup, ArgMatches, Command};
use std::ffi::OsString;
use std::os::unix::ffi::{OsStrExt as _, OsStringExt as _};

#[derive(Clone, Debug, PartialEq)]
pub enum PredS { Present, Equals(String) }

#[derive(Clone, Debug, PartialEq)]
pub enum VpS { Default, Os, NonEmpty, I64(Option<i64>, Option<i64>), Possible(Vec<(String, Vec<String>)>) }

#[derive(Clone, Debug, Default)]
pub struct ArgS {
    pub id: String,
    pub short: Option<char>,
    pub long: Option<String>,
    pub aliases: Vec<String>,
    pub short_aliases: Vec<char>,
    pub index: Option<usize>,
    pub action: Option<&'static str>,
    pub num_vals: Option<(usize, Option<usize>)>,
    pub delim: Option<char>,
    pub terminator: Option<String>,
    pub required: bool, pub global: bool, pub exclusive: bool, pub last: bool, pub trailing_var_arg: bool,
    pub allow_hyphen: bool, pub allow_negative: bool, pub require_equals: bool, pub ignore_case: bool, pub hide: bool,
    pub default_vals: Vec<String>,
    pub default_missing: Vec<String>,
    pub default_ifs: Vec<(String, PredS, Option<String>)>,
    pub env: Option<Option<String>>, // Some(None): env declared but unset; Some(Some(v)): set to v
    pub blacklist: Vec<String>,
    pub overrides: Vec<String>,
    pub requires: Vec<(PredS, String)>,
    pub r_ifs: Vec<(String, String)>,
    pub r_ifs_all: Vec<(String, String)>,
    pub r_unless: Vec<String>,
    pub r_unless_all: Vec<String>,
    pub groups: Vec<String>,
    pub vp: Option<VpS>,
    /// `value_names` (read by help / usage only; not part of the parser-level encoding)
    pub val_names: Vec<String>,
}
impl Default for VpS { fn default() -> Self { VpS::Default } }

#[derive(Clone, Debug, Default)]
pub struct GroupS { pub id: String, pub args: Vec<String>, pub required: bool, pub multiple: bool, pub requires: Vec<String>, pub conflicts: Vec<String> }

#[derive(Clone, Debug, Default)]
pub struct SettingsS {
    pub args_conflicts_with_subcommands: bool, pub subcommand_precedence_over_arg: bool, pub infer_long_args: bool,
    pub infer_subcommands: bool, pub allow_external_subcommands: bool, pub ignore_errors: bool, pub args_override_self: bool,
    pub dont_delimit_trailing_values: bool, pub allow_missing_positional: bool, pub subcommand_required: bool,
    pub arg_required_else_help: bool, pub subcommand_negates_reqs: bool, pub disable_help_flag: bool,
    pub disable_version_flag: bool, pub disable_help_subcommand: bool, pub no_binary_name: bool, pub has_version: bool,
    /// command-level `allow_hyphen_values` / `allow_negative_numbers` (for the value-taking args of this level only)
    pub allow_hyphen_values: bool, pub allow_negative_numbers: bool,
    /// command-level `trailing_var_arg` (for the positional with the highest index)
    pub trailing_var_arg: bool,
}

#[derive(Clone, Debug, Default)]
pub struct CmdS {
    pub name: String, pub aliases: Vec<String>, pub short_flag: Option<char>, pub long_flag: Option<String>,
    pub short_flag_aliases: Vec<char>, pub long_flag_aliases: Vec<String>,
    pub settings: SettingsS, pub args: Vec<ArgS>, pub groups: Vec<GroupS>, pub subs: Vec<CmdS>,
}

fn hs(s: &str) -> String { hex(s.as_bytes()) }
fn hc(c: char) -> String { hex(c.to_string().as_bytes()) }
fn oh(s: &Option<String>) -> String { s.as_ref().map(|x| hs(x)).unwrap_or("~".into()) }
fn list(v: &[String]) -> String { let mut s = v.len().to_string(); for x in v { s.push(' '); s.push_str(&hs(x)); } s }
fn pred(p: &PredS) -> String { match p { PredS::Present => "P".into(), PredS::Equals(v) => format!("E{}", hs(v)) } }
fn bits(b: &[bool]) -> String { b.iter().map(|x| if *x { '1' } else { '0' }).collect() }

impl ArgS {
    pub fn encode(&self) -> String {
        let mut t: Vec<String> = vec!["ARG".into(), hs(&self.id), self.short.map(hc).unwrap_or("~".into()), oh(&self.long)];
        t.push(list(&self.aliases));
        t.push({ let mut s = self.short_aliases.len().to_string(); for c in &self.short_aliases { s.push(' '); s.push_str(&hc(*c)); } s });
        t.push(self.index.map(|i| i.to_string()).unwrap_or("~".into()));
        t.push(self.action.map(|a| a.to_string()).unwrap_or("~".into()));
        t.push(match self.num_vals { None => "~".into(), Some((a, None)) => format!("{a}:max"), Some((a, Some(b))) => format!("{a}:{b}") });
        t.push(self.delim.map(hc).unwrap_or("~".into()));
        t.push(oh(&self.terminator));
        t.push(bits(&[self.required, self.global, self.exclusive, self.last, self.trailing_var_arg, self.allow_hyphen, self.allow_negative, self.require_equals, self.ignore_case, self.hide]));
        t.push(list(&self.default_vals));
        t.push(list(&self.default_missing));
        t.push({ let mut s = self.default_ifs.len().to_string(); for (i, p, d) in &self.default_ifs { s.push_str(&format!(" {} {} {}", hs(i), pred(p), oh(d))); } s });
        t.push(match &self.env { None => "~".into(), Some(None) => "unset".into(), Some(Some(v)) => hs(v) });
        t.push(list(&self.blacklist));
        t.push(list(&self.overrides));
        t.push({ let mut s = self.requires.len().to_string(); for (p, i) in &self.requires { s.push_str(&format!(" {} {}", pred(p), hs(i))); } s });
        for l in [&self.r_ifs, &self.r_ifs_all] { t.push({ let mut s = l.len().to_string(); for (i, v) in l.iter() { s.push_str(&format!(" {} {}", hs(i), hs(v))); } s }); }
        t.push(list(&self.r_unless));
        t.push(list(&self.r_unless_all));
        t.push(list(&self.groups));
        t.push(match &self.vp {
            None | Some(VpS::Default) => "~".into(), Some(VpS::Os) => "os".into(), Some(VpS::NonEmpty) => "nonempty".into(),
            Some(VpS::I64(lo, hi)) => format!("i64:{}:{}", lo.map(|x| format!("i{x}")).unwrap_or("u".into()), hi.map(|x| format!("i{x}")).unwrap_or("u".into())),
            Some(VpS::Possible(pvs)) => format!("pv:{}", pvs.iter().map(|(n, al)| std::iter::once(n).chain(al.iter()).map(|s| hs(s)).collect::<Vec<_>>().join(",")).collect::<Vec<_>>().join(";")),
        });
        t.join(" ")
    }

    pub fn build(&self, env_names: &mut Vec<String>) -> Arg {
        let mut x = Arg::new(self.id.clone());
        if let Some(s) = self.short { x = x.short(s); }
        if let Some(l) = &self.long { x = x.long(l.clone()); }
        // even positions are visible aliases, odd ones hidden: parsing must not care
        for (k, al) in self.aliases.iter().enumerate() { x = if k % 2 == 0 { x.visible_alias(al.clone()) } else { x.alias(al.clone()) }; }
        for sa in &self.short_aliases { x = x.short_alias(*sa); }
        if let Some(i) = self.index { x = x.index(i); }
        if let Some(a) = self.action {
            x = x.action(match a { "set" => ArgAction::Set, "append" => ArgAction::Append, "setTrue" => ArgAction::SetTrue, "setFalse" => ArgAction::SetFalse,
                "count" => ArgAction::Count, "help" => ArgAction::Help, "helpShort" => ArgAction::HelpShort, "helpLong" => ArgAction::HelpLong, _ => ArgAction::Version });
        }
        if let Some((a, b)) = self.num_vals { x = x.num_args(match b { Some(b) => ValueRange::from(a..=b), None => ValueRange::from(a..) }); }
        if let Some(d) = self.delim { x = x.value_delimiter(d); }
        if let Some(t) = &self.terminator { x = x.value_terminator(t.clone()); }
        x = x.required(self.required).global(self.global).exclusive(self.exclusive).last(self.last).trailing_var_arg(self.trailing_var_arg)
            .allow_hyphen_values(self.allow_hyphen).allow_negative_numbers(self.allow_negative).require_equals(self.require_equals)
            .ignore_case(self.ignore_case).hide(self.hide);
        if !self.default_vals.is_empty() { x = x.default_values(self.default_vals.iter().map(|s| COsStr::from(s.clone())).collect::<Vec<_>>()); }
        if !self.default_missing.is_empty() { x = x.default_missing_values_os(self.default_missing.iter().map(|s| COsStr::from(s.clone())).collect::<Vec<_>>()); }
        for (id, p, d) in &self.default_ifs {
            let pr = match p { PredS::Present => ArgPredicate::IsPresent, PredS::Equals(v) => ArgPredicate::Equals(COsStr::from(v.clone())) };
            x = match d { Some(d) => x.default_value_if(id.clone(), pr, COsStr::from(d.clone())), None => x.default_value_if(id.clone(), pr, None::<&'static str>) };
        }
        if let Some(v) = &self.env {
            let name = format!("VERIF_ENV_{}_{}", std::process::id(), env_names.len());
            match v { Some(val) => std::env::set_var(&name, val), None => std::env::remove_var(&name) }
            x = x.env(name.clone());
            env_names.push(name);
        }
        if !self.blacklist.is_empty() { x = x.conflicts_with_all(self.blacklist.clone()); }
        if !self.overrides.is_empty() { x = x.overrides_with_all(self.overrides.clone()); }
        for (p, id) in &self.requires { x = match p { PredS::Present => x.requires(id.clone()), PredS::Equals(v) => x.requires_if(COsStr::from(v.clone()), id.clone()) }; }
        for (id, v) in &self.r_ifs { x = x.required_if_eq(id.clone(), COsStr::from(v.clone())); }
        if !self.r_ifs_all.is_empty() { x = x.required_if_eq_all(self.r_ifs_all.iter().map(|(i, v)| (i.clone(), COsStr::from(v.clone()))).collect::<Vec<_>>()); }
        if !self.r_unless.is_empty() { x = x.required_unless_present_any(self.r_unless.clone()); }
        if !self.r_unless_all.is_empty() { x = x.required_unless_present_all(self.r_unless_all.clone()); }
        for g in &self.groups { x = x.group(g.clone()); }
        if !self.val_names.is_empty() { x = x.value_names(self.val_names.clone()); }
        match &self.vp {
            None | Some(VpS::Default) => {}
            Some(VpS::Os) => x = x.value_parser(clap::value_parser!(OsString)),
            Some(VpS::NonEmpty) => x = x.value_parser(clap::builder::NonEmptyStringValueParser::new()),
            Some(VpS::I64(lo, hi)) => {
                let b = |o: &Option<i64>| o.map(std::ops::Bound::Included).unwrap_or(std::ops::Bound::Unbounded);
                x = x.value_parser(clap::value_parser!(i64).range((b(lo), b(hi))));
            }
            Some(VpS::Possible(pvs)) => x = x.value_parser(PossibleValuesParser::new(pvs.iter().map(|(n, al)| PossibleValue::new(n.clone()).aliases(al.clone())).collect::<Vec<_>>())),
        }
        x
    }
}

impl ArgS {
    /// compact human-readable form (non-default fields only)
    pub fn summary(&self) -> String {
        let mut t = vec![self.id.clone()];
        if let Some(c) = self.short { t.push(format!("-{c}")); }
        if let Some(l) = &self.long { t.push(format!("--{l}")); }
        if !self.aliases.is_empty() { t.push(format!("aliases={:?}", self.aliases)); }
        if !self.short_aliases.is_empty() { t.push(format!("short_aliases={:?}", self.short_aliases)); }
        if let Some(i) = self.index { t.push(format!("index={i}")); }
        if let Some(a) = self.action { t.push(format!("action={a}")); }
        if let Some(n) = self.num_vals { t.push(format!("num_args={:?}", n)); }
        if let Some(d) = self.delim { t.push(format!("delim={d:?}")); }
        if let Some(d) = &self.terminator { t.push(format!("term={d:?}")); }
        for (n, b) in [("required", self.required), ("global", self.global), ("exclusive", self.exclusive), ("last", self.last), ("trailing_var_arg", self.trailing_var_arg),
            ("allow_hyphen", self.allow_hyphen), ("allow_negative", self.allow_negative), ("require_equals", self.require_equals), ("ignore_case", self.ignore_case)] { if b { t.push(n.to_string()); } }
        if !self.default_vals.is_empty() { t.push(format!("default={:?}", self.default_vals)); }
        if !self.default_missing.is_empty() { t.push(format!("default_missing={:?}", self.default_missing)); }
        if !self.default_ifs.is_empty() { t.push(format!("default_ifs={:?}", self.default_ifs)); }
        if let Some(e) = &self.env { t.push(format!("env={e:?}")); }
        if !self.blacklist.is_empty() { t.push(format!("conflicts={:?}", self.blacklist)); }
        if !self.overrides.is_empty() { t.push(format!("overrides={:?}", self.overrides)); }
        if !self.requires.is_empty() { t.push(format!("requires={:?}", self.requires)); }
        if !self.r_ifs.is_empty() { t.push(format!("required_if_eq={:?}", self.r_ifs)); }
        if !self.r_ifs_all.is_empty() { t.push(format!("required_if_eq_all={:?}", self.r_ifs_all)); }
        if !self.r_unless.is_empty() { t.push(format!("required_unless_any={:?}", self.r_unless)); }
        if !self.r_unless_all.is_empty() { t.push(format!("required_unless_all={:?}", self.r_unless_all)); }
        if !self.groups.is_empty() { t.push(format!("group={:?}", self.groups)); }
        if let Some(v) = &self.vp { t.push(format!("vp={v:?}")); }
        t.join(" ")
    }
}

impl CmdS {
    pub fn summary(&self, indent: usize) -> String {
        let pad = " ".repeat(indent);
        let s = &self.settings;
        let mut out = format!("{pad}cmd {} aliases={:?} short_flag={:?} long_flag={:?}", self.name, self.aliases, self.short_flag, self.long_flag);
        for (n, b) in [("args_conflicts_with_subcommands", s.args_conflicts_with_subcommands), ("subcommand_precedence_over_arg", s.subcommand_precedence_over_arg), ("infer_long_args", s.infer_long_args),
            ("infer_subcommands", s.infer_subcommands), ("allow_external_subcommands", s.allow_external_subcommands), ("ignore_errors", s.ignore_errors), ("args_override_self", s.args_override_self),
            ("dont_delimit_trailing_values", s.dont_delimit_trailing_values), ("allow_missing_positional", s.allow_missing_positional), ("subcommand_required", s.subcommand_required),
            ("arg_required_else_help", s.arg_required_else_help), ("subcommand_negates_reqs", s.subcommand_negates_reqs), ("disable_help_flag", s.disable_help_flag),
            ("disable_version_flag", s.disable_version_flag), ("disable_help_subcommand", s.disable_help_subcommand), ("no_binary_name", s.no_binary_name), ("version", s.has_version), ("allow_hyphen_values", s.allow_hyphen_values), ("allow_negative_numbers", s.allow_negative_numbers), ("trailing_var_arg", s.trailing_var_arg)] { if b { out.push_str(&format!(" {n}")); } }
        for a in &self.args { out.push_str(&format!("\n{pad}  arg {}", a.summary())); }
        for g in &self.groups { out.push_str(&format!("\n{pad}  group {:?}", g)); }
        for c in &self.subs { out.push('\n'); out.push_str(&c.summary(indent + 2)); }
        out
    }
    pub fn encode(&self) -> String {
        let s = &self.settings;
        let mut t: Vec<String> = vec!["CMD".into(), hs(&self.name), list(&self.aliases), self.short_flag.map(hc).unwrap_or("~".into()), oh(&self.long_flag)];
        t.push({ let mut x = self.short_flag_aliases.len().to_string(); for c in &self.short_flag_aliases { x.push(' '); x.push_str(&hc(*c)); } x });
        t.push(list(&self.long_flag_aliases));
        t.push(bits(&[s.args_conflicts_with_subcommands, s.subcommand_precedence_over_arg, s.infer_long_args, s.infer_subcommands, s.allow_external_subcommands,
            s.ignore_errors, s.args_override_self, s.dont_delimit_trailing_values, s.allow_missing_positional, s.subcommand_required, s.arg_required_else_help,
            s.subcommand_negates_reqs, s.disable_help_flag, s.disable_version_flag, s.disable_help_subcommand, s.no_binary_name, s.has_version,
            s.allow_hyphen_values, s.allow_negative_numbers, s.trailing_var_arg]));
        t.push(self.args.len().to_string());
        for a in &self.args { t.push(a.encode()); }
        t.push(self.groups.len().to_string());
        for g in &self.groups { t.push(format!("GROUP {} {} {} {} {}", hs(&g.id), list(&g.args), bits(&[g.required, g.multiple]), list(&g.requires), list(&g.conflicts))); }
        t.push(self.subs.len().to_string());
        for c in &self.subs { t.push(c.encode()); }
        t.join(" ")
    }
    pub fn depth(&self) -> usize { 1 + self.subs.iter().map(|s| s.depth()).max().unwrap_or(0) }

    pub fn build(&self, env_names: &mut Vec<String>) -> Command {
        let s = &self.settings;
        let mut c = Command::new(self.name.clone());
        for (k, a) in self.aliases.iter().enumerate() { c = if k % 2 == 0 { c.visible_alias(a.clone()) } else { c.alias(a.clone()) }; }
        if let Some(f) = self.short_flag { c = c.short_flag(f); }
        if let Some(f) = &self.long_flag { c = c.long_flag(f.clone()); }
        for a in &self.short_flag_aliases { c = c.short_flag_alias(*a); }
        for a in &self.long_flag_aliases { c = c.long_flag_alias(a.clone()); }
        c = c.args_conflicts_with_subcommands(s.args_conflicts_with_subcommands).subcommand_precedence_over_arg(s.subcommand_precedence_over_arg)
            .infer_long_args(s.infer_long_args).infer_subcommands(s.infer_subcommands).allow_external_subcommands(s.allow_external_subcommands)
            .ignore_errors(s.ignore_errors).args_override_self(s.args_override_self).dont_delimit_trailing_values(s.dont_delimit_trailing_values)
            .allow_missing_positional(s.allow_missing_positional).subcommand_required(s.subcommand_required).arg_required_else_help(s.arg_required_else_help)
            .subcommand_negates_reqs(s.subcommand_negates_reqs).disable_help_flag(s.disable_help_flag).disable_version_flag(s.disable_version_flag)
            .disable_help_subcommand(s.disable_help_subcommand).no_binary_name(s.no_binary_name);
        if s.has_version { c = c.version("1.0"); }
        #[allow(deprecated)]
        { if s.allow_hyphen_values { c = c.allow_hyphen_values(true); } if s.allow_negative_numbers { c = c.allow_negative_numbers(true); } if s.trailing_var_arg { c = c.trailing_var_arg(true); } }
        for a in &self.args { c = c.arg(a.build(env_names)); }
        for g in &self.groups {
            let mut ag = ArgGroup::new(g.id.clone()).args(g.args.clone()).required(g.required).multiple(g.multiple);
            if !g.requires.is_empty() { ag = ag.requires_all(g.requires.clone()); }
            if !g.conflicts.is_empty() { ag = ag.conflicts_with_all(g.conflicts.clone()); }
            c = c.group(ag);
        }
        for sc in &self.subs { c = c.subcommand(sc.build(env_names)); }
        c
    }
}

/// canonical form of real matches, in the driver's `fmtMatches` format
pub fn canon_matches(m: &ArgMatches) -> String {
    let mut levels = vec![];
    let mut cur = Some((String::new(), m));
    while let Some((name, mm)) = cur {
        let ids: Vec<String> = mm.ids().map(|i| i.as_str().to_string()).collect();
        let mut s = format!("L {} {}", hs(&name), ids.len());
        for id in &ids {
            let src = match mm.try_get_raw_occurrences(id) {
                Err(_) => { s.push_str(&format!(" A {} ?", hs(id))); continue; }
                Ok(_) => match mm.value_source(id) { None => "~", Some(clap::parser::ValueSource::DefaultValue) => "d", Some(clap::parser::ValueSource::EnvVariable) => "e", Some(clap::parser::ValueSource::CommandLine) => "c", Some(_) => "?" },
            };
            let idx: Vec<usize> = mm.indices_of(id).map(|i| i.collect()).unwrap_or_default();
            s.push_str(&format!(" A {} {} {}", hs(id), src, idx.len()));
            for i in idx { s.push_str(&format!(" {i}")); }
            let occ: Vec<Vec<Vec<u8>>> = mm.get_raw_occurrences(id).map(|o| o.map(|g| g.map(|v| v.as_bytes().to_vec()).collect()).collect()).unwrap_or_default();
            s.push_str(&format!(" {}", occ.len()));
            for g in occ { s.push_str(&format!(" {}", g.len())); for v in g { s.push(' '); s.push_str(&hex(&v)); } }
        }
        levels.push(s);
        cur = mm.subcommand().map(|(n, sm)| (n.to_string(), sm));
    }
    levels.join(" ")
}

pub fn canon_kind(k: ErrorKind) -> String {
    match k {
        ErrorKind::UnknownArgument | ErrorKind::InvalidSubcommand => "Unknown".into(),
        k => format!("{k:?}"),
    }
}

pub fn argv_os(argv: &[Vec<u8>]) -> Vec<OsString> { argv.iter().map(|b| OsString::from_vec(b.clone())).collect() }

/// run the real parser; Ok(canon) / Err(kind) / PANIC
pub fn real_parse(cmd: &CmdS, argv: &[Vec<u8>]) -> (String, Option<ArgMatches>, Option<clap::Error>) {
    let _guard = RealCall::new(&parse_request(cmd, argv));
    let mut envs = vec![];
    let r = std::panic::catch_unwind(std::panic::AssertUnwindSafe(|| {
        let c = cmd.build(&mut envs);
        c.try_get_matches_from(argv_os(argv))
    }));
    for e in envs { std::env::remove_var(e); }
    match r {
        Err(p) => {
            let msg = p.downcast_ref::<String>().cloned().or_else(|| p.downcast_ref::<&str>().map(|s| s.to_string())).unwrap_or_default();
            (format!("PANIC {}", msg.chars().take(120).collect::<String>().replace(' ', "_").replace('\n', "_")), None, None)
        }
        Ok(Ok(m)) => (format!("OK {}", canon_matches(&m)), Some(m), None),
        Ok(Err(e)) => (format!("ERR {}", canon_kind(e.kind())), None, Some(e)),
    }
}

/// does the real library accept the definition (debug assertions)?
pub fn real_valid(cmd: &CmdS) -> bool {
    let _guard = RealCall::new(&format!("build {}", cmd.encode()));
    let mut envs = vec![];
    let r = std::panic::catch_unwind(std::panic::AssertUnwindSafe(|| { let mut c = cmd.build(&mut envs); c.build(); }));
    for e in envs { std::env::remove_var(e); }
    r.is_ok()
}

pub fn parse_request(cmd: &CmdS, argv: &[Vec<u8>]) -> String {
    format!("parse {} {} ARGV {} {}", cmd.depth(), cmd.encode(), argv.len(), argv.iter().map(|a| hex(a)).collect::<Vec<_>>().join(" ")).trim_end().to_string()
}

// ------------------------------------------------------------------ generators

pub const IDS: &[&str] = &["aa", "bb", "cc", "dd", "ee", "ff", "gg"];
pub const SHORTS: &[char] = &['a', 'b', 'c', 'd', 'x', 'y', 'é', '1'];
pub const VALS: &[&str] = &["v", "w", "1", "-1", "-x", "", "a,b", "x=y", "fast", "FAST", "sub1", "--", "-", "é", "5", "-3.5"];

#[derive(Clone, Copy, Default)]
pub struct GenCfg {
    pub relations: bool, pub defaults: bool, pub subs: bool, pub exotic: bool, pub groups: bool, pub flagsubs: bool, pub settings: bool, pub globals: bool,
}

pub fn gen_arg(rng: &mut Rng, id: &str, positional: bool, cfg: &GenCfg, ids: &[String], used_shorts: &mut Vec<char>) -> ArgS {
    let mut a = ArgS { id: id.to_string(), ..Default::default() };
    if !positional {
        let mut has = false;
        if rng.chance(3, 4) { a.long = Some(if rng.chance(1, 6) { format!("{id}-é") } else { id.to_string() }); has = true; }
        if !has || rng.chance(1, 2) {
            let c = *rng.pick(SHORTS);
            if !used_shorts.contains(&c) { used_shorts.push(c); a.short = Some(c); has = true; }
        }
        if !has { a.long = Some(id.to_string()); }
        if a.long.is_some() && rng.chance(1, 4) { a.aliases.push(format!("{id}x")); if rng.chance(1, 3) { a.aliases.push(format!("al-{id}")); } }
        // long aliases without a long name of its own (`.short('j').alias("jobs")`): the aliases are keys and inference candidates all the same
        if a.long.is_none() && a.short.is_some() && rng.chance(1, 3) { a.aliases.push(format!("{id}-only")); if rng.chance(1, 3) { a.aliases.push(format!("al-{id}")); } }
        if rng.chance(1, 8) { let c = *rng.pick(&['p', 'q', 'r']); if !used_shorts.contains(&c) { used_shorts.push(c); a.short_aliases.push(c); } }
        match rng.below(10) {
            0 | 1 => a.action = Some("setTrue"),
            2 => a.action = Some("setFalse"),
            3 => a.action = Some("count"),
            4 | 5 => a.action = Some("append"),
            6 => a.action = Some("set"),
            _ => {}
        }
    } else if rng.chance(1, 4) { a.action = Some("append"); }
    let takes = !matches!(a.action, Some("setTrue") | Some("setFalse") | Some("count"));
    if takes {
        match rng.below(12) {
            0 => a.num_vals = Some((1, None)),
            1 => a.num_vals = Some((0, None)),
            2 => a.num_vals = Some((2, Some(2))),
            3 => a.num_vals = Some((1, Some(3))),
            4 if !positional => a.num_vals = Some((0, Some(1))),
            5 => a.num_vals = Some((1, Some(1))),
            _ => {}
        }
        if rng.chance(1, 6) { a.delim = Some(','); }
        if cfg.exotic {
            if rng.chance(1, 8) { a.terminator = Some(";".into()); }
            if rng.chance(1, 6) { a.allow_hyphen = true; }
            if rng.chance(1, 6) { a.allow_negative = true; }
            if !positional && rng.chance(1, 8) && a.num_vals.map(|(_, m)| m.map(|m| m <= 1).unwrap_or(false)).unwrap_or(true) { a.require_equals = true; }
        }
        match rng.below(14) {
            0 => a.vp = Some(VpS::I64(Some(-5), Some(10))),
            1 => a.vp = Some(VpS::Possible(vec![("fast".into(), vec!["f".into()]), ("slow".into(), vec![])])),
            2 => a.vp = Some(VpS::Os),
            3 => a.vp = Some(VpS::NonEmpty),
            _ => {}
        }
        if rng.chance(1, 8) { a.ignore_case = true; if a.vp.is_none() && rng.chance(1, 2) { a.vp = Some(VpS::Os); } }
        if cfg.defaults {
            if rng.chance(1, 5) { a.default_vals = vec![if matches!(a.vp, Some(VpS::I64(..))) { "3".into() } else if matches!(a.vp, Some(VpS::Possible(..))) { "slow".into() } else { "dflt".into() }]; }
            if a.num_vals.map(|(m, _)| m == 0).unwrap_or(false) && rng.chance(1, 2) { a.default_missing = vec![if matches!(a.vp, Some(VpS::I64(..))) { "7".into() } else if matches!(a.vp, Some(VpS::Possible(..))) { "fast".into() } else { "miss".into() }]; }
            if rng.chance(1, 6) && !matches!(a.vp, Some(VpS::I64(..)) | Some(VpS::Possible(..))) { a.env = Some(if rng.chance(3, 4) { Some(rng.pick(&["envv", "e,f", ""]).to_string()) } else { None }); }
            if rng.chance(1, 6) && !ids.is_empty() && !matches!(a.vp, Some(VpS::I64(..)) | Some(VpS::Possible(..))) {
                let other = rng.pick(ids).clone();
                if other != a.id { a.default_ifs.push((other, if rng.chance(1, 2) { PredS::Present } else { PredS::Equals("v".into()) }, if rng.chance(4, 5) { Some("ifd".into()) } else { None })); }
            }
        }
    } else if cfg.defaults && rng.chance(1, 8) { a.env = Some(Some(rng.pick(&["true", "false", "1"]).to_string())); }
    if cfg.relations && !ids.is_empty() {
        let other = |rng: &mut Rng| rng.pick(ids).clone();
        if rng.chance(1, 6) { let o = other(rng); if o != a.id { a.blacklist.push(o); } }
        if rng.chance(1, 8) { let o = other(rng); a.overrides.push(o); }
        if rng.chance(1, 6) { let o = other(rng); if o != a.id { a.requires.push((if rng.chance(2, 3) { PredS::Present } else { PredS::Equals("v".into()) }, o)); } }
        // several value-conditional rules naming the SAME target: each of them alone must be enforced
        if rng.chance(1, 10) { let o = other(rng); if o != a.id { a.requires.push((PredS::Equals("w".into()), o.clone())); a.requires.push((PredS::Equals("v".into()), o)); } }
        if rng.chance(1, 10) { a.exclusive = true; }
        match rng.below(14) {
            0 => a.required = true,
            1 => { let o = other(rng); if o != a.id { a.r_ifs.push((o, "v".into())); } }
            2 => { let o = other(rng); if o != a.id { a.r_unless.push(o); } }
            3 => { let o = other(rng); let o2 = other(rng); if o != a.id && o2 != a.id { a.r_unless_all = vec![o, o2]; a.r_unless_all.dedup(); } }
            4 => { let o = other(rng); if o != a.id { a.r_ifs_all.push((o, "v".into())); } }
            // both kinds of conditional requirement on one arg (each alone must make it required)
            5 => { let o = other(rng); let o2 = other(rng); if o != a.id && o2 != a.id && o != o2 { a.r_ifs.push((o, "v".into())); a.r_ifs_all.push((o2, "v".into())); } }
            _ => {}
        }
    }
    if cfg.globals && !positional && !a.required && rng.chance(1, 5) { a.global = true; }
    if rng.chance(1, 12) { a.hide = true; }
    a
}

pub fn gen_cmd(rng: &mut Rng, cfg: &GenCfg, depth: usize, name: &str) -> CmdS { gen_cmd_in(rng, cfg, depth, name, &[]) }

/// `inherited`: ids of global args defined by ancestors (valid relation targets at this level)
pub fn gen_cmd_in(rng: &mut Rng, cfg: &GenCfg, depth: usize, name: &str, inherited: &[String]) -> CmdS {
    let mut c = CmdS { name: name.to_string(), ..Default::default() };
    let nopt = rng.below(5);
    let npos = match rng.below(6) { 0 | 1 => 0, 2 | 3 => 1, 4 => 2, _ => 3 };
    let ids: Vec<String> = IDS.iter().take(nopt + npos).map(|s| format!("{}{}", s, if depth > 0 { depth.to_string() } else { String::new() })).collect();
    let mut used = vec![];
    for (i, id) in ids.iter().enumerate() {
        let positional = i >= nopt;
        let targets: Vec<String> = ids.iter().cloned().chain(inherited.iter().cloned()).collect();
        let mut a = gen_arg(rng, id, positional, cfg, &targets, &mut used);
        if positional {
            let is_last_pos = i + 1 == ids.len();
            if !is_last_pos { // earlier positionals: single value mostly
                if !(cfg.exotic && i + 2 == ids.len() && rng.chance(1, 6)) { a.num_vals = None; a.action = None; }
            } else if cfg.exotic {
                if rng.chance(1, 6) { a.last = true; }
                if !a.last && rng.chance(1, 6) && (a.num_vals.map(|(a2, b)| b != Some(a2) || a2 > 1).unwrap_or(false) || a.action == Some("append")) { a.trailing_var_arg = true; }
            }
        }
        c.args.push(a);
    }
    if cfg.groups && ids.len() >= 2 && rng.chance(1, 3) {
        let mut g = GroupS { id: format!("grp{depth}"), ..Default::default() };
        for id in &ids { if rng.chance(1, 2) { g.args.push(id.clone()); } }
        if g.args.is_empty() { g.args.push(ids[0].clone()); }
        g.required = rng.chance(1, 4); g.multiple = rng.chance(1, 3);
        if rng.chance(1, 4) { g.requires.push(rng.pick(&ids).clone()); }
        if rng.chance(1, 4) { g.conflicts.push(rng.pick(&ids).clone()); }
        // a second group; conflicts between the two groups are declared ONE way only
        if ids.len() >= 3 && rng.chance(1, 2) {
            let mut g2 = GroupS { id: format!("grpb{depth}"), ..Default::default() };
            for id in &ids { if !g.args.contains(id) && rng.chance(2, 3) { g2.args.push(id.clone()); } }
            if !g2.args.is_empty() {
                g2.multiple = rng.chance(1, 2);
                match rng.below(3) { 0 => g.conflicts.push(g2.id.clone()), 1 => g2.conflicts.push(g.id.clone()), _ => {} }
                if rng.chance(1, 5) { g2.requires.push(rng.pick(&ids).clone()); }
                c.groups.push(g2);
            }
        }
        c.groups.push(g);
        if rng.chance(1, 4) && !c.args.is_empty() { let k = rng.below(c.args.len()); c.args[k].groups.push(format!("agrp{depth}")); }
    }
    if cfg.settings {
        let s = &mut c.settings;
        s.args_override_self = rng.chance(1, 4);
        s.infer_long_args = rng.chance(1, 5);
        s.dont_delimit_trailing_values = rng.chance(1, 6);
        s.disable_help_flag = rng.chance(1, 5);
        s.has_version = rng.chance(1, 4);
        s.disable_version_flag = rng.chance(1, 8);
        s.ignore_errors = rng.chance(1, 10);
        s.arg_required_else_help = rng.chance(1, 12);
        if cfg.exotic { s.allow_missing_positional = rng.chance(1, 6); s.allow_hyphen_values = rng.chance(1, 10); s.allow_negative_numbers = rng.chance(1, 10); s.trailing_var_arg = rng.chance(1, 10); }
    }
    if cfg.subs && depth < 2 && rng.chance(if depth == 0 { 2 } else { 1 }, 3) {
        let n = 1 + rng.below(2);
        for k in 0..n {
            let nm = format!("sub{}{}", depth + 1, if k == 0 { "" } else { "b" });
            let inh: Vec<String> = inherited.iter().cloned().chain(c.args.iter().filter(|a| a.global).map(|a| a.id.clone())).collect();
            let mut sc = gen_cmd_in(rng, cfg, depth + 1, &nm, &inh);
            if rng.chance(1, 3) { sc.aliases.push(format!("s{}{}", depth + 1, k)); }
            if cfg.flagsubs && rng.chance(1, 3) {
                let f = *rng.pick(&['S', 'Q', 'R']);
                if !c.subs.iter().any(|s: &CmdS| s.short_flag == Some(f)) { sc.short_flag = Some(f); }
                if rng.chance(1, 2) {
                    sc.long_flag = Some(format!("lf{}{}", depth + 1, k));
                    if rng.chance(1, 2) { sc.long_flag_aliases.push(format!("la{}{}", depth + 1, k)); if rng.chance(1, 3) { sc.long_flag_aliases.push(format!("lfx{}{}", depth + 1, k)); } }
                }
                if sc.short_flag.is_some() && rng.chance(1, 3) {
                    let f2 = *rng.pick(&['T', 'U']);
                    if !c.subs.iter().any(|s: &CmdS| s.short_flag_aliases.contains(&f2)) { sc.short_flag_aliases.push(f2); }
                }
            }
            c.subs.push(sc);
        }
        if cfg.settings {
            let s = &mut c.settings;
            s.args_conflicts_with_subcommands = rng.chance(1, 5);
            s.subcommand_precedence_over_arg = rng.chance(1, 6);
            s.infer_subcommands = rng.chance(1, 5);
            s.subcommand_required = rng.chance(1, 8);
            s.subcommand_negates_reqs = rng.chance(1, 6);
            s.disable_help_subcommand = rng.chance(1, 5);
        }
    }
    if cfg.settings && cfg.exotic && rng.chance(1, 8) { c.settings.allow_external_subcommands = true; }
    c
}

/// all spellings of the args of one level as argv tokens
pub fn gen_argv(rng: &mut Rng, cmd: &CmdS, maxlen: usize) -> Vec<Vec<u8>> {
    let mut out: Vec<Vec<u8>> = vec![b"prog".to_vec()];
    let mut cur = cmd;
    let n = rng.below(maxlen + 1);
    let mut i = 0;
    while i < n {
        i += 1;
        let opts: Vec<&ArgS> = cur.args.iter().filter(|a| a.long.is_some() || a.short.is_some()).collect();
        match rng.below(20) {
            0..=5 if !opts.is_empty() => {
                let a = *rng.pick(&opts);
                let takes = !matches!(a.action, Some("setTrue") | Some("setFalse") | Some("count"));
                let val: Vec<u8> = { let mut v = rng.pick(VALS).as_bytes().to_vec(); if rng.chance(1, 10) { v.push(0xff); } v };
                let cat = |head: String, tail: &[u8]| { let mut b = head.into_bytes(); b.extend_from_slice(tail); b };
                let use_long = (a.long.is_some() || !a.aliases.is_empty()) && (a.short.is_none() || rng.chance(1, 2));
                if use_long {
                    let mut name = if !a.aliases.is_empty() && (a.long.is_none() || rng.chance(1, 4)) { rng.pick(&a.aliases).clone() } else { a.long.clone().unwrap() };
                    if cur.settings.infer_long_args && rng.chance(1, 3) && name.len() > 1 { let cut = 1 + rng.below(name.chars().count() - 1); name = name.chars().take(cut).collect(); }
                    if takes && rng.chance(1, 2) { out.push(cat(format!("--{name}="), &val)); }
                    else { out.push(format!("--{name}").into_bytes()); if takes && rng.chance(4, 5) { out.push(val); } }
                } else {
                    let s = a.short.unwrap();
                    match rng.below(4) {
                        0 if takes => out.push(cat(format!("-{s}"), &val)),
                        1 if takes => out.push(cat(format!("-{s}="), &val)),
                        _ => { out.push(format!("-{s}").into_bytes()); if takes && rng.chance(4, 5) { out.push(val); } }
                    }
                }
            }
            6 | 7 => { // cluster of shorts
                let shorts: Vec<char> = opts.iter().filter_map(|a| a.short).collect();
                if !shorts.is_empty() {
                    let k = 1 + rng.below(3);
                    let mut s = String::from("-");
                    for _ in 0..k { s.push(*rng.pick(&shorts)); }
                    if rng.chance(1, 5) { if let Some(f) = cur.subs.iter().filter_map(|x| x.short_flag).next() { s.push(f); if rng.chance(1, 2) { s.push(*rng.pick(&shorts)); } } }
                    if rng.chance(1, 6) { s.push_str(*rng.pick(VALS)); }
                    // `-fo=value`: a value-taking short at the end of a cluster, with the `=` form
                    else if rng.chance(1, 4) { if let Some(a) = opts.iter().find(|a| a.short.is_some() && !matches!(a.action, Some("setTrue") | Some("setFalse") | Some("count"))) { s.push(a.short.unwrap()); s.push('='); s.push_str(*rng.pick(VALS)); } }
                    out.push(s.into_bytes());
                }
            }
            8..=11 => out.push(rng.pick(VALS).as_bytes().to_vec()),
            12 => out.push(b"--".to_vec()),
            13 => out.push(rng.pick(&["--unknown", "-z", "--aa=", "--=x", "-", "--help", "-h", "--version", "-V", "help", ";"]).as_bytes().to_vec()),
            14 => { let mut v = rng.pick(VALS).as_bytes().to_vec(); v.push(0xff); if rng.chance(1, 2) { v.insert(0, b'-'); } out.push(v); }
            15..=17 if !cur.subs.is_empty() => {
                let sc = rng.pick(&cur.subs);
                let mut nm = if !sc.aliases.is_empty() && rng.chance(1, 3) { sc.aliases[0].clone() } else { sc.name.clone() };
                if cur.settings.infer_subcommands && rng.chance(1, 3) { nm = nm.chars().take(1 + rng.below(nm.len())).collect(); }
                match (sc.short_flag, &sc.long_flag, rng.below(3)) {
                    (Some(f), _, 0) => { let f = if !sc.short_flag_aliases.is_empty() && rng.chance(1, 3) { sc.short_flag_aliases[0] } else { f }; out.push(format!("-{f}").into_bytes()) }
                    (_, Some(l), 1) => {
                        // the long flag or one of its aliases, in full or (under inference) as a prefix
                        let mut l = if !sc.long_flag_aliases.is_empty() && rng.chance(1, 2) { rng.pick(&sc.long_flag_aliases).clone() } else { l.clone() };
                        if cur.settings.infer_subcommands && rng.chance(1, 2) { l = l.chars().take(1 + rng.below(l.len())).collect(); }
                        out.push(format!("--{l}").into_bytes())
                    }
                    _ => out.push(nm.into_bytes()),
                }
                cur = sc;
            }
            _ => out.push(rng.pick(VALS).as_bytes().to_vec()),
        }
    }
    out
}
