//! C12 — help and usage always render, list every visible item and nothing hidden.
use crate::util::*;
use clap::builder::PossibleValue;
use clap::{Arg, ArgAction, Command};

#[derive(Clone, Debug)]
struct HA {
    id: String, short: Option<char>, long: Option<String>, vnames: Vec<String>, kind: u8, // 0 SetTrue 1 Count 2 Set 3 Append 4 positional
    num: Option<(usize, Option<usize>)>, required: bool, req_eq: bool, hide: bool, hide_s: bool, hide_l: bool, nlh: bool,
    hide_pv: bool, hide_def: bool, heading: Option<String>, help: Option<String>, long_help: Option<String>, defaults: Vec<String>,
    pvs: Vec<(String, bool, Option<String>)>, order: Option<usize>, last: bool,
}
#[derive(Clone, Debug)]
struct HS { name: String, short_flag: Option<char>, long_flag: Option<String>, hide: bool, about: Option<String>, aliases: Vec<String>, args: Vec<HA> }
#[derive(Clone, Debug)]
struct HC { args: Vec<HA>, subs: Vec<HS>, alpha: bool, nlh: bool, no_help_flag: bool, template: Option<String>, flatten: bool, about: Option<String>, after: Option<String>, sub_heading: Option<String> }

const WORDS: [&str; 12] = ["lorem", "ipsum", "dolor", "sit", "amet", "consectetur", "adipiscing", "elit", "sed", "do", "eiusmod", "tempor"];
const SHORTS: &str = "abcdefgijkmnopqrtuwyzABCDEFG";

fn text(rng: &mut Rng, marker: &str) -> String {
    let n = match rng.below(5) { 0 => 0, 1 => 1, 2 => 4, 3 => 12, _ => 30 };
    let mut s = marker.to_string();
    for _ in 0..n { s.push(' '); s.push_str(*rng.pick(&WORDS[..])); }
    if rng.chance(1, 12) { s.push_str(" wide\u{4f60}\u{597d} caf\u{e9}"); }
    s
}

fn gen_args(rng: &mut Rng, prefix: &str, shorts: &mut Vec<char>, n_opts: usize, n_pos: usize) -> Vec<HA> {
    let mut out = vec![];
    let mut prev_required = true;
    for i in 0..(n_opts + n_pos) {
        let positional = i >= n_opts;
        let id = format!("{prefix}{i:02}");
        let kind = if positional { 4 } else { rng.below(4) as u8 };
        let (short, long) = if positional { (None, None) } else {
            let s = if !shorts.is_empty() && rng.chance(2, 3) {
                // prefer the other case of a letter that is already taken: `-c` / `-C` share most of their help sort key
                let twin = shorts.iter().position(|c| c.is_ascii_alphabetic() && !shorts.contains(&(if c.is_ascii_lowercase() { c.to_ascii_uppercase() } else { c.to_ascii_lowercase() })) && SHORTS.contains(if c.is_ascii_lowercase() { c.to_ascii_uppercase() } else { c.to_ascii_lowercase() }));
                match twin { Some(k) if rng.chance(1, 2) => Some(shorts.remove(k)), _ => Some(shorts.remove(rng.below(shorts.len()))) }
            } else { None };
            let used: Vec<char> = SHORTS.chars().filter(|c| !shorts.contains(c)).collect();
            let l = if s.is_none() || rng.chance(1, 2) {
                // sometimes exactly what `option_sort_key` derives from a short flag (`c0`, `c1`)
                if prefix == "a" && !used.is_empty() && rng.chance(1, 6) { let c = *rng.pick(&used); Some(format!("{}{}", c.to_ascii_lowercase(), if c.is_ascii_lowercase() { '0' } else { '1' })) }
                else { Some(format!("lo{prefix}{i}x{}", "x".repeat(rng.below(3) * rng.below(8)))) }
            } else { None };
            (s, l)
        };
        let takes = kind >= 2;
        let last_pos = positional && i == n_opts + n_pos - 1;
        let mut vnames = vec![];
        let mut num = None;
        if takes {
            match rng.below(4) { 0 => {}, 1 | 2 => vnames.push(format!("VN{}{i}A", prefix.to_uppercase())), _ => { vnames.push(format!("VN{}{i}A", prefix.to_uppercase())); vnames.push(format!("VN{}{i}B", prefix.to_uppercase())); } }
            if vnames.len() < 2 {
                num = if positional {
                    if last_pos { *rng.pick(&[None, None, Some((1, None)), Some((0, None)), Some((2, Some(2))), Some((1, Some(3)))]) } else { None }
                } else {
                    *rng.pick(&[None, None, Some((0, Some(1))), Some((2, Some(2))), Some((1, None)), Some((0, None)), Some((1, Some(3)))])
                };
            }
        }
        let required = if positional { let r = prev_required && rng.chance(1, 2); prev_required = r; r } else { takes && rng.chance(1, 6) };
        let hide = rng.chance(1, 6);
        let pvs = if takes && num.is_none() && vnames.len() < 2 && rng.chance(1, 3) {
            let with_help = rng.chance(1, 2);
            (0..1 + rng.below(3)).map(|j| {
                let h = rng.chance(1, 4);
                (format!("pv{id}k{j}{}{}", "k".repeat(rng.below(4)), rng.pick(&["", "", "", "\u{e9}", "\u{4f60}\u{597d}", "\u{e9}\u{e9}\u{e9}"])), h, if with_help && rng.chance(2, 3) { Some(text(rng, &format!("PH{id}k{j}"))) } else { None })
            }).collect()
        } else { vec![] };
        let defaults = if takes && !required && num.is_none() && vnames.len() < 2 && rng.chance(1, 4) {
            vec![pvs.iter().find(|p| !p.1).map(|p| p.0.clone()).unwrap_or_else(|| format!("dflt{id}"))]
        } else { vec![] };
        let vnames_len = vnames.len();
        out.push(HA {
            id: id.clone(), short, long, vnames, kind, num, required, req_eq: takes && !positional && vnames_len < 2 && !matches!(num, Some((2, _))) && rng.chance(1, 4), hide,
            hide_s: rng.chance(1, 8), hide_l: rng.chance(1, 8), nlh: rng.chance(1, 10), hide_pv: takes && rng.chance(1, 8), hide_def: takes && rng.chance(1, 8),
            heading: if rng.chance(1, 5) { Some(format!("Heading{}", rng.below(2))) } else { None },
            help: if rng.chance(5, 6) { Some(text(rng, &format!("H{id}"))) } else { None },
            long_help: if rng.chance(1, 8) { Some(text(rng, &format!("LH{id}"))) } else { None },
            defaults, pvs, order: if rng.chance(1, 3) { Some(rng.below(2)) } else { None },
            // `-- <ARGS>`: the usage line has a branch of its own for a `last(true)` positional
            last: last_pos && rng.chance(1, 3),
        });
    }
    out
}

fn gen_hc(rng: &mut Rng) -> HC {
    let mut shorts: Vec<char> = SHORTS.chars().collect();
    let n_opts = match rng.below(6) { 0 => 0, 1 => 1, 2 => 1, 3 => 2, 4 => 4, _ => 7 };
    let n_pos = rng.below(3);
    let args = gen_args(rng, "a", &mut shorts, n_opts, n_pos);
    let nsubs = match rng.below(4) { 0 | 1 => 0, 2 => 1, _ => 3 };
    let subs = (0..nsubs).map(|i| {
        // one pool for the whole tree: with flatten_help a subcommand's flags are printed in the parent's help,
        // where the letter of a hidden parent flag must stay a unique token
        let mut sshorts: Vec<char> = std::mem::take(&mut shorts);
        let hs = HS {
            name: format!("sc{i}n{}", "n".repeat(rng.below(3) * rng.below(6))),
            short_flag: if rng.chance(1, 4) && !sshorts.is_empty() { Some(sshorts.remove(rng.below(sshorts.len()))) } else { None },
            long_flag: if rng.chance(1, 4) { Some(format!("lsf{i}x")) } else { None },
            hide: rng.chance(1, 5), about: if rng.chance(3, 4) { Some(text(rng, &format!("AB{i}"))) } else { None },
            aliases: if rng.chance(1, 4) { vec![format!("al{i}s")] } else { vec![] },
            args: { let (no, np) = (rng.below(3), rng.below(2)); gen_args(rng, &format!("s{i}"), &mut sshorts, no, np) },
        };
        shorts = sshorts;
        hs
    }).collect();
    HC {
        args, subs, alpha: rng.chance(1, 5), nlh: rng.chance(1, 10), no_help_flag: rng.chance(1, 8),
        template: if rng.chance(1, 10) { Some(rng.pick(&["{name} {usage}\n{all-args}", "{usage-heading} {usage}\n\n{options}\n--\n{positionals}\n--\n{subcommands}", "{about}\n{tab}{usage}{after-help}"]).to_string()) } else { None },
        flatten: rng.chance(1, 10), about: if rng.chance(1, 2) { Some(text(rng, "ABOUT")) } else { None },
        after: if rng.chance(1, 4) { Some(text(rng, "AFTER")) } else { None },
        sub_heading: if rng.chance(1, 6) { Some("Subs".to_string()) } else { None },
    }
}

fn build_arg(a: &HA) -> Arg {
    let mut r = Arg::new(a.id.clone());
    if let Some(s) = a.short { r = r.short(s); }
    if let Some(l) = &a.long { r = r.long(l.clone()); }
    r = match a.kind { 0 => r.action(ArgAction::SetTrue), 1 => r.action(ArgAction::Count), 2 => r.action(ArgAction::Set), 3 => r.action(ArgAction::Append),
        _ => if matches!(a.num, Some((_, None)) | Some((1, Some(3)))) { r.action(ArgAction::Append) } else { r.action(ArgAction::Set) } };
    if !a.vnames.is_empty() { r = r.value_names(a.vnames.clone()); }
    if let Some((lo, hi)) = a.num { r = match hi { Some(h) => r.num_args(lo..=h), None => r.num_args(lo..) }; }
    if a.required { r = r.required(true); }
    if a.last { r = r.last(true); }
    if a.req_eq { r = r.require_equals(true); }
    if a.hide { r = r.hide(true); }
    if a.hide_s { r = r.hide_short_help(true); }
    if a.hide_l { r = r.hide_long_help(true); }
    if a.nlh { r = r.next_line_help(true); }
    if a.hide_pv { r = r.hide_possible_values(true); }
    if a.hide_def { r = r.hide_default_value(true); }
    if let Some(h) = &a.heading { r = r.help_heading(h.clone()); }
    if let Some(h) = &a.help { r = r.help(h.clone()); }
    if let Some(h) = &a.long_help { r = r.long_help(h.clone()); }
    if !a.defaults.is_empty() { r = r.default_values(a.defaults.clone()); }
    if !a.pvs.is_empty() {
        r = r.value_parser(a.pvs.iter().map(|(n, h, help)| { let mut p = PossibleValue::new(n.clone()).hide(*h); if let Some(x) = help { p = p.help(x.clone()); } p }).collect::<Vec<_>>());
    }
    if let Some(o) = a.order { r = r.display_order(o); }
    r
}

fn build_cmd(c: &HC, width: usize) -> Command {
    let mut r = Command::new("prog").term_width(width);
    if c.alpha { r = r.next_display_order(None); }
    for a in &c.args { r = r.arg(build_arg(a)); }
    for s in &c.subs {
        let mut sc = Command::new(s.name.clone());
        if let Some(f) = s.short_flag { sc = sc.short_flag(f); }
        if let Some(f) = &s.long_flag { sc = sc.long_flag(f.clone()); }
        if s.hide { sc = sc.hide(true); }
        if let Some(a) = &s.about { sc = sc.about(a.clone()); }
        for al in &s.aliases { sc = sc.visible_alias(al.clone()); }
        for a in &s.args { sc = sc.arg(build_arg(a)); }
        r = r.subcommand(sc);
    }
    if c.nlh { r = r.next_line_help(true); }
    if c.no_help_flag { r = r.disable_help_flag(true); }
    if let Some(t) = &c.template { r = r.help_template(t.clone()); }
    if c.flatten { r = r.flatten_help(true); }
    if let Some(a) = &c.about { r = r.about(a.clone()); }
    if let Some(a) = &c.after { r = r.after_help(a.clone()); }
    if let Some(h) = &c.sub_heading { r = r.subcommand_help_heading(h.clone()); }
    r
}

/// the model request for one level, read off the BUILT real command through its public getters
fn request(cmd: &Command, use_long: bool, width: usize) -> String {
    let dw = clap_builder::__verif::display_width;
    let mut toks = vec!["hsec".to_string(), b01(use_long).into(), b01(cmd.is_next_line_help_set()).into(), if width == 0 { "~".into() } else { width.to_string() }];
    let args: Vec<&Arg> = cmd.get_arguments().collect();
    toks.push(args.len().to_string());
    for a in args {
        toks.push(hex(a.get_id().as_str().as_bytes()));
        toks.push(a.get_short().map(|c| hex(c.to_string().as_bytes())).unwrap_or("~".into()));
        toks.push(a.get_long().map(|l| hex(l.as_bytes())).unwrap_or("~".into()));
        let vn = a.get_value_names().unwrap_or(&[]);
        toks.push(vn.len().to_string());
        for v in vn { toks.push(hex(v.as_str().as_bytes())); }
        let num = a.get_num_args().expect("built");
        toks.push(num.min_values().to_string());
        toks.push(if num.max_values() == usize::MAX { "~".into() } else { num.max_values().to_string() });
        let bits = [num.takes_values(), a.is_required_set(), matches!(a.get_action(), ArgAction::Count), matches!(a.get_action(), ArgAction::Append),
            a.is_require_equals_set(), a.is_hide_set(), a.is_hide_short_help_set(), a.is_hide_long_help_set(), a.is_next_line_help_set(),
            a.is_hide_possible_values_set(), a.is_hide_default_value_set()];
        toks.push(bits.iter().map(|b| b01(*b)).collect::<String>());
        toks.push(a.get_help_heading().map(|h| hex(h.as_bytes())).unwrap_or("~".into()));
        let h = a.get_help().or_else(|| a.get_long_help()).map(|s| dw(&s.to_string())).unwrap_or(0);
        toks.push(h.to_string());
        let defs = a.get_default_values();
        toks.push(defs.len().to_string());
        for d in defs { toks.push(hex(d.to_string_lossy().as_bytes())); }
        let pvs = a.get_possible_values();
        toks.push(pvs.len().to_string());
        for p in pvs { toks.push(hex(p.get_name().as_bytes())); toks.push(format!("{}{}", b01(p.is_hide_set()), b01(p.get_help().is_some()))); toks.push(dw(p.get_name()).to_string()); }
    }
    let subs: Vec<&Command> = cmd.get_subcommands().collect();
    toks.push(subs.len().to_string());
    for s in subs {
        toks.push(hex(s.get_name().as_bytes()));
        toks.push(s.get_short_flag().map(|c| hex(c.to_string().as_bytes())).unwrap_or("~".into()));
        toks.push(s.get_long_flag().map(|l| hex(l.as_bytes())).unwrap_or("~".into()));
        toks.push(b01(s.is_hide_set()).into());
        let about = s.get_about().or_else(|| s.get_long_about()).map(|x| dw(&x.to_string())).unwrap_or(0);
        toks.push(about.to_string());
        let mut als: Vec<String> = s.get_visible_short_flag_aliases().map(|c| format!("-{c}")).collect();
        als.extend(s.get_visible_aliases().map(|x| x.to_string()));
        toks.push(if als.is_empty() { "0".into() } else { dw(&format!("[aliases: {}]", als.join(", "))).to_string() });
    }
    toks.join(" ")
}

struct Sec { head: String, lines: Vec<String> }
/// split the `{all-args}` part of a default-template help into sections
fn split_sections(out: &str) -> Vec<Sec> {
    let mut secs: Vec<Sec> = vec![];
    let mut seen_usage = false;
    for l in out.lines() {
        if l.starts_with("Usage:") { seen_usage = true; continue; }
        if !seen_usage { continue; }
        if !l.starts_with(' ') && l.ends_with(':') && !l.is_empty() { secs.push(Sec { head: l[..l.len() - 1].to_string(), lines: vec![] }); continue; }
        if let Some(s) = secs.last_mut() { s.lines.push(l.to_string()); }
    }
    secs
}

/// compare one model-predicted section with the real lines
fn check_lines(real: &Sec, nl: bool, entries: &[(String, String, String)], marker_of: &dyn Fn(&str) -> Option<String>) -> Result<(), String> {
    for (id, left_hex, pad) in entries {
        let left = String::from_utf8(unhex(left_hex)).unwrap();
        let idx = real.lines.iter().position(|l| l.starts_with(&left) && (l.len() == left.len() || l.as_bytes()[left.len()] == b' '));
        let Some(idx) = idx else { return Err(format!("no line starts with {left:?} (arg {})", String::from_utf8_lossy(&unhex(id)))); };
        let line = &real.lines[idx];
        let marker = marker_of(&String::from_utf8_lossy(&unhex(id)));
        if pad == "UNDERFLOW" { return Err(format!("model predicts a padding underflow for {left:?} but the real renderer produced {line:?}")); }
        match (&marker, nl) {
            (Some(m), false) => {
                let want = format!("{left}{}{m}", " ".repeat(pad.parse::<usize>().unwrap()));
                if !line.starts_with(&want) { return Err(format!("line {line:?} does not start with {want:?}")); }
            }
            (Some(m), true) => {
                if line.trim_end() != left.trim_end() { return Err(format!("next-line mode: line {line:?} is not {left:?}")); }
                let next = real.lines.get(idx + 1).map(|s| s.as_str()).unwrap_or("");
                let want = format!("{}{m}", " ".repeat(10));
                if !next.starts_with(&want) { return Err(format!("next-line mode: following line {next:?} does not start with {want:?}")); }
            }
            (None, _) => {
                if !line.starts_with(&left) { return Err(format!("line {line:?} vs {left:?}")); }
            }
        }
    }
    Ok(())
}

/// `tok` occurs as a whole flag / name (not inside a longer flag or word)
pub(crate) fn has_token(text: &str, tok: &str) -> bool {
    let tb = text.as_bytes();
    let mut from = 0;
    while let Some(p) = text[from..].find(tok) {
        let i = from + p; let j = i + tok.len();
        let before_ok = i == 0 || !(tb[i - 1] == b'-' || tb[i - 1].is_ascii_alphanumeric());
        let after_ok = j >= tb.len() || !(tb[j].is_ascii_alphanumeric() || tb[j] == b'-');
        if before_ok && after_ok { return true; }
        from = i + 1;
    }
    false
}

/// (tokens that may appear nowhere, tokens that may not appear in the arg sections)
fn hidden_tokens(a: &HA, use_long: bool) -> (Vec<String>, Vec<String>) {
    let shown = !a.hide && ((use_long && !a.hide_l) || (!use_long && !a.hide_s) || a.nlh);
    let mut t = vec![];
    let mut everywhere = vec![];
    if !shown && !a.required {
        if let Some(l) = &a.long { t.push(format!("--{l}")); }
        if let Some(s) = a.short { t.push(format!("-{s}")); }
        for v in &a.vnames { t.push(v.clone()); }
        if a.kind == 4 || a.vnames.is_empty() && a.kind >= 2 { t.push(a.id.to_uppercase()); t.push(format!("<{}>", a.id)); t.push(format!("[{}]", a.id)); }
        if let Some(h) = &a.help { t.push(h.split(' ').next().unwrap().to_string()); }
        // `hide(true)`: nowhere, usage included; hidden for this mode only: the usage line is shared by both modes
        if a.hide { everywhere = std::mem::take(&mut t); }
    }
    for (n, h, help) in &a.pvs {
        if *h { everywhere.push(n.clone()); if let Some(x) = help { everywhere.push(x.split(' ').next().unwrap().to_string()); } }
    }
    (everywhere, t)
}

pub fn run(o: &Opts) -> Report {
    let mut rep = Report::new("C12", "random command trees (short-only / long-only / both flags, counts, options with 0..many values, value names, require_equals, positionals, headings, hide / hide_short_help / hide_long_help / next_line_help, possible values with and without help, defaults, display order, hidden subcommands, flag subcommands, templates, flatten_help) x term widths 0..200 x short/long help; oracle on the real crate: no panic in render_help/render_long_help/render_usage/-h/--help, no run of more than 120 spaces, every arg shown for the mode listed under its heading, no token of an optional hidden arg / hidden subcommand / hidden possible value anywhere, help flag at a subcommand yields that subcommand's help; model: sections, left columns, longest, next-line decision and padding of every section predicted from the built command's public getters; non-trivial = at least one section with two or more lines");
    let mut rng = Rng::new(o.seed ^ 0xC12);
    let n_cmds = if o.thorough() { 6000 } else { 600 };
    let widths_per = if o.thorough() { 8 } else { 4 };
    let mut reqs: Vec<String> = vec![]; let mut ctx: Vec<(HC, usize, bool, String)> = vec![];
    for ci in 0..n_cmds {
        let hc = gen_hc(&mut rng);
        // validity
        let ok = std::panic::catch_unwind(|| { let mut c = build_cmd(&hc, 80); c.build(); }).is_ok();
        if !ok { rep.count("invalid_definition(skipped)"); continue; }
        rep.count("commands");
        let mut widths: Vec<usize> = vec![0, *rng.pick(&[1, 2, 5, 9, 10, 11, 12, 13, 14, 15, 16, 17, 18, 19, 20])];
        for _ in 0..widths_per { widths.push(rng.below(201)); }
        if ci % 50 == 0 { widths = (0..=200).collect(); }
        for &w in &widths {
            for use_long in [false, true] {
                let key = format!("cmd#{ci} width={w} long={use_long} {hc:?}");
                let r = std::panic::catch_unwind(|| {
                    let mut c = build_cmd(&hc, w);
                    c.build();
                    let help = if use_long { c.render_long_help().to_string() } else { c.render_help().to_string() };
                    let usage = c.render_usage().to_string();
                    (request(&c, use_long, w), help, usage)
                });
                let (req, help, usage) = match r {
                    Err(_) => { rep.oracle_fail("help-render-panics", &key, "render_help/render_long_help/render_usage panicked"); continue; }
                    Ok(x) => x,
                };
                rep.count(if use_long { "rendered_long" } else { "rendered_short" });
                // unbounded padding
                let mut run_len = 0usize; let mut max_run = 0usize;
                for ch in help.chars() { if ch == ' ' { run_len += 1; max_run = max_run.max(run_len); } else { run_len = 0; } }
                if max_run > 120 || help.len() > 200_000 { rep.oracle_fail("unbounded-padding", &key, &format!("run of {max_run} spaces, {} bytes", help.len())); }
                // hidden items nowhere
                let both = format!("{help}\n{usage}");
                let mut in_usage = false;
                let body: String = help.lines().filter(|l| { if l.starts_with("Usage:") { in_usage = true; } else if l.is_empty() { in_usage = false; } !in_usage }).collect::<Vec<_>>().join("\n");
                for a in &hc.args {
                    let (everywhere, sections_only) = hidden_tokens(a, use_long);
                    for t in everywhere {
                        if has_token(&both, &t) { rep.oracle_fail("hidden-item-shown", &key, &format!("token {t:?} of hidden arg {} appears:\n{both}", a.id)); }
                    }
                    for t in sections_only {
                        if hc.template.is_none() && has_token(&body, &t) { rep.oracle_fail("hidden-item-shown", &key, &format!("token {t:?} of arg {} hidden for this mode appears outside the usage:\n{help}", a.id)); }
                    }
                }
                for s in &hc.subs {
                    if s.hide {
                        let mut toks = vec![s.name.clone()];
                        if let Some(f) = &s.long_flag { toks.push(format!("--{f}")); }
                        if let Some(a) = &s.about { toks.push(a.split(' ').next().unwrap().to_string()); }
                        for t in toks { if both.contains(&t) { rep.oracle_fail("hidden-item-shown", &key, &format!("token {t:?} of hidden subcommand appears:\n{both}")); } }
                    }
                }
                // visible items listed in their section (default template or {all-args}, not flattened)
                let default_layout = hc.template.is_none() && !hc.flatten;
                let secs = split_sections(&help);
                if default_layout {
                    for a in &hc.args {
                        let shown = !a.hide && ((use_long && !a.hide_l) || (!use_long && !a.hide_s) || a.nlh);
                        if !shown { continue; }
                        let head = a.heading.clone().unwrap_or(if a.kind == 4 { "Arguments".into() } else { "Options".into() });
                        let tok = if let Some(l) = &a.long { format!("--{l}") } else if let Some(s) = a.short { format!("-{s}") }
                            else if let Some(v) = a.vnames.first() { v.clone() } else { a.id.clone() };
                        let found = secs.iter().any(|s| s.head == head && s.lines.iter().any(|l| l.starts_with("  ") && !l.starts_with("   ") && has_token(l, &tok)
                            || (a.long.is_some() && a.short.is_none() && l.starts_with("      --") && has_token(l, &tok))));
                        if !found { rep.oracle_fail("visible-arg-not-listed", &key, &format!("{tok:?} not under {head:?}:\n{help}")); }
                    }
                    for s in &hc.subs {
                        if s.hide { continue; }
                        let head = hc.sub_heading.clone().unwrap_or("Commands".into());
                        let found = secs.iter().any(|x| x.head == head && x.lines.iter().any(|l| l.starts_with(&format!("  {}", s.name))));
                        if !found { rep.oracle_fail("visible-subcommand-not-listed", &key, &format!("{:?} not under {head:?}:\n{help}", s.name)); }
                    }
                }
                rep.case(&format!("{req}"), secs.iter().any(|s| s.lines.iter().filter(|l| l.starts_with("  ") && !l.starts_with("   ")).count() >= 2));
                if default_layout { reqs.push(req); ctx.push((hc.clone(), w, use_long, help)); }
            }
        }
        // help at the level where the flag was given
        if !hc.no_help_flag {
            let w = *rng.pick(&widths);
            for s in &hc.subs {
                for flag in ["-h", "--help"] {
                    let key = format!("cmd#{ci} width={w} {} {flag} {hc:?}", s.name);
                    let r = std::panic::catch_unwind(|| {
                        let mut c = build_cmd(&hc, w);
                        let e = c.try_get_matches_from_mut(["prog", s.name.as_str(), flag]).err().map(|e| (e.kind(), e.render().to_string()));
                        let mut c2 = build_cmd(&hc, w);
                        c2.build();
                        let sc = c2.find_subcommand_mut(&s.name).unwrap();
                        (e, sc.render_help().to_string(), sc.render_long_help().to_string())
                    });
                    match r {
                        Err(_) => rep.oracle_fail("help-render-panics", &key, "help error at subcommand level panicked"),
                        Ok((None, _, _)) => rep.oracle_fail("help-flag-not-help", &key, "no error"),
                        Ok((Some((kind, msg)), short, long)) => {
                            rep.count("help_flag_at_sub");
                            if kind != clap::error::ErrorKind::DisplayHelp { rep.oracle_fail("help-flag-not-help", &key, &format!("{kind:?}")); }
                            else if flag == "-h" && msg != short { rep.oracle_fail("help-of-wrong-level", &key, &format!("-h gave:\n{msg}\nsubcommand render_help:\n{short}")); }
                            else if flag == "--help" && msg != long && msg != short { rep.oracle_fail("help-of-wrong-level", &key, &format!("--help gave:\n{msg}\nsubcommand render_long_help:\n{long}")); }
                        }
                    }
                }
            }
        }
    }
    // three levels: the help flag and the `help` subcommand yield the help of the level they address
    for k in 0..(if o.thorough() { 120 } else { 24 }) {
        use clap::{Arg, ArgAction, Command};
        let w = *rng.pick(&[0usize, 20, 40, 80, 120]);
        let mk = move || {
            let leaf = Command::new("leaf").about("LEAFABOUT").arg(Arg::new("lf").long("leaf-flag").action(ArgAction::SetTrue).help("LEAFHELP"))
                .arg(Arg::new("lh").long("leaf-hidden").hide(true).action(ArgAction::SetTrue));
            let mut mid = Command::new("mid").about("MIDABOUT").arg(Arg::new("mf").long("mid-flag").action(ArgAction::Set).help("MIDHELP")).subcommand(leaf);
            if k % 3 == 0 { mid = mid.visible_alias("mi"); }
            if k % 4 == 1 { mid = mid.subcommand(Command::new("twig").hide(true)); }
            let mut root = Command::new("prog").term_width(w).arg(Arg::new("rf").short('r').action(ArgAction::Count).help("ROOTHELP")).subcommand(mid);
            if k % 2 == 1 { root = root.propagate_version(true).version("1.2.3"); }
            if k % 5 == 2 { root = root.disable_help_flag(true).arg(Arg::new("myhelp").long("help").short('h').action(ArgAction::Help).global(true)); }
            root
        };
        let expect = |path: &[&str], long: bool| -> String {
            let mut c = mk(); c.build();
            let mut cur = &mut c;
            for p in path { cur = cur.find_subcommand_mut(p).unwrap(); }
            if long { cur.render_long_help().to_string() } else { cur.render_help().to_string() }
        };
        let cases: Vec<(Vec<&str>, Vec<&str>)> = vec![
            (vec!["prog", "-h"], vec![]), (vec!["prog", "mid", "-h"], vec!["mid"]), (vec!["prog", "mid", "leaf", "-h"], vec!["mid", "leaf"]),
            (vec!["prog", "mid", "leaf", "--help"], vec!["mid", "leaf"]), (vec!["prog", "-r", "mid", "--mid-flag", "x", "leaf", "--leaf-flag", "-h"], vec!["mid", "leaf"]),
            (vec!["prog", "help"], vec![]), (vec!["prog", "help", "mid"], vec!["mid"]), (vec!["prog", "help", "mid", "leaf"], vec!["mid", "leaf"]),
            (vec!["prog", "mid", "help", "leaf"], vec!["mid", "leaf"]), (vec!["prog", "mid", "help"], vec!["mid"]),
        ];
        for (argv, path) in cases {
            let key = format!("three-level#{k} width={w} argv={argv:?}");
            let r = std::panic::catch_unwind(|| { let mut c = mk(); c.try_get_matches_from_mut(argv.clone()).err().map(|e| (e.kind(), e.render().to_string())) });
            rep.case(&key, path.len() >= 1);
            rep.count("help_at_three_levels");
            match r {
                Err(_) => rep.oracle_fail("help-render-panics", &key, "panicked"),
                Ok(None) => rep.oracle_fail("help-flag-not-help", &key, "no error"),
                Ok(Some((kind, msg))) => {
                    if kind != clap::error::ErrorKind::DisplayHelp { rep.oracle_fail("help-flag-not-help", &key, &format!("{kind:?}")); continue; }
                    let (short, long) = (expect(&path, false), expect(&path, true));
                    if msg != short && msg != long { rep.oracle_fail("help-of-wrong-level", &key, &format!("got:\n{msg}\nlevel {path:?} render_help:\n{short}")); }
                    if msg.contains("leaf-hidden") || msg.contains("twig") { rep.oracle_fail("hidden-item-shown", &key, &msg); }
                }
            }
        }
    }
    if o.driver != "none" {
        let model = driver_batch(&o.driver, &reqs, o.par);
        for ((req, m), (hc, _w, use_long, help)) in reqs.iter().zip(model.iter()).zip(ctx.iter()) {
            let toks: Vec<&str> = m.split(' ').collect();
            let secs = split_sections(help);
            let mut i = 0; let mut model_heads: Vec<String> = vec![]; let mut problems: Vec<String> = vec![];
            let mut pending_args: Vec<(String, bool, Vec<(String, String, String)>)> = vec![];
            let mut sub_sec: Option<(bool, Vec<(String, String, String)>)> = None;
            while i < toks.len() {
                match toks[i] {
                    "SEC" => {
                        let kind = toks[i + 1]; let nl = toks[i + 3] == "1"; let n: usize = toks[i + 4].parse().unwrap();
                        let head = match kind { "P" => "Arguments".to_string(), "O" => "Options".to_string(), k => String::from_utf8(unhex(&k[1..])).unwrap() };
                        let ents = (0..n).map(|k| (toks[i + 5 + 3 * k].to_string(), toks[i + 6 + 3 * k].to_string(), toks[i + 7 + 3 * k].to_string())).collect();
                        pending_args.push((head, nl, ents)); i += 5 + 3 * n;
                    }
                    "SUBS" => {
                        let nl = toks[i + 2] == "1"; let n: usize = toks[i + 3].parse().unwrap();
                        let ents: Vec<_> = (0..n).map(|k| (toks[i + 4 + 3 * k].to_string(), toks[i + 5 + 3 * k].to_string(), toks[i + 6 + 3 * k].to_string())).collect();
                        if n > 0 { sub_sec = Some((nl, ents)); } i += 4 + 3 * n;
                    }
                    _ => { problems.push(format!("unparsable model output {m:?}")); break; }
                }
            }
            if sub_sec.is_some() { model_heads.push(hc.sub_heading.clone().unwrap_or("Commands".into())); }
            for (h, _, _) in &pending_args { model_heads.push(h.clone()); }
            let real_heads: Vec<String> = secs.iter().map(|s| s.head.clone()).collect();
            if model_heads != real_heads { problems.push(format!("sections: model {model_heads:?} real {real_heads:?}")); }
            else {
                let mut k = 0;
                if let Some((nl, ents)) = &sub_sec {
                    let f = |name: &str| hc.subs.iter().find(|s| s.name == name).and_then(|s| s.about.as_ref().map(|h| h.split(' ').next().unwrap().to_string()))
                        .or_else(|| if name == "help" { Some("Print".to_string()) } else { None });
                    if let Err(e) = check_lines(&secs[0], *nl, ents, &f) { problems.push(format!("Commands: {e}")); }
                    k = 1;
                }
                for (j, (h, nl, ents)) in pending_args.iter().enumerate() {
                    let ul = *use_long;
                    let f = move |id: &str| hc.args.iter().find(|a| a.id == id).and_then(|a| {
                        let t = if ul { a.long_help.as_ref().or(a.help.as_ref()) } else { a.help.as_ref().or(a.long_help.as_ref()) };
                        t.map(|h| h.split(' ').next().unwrap().to_string()) })
                        .or_else(|| if id == "help" { Some("Print".to_string()) } else { None });
                    if let Err(e) = check_lines(&secs[k + j], *nl, ents, &f) { problems.push(format!("{h}: {e}")); }
                }
            }
            if !problems.is_empty() { rep.disagree("hsec", req, &format!("{m} || {}", problems.join("; ")), help); }
        }
        rep.count_n("layouts_compared_with_model", reqs.len() as u64);
    }
    crate::usage::run(&mut rep, o);
    rep
}
