//! C06 — command line beats environment beats default; sources are reported honestly.
use crate::spec::*;
use crate::util::*;
use clap::parser::ValueSource;

pub fn run(o: &Opts) -> Report {
    let mut rep = Report::new("C06", "one subject arg (Set/Append option, optional-value option, positional, SetTrue/SetFalse/Count flag; with/without delimiter) carrying every subset of {command-line occurrence with/without value, env set/unset, default_value_if (matching / non-matching / None default), default_value, default_missing_value} + a trigger arg + relations hanging on the subject (conflicts_with, requires, required_unless) to observe that defaults do not count as presence; oracle: expected origin/values/source computed from the specification; model must predict the whole ArgMatches; non-trivial = at least two origins available; distinct by canonical request");
    let mut rng = Rng::new(o.seed ^ 0xC06);
    let mut reqs = vec![]; let mut impls = vec![];
    let n = if o.thorough() { 80_000 } else { 12_000 };
    for _ in 0..n {
        let kind = rng.below(7); // 0 set opt, 1 append opt, 2 optional-value opt, 3 positional, 4 setTrue, 5 setFalse, 6 count
        let mut s = ArgS { id: "s".into(), ..Default::default() };
        if kind != 3 { s.long = Some("subj".into()); s.short = Some('s'); }
        s.action = match kind { 0 => Some("set"), 1 => Some("append"), 2 => Some("set"), 4 => Some("setTrue"), 5 => Some("setFalse"), 6 => Some("count"), _ => None };
        let takes = kind <= 3;
        if kind == 2 { s.num_vals = Some((0, Some(1))); }
        let delim = takes && rng.chance(1, 4);
        if delim { s.delim = Some(','); }
        let has_default = rng.chance(1, 2);
        let has_missing = kind == 2 && rng.chance(2, 3);
        let has_env = rng.chance(1, 2);
        let env_set = has_env && rng.chance(3, 4);
        // `s` overrides the trigger arg (then no conditional defaults on it); or the whole command ignores errors
        let s_overrides_t = rng.chance(1, 5);
        let ignore_errors = rng.chance(1, 5);
        let has_if = takes && !s_overrides_t && rng.chance(1, 2);
        let val = |rng: &mut Rng, tag: &str| -> String { if delim && rng.chance(1, 2) { format!("{tag}1,{tag}2") } else { tag.to_string() } };
        let default_v = if takes { val(&mut rng, "dflt") } else if kind == 6 { "7".to_string() } else { if rng.chance(1, 2) { "true".into() } else { "false".into() } };
        let env_v = if takes { if rng.chance(1, 5) { String::new() } else { val(&mut rng, "env") } } else if kind == 6 { "3".to_string() } else { if rng.chance(1, 2) { "true".into() } else { "false".into() } };
        let miss_v = "miss".to_string();
        if has_default { s.default_vals = vec![default_v.clone()]; }
        if has_missing { s.default_missing = vec![miss_v.clone()]; }
        if has_env { s.env = Some(if env_set { Some(env_v.clone()) } else { None }); }
        // default_value_if rules on the trigger arg `t`
        let mut ifs: Vec<(PredS, Option<String>)> = vec![];
        if has_if {
            for _ in 0..1 + rng.below(2) {
                ifs.push((if rng.chance(1, 2) { PredS::Present } else { PredS::Equals(rng.pick(&["go", "no"]).to_string()) }, if rng.chance(4, 5) { Some(val(&mut rng, "ifd")) } else { None }));
            }
            s.default_ifs = ifs.iter().map(|(p, d)| ("t".to_string(), p.clone(), d.clone())).collect();
        }
        if s_overrides_t { s.overrides.push("t".into()); }
        let t = ArgS { id: "t".into(), long: Some("trig".into()), action: Some("set"), ..Default::default() };
        // observers: `c` conflicts with s, `r` requires s, `u` is required unless s is present
        let obs = rng.below(4);
        let mut others = vec![t];
        match obs {
            1 => others.push(ArgS { id: "c".into(), long: Some("cc".into()), action: Some("setTrue"), blacklist: vec!["s".into()], ..Default::default() }),
            2 => others.push(ArgS { id: "r".into(), long: Some("rr".into()), action: Some("setTrue"), requires: vec![(PredS::Present, "s".into())], ..Default::default() }),
            3 => others.push(ArgS { id: "u".into(), long: Some("uu".into()), action: Some("setTrue"), r_unless: vec!["s".into()], ..Default::default() }),
            _ => {}
        }
        let mut args = others.clone();
        args.push(s.clone());
        // args declared AFTER the subject that rely on their own plain / implicit defaults
        args.push(ArgS { id: "z".into(), long: Some("zz".into()), action: Some("set"), default_vals: vec!["zd".into()], ..Default::default() });
        args.push(ArgS { id: "y".into(), long: Some("yy".into()), action: Some("setTrue"), ..Default::default() });
        let mut cmd = CmdS { name: "prog".into(), args, ..Default::default() };
        cmd.settings.ignore_errors = ignore_errors;
        if !real_valid(&cmd) { rep.count("invalid_definition(skipped)"); continue; }
        // argv
        let mut argv: Vec<Vec<u8>> = vec![b"prog".to_vec()];
        let trig: Option<String> = if rng.chance(1, 2) { Some(rng.pick(&["go", "no", "zz"]).to_string()) } else { None };
        if let Some(tv) = &trig { argv.push(format!("--trig={tv}").into_bytes()); }
        let on_cmdline = rng.chance(1, 2);
        let mut cmd_vals: Vec<String> = vec![];
        let mut cmd_without_value = false;
        if on_cmdline {
            if takes {
                if kind == 2 && rng.chance(1, 2) { argv.push(b"--subj".to_vec()); cmd_without_value = true; }
                else { let v = val(&mut rng, "cl"); cmd_vals.push(v.clone()); if kind == 3 { argv.push(v.into_bytes()); } else if rng.chance(1, 2) { argv.push(format!("--subj={v}").into_bytes()); } else { argv.push(b"-s".to_vec()); argv.push(v.into_bytes()); } }
            } else { argv.push(b"--subj".to_vec()); }
        }
        let obs_given = obs != 0 && rng.chance(2, 3);
        if obs_given { argv.push(match obs { 1 => b"--cc".to_vec(), 2 => b"--rr".to_vec(), _ => b"--uu".to_vec() }); }
        if ignore_errors { argv.push(b"--bogus".to_vec()); }
        let (canon, mm, err) = real_parse(&cmd, &argv);
        let req = parse_request(&cmd, &argv);
        // ---- expected origin
        let split = |v: &str| -> Vec<String> { if delim { v.split(',').map(|x| x.to_string()).collect() } else { vec![v.to_string()] } };
        let (exp_src, exp_vals): (Option<ValueSource>, Vec<String>) = if on_cmdline {
            (Some(ValueSource::CommandLine), if !takes { match kind { 4 => vec!["true".into()], 5 => vec!["false".into()], _ => vec!["1".into()] } }
                else if cmd_without_value { if has_missing { vec![miss_v.clone()] } else { vec![] } } else { cmd_vals.iter().flat_map(|v| split(v)).collect() })
        } else if env_set { (Some(ValueSource::EnvVariable), split(&env_v)) }
        else {
            let fired = ifs.iter().find(|(p, _)| match (p, &trig) { (_, None) => false, (PredS::Present, Some(_)) => true, (PredS::Equals(v), Some(tv)) => v == tv });
            match fired {
                Some((_, Some(d))) => (Some(ValueSource::DefaultValue), split(d)),
                Some((_, None)) => (None, vec![]),
                None => {
                    // implicit defaults of flag actions
                    if has_default { (Some(ValueSource::DefaultValue), split(&default_v)) }
                    else { match kind { 4 => (Some(ValueSource::DefaultValue), vec!["false".into()]), 5 => (Some(ValueSource::DefaultValue), vec!["true".into()]), 6 => (Some(ValueSource::DefaultValue), vec!["0".into()]), _ => (None, vec![]) } }
                }
            }
        };
        let s_explicit = matches!(exp_src, Some(ValueSource::CommandLine) | Some(ValueSource::EnvVariable));
        // expected verdict from the observers: only explicit presence counts
        // an explicit (env) value of an arg that overrides `t` is an implicit conflict with a command-line `t`;
        // a command-line `s` given after `t` simply removes `t`
        let override_conflict = s_overrides_t && trig.is_some() && !on_cmdline && env_set;
        // a requirement on `s` is excused while an arg that conflicts with it (the overridden `t`) is present
        let excused = s_overrides_t && trig.is_some();
        let exp_err: Option<&str> = if ignore_errors { None } else if override_conflict { Some("ArgumentConflict") } else if obs_given { match obs { 1 if s_explicit => Some("ArgumentConflict"), 2 if !s_explicit && !excused => Some("MissingRequiredArgument"), _ => None } }
            else if obs == 3 && !s_explicit { Some("MissingRequiredArgument") } else { None };
        match (&mm, &err) {
            (Some(m), _) => {
                if override_conflict && !ignore_errors && m.value_source("t") != Some(ValueSource::CommandLine) { rep.oracle_fail("env-value-removed-a-command-line-arg", &req, &format!("t source {:?}", m.value_source("t"))); }
                if let Some(k) = exp_err { rep.oracle_fail(if override_conflict { "env-value-removed-a-command-line-arg" } else if s_explicit { "explicit-value-did-not-trigger-relation" } else { "default-counted-as-presence-or-requirement-ignored" }, &req, &format!("expected {k}, parse succeeded")); }
                // the later args keep their own defaults whatever happened to the subject
                let zv: Vec<String> = m.get_raw("z").map(|r| r.map(|v| v.to_string_lossy().to_string()).collect()).unwrap_or_default();
                if m.value_source("z") != Some(ValueSource::DefaultValue) || zv != vec!["zd".to_string()] { rep.oracle_fail("later-arg-lost-its-default", &req, &format!("z: {:?} {:?}", m.value_source("z"), zv)); }
                if m.value_source("y") != Some(ValueSource::DefaultValue) || m.get_raw("y").map(|r| r.count()) != Some(1) { rep.oracle_fail("later-arg-lost-its-default", &req, &format!("y: {:?}", m.value_source("y"))); }
                let got_src = m.value_source("s");
                let got_vals: Vec<String> = m.get_raw("s").map(|r| r.map(|v| v.to_string_lossy().to_string()).collect()).unwrap_or_default();
                if got_src != exp_src { rep.oracle_fail("value-source-misreported", &req, &format!("got {got_src:?} expected {exp_src:?}")); }
                else if got_vals != exp_vals { rep.oracle_fail(if cmd_without_value { "default-missing-value-misapplied" } else { "values-from-wrong-origin" }, &req, &format!("got {got_vals:?} expected {exp_vals:?} (source {exp_src:?})")); }
            }
            (None, Some(e)) => {
                let k = format!("{:?}", e.kind());
                if exp_err != Some(k.as_str()) { rep.oracle_fail(if !s_explicit && k == "ArgumentConflict" { "default-triggered-conflict" } else { "unexpected-rejection" }, &req, &format!("got {k} expected {exp_err:?}")); }
            }
            _ => rep.oracle_fail("panic", &req, &canon),
        }
        let origins = on_cmdline as u8 + env_set as u8 + has_default as u8 + has_if as u8;
        rep.case(&req, origins >= 2);
        rep.count(&format!("origin:{}", match exp_src { Some(ValueSource::CommandLine) => "cmdline", Some(ValueSource::EnvVariable) => "env", Some(ValueSource::DefaultValue) => "default", _ => "absent" }));
        reqs.push(req); impls.push(canon);
    }
    if o.driver != "none" {
        let model = driver_batch(&o.driver, &reqs, o.par);
        for ((req, m), i) in reqs.iter().zip(model.iter()).zip(impls.iter()) { if m != i { rep.disagree("parse", req, m, i); } }
    }
    {
        use crate::pcorr::*;
        use clap::parser::ValueSource;
        // an `exclusive` arg that is present only through a default (explicit or the implied `false`) excludes nothing
        let mk = |dflt: bool| { let mut c = CmdS { name: "prog".into(), ..Default::default() };
            let mut ex = ArgS { id: "ex".into(), long: Some("ex".into()), exclusive: true, ..Default::default() };
            if dflt { ex.action = Some("set"); ex.default_vals = vec!["d".into()]; } else { ex.action = Some("setTrue"); }
            c.args.push(ex);
            c.args.push(ArgS { id: "aa".into(), long: Some("aa".into()), action: Some("set"), ..Default::default() });
            c.args.push(ArgS { id: "bb".into(), long: Some("bb".into()), action: Some("set"), env: Some(Some("envb".into())), ..Default::default() });
            c.args.push(ArgS { id: "cc".into(), short: Some('c'), action: Some("count"), ..Default::default() }); c };
        let mut cases: Vec<(CmdS, Vec<Vec<u8>>, Expect)> = vec![];
        for d in [false, true] {
            cases.push((mk(d), bv(&["prog", "--aa", "1", "--bb", "2"]), Box::new(|m| { want_source(m, "ex", Some(ValueSource::DefaultValue))?; want_source(m, "aa", Some(ValueSource::CommandLine)) })));
            cases.push((mk(d), bv(&["prog", "--aa", "1", "-cc"]), Box::new(|m| { want_source(m, "ex", Some(ValueSource::DefaultValue))?; want_source(m, "bb", Some(ValueSource::EnvVariable)) })));
        }
        run_expect(&mut rep, o, "defaulted-exclusive-arg-rejects-others", cases);
        // a global given through its environment variable beats the default of a same-named arg a subcommand defines itself
        let mkg = || { let mut c = CmdS { name: "prog".into(), ..Default::default() };
            c.args.push(ArgS { id: "cfg".into(), long: Some("cfg".into()), action: Some("set"), global: true, env: Some(Some("from-env".into())), ..Default::default() });
            let mut d = CmdS { name: "deploy".into(), ..Default::default() };
            d.args.push(ArgS { id: "cfg".into(), long: Some("cfg".into()), action: Some("set"), global: true, default_vals: vec!["sub-default".into()], ..Default::default() });
            d.args.push(ArgS { id: "dry".into(), long: Some("dry".into()), action: Some("setTrue"), ..Default::default() });
            d.subs.push(CmdS { name: "now".into(), ..Default::default() });
            c.subs.push(d); c };
        let casesg: Vec<(CmdS, Vec<Vec<u8>>, Expect)> = vec![
            (mkg(), bv(&["prog", "deploy"]), Box::new(|m| { want_occs(m, &[], "cfg", &[&["from-env"]])?; want_occs(m, &["deploy"], "cfg", &[&["from-env"]])?; want_source(m, "cfg", Some(ValueSource::EnvVariable)) })),
            (mkg(), bv(&["prog", "deploy", "--dry", "now"]), Box::new(|m| { want_occs(m, &["deploy", "now"], "cfg", &[&["from-env"]])?; want_occs(m, &["deploy"], "cfg", &[&["from-env"]]) })),
            (mkg(), bv(&["prog", "deploy", "--cfg", "cli"]), Box::new(|m| { want_occs(m, &[], "cfg", &[&["cli"]])?; want_occs(m, &["deploy"], "cfg", &[&["cli"]]) })),
        ];
        run_expect(&mut rep, o, "environment-value-of-a-global-lost-to-a-default", casesg);
    }
    {
        use crate::pcorr::*;
        use clap::parser::ValueSource;
        // an option whose value is a separate word, given directly before an EXTERNAL subcommand: it is on the command
        // line, whatever default or environment value it also has
        let mke = |variant: usize| { let mut c = CmdS { name: "prog".into(), ..Default::default() };
            c.settings.allow_external_subcommands = true;
            if variant == 2 { c.settings.args_override_self = true; }
            let mut lv = ArgS { id: "level".into(), long: Some("level".into()), short: Some('l'), action: Some("set"), ..Default::default() };
            match variant { 0 => {}, 1 | 2 => lv.default_vals = vec!["1".into()], _ => lv.env = Some(Some("9".into())) }
            c.args.push(lv);
            c.args.push(ArgS { id: "mode".into(), long: Some("mode".into()), action: Some("set"), default_ifs: vec![("level".into(), PredS::Equals("3".into()), Some("deep".into()))], default_vals: vec!["flat".into()], ..Default::default() });
            c };
        let mut cases: Vec<(CmdS, Vec<Vec<u8>>, Expect)> = vec![];
        for v in 0..4 {
            for argv in [bv(&["prog", "--level", "3", "ext", "a", "b"]), bv(&["prog", "-l", "3", "ext"]), bv(&["prog", "--level=3", "ext", "--level", "4"])] {
                cases.push((mke(v), argv, Box::new(|m| { want_source(m, "level", Some(ValueSource::CommandLine))?; want_occs(m, &[], "level", &[&["3"]])?; want_occs(m, &[], "mode", &[&["deep"]]) })));
            }
        }
        run_expect(&mut rep, o, "command-line-option-before-external-subcommand-lost", cases);
        // a group's source is the highest of its explicit members': one member typed, another from its environment variable
        let mkg = |cli_first: bool| { let mut c = CmdS { name: "prog".into(), ..Default::default() };
            let a = ArgS { id: "aa".into(), long: Some("aa".into()), action: Some("set"), ..Default::default() };
            let b = ArgS { id: "bb".into(), long: Some("bb".into()), action: Some("set"), env: Some(Some("envb".into())), ..Default::default() };
            if cli_first { c.args.push(a); c.args.push(b); } else { c.args.push(b); c.args.push(a); }
            c.args.push(ArgS { id: "cc".into(), long: Some("cc".into()), action: Some("set"), default_vals: vec!["dc".into()], ..Default::default() });
            c.groups.push(GroupS { id: "grp".into(), args: vec!["aa".into(), "bb".into(), "cc".into()], multiple: true, ..Default::default() });
            c };
        let mut casesg: Vec<(CmdS, Vec<Vec<u8>>, Expect)> = vec![];
        for f in [true, false] {
            casesg.push((mkg(f), bv(&["prog", "--aa", "1"]), Box::new(|m| { want_source(m, "aa", Some(ValueSource::CommandLine))?; want_source(m, "bb", Some(ValueSource::EnvVariable))?; want_source(m, "grp", Some(ValueSource::CommandLine)) })));
            casesg.push((mkg(f), bv(&["prog"]), Box::new(|m| { want_source(m, "bb", Some(ValueSource::EnvVariable))?; want_source(m, "cc", Some(ValueSource::DefaultValue))?; want_source(m, "grp", Some(ValueSource::EnvVariable)) })));
        }
        run_expect(&mut rep, o, "group-source-below-a-member's", casesg);
    }
    crate::pcorr::run_generic(&mut rep, o, 0xC06);
    rep
}
