//! C08 — equivalent spellings of the same invocation parse to identical matches.
use crate::invoc::*;
use crate::spec::*;
use crate::util::*;
use clap::error::ErrorKind;

pub fn run(o: &Opts) -> Report {
    let mut rep = Report::new("C08", "conventional commands (aliases, optional prefix inference) x intended invocations, each rendered twice with independent spelling choices (--opt=v / --opt v, -ov / -o v / -o=v, clusters vs separate flags, alias vs name, unambiguous prefix vs full name, explicit `--` before trailing positionals); oracle: the two real parses are identical (ids, sources, indices, value groups) or fail with the same kind; plus ambiguous prefixes, which must never resolve; model must predict both; non-trivial = the two argv differ; distinct by canonical request");
    let mut rng = Rng::new(o.seed ^ 0xC08);
    let mut reqs = vec![]; let mut impls = vec![];
    let n_cmds = if o.thorough() { 10000 } else { 1500 };
    for _ in 0..n_cmds {
        let mut cv = gen_conventional(&mut rng, true);
        // a positional that accepts hyphen values must not change how *defined* flags and their aliases are read
        let mut hyph_pos = false;
        if let Some(&lp) = cv.pos.last() { if rng.chance(1, 4) { cv.cmd.args[lp].allow_hyphen = true; hyph_pos = true; } }
        if !real_valid(&cv.cmd) { rep.count("invalid_definition(skipped)"); continue; }
        for _ in 0..8 {
            let mut inv = gen_invocation(&mut rng, &cv, false);
            // once a hyphen-accepting positional is collecting, everything is a value (documented): keep flags/options in front
            if hyph_pos { let (mut front, mut back): (Vec<Item>, Vec<Item>) = (vec![], vec![]); for it in inv.items.drain(..) { if matches!(it, Item::Pos { .. }) { back.push(it) } else { front.push(it) } } front.extend(back); inv.items = front; }
            // with a hyphen-accepting positional, optional-value short-only options have no equivalent unattached spelling
            if hyph_pos && inv.items.iter().any(|it| matches!(it, Item::Opt { arg, vals } if vals.len() == 1 && cv.cmd.args[*arg].long.is_none() && cv.cmd.args[*arg].num_vals.map(|(lo, _)| lo == 0).unwrap_or(false))) { continue; }
            let a1 = render_with(&mut rng, &cv, &inv, !hyph_pos, !hyph_pos);
            let a2 = render_with(&mut rng, &cv, &inv, !hyph_pos, !hyph_pos);
            let (c1, _, e1) = real_parse(&cv.cmd, &a1);
            let (c2, _, _) = real_parse(&cv.cmd, &a2);
            let r1 = parse_request(&cv.cmd, &a1);
            let r2 = parse_request(&cv.cmd, &a2);
            if c1 != c2 {
                let show = |a: &Vec<Vec<u8>>| a.iter().map(|x| String::from_utf8_lossy(x).to_string()).collect::<Vec<_>>();
                rep.oracle_fail("equivalent-spellings-differ", &r1, &format!("argv1={:?} -> {} | argv2={:?} -> {}", show(&a1), &c1[..c1.len().min(300)], show(&a2), &c2[..c2.len().min(300)]));
            }
            if let Some(e) = e1 { if !matches!(e.kind(), ErrorKind::InvalidUtf8) { rep.count("both_rejected"); } }
            rep.case(&r1, a1 != a2);
            rep.count(if a1 != a2 { "spellings_differ" } else { "spellings_same" });
            reqs.push(r1); impls.push(c1);
            reqs.push(r2); impls.push(c2);
        }
        // ambiguous prefixes never resolve
        if cv.cmd.settings.infer_long_args && !hyph_pos {
            let longs: Vec<(String, String)> = cv.cmd.args.iter().flat_map(|a| a.long.iter().chain(a.aliases.iter()).map(|l| (l.clone(), a.id.clone())).collect::<Vec<_>>()).collect();
            for (l, id) in &longs {
                for cut in 1..l.chars().count() {
                    let p: String = l.chars().take(cut).collect();
                    let owners: Vec<&String> = { let mut v: Vec<&String> = longs.iter().filter(|(n, _)| n.starts_with(&p)).map(|(_, i)| i).collect(); v.dedup(); v };
                    let builtin = "help".starts_with(&p) || (cv.cmd.settings.has_version && "version".starts_with(&p));
                    let exact = longs.iter().any(|(n, _)| *n == p);
                    if (owners.len() >= 2 || (builtin && !owners.is_empty())) && !exact {
                        let argv = vec![b"prog".to_vec(), format!("--{p}").into_bytes()];
                        let (c, m, e) = real_parse(&cv.cmd, &argv);
                        let req = parse_request(&cv.cmd, &argv);
                        if let Some(mt) = &m {
                            let hit: Vec<String> = mt.ids().map(|i| i.to_string()).filter(|i| mt.value_source(i) == Some(clap::parser::ValueSource::CommandLine)).collect();
                            rep.oracle_fail("ambiguous-prefix-silently-resolved", &req, &format!("--{p} (candidates {:?}) resolved to {:?}", owners, hit));
                        } else if let Some(er) = &e { if matches!(er.kind(), ErrorKind::DisplayHelp | ErrorKind::DisplayVersion) { rep.oracle_fail("ambiguous-prefix-silently-resolved", &req, &format!("--{p} resolved to help/version")); } }
                        rep.case(&req, true); rep.count("ambiguous_prefix");
                        reqs.push(req); impls.push(c);
                        let _ = id;
                    }
                }
            }
        }
    }
    if o.driver != "none" {
        let model = driver_batch(&o.driver, &reqs, o.par);
        for ((req, m), i) in reqs.iter().zip(model.iter()).zip(impls.iter()) { if m != i { rep.disagree("parse", req, m, i); } }
    }
    rep
}
