//! C08 — equivalent spellings of the same invocation parse to identical matches.
use crate::invoc::*;
use crate::spec::*;
use crate::util::*;
use clap::error::ErrorKind;

pub fn run(o: &Opts) -> Report {
    let mut rep = Report::new("C08", "conventional commands (aliases, optional prefix inference) x intended invocations, each rendered twice with independent spelling choices (--opt=v / --opt v, -ov / -o v / -o=v, clusters vs separate flags, alias vs name, unambiguous prefix vs full name, explicit `--` before trailing positionals); oracle: the two real parses are identical (ids, sources, indices, value groups) or fail with the same kind; plus ambiguous prefixes, which must never resolve; model must predict both; non-trivial = the two argv differ; distinct by canonical request");
    let mut rng = Rng::new(o.seed ^ 0xC08);
    let mut reqs = vec![]; let mut impls = vec![];
    let n_cmds = if o.thorough() { 10000 } else { 1500 };
    for _ in 0..n_cmds {
        let mut cv = gen_conventional(&mut rng, true);
        // a positional that accepts hyphen values must not change how *defined* flags and their aliases are read
        let mut hyph_pos = false;
        if let Some(&lp) = cv.pos.last() { if rng.chance(1, 4) { cv.cmd.args[lp].allow_hyphen = true; hyph_pos = true; } }
        if !real_valid(&cv.cmd) { rep.count("invalid_definition(skipped)"); continue; }
        for _ in 0..8 {
            let mut inv = gen_invocation(&mut rng, &cv, false);
            // once a hyphen-accepting positional is collecting, everything is a value (documented): keep flags/options in front
            if hyph_pos { let (mut front, mut back): (Vec<Item>, Vec<Item>) = (vec![], vec![]); for it in inv.items.drain(..) { if matches!(it, Item::Pos { .. }) { back.push(it) } else { front.push(it) } } front.extend(back); inv.items = front; }
            // with a hyphen-accepting positional, optional-value short-only options have no equivalent unattached spelling
            if hyph_pos && inv.items.iter().any(|it| matches!(it, Item::Opt { arg, vals } if vals.len() == 1 && cv.cmd.args[*arg].long.is_none() && cv.cmd.args[*arg].num_vals.map(|(lo, _)| lo == 0).unwrap_or(false))) { continue; }
            let a1 = render_with(&mut rng, &cv, &inv, !hyph_pos, !hyph_pos);
            let a2 = render_with(&mut rng, &cv, &inv, !hyph_pos, !hyph_pos);
            let (c1, _, e1) = real_parse(&cv.cmd, &a1);
            let (c2, _, _) = real_parse(&cv.cmd, &a2);
            let r1 = parse_request(&cv.cmd, &a1);
            let r2 = parse_request(&cv.cmd, &a2);
            if c1 != c2 {
                let show = |a: &Vec<Vec<u8>>| a.iter().map(|x| String::from_utf8_lossy(x).to_string()).collect::<Vec<_>>();
                rep.oracle_fail("equivalent-spellings-differ", &r1, &format!("argv1={:?} -> {} | argv2={:?} -> {}", show(&a1), &c1[..c1.len().min(300)], show(&a2), &c2[..c2.len().min(300)]));
            }
            if let Some(e) = e1 { if !matches!(e.kind(), ErrorKind::InvalidUtf8) { rep.count("both_rejected"); } }
            rep.case(&r1, a1 != a2);
            rep.count(if a1 != a2 { "spellings_differ" } else { "spellings_same" });
            reqs.push(r1); impls.push(c1);
            reqs.push(r2); impls.push(c2);
        }
        // ambiguous prefixes never resolve
        if cv.cmd.settings.infer_long_args && !hyph_pos {
            let longs: Vec<(String, String)> = cv.cmd.args.iter().flat_map(|a| a.long.iter().chain(a.aliases.iter()).map(|l| (l.clone(), a.id.clone())).collect::<Vec<_>>()).collect();
            for (l, id) in &longs {
                for cut in 1..l.chars().count() {
                    let p: String = l.chars().take(cut).collect();
                    let owners: Vec<&String> = { let mut v: Vec<&String> = longs.iter().filter(|(n, _)| n.starts_with(&p)).map(|(_, i)| i).collect(); v.dedup(); v };
                    let builtin = "help".starts_with(&p) || (cv.cmd.settings.has_version && "version".starts_with(&p));
                    let exact = longs.iter().any(|(n, _)| *n == p);
                    if (owners.len() >= 2 || (builtin && !owners.is_empty())) && !exact {
                        let argv = vec![b"prog".to_vec(), format!("--{p}").into_bytes()];
                        let (c, m, e) = real_parse(&cv.cmd, &argv);
                        let req = parse_request(&cv.cmd, &argv);
                        if let Some(mt) = &m {
                            let hit: Vec<String> = mt.ids().map(|i| i.to_string()).filter(|i| mt.value_source(i) == Some(clap::parser::ValueSource::CommandLine)).collect();
                            rep.oracle_fail("ambiguous-prefix-silently-resolved", &req, &format!("--{p} (candidates {:?}) resolved to {:?}", owners, hit));
                        } else if let Some(er) = &e { if matches!(er.kind(), ErrorKind::DisplayHelp | ErrorKind::DisplayVersion) { rep.oracle_fail("ambiguous-prefix-silently-resolved", &req, &format!("--{p} resolved to help/version")); }
                            // any complaint other than `unknown argument` (a missing value, a wrong count ...) means one candidate was picked
                            else if !matches!(er.kind(), ErrorKind::UnknownArgument) { rep.oracle_fail("ambiguous-prefix-silently-resolved", &req, &format!("--{p} (candidates {:?}) was taken for one of them: {:?}", owners, er.kind())); } }
                        rep.case(&req, true); rep.count("ambiguous_prefix");
                        reqs.push(req); impls.push(c);
                        let _ = id;
                    }
                }
            }
        }
    }
    // subcommand spellings: name, visible alias, hidden alias, and (with inference) their unambiguous prefixes are one command;
    // an ambiguous prefix is never resolved
    let pool = ["install", "inspect", "add", "address", "attach", "remove", "rm", "in", "att", "addr"];
    for _ in 0..(if o.thorough() { 3000 } else { 400 }) {
        let mut names: Vec<&str> = pool.to_vec();
        let mut take = |rng: &mut Rng| -> String { let k = rng.below(names.len()); names.remove(k).to_string() };
        let nsubs = 2 + rng.below(2);
        let mut cmd = CmdS { name: "prog".into(), ..Default::default() };
        for _ in 0..nsubs {
            let mut sc = CmdS { name: take(&mut rng), ..Default::default() };
            for _ in 0..rng.below(3) { sc.aliases.push(take(&mut rng)); }
            sc.args.push(ArgS { id: "x".into(), long: Some("xx".into()), action: Some("setTrue"), ..Default::default() });
            cmd.subs.push(sc);
        }
        cmd.settings.infer_subcommands = rng.chance(2, 3);
        if !real_valid(&cmd) { rep.count("invalid_definition(skipped)"); continue; }
        let spellings: Vec<(String, usize)> = cmd.subs.iter().enumerate().flat_map(|(k, s)| std::iter::once(s.name.clone()).chain(s.aliases.iter().cloned()).map(move |n| (n, k))).chain([("help".to_string(), usize::MAX)]).collect();
        for (sp, owner) in spellings.iter().filter(|(_, k)| *k != usize::MAX) {
            let canonical = vec![b"prog".to_vec(), cmd.subs[*owner].name.clone().into_bytes(), b"--xx".to_vec()];
            let (cc, _, _) = real_parse(&cmd, &canonical);
            for cut in 1..=sp.len() {
                let p = &sp[..cut];
                let argv = vec![b"prog".to_vec(), p.as_bytes().to_vec(), b"--xx".to_vec()];
                let (c, m, _) = real_parse(&cmd, &argv);
                let req = parse_request(&cmd, &argv);
                let exact: Vec<usize> = spellings.iter().filter(|(n, _)| n == p).map(|(_, k)| *k).collect();
                let mut cands: Vec<usize> = spellings.iter().filter(|(n, _)| n.starts_with(p)).map(|(_, k)| *k).collect(); cands.sort(); cands.dedup();
                let expect: Option<usize> = if let Some(k) = exact.first() { Some(*k) } else if cmd.settings.infer_subcommands && cands.len() == 1 { Some(cands[0]) } else { None };
                match expect {
                    Some(k) if k == *owner => { if c != cc { rep.oracle_fail("equivalent-subcommand-spellings-differ", &req, &format!("`{p}` should run `{}`: {} vs {}", cmd.subs[*owner].name, &c[..c.len().min(200)], &cc[..cc.len().min(200)])); } }
                    Some(_) => {}
                    None => { if let Some(mt) = &m { if mt.subcommand_name().is_some() { rep.oracle_fail("ambiguous-prefix-silently-resolved", &req, &format!("`{p}` (candidates {cands:?}) ran {:?}", mt.subcommand_name())); } } }
                }
                rep.case(&req, cut < sp.len()); rep.count("subcommand_spellings");
                reqs.push(req); impls.push(c);
            }
        }
    }
    if o.driver != "none" {
        let model = driver_batch(&o.driver, &reqs, o.par);
        for ((req, m), i) in reqs.iter().zip(model.iter()).zip(impls.iter()) { if m != i { rep.disagree("parse", req, m, i); } }
    }
    crate::pcorr::run_generic(&mut rep, o, 0xC08);
    rep
}
