//! C19 — man pages always render, cover every visible item, and keep user text as text.
use crate::util::*;
use clap::builder::PossibleValue;
use clap::{Arg, ArgAction, Command};

const ADV: [&str; 30] = [
    "", ".", ".SH INJECTED", "'br", "\\fBbold", "a\\b", "x\n.so /etc/passwd", "line1\n\n  \nline3", "trailing\n", "a-b--c", "it's", "\"quoted\"",
    " lead", "tab\there", "wide\u{4f60}\u{597d}", "cr\r\nlf", ".\n.", "'", "x\n'y", "-", "\\", "multi word text", "plain", "Plain Text", "\n.TH evil",
    "..", "end.\n", "\u{a0}\n\u{3000}", "a\n\n.b", "'\n'",
];
const MILD: [&str; 10] = ["plain", "two words", ".dot", "it's", "a-b", "back\\slash", "\"q\"", "x\n.so y", "'q", "caf\u{e9}"];

fn adv(rng: &mut Rng) -> String { rng.pick(&ADV[..]).to_string() }
fn opt_adv(rng: &mut Rng, num: usize, den: usize) -> Option<String> { if rng.chance(num, den) { Some(adv(rng)) } else { None } }

#[derive(Clone, Debug)]
struct MA { id: String, short: Option<char>, long: Option<String>, vnames: Vec<String>, kind: u8, required: bool, hide: bool, heading: Option<String>,
    help: Option<String>, long_help: Option<String>, hide_s: bool, hide_l: bool, defaults: Vec<String>, hide_def: bool, env: Option<String>, hide_env: bool,
    pvs: Vec<(String, Option<String>, bool)>, hide_pv: bool }
#[derive(Clone, Debug)]
struct MS { name: String, about: Option<String>, long_about: Option<String>, hide: bool }
#[derive(Clone, Debug)]
struct MC { name: String, display_name: Option<String>, bin_name: Option<String>, about: Option<String>, long_about: Option<String>, version: Option<String>,
    long_version: Option<String>, author: Option<String>, after: Option<String>, after_long: Option<String>, sub_heading: Option<String>,
    sub_value_name: Option<String>, sub_required: bool, no_help_flag: bool, args: Vec<MA>, subs: Vec<MS>, ov: [Option<String>; 5] }

fn gen_mc(rng: &mut Rng) -> MC {
    let mut shorts: Vec<char> = "abcdefgijkmnopqrstuwxyz.'".chars().collect();
    let nargs = match rng.below(5) { 0 => 0, 1 => 1, 2 => 2, 3 => 4, _ => 6 };
    let mut args = vec![];
    let mut prev_required = true;
    let npos = rng.below(3).min(nargs);
    for i in 0..nargs {
        let positional = i >= nargs - npos;
        let hide = rng.chance(1, 5);
        let kind = if positional { 4 } else { rng.below(4) as u8 };
        let takes = kind >= 2;
        let (short, long) = if positional { (None, None) } else {
            let s = if rng.chance(1, 2) && !shorts.is_empty() { Some(shorts.remove(rng.below(shorts.len()))) } else { None };
            let l = if s.is_none() || rng.chance(1, 2) { Some(if hide { format!("hid{i}x") } else { format!("{}{i}", rng.pick(&["opt", "lo.ng", "it's", "a-b", ".x"])) }) } else { None };
            (s, l)
        };
        let required = if positional { let r = prev_required && rng.chance(1, 2); prev_required = r; r } else { takes && rng.chance(1, 5) };
        let pvs: Vec<(String, Option<String>, bool)> = if takes && rng.chance(1, 3) {
            let with_help = rng.chance(1, 2);
            (0..1 + rng.below(3)).map(|j| { let h = rng.chance(1, 4); (if h { format!("hidpv{i}k{j}") } else if rng.chance(1, 2) { format!("pv{i}k{j}") } else { format!("{}{i}{j}", rng.pick(&[".pv", "'pv", "p-v", "p\\v"])) },
                if with_help && rng.chance(2, 3) { Some(if h { format!("HIDPVH{i}k{j}") } else { adv(rng) }) } else { None }, h) }).collect()
        } else { vec![] };
        args.push(MA {
            id: if hide { format!("hid{i}") } else if rng.chance(1, 4) { format!(".id{i}") } else { format!("id{i}") },
            short, long,
            vnames: if takes && rng.chance(1, 2) { if hide { vec![format!("HIDV{i}")] } else if rng.chance(1, 3) { vec![format!("{}{i}", rng.pick(&MILD[..])), format!("B{i}")] } else { vec![format!("{}{i}", rng.pick(&MILD[..]))] } } else { vec![] },
            kind, required, hide, heading: if rng.chance(1, 3) { Some(rng.pick(&["Heading0", "x\n.so heading", ".Head", "two words", "it's", "Heading0"]).to_string()) } else { None },
            help: if hide { Some(format!("HIDH{i} text")) } else { opt_adv(rng, 4, 5) },
            long_help: if hide { None } else { opt_adv(rng, 1, 5) },
            hide_s: rng.chance(1, 8), hide_l: rng.chance(1, 8),
            defaults: if takes && !required && rng.chance(1, 4) { vec![if hide { format!("HIDD{i}") } else { rng.pick(&MILD[..]).to_string() }] } else { vec![] },
            hide_def: takes && rng.chance(1, 8),
            env: if rng.chance(1, 6) { Some(format!("VERIF_M_{}{i}", if hide { "HID" } else { "E-N.V" })) } else { None }, hide_env: rng.chance(1, 8),
            pvs, hide_pv: takes && rng.chance(1, 8),
        });
    }
    let nsubs = match rng.below(4) { 0 | 1 => 0, 2 => 1, _ => 3 };
    let subs = (0..nsubs).map(|i| { let hide = rng.chance(1, 4); MS {
        name: if hide { format!("hidsub{i}") } else { format!("{}{i}", rng.pick(&["sub", ".sub", "s-ub", "su'b", "sub cmd"])) },
        about: if hide { Some(format!("HIDAB{i}")) } else { opt_adv(rng, 2, 3) }, long_about: if hide { None } else { opt_adv(rng, 1, 5) }, hide } }).collect();
    MC {
        name: rng.pick(&["prog", "my-app", ".prog", "it's", "two words", "x\n.so name", "back\\slash", "'q"]).to_string(),
        display_name: if rng.chance(1, 4) { Some(rng.pick(&MILD[..]).to_string()) } else { None },
        bin_name: if rng.chance(1, 4) { Some(rng.pick(&MILD[..]).to_string()) } else { None },
        about: opt_adv(rng, 2, 3), long_about: opt_adv(rng, 1, 3), version: opt_adv(rng, 1, 2), long_version: opt_adv(rng, 1, 4),
        author: opt_adv(rng, 1, 3), after: opt_adv(rng, 1, 4), after_long: opt_adv(rng, 1, 5),
        sub_heading: if rng.chance(1, 4) { Some(rng.pick(&["Subs", ".Subs", "x\n.so sub", "it's", "two words"]).to_string()) } else { None },
        sub_value_name: if rng.chance(1, 4) { Some(rng.pick(&MILD[..]).to_string()) } else { None },
        sub_required: rng.chance(1, 4), no_help_flag: rng.chance(1, 6), args, subs,
        ov: [opt_adv(rng, 1, 6), if rng.chance(1, 6) { Some(rng.pick(&["1", "8", "1 x", "1\n.so s", ""]).to_string()) } else { None }, opt_adv(rng, 1, 6), opt_adv(rng, 1, 6), opt_adv(rng, 1, 6)],
    }
}

fn build(c: &MC, innocuous: bool) -> Command {
    // the twin: every `.`, `'`, `\`, `-` of user text becomes `x`; the line structure (newlines, blanks) is kept
    let t = |s: &str| -> String { if innocuous { s.chars().map(|ch| if matches!(ch, '.' | '\'' | '\\' | '-') { 'x' } else { ch }).collect() } else { s.to_string() } };
    let mut r = Command::new(t(&c.name));
    if let Some(x) = &c.display_name { r = r.display_name(t(x)); }
    if let Some(x) = &c.bin_name { r = r.bin_name(t(x)); }
    if let Some(x) = &c.about { r = r.about(t(x)); }
    if let Some(x) = &c.long_about { r = r.long_about(t(x)); }
    if let Some(x) = &c.version { r = r.version(t(x)); }
    if let Some(x) = &c.long_version { r = r.long_version(t(x)); }
    if let Some(x) = &c.author { r = r.author(t(x)); }
    if let Some(x) = &c.after { r = r.after_help(t(x)); }
    if let Some(x) = &c.after_long { r = r.after_long_help(t(x)); }
    if let Some(x) = &c.sub_heading { r = r.subcommand_help_heading(t(x)); }
    if let Some(x) = &c.sub_value_name { r = r.subcommand_value_name(t(x)); }
    if c.sub_required { r = r.subcommand_required(true); }
    if c.no_help_flag { r = r.disable_help_flag(true); }
    for a in &c.args {
        let mut x = Arg::new(t(&a.id));
        if let Some(s) = a.short { x = x.short(if innocuous && matches!(s, '.' | '\'') { 'X' } else { s }); }
        if let Some(l) = &a.long { x = x.long(t(l)); }
        x = match a.kind { 0 => x.action(ArgAction::SetTrue), 1 => x.action(ArgAction::Count), 2 | 4 => x.action(ArgAction::Set), _ => x.action(ArgAction::Append) };
        if !a.vnames.is_empty() { x = x.value_names(a.vnames.iter().map(|v| t(v)).collect::<Vec<_>>()); }
        if a.required { x = x.required(true); }
        if a.hide { x = x.hide(true); }
        if let Some(h) = &a.heading { x = x.help_heading(t(h)); }
        if let Some(h) = &a.help { x = x.help(t(h)); }
        if let Some(h) = &a.long_help { x = x.long_help(t(h)); }
        if a.hide_s { x = x.hide_short_help(true); }
        if a.hide_l { x = x.hide_long_help(true); }
        if !a.defaults.is_empty() { x = x.default_values(a.defaults.iter().map(|v| t(v)).collect::<Vec<_>>()); }
        if a.hide_def { x = x.hide_default_value(true); }
        if let Some(e) = &a.env { x = x.env(t(e)); }
        if a.hide_env { x = x.hide_env(true); }
        if !a.pvs.is_empty() { x = x.value_parser(a.pvs.iter().map(|(n, h, hd)| { let mut p = PossibleValue::new(t(n)).hide(*hd); if let Some(h) = h { p = p.help(t(h)); } p }).collect::<Vec<_>>()); }
        if a.hide_pv { x = x.hide_possible_values(true); }
        r = r.arg(x);
    }
    for s in &c.subs {
        let mut sc = Command::new(t(&s.name));
        if let Some(x) = &s.about { sc = sc.about(t(x)); }
        if let Some(x) = &s.long_about { sc = sc.long_about(t(x)); }
        if s.hide { sc = sc.hide(true); }
        r = r.subcommand(sc);
    }
    r
}

fn oh(s: Option<String>) -> String { match s { None => "~".into(), Some(x) => hex(x.as_bytes()) } }

/// the model's input, read off the BUILT real command through its public getters
fn request(built: &Command, ov: &[Option<String>; 5]) -> String {
    let mut t = vec!["man".to_string(), hex(built.get_name().as_bytes()), oh(built.get_display_name().map(|s| s.to_string())), oh(built.get_bin_name().map(|s| s.to_string())),
        oh(built.get_about().map(|s| s.to_string())), oh(built.get_long_about().map(|s| s.to_string())), oh(built.get_version().map(|s| s.to_string())),
        oh(built.get_long_version().map(|s| s.to_string())), oh(built.get_author().map(|s| s.to_string())), oh(built.get_after_help().map(|s| s.to_string())),
        oh(built.get_after_long_help().map(|s| s.to_string())), oh(built.get_subcommand_help_heading().map(|s| s.to_string())),
        oh(built.get_subcommand_value_name().map(|s| s.to_string())), b01(built.is_subcommand_required_set()).to_string()];
    let args: Vec<&Arg> = built.get_arguments().collect();
    t.push(args.len().to_string());
    for a in args {
        t.push(hex(a.get_id().as_str().as_bytes()));
        t.push(oh(a.get_short().map(|c| c.to_string())));
        t.push(oh(a.get_long().map(|c| c.to_string())));
        match a.get_value_names() { None => t.push("~".into()), Some(v) => { t.push(v.len().to_string()); for x in v { t.push(hex(x.as_str().as_bytes())); } } }
        let takes = a.get_num_args().expect("built").takes_values();
        let bits = [takes, a.is_required_set(), a.is_hide_set(), matches!(a.get_action(), ArgAction::Count), a.is_hide_short_help_set(), a.is_hide_long_help_set(),
            a.is_hide_default_value_set(), a.is_hide_env_set(), a.is_hide_possible_values_set()];
        t.push(bits.iter().map(|b| b01(*b)).collect::<String>());
        t.push(oh(a.get_help_heading().map(|s| s.to_string())));
        t.push(oh(a.get_help().map(|s| s.to_string())));
        t.push(oh(a.get_long_help().map(|s| s.to_string())));
        let d = a.get_default_values();
        t.push(d.len().to_string());
        for x in d { t.push(hex(x.to_string_lossy().as_bytes())); }
        t.push(oh(a.get_env().map(|e| e.to_string_lossy().into_owned())));
        let pvs = a.get_possible_values();
        t.push(pvs.len().to_string());
        for p in pvs { t.push(hex(p.get_name().as_bytes())); t.push(oh(p.get_help().map(|h| h.to_string()))); t.push(b01(p.is_hide_set()).into()); }
    }
    let subs: Vec<&Command> = built.get_subcommands().collect();
    t.push(subs.len().to_string());
    for s in subs {
        t.push(hex(s.get_name().as_bytes()));
        t.push(oh(s.get_about().or_else(|| s.get_long_about()).map(|x| x.to_string())));
        t.push(b01(s.is_hide_set()).into());
    }
    for o in ov { t.push(oh(o.clone())); }
    t.join(" ")
}

fn render(c: Command, ov: &[Option<String>; 5], innocuous: bool) -> Vec<u8> {
    let t = |s: &str| -> String { if innocuous { s.chars().map(|ch| if matches!(ch, '.' | '\'' | '\\' | '-') { 'x' } else { ch }).collect() } else { s.to_string() } };
    let mut m = clap_mangen::Man::new(c);
    if let Some(x) = &ov[0] { m = m.title(t(x)); }
    if let Some(x) = &ov[1] { m = m.section(t(x)); }
    if let Some(x) = &ov[2] { m = m.date(t(x)); }
    if let Some(x) = &ov[3] { m = m.source(t(x)); }
    if let Some(x) = &ov[4] { m = m.manual(t(x)); }
    let mut out = vec![]; m.render(&mut out).unwrap(); out
}

fn requests_of(page: &[u8]) -> Vec<String> {
    String::from_utf8_lossy(page).split('\n').filter(|l| l.starts_with('.') || l.starts_with('\''))
        .map(|l| l.split(' ').next().unwrap().to_string()).collect()
}
fn roff_esc(s: &str) -> String { s.replace('\\', "\\\\").replace('-', "\\-").replace('\'', "\\*(Aq").replace("\n.", "\n\\&.") }

pub fn run(o: &Opts) -> Report {
    let mut rep = Report::new("C19", "random commands (options, positionals, headings, possible values with/without help, defaults, env, subcommands, hidden items) with an adversarial string (leading . or ', backslashes, dashes, quotes, newlines followed by . or ', blank lines, CRLF, empty, non-ASCII whitespace) in every text slot: name, display name, bin name, about, long about, version, long version, author, after-help, headings, subcommand heading/value name, arg help/long help, value names, ids, defaults, possible-value names/help, subcommand names/about; oracle on the real crate: render does not panic and is deterministic, the sequence of roff requests (lines starting with . or ') equals that of the innocuous twin (same command with . ' \\ - replaced by x in every slot), every visible option/positional/subcommand is named, no token of a hidden arg/subcommand/possible value appears; model: byte-exact page predicted from the built command's public getters; non-trivial = at least one slot holds a string with a control character at a line start or a backslash; plus the roff renderer alone on random inline lists");
    let mut rng = Rng::new(o.seed ^ 0xC19);
    let n = if o.thorough() { 40000 } else { 2500 };
    let mut reqs = vec![]; let mut impls = vec![];
    for ci in 0..n {
        let mc = gen_mc(&mut rng);
        let key = format!("cmd#{ci} {mc:?}");
        let valid = std::panic::catch_unwind(|| { let mut c = build(&mc, false); c.build(); let mut t = build(&mc, true); t.build(); }).is_ok();
        if !valid { rep.count("invalid_definition(skipped)"); continue; }
        rep.count("commands");
        let r = std::panic::catch_unwind(|| { let c = build(&mc, false); let mut b = c.clone(); b.build(); (request(&b, &mc.ov), render(c.clone(), &mc.ov, false), render(c, &mc.ov, false), render(build(&mc, true), &mc.ov, true)) });
        let (req, page, page2, twin) = match r {
            Err(_) => { rep.oracle_fail("man-render-panics", &key, "Man::new(cmd).render panicked"); continue; }
            Ok(x) => x,
        };
        if page != page2 { rep.oracle_fail("man-render-nondeterministic", &key, "two renders differ"); }
        let (ra, rb) = (requests_of(&page), requests_of(&twin));
        if ra != rb {
            let extra: Vec<&String> = ra.iter().filter(|x| !rb.contains(x)).collect();
            rep.oracle_fail(if extra.is_empty() { "roff-requests-differ-from-twin" } else { "user-text-starts-roff-request" }, &key,
                &format!("requests {ra:?} vs innocuous twin {rb:?}\n{}", String::from_utf8_lossy(&page)));
        }
        let text = String::from_utf8_lossy(&page).to_string();
        // visible items named, hidden ones not
        for a in &mc.args {
            if a.hide {
                let mut toks = vec![a.id.clone()];
                if let Some(l) = &a.long { toks.push(l.clone()); }
                toks.extend(a.vnames.iter().cloned());
                if let Some(h) = &a.help { toks.push(h.split(' ').next().unwrap().to_string()); }
                toks.extend(a.defaults.iter().cloned());
                for t in toks { if text.contains(&t) { rep.oracle_fail("hidden-item-in-man-page", &key, &format!("token {t:?} of hidden arg {} appears:\n{text}", a.id)); } }
            } else {
                let tok = if let Some(l) = &a.long { format!("\\fB{}\\fR", roff_esc(&format!("--{l}"))) } else if let Some(s) = a.short { format!("\\fB{}", roff_esc(&format!("-{s}"))) }
                    else if !a.vnames.is_empty() { format!("\\fI{}\\fR", roff_esc(&a.vnames.join(" "))) } else { format!("\\fI{}\\fR", roff_esc(&a.id)) };
                if !text.contains(&tok) { rep.oracle_fail("visible-item-missing-from-man-page", &key, &format!("{tok:?} not found:\n{text}")); }
            }
            for (n, h, hd) in &a.pvs { if *hd { for t in [Some(n.clone()), h.clone()].into_iter().flatten() { if text.contains(&t) { rep.oracle_fail("hidden-item-in-man-page", &key, &format!("hidden possible value token {t:?} appears:\n{text}")); } } } }
        }
        for s in &mc.subs {
            if s.hide { for t in [Some(s.name.clone()), s.about.clone()].into_iter().flatten() { if text.contains(&t) { rep.oracle_fail("hidden-item-in-man-page", &key, &format!("hidden subcommand token {t:?} appears:\n{text}")); } } }
            else { let tok = roff_esc(&format!("-{}({})", s.name, mc.ov[1].clone().unwrap_or("1".into()))); if !text.contains(&tok) { rep.oracle_fail("visible-item-missing-from-man-page", &key, &format!("{tok:?} not found:\n{text}")); } }
        }
        let nontrivial = format!("{mc:?}").contains("\\n.") || format!("{mc:?}").contains("\\\\") || format!("{mc:?}").contains("\".") || format!("{mc:?}").contains("\"'");
        rep.case(&req, nontrivial);
        reqs.push(req); impls.push(format!("OK {}", hex(&page)));
    }
    // the roff renderer alone: random inline lists / control lines
    let nr = if o.thorough() { 60000 } else { 6000 };
    for _ in 0..nr {
        if rng.chance(4, 5) {
            let k = 1 + rng.below(5);
            let mut toks = vec!["roff".to_string(), k.to_string()];
            let mut inl = vec![];
            for _ in 0..k {
                let s = if rng.chance(1, 2) { adv(&mut rng) } else { (0..rng.below(6)).map(|_| *rng.pick(&['.', '\'', '\n', '\\', '-', 'a', ' '])).collect() };
                match rng.below(7) {
                    0 => { toks.push("BR".into()); inl.push(clap_mangen::roff::Inline::LineBreak); }
                    1 | 2 => { toks.push("I".into()); toks.push(hex(s.as_bytes())); inl.push(clap_mangen::roff::italic(s)); }
                    3 => { toks.push("B".into()); toks.push(hex(s.as_bytes())); inl.push(clap_mangen::roff::bold(s)); }
                    _ => { toks.push("R".into()); toks.push(hex(s.as_bytes())); inl.push(clap_mangen::roff::roman(s)); }
                }
            }
            let mut r = clap_mangen::roff::Roff::new(); r.text(inl);
            let mut out = vec![]; r.to_writer(&mut out).unwrap();
            let req = toks.join(" ");
            rep.case(&req, true); rep.count("roff_text_lines");
            reqs.push(req); impls.push(hex(&out));
        } else {
            let k = rng.below(4);
            let name = rng.pick(&["TH", "SH", "TP", "IP"]).to_string();
            let args: Vec<String> = (0..k).map(|_| adv(&mut rng).replace('\n', " ")).collect();
            let mut r = clap_mangen::roff::Roff::new(); r.control(name.clone(), args.iter().map(|s| s.as_str()));
            let mut out = vec![]; r.to_writer(&mut out).unwrap();
            let req = format!("roffc {} {}{}", hex(name.as_bytes()), k, args.iter().map(|a| format!(" {}", hex(a.as_bytes()))).collect::<String>());
            rep.case(&req, true); rep.count("roff_control_lines");
            reqs.push(req); impls.push(hex(&out));
        }
    }
    if o.driver != "none" {
        let model = driver_batch(&o.driver, &reqs, o.par);
        for ((req, m), i) in reqs.iter().zip(model.iter()).zip(impls.iter()) {
            if m != i {
                let dec = |s: &str| { let h = s.strip_prefix("OK ").unwrap_or(s); String::from_utf8_lossy(&unhex(h)).to_string() };
                rep.disagree(req.split(' ').next().unwrap(), req, &dec(m), &dec(i));
            }
        }
    }
    rep
}
