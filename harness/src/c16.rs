//! C16 — generated completion scripts cover the whole command tree and work in the shell.
use crate::util::*;
use clap::builder::PossibleValue;
use clap::{Arg, ArgAction, Command, ValueHint};
use clap_complete::aot::{generate, Shell};
use std::io::Write as _;

#[derive(Clone, Debug)]
struct GA { optval: bool, multi: bool, required: bool, help: Option<String>, id: String, short: Option<char>, long: Option<String>, vshorts: Vec<char>, vlongs: Vec<String>, takes: bool, positional: bool, pvs: Vec<(String, bool)>, hint: u8, global: bool }
#[derive(Clone, Debug)]
struct GN { about: Option<String>, name: String, aliases: Vec<String>, args: Vec<GA>, subs: Vec<GN> }

const ATOMS: [&str; 10] = ["a", "b", "a-b", "b-a", "a-b-a", "x_y", "a_b", "ab", "c", "a-"];

fn gen_gn(rng: &mut Rng, depth: usize, idx: &mut usize, collide: bool, odd: bool, used: &mut Vec<String>) -> GN {
    let mut fresh = |rng: &mut Rng, idx: &mut usize, used: &mut Vec<String>| -> String {
        loop {
            *idx += 1;
            let n = if collide && rng.chance(2, 3) { rng.pick(&ATOMS[..]).to_string() }
                else if odd && rng.chance(1, 4) { rng.pick(&["a__b", "r_", "_l", "x__", "__y"]).to_string() }
                else { format!("{}{}", rng.pick(&["cmd", "sub-cmd", "my_cmd", "c"]), *idx) };
            if !used.contains(&n) { used.push(n.clone()); return n; }
        }
    };
    let mut sibling_names: Vec<String> = vec!["help".into()];
    let name = if depth == 0 { if rng.chance(1, 4) { "my-app".to_string() } else { "prog".to_string() } } else { String::new() };
    let mut shorts: Vec<char> = "abcdefgijkmnopqrstuwxyzABC".chars().collect();
    let nargs = rng.below(4);
    let mut args = vec![];
    let mut have_pos = false;
    for _ in 0..nargs {
        *idx += 1;
        let i = *idx;
        let positional = !have_pos && rng.chance(1, 6);
        if positional { have_pos = true; }
        // a flag that may take an optional value: `SetTrue` + `num_args(0..=1)` (`--color[=false]`)
        let optval = !positional && rng.chance(1, 6);
        // ... or an option whose value is optional: `Set` + `num_args(0..=1)` + `default_missing_value` (`--color[=WHEN]`)
        let takes = positional || rng.chance(1, 2);
        let short = if !positional && rng.chance(2, 3) { Some(shorts.remove(rng.below(shorts.len()))) } else { None };
        let long = if !positional && (short.is_none() || rng.chance(2, 3)) { Some(format!("o{i}x-long")) } else { None };
        let vshorts = if short.is_some() && rng.chance(1, 4) { vec![shorts.remove(rng.below(shorts.len()))] } else { vec![] };
        let vlongs = if long.is_some() && rng.chance(1, 3) { vec![format!("o{i}x-alias")] } else { vec![] };
        let pvs = if takes && rng.chance(1, 3) { (0..1 + rng.below(3)).map(|j| (format!("pv{i}v{j}"), rng.chance(1, 5))).collect() } else { vec![] };
        let global = !positional && long.is_some() && short.is_none() && depth <= 1 && rng.chance(1, 6);
        args.push(GA { optval, multi: false, required: false, help: if rng.chance(1, 2) { Some(rng.pick(&["plain help", "it's", "two\nlines", "", "q \u{2018}x\u{2019}"]).to_string()) } else { None }, id: format!("arg{i}"), short, long, vshorts, vlongs, takes, positional, pvs, hint: if takes { rng.below(5) as u8 } else { 0 }, global });
    }
    // cp-style `<files>... <mode>`: a multi-valued positional followed by a required one with possible values
    if !have_pos && rng.chance(1, 8) {
        *idx += 2;
        let i = *idx;
        args.push(GA { optval: false, multi: true, required: true, help: None, id: format!("arg{}", i - 1), short: None, long: None, vshorts: vec![], vlongs: vec![], takes: true, positional: true, pvs: vec![], hint: 0, global: false });
        args.push(GA { optval: false, multi: false, required: true, help: None, id: format!("arg{i}"), short: None, long: None, vshorts: vec![], vlongs: vec![], takes: true, positional: true, pvs: (0..2).map(|j| (format!("pv{i}v{j}"), false)).collect(), hint: 0, global: false });
    }
    let nsubs = if depth >= 3 { 0 } else { match rng.below(4) { 0 => 0, 1 => 1, 2 => 2, _ => 3 } };
    let mut subs = vec![];
    for _ in 0..nsubs {
        let mut local_used = sibling_names.clone();
        let n = fresh(rng, idx, &mut local_used);
        sibling_names.push(n.clone());
        let aliases = if rng.chance(1, 3) { let a = fresh(rng, idx, &mut local_used); sibling_names.push(a.clone()); vec![a] } else { vec![] };
        let mut child = gen_gn(rng, depth + 1, idx, collide, odd, used);
        child.name = n; child.aliases = aliases;
        subs.push(child);
    }
    GN { about: if depth > 0 && rng.chance(1, 2) { Some(rng.pick(&["about text", "it's about", "a\nb"]).to_string()) } else { None }, name, aliases: vec![], args, subs }
}

fn build(n: &GN) -> Command {
    let mut c = Command::new(n.name.clone());
    for a in &n.aliases { c = c.visible_alias(a.clone()); }
    if let Some(a) = &n.about { c = c.about(a.clone()); }
    for (k, a) in n.args.iter().enumerate() {
        let mut x = Arg::new(a.id.clone());
        if let Some(s) = a.short { x = x.short(s); }
        if let Some(l) = &a.long { x = x.long(l.clone()); }
        for s in &a.vshorts { x = x.visible_short_alias(*s); }
        for l in &a.vlongs { x = x.visible_alias(l.clone()); }
        // HIDDEN aliases (never to be mentioned) on about a third of the options, with and without visible ones next to
        // them: `get_visible_aliases()` is then `Some([])`, not `None`
        if !a.positional && (k + a.id.len()) % 3 == 0 {
            if a.short.is_some() && k < 10 { x = x.short_alias(char::from(b'0' + k as u8)); }
            if a.long.is_some() { x = x.alias(format!("{}-hidden-alias", a.id)); }
        }
        x = if a.takes { x.action(ArgAction::Set) } else { x.action(ArgAction::SetTrue) };
        if a.optval { x = x.num_args(0..=1); if a.takes { x = x.default_missing_value(a.pvs.first().map(|p| p.0.clone()).unwrap_or("dm".into())); } }
        if a.multi { x = x.num_args(1..); }
        if a.required { x = x.required(true); }
        if !a.pvs.is_empty() { x = x.value_parser(a.pvs.iter().map(|(n, h)| PossibleValue::new(n.clone()).hide(*h)).collect::<Vec<_>>()); }
        if a.global { x = x.global(true); }
        if let Some(h) = &a.help { x = x.help(h.clone()); }
        x = match a.hint { 1 => x.value_hint(ValueHint::FilePath), 2 => x.value_hint(ValueHint::DirPath), 3 => x.value_hint(ValueHint::Other), 4 => x.value_hint(ValueHint::Hostname), _ => x };
        c = c.arg(x);
    }
    for s in &n.subs { c = c.subcommand(build(s)); }
    c
}

/// the generators' view of one built level (`generator/utils.rs`, `bash.rs::all_options_for_path`), for the model
fn encode(cmd: &Command, out: &mut Vec<String>) {
    out.push(hex(cmd.get_name().as_bytes()));
    let al: Vec<&str> = cmd.get_visible_aliases().collect();
    out.push(al.len().to_string());
    for a in al { out.push(hex(a.as_bytes())); }
    let mut opts: Vec<String> = vec![]; let mut vopts: Vec<String> = vec![];
    for a in cmd.get_arguments().filter(|a| !a.is_positional()) {
        if let Some(s) = a.get_short() { if let Some(v) = a.get_visible_short_aliases() { for x in v { opts.push(format!("-{x}")); } } opts.push(format!("-{s}")); }
    }
    for a in cmd.get_arguments().filter(|a| !a.is_positional()) {
        if let Some(l) = a.get_long() { if let Some(v) = a.get_visible_aliases() { for x in v { opts.push(format!("--{x}")); } } opts.push(format!("--{l}")); }
    }
    for p in cmd.get_positionals() {
        let pvs = p.get_possible_values();
        if p.get_num_args().expect("built").takes_values() && p.get_value_parser().possible_values().is_some() { for v in pvs { opts.push(v.get_name().to_string()); } } else { opts.push(p.to_string()); }
    }
    for a in cmd.get_opts() {
        if let Some(v) = a.get_long_and_visible_aliases() { for x in v { vopts.push(format!("--{x}")); } }
        if let Some(v) = a.get_short_and_visible_aliases() { for x in v { vopts.push(format!("-{x}")); } }
    }
    // `compgen -W` splits the word list at whitespace
    let opts: Vec<String> = opts.iter().flat_map(|o| o.split_whitespace().map(|s| s.to_string()).collect::<Vec<_>>()).collect();
    out.push(opts.len().to_string()); for o in &opts { out.push(hex(o.as_bytes())); }
    out.push(vopts.len().to_string()); for o in &vopts { out.push(hex(o.as_bytes())); }
    let subs: Vec<&Command> = cmd.get_subcommands().collect();
    out.push(subs.len().to_string());
    for s in subs { encode(s, out); }
}

/// the elvish / PowerShell generators' view of a built level, for the CaseGen model
fn encode_case(cmd: &Command, out: &mut Vec<String>) {
    let h = |s: &str| if s.is_empty() { "-".to_string() } else { hex(s.as_bytes()) };
    let names = cmd.get_name_and_visible_aliases();
    out.push(names.len().to_string()); for n in names { out.push(h(n)); }
    out.push(cmd.get_about().map(|a| h(&a.to_string())).unwrap_or("~".into()));
    let opts: Vec<&Arg> = cmd.get_arguments().filter(|a| !a.is_positional()).collect();
    out.push(opts.len().to_string());
    for a in opts {
        let sh = a.get_short_and_visible_aliases().unwrap_or_default();
        out.push(sh.len().to_string()); for c in sh { out.push(h(&c.to_string())); }
        let lo = a.get_long_and_visible_aliases().unwrap_or_default();
        out.push(lo.len().to_string()); for l in lo { out.push(h(l)); }
        out.push(a.get_help().map(|x| h(&x.to_string())).unwrap_or("~".into()));
        out.push(b01(a.get_num_args().expect("built").takes_values()).into());
    }
    let subs: Vec<&Command> = cmd.get_subcommands().collect();
    out.push(subs.len().to_string());
    for s in subs { encode_case(s, out); }
}

/// the fish generator's view of a built level, for the FishGen model
fn encode_fish(cmd: &Command, out: &mut Vec<String>) {
    let h = |s: &str| if s.is_empty() { "-".to_string() } else { hex(s.as_bytes()) };
    let names = cmd.get_name_and_visible_aliases();
    out.push(names.len().to_string()); for n in names { out.push(h(n)); }
    out.push(cmd.get_about().map(|a| h(&a.to_string())).unwrap_or("~".into()));
    let opts: Vec<&Arg> = cmd.get_arguments().filter(|a| !a.is_positional()).collect();
    out.push(opts.len().to_string());
    for a in opts {
        let sh = a.get_short_and_visible_aliases().unwrap_or_default();
        out.push(sh.len().to_string()); for c in sh { out.push(h(&c.to_string())); }
        let lo = a.get_long_and_visible_aliases().unwrap_or_default();
        out.push(lo.len().to_string()); for l in lo { out.push(h(l)); }
        out.push(a.get_help().map(|x| h(&x.to_string())).unwrap_or("~".into()));
        let takes = a.get_num_args().expect("built").takes_values();
        out.push(b01(takes).into());
        // `utils::possible_values`: only for args that take values and whose parser lists values
        match if takes { a.get_value_parser().possible_values().map(|it| it.collect::<Vec<_>>()) } else { None } {
            Some(pvs) => { out.push(pvs.len().to_string()); for pv in pvs { out.push(h(pv.get_name())); out.push(h(&pv.get_help().map(|x| x.to_string()).unwrap_or_default())); out.push(b01(pv.is_hide_set()).into()); } }
            None => out.push("~".into()),
        }
        out.push(match a.get_value_hint() { ValueHint::Unknown => "0", ValueHint::AnyPath | ValueHint::FilePath | ValueHint::ExecutablePath => "1", ValueHint::DirPath => "2",
            ValueHint::CommandString | ValueHint::CommandName => "3", ValueHint::Username => "4", ValueHint::Hostname => "5", _ => "6" }.into());
        out.push(a.get_short().map(|c| h(&c.to_string())).unwrap_or("~".into()));
        out.push(a.get_long().map(h).unwrap_or("~".into()));
    }
    out.push(b01(cmd.get_positionals().next().is_some()).into());
    let subs: Vec<&Command> = cmd.get_subcommands().collect();
    out.push(subs.len().to_string());
    for s in subs { encode_fish(s, out); }
}

/// the nushell generator's view of a built level, for the NuGen model
fn encode_nu(cmd: &Command, out: &mut Vec<String>) {
    let h = |s: &str| if s.is_empty() { "-".to_string() } else { hex(s.as_bytes()) };
    out.push(h(cmd.get_bin_name().unwrap_or("")));
    out.push(cmd.get_about().map(|a| h(&a.to_string())).unwrap_or("~".into()));
    let args: Vec<&Arg> = cmd.get_arguments().collect();
    out.push(args.len().to_string());
    for a in args {
        out.push(h(a.get_id().as_str()));
        let takes = a.get_num_args().map(|r| r.takes_values()).unwrap_or(false);
        let path = matches!(a.get_value_hint(), ValueHint::AnyPath | ValueHint::FilePath | ValueHint::DirPath | ValueHint::ExecutablePath);
        out.push([a.is_positional(), matches!(a.get_action(), ArgAction::Append), a.is_required_set(), takes, path].iter().map(|b| if *b { '1' } else { '0' }).collect());
        let sh = a.get_short_and_visible_aliases().unwrap_or_default();
        out.push(sh.len().to_string()); for c in sh { out.push(h(&c.to_string())); }
        let lo = a.get_long_and_visible_aliases().unwrap_or_default();
        out.push(lo.len().to_string()); for l in lo { out.push(h(l)); }
        let pvs = a.get_possible_values();
        out.push(pvs.len().to_string()); for pv in pvs { out.push(h(pv.get_name())); }
        out.push(a.get_help().map(|x| h(&x.to_string())).unwrap_or("~".into()));
    }
    let subs: Vec<&Command> = cmd.get_subcommands().collect();
    out.push(subs.len().to_string());
    for s in subs { encode_nu(s, out); }
}

/// the zsh generator's view of a built level, for the ZshGen model
fn encode_zsh(cmd: &Command, parent: Option<&Command>, out: &mut Vec<String>) {
    let h = |s: &str| if s.is_empty() { "-".to_string() } else { hex(s.as_bytes()) };
    let ho = |s: Option<String>| s.map(|x| h(&x)).unwrap_or("~".into());
    out.push(h(cmd.get_name())); out.push(h(cmd.get_bin_name().unwrap_or("")));
    out.push(ho(cmd.get_about().map(|a| a.to_string())));
    let al: Vec<&str> = cmd.get_visible_aliases().collect();
    out.push(al.len().to_string()); for a in al { out.push(h(a)); }
    let args: Vec<&Arg> = cmd.get_arguments().collect();
    out.push(args.len().to_string());
    for a in args {
        out.push(h(a.get_id().as_str()));
        let na = a.get_num_args().expect("built");
        out.push([a.is_positional(), na.takes_values(), matches!(a.get_action(), ArgAction::Count | ArgAction::Append), a.is_required_set(), a.is_last_set(), na.max_values() > 1].iter().map(|b| if *b { '1' } else { '0' }).collect());
        out.push(ho(a.get_short().map(|c| c.to_string())));
        let v = a.get_visible_short_aliases().unwrap_or_default(); out.push(v.len().to_string()); for c in v { out.push(h(&c.to_string())); }
        out.push(ho(a.get_long().map(|c| c.to_string())));
        let v = a.get_visible_aliases().unwrap_or_default(); out.push(v.len().to_string()); for c in v { out.push(h(c)); }
        let v = a.get_short_and_visible_aliases().unwrap_or_default(); out.push(v.len().to_string()); for c in v { out.push(h(&c.to_string())); }
        let v = a.get_long_and_visible_aliases().unwrap_or_default(); out.push(v.len().to_string()); for c in v { out.push(h(c)); }
        out.push(ho(a.get_help().map(|x| x.to_string())));
        out.push(ho(a.get_value_names().map(|v| v[0].to_string())));
        out.push(na.min_values().to_string());
        // `arg_conflicts`: for a global arg of a subcommand the conflicts are looked up in the parent
        let conf = match (parent, a.is_global_set()) { (Some(x), true) => x.get_arg_conflicts_with(a), _ => cmd.get_arg_conflicts_with(a) };
        let mut cs: Vec<String> = vec![];
        for c in conf { if let Some(s) = c.get_short() { cs.push(format!("-{s}")); } if let Some(l) = c.get_long() { cs.push(format!("--{l}")); } }
        out.push(cs.len().to_string()); for c in cs { out.push(h(&c)); }
        match if na.takes_values() { a.get_value_parser().possible_values().map(|it| it.collect::<Vec<_>>()) } else { None } {
            Some(pvs) => { out.push(pvs.len().to_string()); for pv in pvs { out.push(h(pv.get_name())); out.push(ho(pv.get_help().map(|x| x.to_string()))); out.push(b01(pv.is_hide_set()).into()); } }
            None => out.push("~".into()),
        }
        out.push(match a.get_value_hint() { ValueHint::Unknown => "0", ValueHint::Other => "1", ValueHint::AnyPath | ValueHint::FilePath => "2", ValueHint::DirPath => "3", ValueHint::ExecutablePath => "4",
            ValueHint::CommandName => "5", ValueHint::CommandString => "6", ValueHint::CommandWithArguments => "7", ValueHint::Username => "8", ValueHint::Hostname => "9",
            ValueHint::Url => "10", ValueHint::EmailAddress => "11", _ => "12" }.into());
        out.push(ho(a.get_value_terminator().map(|t| t.to_string())));
    }
    let subs: Vec<&Command> = cmd.get_subcommands().collect();
    out.push(subs.len().to_string());
    for s in subs { encode_zsh(s, Some(cmd), out); }
}

fn gen_script(shell: &str, n: &GN) -> String {
    let mut cmd = build(n);
    let mut buf = vec![];
    let bin = n.name.clone();
    match shell {
        "fish" => generate(Shell::Fish, &mut cmd, bin, &mut buf),
        "zsh" => generate(Shell::Zsh, &mut cmd, bin, &mut buf),
        "pwsh" => generate(Shell::PowerShell, &mut cmd, bin, &mut buf),
        "elvish" => generate(Shell::Elvish, &mut cmd, bin, &mut buf),
        "bash" => generate(Shell::Bash, &mut cmd, bin, &mut buf),
        _ => generate(clap_complete_nushell::Nushell, &mut cmd, bin, &mut buf),
    }
    String::from_utf8(buf).expect("utf8 script")
}

/// every (path of names, node) of the tree, using the primary names
fn paths<'a>(n: &'a GN, prefix: &mut Vec<String>, out: &mut Vec<(Vec<String>, &'a GN)>) {
    out.push((prefix.clone(), n));
    for s in &n.subs { prefix.push(s.name.clone()); paths(s, prefix, out); prefix.pop(); }
}

fn level_words(n: &GN, inherited: &[GA], built_has_help_sub: bool) -> Vec<String> {
    let mut w = vec![];
    // global args of the levels above are propagated into this level
    for a in inherited { if !n.args.iter().any(|x| x.id == a.id) { if let Some(s) = a.short { for x in &a.vshorts { w.push(format!("-{x}")); } w.push(format!("-{s}")); } if let Some(l) = &a.long { for x in &a.vlongs { w.push(format!("--{x}")); } w.push(format!("--{l}")); } } }
    for a in n.args.iter().filter(|a| !a.positional) { if let Some(s) = a.short { for x in &a.vshorts { w.push(format!("-{x}")); } w.push(format!("-{s}")); } }
    w.push("-h".into());
    for a in n.args.iter().filter(|a| !a.positional) { if let Some(l) = &a.long { for x in &a.vlongs { w.push(format!("--{x}")); } w.push(format!("--{l}")); } }
    w.push("--help".into());
    for a in n.args.iter().filter(|a| a.positional) { if !a.pvs.is_empty() { for (v, _) in &a.pvs { w.push(v.clone()); } } else { w.push(format!("{}{}", if a.required { format!("<{}>", a.id) } else { format!("[{}]", a.id) }, if a.multi { "..." } else { "" })); } }
    for s in &n.subs { w.push(s.name.clone()); for a in &s.aliases { w.push(a.clone()); } }
    if built_has_help_sub && !n.subs.is_empty() { w.push("help".into()); }
    w
}

pub fn run(o: &Opts) -> Report {
    let mut rep = Report::new("C16", "random command trees (depth <= 3, visible aliases, hyphenated / underscored names, in a third of the trees names from a small collision-prone pool, value hints, possible values, visible short/long aliases) x six generators: no panic, deterministic, every option / visible alias / non-hidden possible value / subcommand name and visible alias mentioned at every supported level (fish: two levels); bash: `bash -n`, then the script is SOURCED in real bash and the completion function called with COMP_WORDS/COMP_CWORD for every subcommand path (by name and by alias) x partial words (empty, `-`, `--`, a proper prefix of a child, a prefix of a long) and COMPREPLY compared with (a) the level's options and subcommands computed from the tree (oracle) and (b) the Lean model of the script (case table, first-match walk, arm dispatch); the script's case labels, arm labels and levels are compared with the model's; non-trivial = path of length >= 1");
    let mut rng = Rng::new(o.seed ^ 0xC16);
    let n = if o.thorough() { 2500 } else { 160 };
    let dir = format!("/verif/harness/target/c16_{}", std::process::id());
    let _ = std::fs::create_dir_all(format!("{dir}/empty"));
    let mut reqs: Vec<String> = vec![]; let mut impls: Vec<String> = vec![]; let mut keys: Vec<String> = vec![];
    for ci in 0..n {
        let mode = rng.below(6);
        let (collide, odd) = (mode <= 1, mode == 2);
        let mut idx = 0; let mut used = vec![];
        let mut tree = gen_gn(&mut rng, 0, &mut idx, collide, odd, &mut used);
        if collide && rng.chance(1, 2) {
            // the shape whose mangled paths coincide: sibling `a-b` next to a nested `a` -> `b`
            let leaf = |name: &str, i: usize| GN { about: None, name: name.into(), aliases: vec![], args: vec![GA { optval: false, multi: false, required: false, help: None, id: format!("carg{i}"), short: None, long: Some(format!("col{i}x-long")), vshorts: vec![], vlongs: vec![], takes: false, positional: false, pvs: vec![], hint: 0, global: false }], subs: vec![] };
            let (x, y) = *rng.pick(&[("a", "b"), ("b", "a"), ("a-b", "a")]);
            let mut nested = leaf(x, 1); nested.subs.push(leaf(y, 2));
            tree.subs.retain(|s| s.name != x && s.name != format!("{x}-{y}") && !s.aliases.contains(&x.to_string()) && !s.aliases.contains(&format!("{x}-{y}")));
            tree.subs.push(leaf(&format!("{x}-{y}"), 3)); tree.subs.push(nested);
        }
        let key0 = format!("tree#{ci} {tree:?}");
        rep.count(if collide { "trees_collision_pool" } else if odd { "trees_odd_names" } else { "trees_plain" });
        let mut scripts = std::collections::BTreeMap::new();
        for shell in ["bash", "zsh", "fish", "pwsh", "elvish", "nu"] {
            let r = std::panic::catch_unwind(|| (gen_script(shell, &tree), gen_script(shell, &tree)));
            match r {
                Err(_) => {
                    // listed finding only for bash and only when a subcommand name of THIS tree interferes with the `__` path separator
                    fn odd_name(n: &GN) -> bool { n.subs.iter().any(|s| s.name.contains("__") || s.name.starts_with('_') || s.name.ends_with('_') || s.aliases.iter().any(|a| a.contains("__")) || odd_name(s)) }
                    let suffix = if shell == "bash" && odd_name(&tree) { ":name-with-double-underscore-or-edge-underscore" } else { "" };
                    rep.oracle_fail(&format!("generator-panics:{shell}{suffix}"), &format!("{key0} shell={shell}"), "generate panicked"); }
                Ok((a, b)) => { if a != b { rep.oracle_fail("generator-nondeterministic", &format!("{key0} shell={shell}"), "two runs differ"); } scripts.insert(shell, a); }
            }
            rep.count(&format!("scripts_{shell}"));
        }
        // zsh: the whole script, byte for byte, against the ZshGen model
        if let Some(script) = scripts.get("zsh") {
            let mut b = build(&tree); b.set_bin_name(tree.name.clone()); b.build();
            let mut t = vec!["zshgen".to_string()];
            encode_zsh(&b, None, &mut t);
            reqs.push(t.join(" ")); impls.push(hex(script.as_bytes())); keys.push(format!("{key0} [zsh script]"));
            rep.count("zshgen");
        }
        // nushell: the whole script, byte for byte, against the NuGen model
        if let Some(script) = scripts.get("nu") {
            let mut b = build(&tree); b.set_bin_name(tree.name.clone()); b.build();
            let mut t = vec!["nugen".to_string()];
            encode_nu(&b, &mut t);
            reqs.push(t.join(" ")); impls.push(hex(script.as_bytes())); keys.push(format!("{key0} [nu script]"));
            rep.count("nugen");
        }
        // fish: the whole script, byte for byte, against the FishGen model
        if let Some(script) = scripts.get("fish") {
            let mut b = build(&tree); b.set_bin_name(tree.name.clone()); b.build();
            let mut t = vec!["fishgen".to_string(), hex(tree.name.as_bytes())];
            encode_fish(&b, &mut t);
            reqs.push(t.join(" ")); impls.push(hex(script.as_bytes())); keys.push(format!("{key0} [fish script]"));
            rep.count("fishgen");
        }
        // elvish / PowerShell: the whole script, byte for byte, against the CaseGen model
        for (shell, tag) in [("elvish", "elvish"), ("pwsh", "pwsh")] {
            if let Some(script) = scripts.get(shell) {
                let mut b = build(&tree); b.set_bin_name(tree.name.clone()); b.build();
                let mut t = vec!["casegen".to_string(), tag.to_string(), hex(tree.name.as_bytes())];
                encode_case(&b, &mut t);
                reqs.push(t.join(" ")); impls.push(hex(script.as_bytes())); keys.push(format!("{key0} [{shell} script]"));
                rep.count(&format!("casegen_{shell}"));
            }
        }
        // nushell: every completer a parameter refers to is defined in the script
        if let Some(nu) = scripts.get("nu") {
            let mut from = 0;
            while let Some(p) = nu[from..].find("@\"nu-complete ") {
                let st = from + p + 2;
                let en = st + nu[st..].find('"').unwrap_or(0);
                let name = &nu[st..en];
                if !nu.contains(&format!("def \"{name}\"")) { rep.oracle_fail("nu-dangling-completer-reference", &format!("{key0} shell=nu"), &format!("`@\"{name}\"` is referenced but never defined")); }
                rep.count("nu_completer_refs");
                from = en;
            }
        }
        // mentions (unique-token trees only)
        let mut all = vec![]; paths(&tree, &mut vec![], &mut all);
        if !collide && !odd {
            for (shell, script) in &scripts {
                for (path, node) in &all {
                    let depth = path.len();
                    if *shell == "fish" && depth > 2 { continue; }
                    for a in &node.args {
                        let mut toks: Vec<String> = vec![];
                        if let Some(l) = &a.long { toks.push(l.clone()); toks.extend(a.vlongs.iter().cloned()); }
                        for t in toks { if !script.contains(&t) { rep.oracle_fail(&format!("{shell}-omits:option"), &format!("{key0} shell={shell}"), &format!("{t:?} of level {path:?} not mentioned")); } }
                        for (v, h) in &a.pvs { if !*h && !script.contains(v.as_str()) {
                            rep.oracle_fail(&format!("{shell}-omits:possible-value{}", if a.positional { "-of-positional" } else { "" }), &format!("{key0} shell={shell}"), &format!("possible value {v:?} of {} at level {path:?} not mentioned", a.id)); } }
                        if let Some(s) = a.short { for x in a.vshorts.iter().chain([s].iter()) {
                            let pat: Vec<String> = match *shell { "fish" => vec![format!("-s {x}")], "nu" => vec![format!("(-{x})"), format!(" -{x}")], _ => vec![format!("-{x}")] };
                            if !pat.iter().any(|p| script.contains(p.as_str())) { rep.oracle_fail(&format!("{shell}-omits:option"), &format!("{key0} shell={shell}"), &format!("short -{x} of level {path:?} not mentioned")); }
                        } }
                    }
                    if *shell == "fish" && depth >= 2 { continue; }
                    for s in &node.subs {
                        if !script.contains(&s.name) { rep.oracle_fail(&format!("{shell}-omits:subcommand-name"), &format!("{key0} shell={shell}"), &format!("{:?} under {path:?} not mentioned", s.name)); }
                        for al in &s.aliases { if !script.contains(al.as_str()) { rep.oracle_fail(&format!("{shell}-omits:subcommand-visible-alias"), &format!("{key0} shell={shell}"), &format!("alias {al:?} of {:?} under {path:?} not mentioned", s.name)); } }
                    }
                }
            }
        }
        // bash: structure vs model, then real bash
        let Some(script) = scripts.get("bash") else {
            // the model must predict the panic
            let mut t = vec!["bashcases".to_string()]; let mut b = build(&tree); b.build(); b.set_bin_name(tree.name.clone()); encode(&b, &mut t);
            reqs.push(t.join(" ")); impls.push("PANIC".into()); keys.push(key0.clone()); continue; };
        let mut enc = vec![]; { let mut b = build(&tree); b.set_bin_name(tree.name.clone()); b.build(); encode(&b, &mut enc); }
        // parse the script
        let lines: Vec<&str> = script.lines().collect();
        let mut cases = vec![]; let mut arms = vec![];
        for (i, l) in lines.iter().enumerate() {
            let t = l.trim();
            if t.ends_with(')') && t.contains(',') && !t.starts_with('"') && lines.get(i + 1).map(|x| x.trim().starts_with("cmd=\"")).unwrap_or(false) {
                let target = lines[i + 1].trim().trim_start_matches("cmd=\"").trim_end_matches('"');
                cases.push(format!("{}>{}", hex(t[..t.len() - 1].as_bytes()), hex(target.as_bytes())));
            }
            if t.ends_with(')') && lines.get(i + 1).map(|x| x.trim().starts_with("opts=\"")).unwrap_or(false) {
                let level = lines.get(i + 2).and_then(|x| x.split("-eq ").nth(1)).and_then(|x| x.split(' ').next()).unwrap_or("?");
                arms.push((t[..t.len() - 1].to_string(), level.to_string()));
            }
        }
        let real_struct = format!("{} | {}", cases.join(" "), arms.iter().skip(1).map(|(l, lv)| format!("{}:{lv}", hex(l.as_bytes()))).collect::<Vec<_>>().join(" "));
        reqs.push(format!("bashcases {}", enc.join(" "))); impls.push(real_struct); keys.push(format!("{key0} [script structure]"));
        // queries
        let spath = format!("{dir}/s.bash");
        std::fs::write(&spath, script).unwrap();
        let ok = std::process::Command::new("bash").arg("-n").arg(&spath).status().map(|s| s.success()).unwrap_or(false);
        if !ok { rep.oracle_fail("bash-rejects-script", &key0, "bash -n failed"); continue; }
        let mut queries: Vec<(Vec<String>, usize, Option<Vec<String>>)> = vec![];
        fn alias_paths(n: &GN, path: &[String], k: usize, acc: Vec<String>, out: &mut Vec<Vec<String>>) {
            if k == path.len() { out.push(acc); return; }
            let c = n.subs.iter().find(|s| s.name == path[k]).unwrap();
            for nm in std::iter::once(&c.name).chain(c.aliases.iter()) { let mut a = acc.clone(); a.push(nm.clone()); alias_paths(c, path, k + 1, a, out); }
        }
        for (path, node) in &all {
            let mut spell = vec![]; alias_paths(&tree, path, 0, vec![], &mut spell);
            for sp in spell.iter().take(3) {
                let mut inherited: Vec<GA> = vec![]; { let mut cur = &tree; for nm in path.iter() { inherited.extend(cur.args.iter().filter(|a| a.global).cloned()); cur = cur.subs.iter().find(|s| &s.name == nm).unwrap(); } }
                let words_of_level = level_words(node, &inherited, true);
                let child_names: Vec<String> = node.subs.iter().flat_map(|s| std::iter::once(s.name.clone()).chain(s.aliases.iter().cloned())).chain(["help".to_string()]).collect();
                let mut curs: Vec<String> = vec!["".into(), "-".into(), "--".into(), "--o".into(), "zz".into()];
                if let Some(c) = node.subs.first() { if c.name.len() > 1 { curs.push(c.name[..c.name.len() - 1].to_string()); curs.push(c.name[..1].to_string()); } }
                for cur in curs {
                    let mut w = vec![tree.name.clone()]; w.extend(sp.iter().cloned()); w.push(cur.clone());
                    // a word equal to a child name addresses the next level: not a partial word of this one
                    let expect = if child_names.contains(&cur) { None } else { let mut e: Vec<String> = words_of_level.iter().filter(|x| x.starts_with(cur.as_str())).cloned().collect(); e.sort(); e.dedup(); Some(e) };
                    queries.push((w, sp.len() + 1, expect));
                }
            }
        }
        if queries.len() > 120 { let keep: Vec<usize> = (0..120).map(|_| rng.below(queries.len())).collect(); queries = keep.into_iter().map(|i| queries[i].clone()).collect(); }
        let mut drv = format!("cd {dir}/empty\nsource {spath}\nrq() {{ local cw=$1; shift; COMP_WORDS=(\"$@\"); COMP_CWORD=$cw; COMPREPLY=(); _{} \"${{COMP_WORDS[0]}}\" 2>/dev/null; printf 'Q'; printf ' %s' \"${{COMPREPLY[@]}}\"; printf '\\n'; }}\n", tree.name);
        for (w, cw, _) in &queries { drv.push_str(&format!("rq {cw}{}\n", w.iter().map(|x| format!(" '{}'", x)).collect::<String>())); }
        let dpath = format!("{dir}/d.bash");
        std::fs::File::create(&dpath).unwrap().write_all(drv.as_bytes()).unwrap();
        let outp = std::process::Command::new("bash").arg("--norc").arg("--noprofile").arg(&dpath).output();
        let Ok(outp) = outp else { rep.oracle_fail("bash-run-failed", &key0, "spawn"); continue; };
        let text = String::from_utf8_lossy(&outp.stdout).to_string();
        let answers: Vec<&str> = text.lines().filter(|l| l.starts_with('Q')).collect();
        if answers.len() != queries.len() { rep.oracle_fail("bash-run-failed", &key0, &format!("{} answers for {} queries; stderr {}", answers.len(), queries.len(), String::from_utf8_lossy(&outp.stderr))); continue; }
        rep.count("bash_processes");
        for ((w, cw, expect), ans) in queries.iter().zip(answers.iter()) {
            let mut got: Vec<String> = ans[1..].split(' ').filter(|x| !x.is_empty()).map(|x| x.to_string()).collect();
            let key = format!("{key0} COMP_WORDS={w:?} COMP_CWORD={cw}");
            rep.case(&format!("{} {w:?}", fnv(&key0)), *cw >= 2);
            rep.count("bash_queries");
            // model
            reqs.push(format!("bashc {} {cw} {}{}", enc.join(" "), w.len(), w.iter().map(|x| format!(" {}", if x.is_empty() { "-".to_string() } else { hex(x.as_bytes()) })).collect::<String>()));
            impls.push(format!("WORDS {}", got.iter().map(|x| hex(x.as_bytes())).collect::<Vec<_>>().join(" ")).trim_end().to_string());
            keys.push(key.clone());
            // oracle
            if let Some(e) = expect {
                got.sort(); got.dedup();
                if &got != e {
                    // listed finding only when two distinct subcommand paths of THIS tree mangle to the same function name
                    let mangled: Vec<String> = all.iter().map(|(p, _)| p.iter().map(|x| x.replace('-', "__")).collect::<Vec<_>>().join("__")).collect();
                    let has_collision = mangled.iter().enumerate().any(|(i, m)| mangled.iter().skip(i + 1).any(|m2| m == m2));
                    let class = if has_collision { "bash-offers-wrong-level:mangled-path-collision" } else { "bash-offers-wrong-level" };
                    rep.oracle_fail(class, &key, &format!("COMPREPLY {got:?} but the level addressed by the preceding words has {e:?}"));
                }
            }
        }
    }
    let _ = std::fs::remove_dir_all(&dir);
    if o.driver != "none" {
        let model = driver_batch(&o.driver, &reqs, o.par);
        for (((req, m), i), k) in reqs.iter().zip(model.iter()).zip(impls.iter()).zip(keys.iter()) {
            let mm = if m == "NOTHING" { "WORDS".to_string() } else { m.trim_end().to_string() };
            if req.starts_with("bashcases") && i == "PANIC" { if !m.ends_with("PANIC") { rep.disagree("bashcases", k, m, "generator panicked"); } continue; }
            if req.starts_with("casegen") || req.starts_with("fishgen") || req.starts_with("nugen") || req.starts_with("zshgen") {
                if m != i { let dec = |x: &str| String::from_utf8_lossy(&unhex(x)).to_string(); let (a, b2) = (dec(m), dec(i));
                    let d = a.lines().zip(b2.lines()).find(|(x, y)| x != y).map(|(x, y)| format!("model: {x}\nreal:  {y}")).unwrap_or_else(|| format!("{} vs {} lines", a.lines().count(), b2.lines().count()));
                    rep.disagree("casegen", k, &d, ""); }
                continue;
            }
            if mm.trim() != i.trim() && !(m == "VALUES") { rep.disagree(req.split(' ').next().unwrap(), k, m, i); }
        }
    }
    rep
}
