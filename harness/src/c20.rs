//! C20 — text wrapping keeps every word, in order, within the requested width.
use crate::util::*;
use clap_builder::__verif as hook;
use std::collections::BTreeMap;
use std::panic::catch_unwind;

fn is_ws(c: char) -> bool { c.is_whitespace() }

/// width table for the non-ASCII characters of `s`, from the real `display_width`
fn width_table(s: &str) -> String {
    let mut t: BTreeMap<u32, usize> = BTreeMap::new();
    for c in s.chars() {
        if (c as u32) >= 0x80 { t.insert(c as u32, hook::display_width(&c.to_string())); }
    }
    if t.is_empty() { "-".into() } else { t.iter().map(|(c, w)| format!("{c}:{w}")).collect::<Vec<_>>().join(",") }
}
fn hard_s(w: usize) -> String { if w == usize::MAX { "max".into() } else { w.to_string() } }

fn strip(s: &str) -> String { s.chars().filter(|c| !is_ws(*c)).collect() }

/// independent word splitter: a word ends where a ' ' is followed by a non-' '
fn split_words(line: &str) -> Vec<&str> {
    let mut v = vec![];
    let mut start = 0;
    let mut prev_space = false;
    for (i, c) in line.char_indices() {
        if prev_space && c != ' ' { v.push(&line[start..i]); start = i; }
        prev_space = c == ' ';
    }
    if start < line.len() { v.push(&line[start..]); }
    v
}

/// Oracle for plain `wrap`: the statement of C20 on the real output.
/// The output must be a *rendering* of the input: for each source line, its words in order, where
/// between two words either the original run of spaces is kept, or it is replaced by "\n" followed
/// by the line's leading indent (the first word, if it is all whitespace).  Nothing else may change.
fn oracle_plain(text: &str, w: usize, out: &str, fails: &mut Vec<(String, String)>) {
    let (ok, pos) = is_rendering(text, out);
    oracle_plain_rest(text, w, out, fails, ok, pos);
}

/// is `out` a rendering of `text` (see `oracle_plain`)? and where the comparison stopped
fn is_rendering(text: &str, out: &str) -> (bool, usize) {
    let mut pos = 0usize;
    let mut ok = true;
    'outer: for line in text.split_inclusive('\n') {
        let words = split_words(line);
        let indent = match words.first() { Some(f) if f.trim().is_empty() => *f, _ => "" };
        for (i, wd) in words.iter().enumerate() {
            let rest = &out[pos..];
            if rest.starts_with(wd) && !(i + 1 < words.len() && rest[wd.len()..].starts_with('\n') && wd.trim_end_matches(' ') == *wd && false) {
                pos += wd.len();
                continue;
            }
            let t = wd.trim_end_matches(' ');
            let brk = format!("{t}\n{indent}");
            if i + 1 < words.len() && rest.starts_with(&brk) { pos += brk.len(); continue; }
            ok = false;
            break 'outer;
        }
    }
    if ok && pos != out.len() { ok = false; }
    (ok, pos)
}

fn oracle_plain_rest(text: &str, w: usize, out: &str, fails: &mut Vec<(String, String)>, ok: bool, pos: usize) {
    if !ok {
        let class = if strip(text) != strip(out) { "words-changed" } else { "not-a-rendering-of-the-input" };
        fails.push((class.into(), format!("out={:?} (mismatch at byte {})", out, pos)));
    }
    // 3. width: every produced line, minus trailing spaces, fits, unless it holds a single word (after the indent)
    let no_ctl = !text.chars().any(|c| c.is_ascii_control() && c != '\n');
    let plain_ws = !text.chars().any(|c| is_ws(c) && c != ' ' && c != '\n');
    if no_ctl && plain_ws {
        for l in out.split('\n') {
            let t = l.trim_end_matches(' ');
            let words = t.split(' ').filter(|x| !x.is_empty()).count();
            if hook::display_width(t) > w && words > 1 {
                fails.push(("line-too-wide".into(), format!("line={:?} width={} > {}", l, hook::display_width(t), w)));
            }
        }
    }
    // 4. nothing to do at unlimited width
    if w == usize::MAX && out != text { fails.push(("changed-at-unlimited-width".into(), format!("out={:?}", out))); }
}

const ALPHA: &[char] = &['a', 'b', ' ', ' ', '\n', '界', '\u{200B}'];
const ALPHA_WS: &[char] = &['a', ' ', '\t', '\u{00A0}', '\n', '界'];

fn gen_text(rng: &mut Rng, exotic_ws: bool) -> String {
    let n = rng.below(60);
    let mut s = String::new();
    if rng.chance(1, 3) { for _ in 0..rng.below(5) { s.push(' '); } }
    for _ in 0..n {
        match rng.below(12) {
            0..=4 => { for _ in 0..1 + rng.below(9) { s.push(*rng.pick(&['a', 'b', 'x', 'é', '界', 'm', '-'])); } }
            5..=7 => { for _ in 0..1 + rng.below(3) { s.push(' '); } }
            8 => { s.push('\n'); if rng.chance(1, 2) { for _ in 0..rng.below(6) { s.push(' '); } } }
            9 => s.push('\u{200B}'),
            10 if exotic_ws => s.push(*rng.pick(&['\t', '\u{00A0}', '\u{3000}', '\u{2003}'])),
            _ => s.push('w'),
        }
    }
    s
}

pub fn run(o: &Opts) -> Report {
    let mut rep = Report::new("C20", "texts: exhaustive strings up to a length bound over {a,b,' ',\\n,wide,zero-width} x widths 0..9, then random texts (words/spaces/newlines/wide/zero-width; a separate stream adds tab/NBSP/U+3000) x widths 0..80 and usize::MAX; styled texts = random text chunks interleaved with SGR sequences; each through the hook AND through Command::about(..).term_width(w).render_help(); non-trivial = output differs from input (at least one break); distinct by canonical request");
    let mut rng = Rng::new(o.seed);
    let mut cases: Vec<(String, usize)> = vec![];
    if let Some(r) = &o.replay {
        let v: serde_json::Value = serde_json::from_str(&std::fs::read_to_string(r).unwrap()).unwrap();
        let case = v["case"].as_str().unwrap_or("").to_string();
        let toks: Vec<&str> = case.split(' ').collect();
        if toks[0] == "wrap" {
            let text = String::from_utf8(unhex(toks[3])).unwrap();
            let w = if toks[1] == "max" { usize::MAX } else { toks[1].parse().unwrap() };
            let out = hook::wrap(&text, w);
            rep.notes.push(format!("text={text:?} width={w} impl={out:?}"));
            let model = driver_batch(&o.driver, &[case.clone()], 1);
            rep.notes.push(format!("model={:?}", model.first().map(|m| String::from_utf8_lossy(&unhex(m)).to_string())));
            let mut f = vec![]; oracle_plain(&text, w, &out, &mut f);
            for (c, d) in f { rep.oracle_fail(&c, &case, &d); }
        }
        return rep;
    }
    // exhaustive small scope
    let maxlen = if o.thorough() { 7 } else { 6 };
    let alpha: Vec<char> = vec!['a', 'b', ' ', '\n', '界', '\u{200B}'];
    for l in 0..=maxlen {
        let k = alpha.len();
        for mut n in 0..k.pow(l as u32) {
            let mut s = String::new();
            for _ in 0..l { s.push(alpha[n % k]); n /= k; }
            for w in [0usize, 1, 2, 3, 4, 5, 7, 9] { if l <= 5 || w <= 4 { cases.push((s.clone(), w)); } }
        }
    }
    rep.exhaustive = true;
    rep.count_n("exhaustive_cases", cases.len() as u64);
    let nrand = if o.thorough() { 300_000 } else { 40_000 };
    for i in 0..nrand {
        let t = gen_text(&mut rng, i % 4 == 0);
        let w = match rng.below(10) { 0 => usize::MAX, 1 => rng.below(4), _ => rng.below(80) };
        cases.push((t, w));
    }
    let _ = (ALPHA, ALPHA_WS);
    let mut reqs = vec![];
    let mut impls = vec![];
    for (text, w) in &cases {
        let req = format!("wrap {} {} {}", hard_s(*w), width_table(text), hex(text.as_bytes()));
        let (t2, w2) = (text.clone(), *w);
        let out = catch_unwind(move || hook::wrap(&t2, w2));
        let out = match out { Ok(s) => s, Err(_) => { rep.oracle_fail("wrap-panic", &req, "panicked"); reqs.push(req); impls.push("PANIC".into()); continue; } };
        let mut f = vec![];
        oracle_plain(text, *w, &out, &mut f);
        for (c, d) in f { rep.oracle_fail(&c, &req, &d); }
        rep.case(&req, out != *text);
        if out != *text { rep.count("plain_with_breaks"); } else { rep.count("plain_unchanged"); }
        reqs.push(req);
        impls.push(hex(out.as_bytes()));
    }
    // display_width on its own (control sequences, wide / zero width)
    for i in 0..(if o.thorough() { 60_000 } else { 10_000 }) {
        let mut s = gen_text(&mut rng, i % 3 == 0);
        if rng.chance(1, 2) { let p = rng.below(s.chars().count() + 1); let bi = s.char_indices().nth(p).map(|x| x.0).unwrap_or(s.len()); s.insert_str(bi, *rng.pick(&["\x1b[1m", "\x1b[0m", "\x1b[38;5;12m", "\x07", "\x1b[", "m"])); }
        let req = format!("dwidth {} {}", width_table(&s), hex(s.as_bytes()));
        rep.case(&req, s.contains('\x1b'));
        rep.count("display_width");
        impls.push(hook::display_width(&s).to_string());
        reqs.push(req);
    }
    // styled wrap
    const SGR: &[&str] = &["\x1b[1m", "\x1b[0m", "\x1b[4m", "\x1b[38;5;12m", "\x1b[1;31m"];
    for _ in 0..(if o.thorough() { 150_000 } else { 25_000 }) {
        let nseg = 1 + rng.below(5);
        let no_esc = rng.chance(1, 5);
        let mut segs: Vec<(bool, String)> = vec![];
        for _ in 0..nseg {
            if !no_esc && (rng.chance(1, 2) && segs.last().map(|s| !s.0).unwrap_or(true) == true && !segs.is_empty() || (segs.is_empty() && rng.chance(1, 3))) {
                segs.push((true, rng.pick(SGR).to_string()));
            } else {
                let mut t = gen_text(&mut rng, false);
                t.retain(|c| c != '\u{200B}' || true);
                if t.is_empty() { t.push('a'); }
                if segs.last().map(|s| !s.0).unwrap_or(false) { segs.last_mut().unwrap().1.push_str(&t); } else { segs.push((false, t)); }
            }
        }
        let full: String = segs.iter().map(|s| s.1.as_str()).collect();
        let w = match rng.below(10) { 0 => usize::MAX, _ => rng.below(60) };
        let req = format!("swrap {} {} {}", hard_s(w), width_table(&full),
            segs.iter().map(|(e, s)| format!("{}{}", if *e { "e" } else { "t" }, hex(s.as_bytes()))).collect::<Vec<_>>().join(" "));
        let f2 = full.clone();
        let out = catch_unwind(move || hook::styled_wrap(&f2, w));
        let out = match out { Ok(s) => s, Err(_) => { rep.oracle_fail("styled-wrap-panic", &req, "panicked"); reqs.push(req); impls.push("PANIC".into()); continue; } };
        // oracle: escape sequences intact and in order; visible non-whitespace content unchanged
        let escs = |s: &str| -> Vec<String> { let mut v = vec![]; let mut cur: Option<String> = None; for c in s.chars() { if c == '\x1b' { cur = Some(String::from(c)); } else if let Some(mut e) = cur.take() { e.push(c); if c == 'm' { v.push(e); } else { cur = Some(e); } } } v };
        let in_e = escs(&full); let out_e = escs(&out);
        if in_e != out_e { rep.oracle_fail("styled-escapes-changed", &req, &format!("out={out:?}")); }
        let vis = |s: &str| -> String { let mut r = String::new(); let mut inesc = false; for c in s.chars() { if c == '\x1b' { inesc = true; } else if inesc { if c == 'm' { inesc = false; } } else if !is_ws(c) { r.push(c); } } r };
        if vis(&full) != vis(&out) { rep.oracle_fail("styled-visible-content-changed", &req, &format!("out={out:?}")); }
        if !full.contains('\x1b') {
            // styled text without any styling wraps exactly like plain text (then the final trim_end)
            let plain = hook::wrap(&full, w);
            if out != plain.trim_end() { rep.oracle_fail("unstyled-styledstr-differs-from-plain-wrap", &req, &format!("styled={out:?} plain={plain:?}")); }
            let mut f = vec![];
            oracle_plain(&full, w, &plain, &mut f);
            for (c, d) in f { rep.oracle_fail(&c, &req, &d); }
            rep.count("styled_without_escapes");
        }
        rep.case(&req, out != full);
        rep.count("styled");
        reqs.push(req);
        impls.push(hex(out.as_bytes()));
    }
    // styled text as it is written in practice: a style opens right before a word (or at the start of a line, before
    // its indent) and closes right after one; never inside a run of spaces. The visible text of the result must be a
    // rendering of the visible text of the input - line breaks only in place of inter-word spaces, followed by THAT
    // line's leading indent - exactly as for plain text (widths are not claimed for styled text: the first word of a
    // styled piece is never moved to a new line)
    for _ in 0..(if o.thorough() { 60_000 } else { 12_000 }) {
        let mut full = String::new();
        let nlines = 1 + rng.below(4);
        for li in 0..nlines {
            if rng.chance(1, 3) { full.push_str(*rng.pick(SGR)); }
            for _ in 0..(if rng.chance(1, 2) { rng.below(5) } else { 0 }) { full.push(' '); }
            let nwords = 1 + rng.below(7);
            for wi in 0..nwords {
                let word: String = (0..1 + rng.below(6)).map(|_| *rng.pick(&['a', 'b', 'x', 'é', '界', 'm'])).collect();
                match rng.below(5) {
                    0 => { full.push_str(*rng.pick(SGR)); full.push_str(&word); full.push_str("\x1b[0m"); }
                    1 if word.chars().count() > 1 => { let cut = word.char_indices().nth(1).unwrap().0; full.push_str(&word[..cut]); full.push_str(*rng.pick(SGR)); full.push_str(&word[cut..]); }
                    2 => { full.push_str(*rng.pick(SGR)); full.push_str(&word); }
                    _ => full.push_str(&word),
                }
                if wi + 1 < nwords { for _ in 0..1 + rng.below(3) { full.push(' '); } }
            }
            if li + 1 < nlines || rng.chance(1, 4) { if rng.chance(1, 3) { full.push_str("\x1b[0m"); } full.push('\n'); }
        }
        let w = match rng.below(12) { 0 => usize::MAX, _ => rng.below(40) };
        let f2 = full.clone();
        let req = format!("swrap-words {} {}", hard_s(w), hex(full.as_bytes()));
        let out = match catch_unwind(move || hook::styled_wrap(&f2, w)) { Ok(s) => s, Err(_) => { rep.oracle_fail("styled-wrap-panic", &req, "panicked"); continue; } };
        let visible = |s: &str| -> String { let mut r = String::new(); let mut inesc = false; for c in s.chars() { if c == '\x1b' { inesc = true; } else if inesc { if c == 'm' { inesc = false; } } else { r.push(c); } } r };
        let (vin, vout) = (visible(&full), visible(&out));
        let (ok, pos) = is_rendering(vin.trim_end(), vout.trim_end());
        if !ok { rep.oracle_fail("styled-visible-text-not-a-rendering-of-the-input", &req, &format!("input={full:?} width={w} out={out:?} visible_in={vin:?} visible_out={vout:?} (mismatch at byte {pos})")); }
        rep.case(&req, out != full);
        rep.count("styled_wordwise");
    }
    // public route: the same text as `about`, rendered by the real help machinery
    let mut pub_checked = 0u64;
    for (text, w) in cases.iter().filter(|(t, w)| *w >= 10 && *w < 1000 && !t.is_empty()).take(if o.thorough() { 20_000 } else { 3_000 }) {
        let t2: String = text.clone();
        let w2 = *w;
        let r = catch_unwind(move || {
            let mut cmd = clap::Command::new("p").about(t2).term_width(w2).disable_help_flag(true).help_template("{about}");
            cmd.render_help().to_string()
        });
        match r {
            Err(_) => rep.oracle_fail("render_help-panic", &format!("about {} width {}", hex(text.as_bytes()), w), "panicked"),
            Ok(h) => {
                pub_checked += 1;
                if strip(&h) != strip(text) { rep.oracle_fail("public-route-content-changed", &format!("about {} width {}", hex(text.as_bytes()), w), &format!("help={h:?}")); }
            }
        }
    }
    rep.count_n("public_route_render_help", pub_checked);
    if o.driver != "none" {
        let model = driver_batch(&o.driver, &reqs, o.par);
        for ((req, m), i) in reqs.iter().zip(model.iter()).zip(impls.iter()) {
            if m != i { rep.disagree("c20", req, m, i); }
        }
    }
    rep
}
