//! C03 — a successful parse satisfies every declared relation between arguments.
//! Oracle: the declared relations are read from the command *specification* (not from clap) and
//! evaluated on the real `ArgMatches` of every level.
use crate::pcorr;
use crate::spec::*;
use crate::util::*;
use clap::parser::ValueSource;
use clap::ArgMatches;

/// the args a level's parser knows: its own plus the globals of its ancestors (unless shadowed)
fn effective_args(chain: &[&CmdS]) -> Vec<(ArgS, bool)> {
    let me = chain.last().unwrap();
    let mut v: Vec<(ArgS, bool)> = me.args.iter().map(|a| (a.clone(), false)).collect();
    for anc in chain[..chain.len() - 1].iter().rev() {
        for a in anc.args.iter().filter(|a| a.global) {
            if !v.iter().any(|(x, _)| x.id == a.id) { v.push((a.clone(), true)); }
        }
    }
    v
}

fn explicit(m: &ArgMatches, id: &str) -> bool {
    matches!(m.try_get_raw(id), Ok(Some(_))) && matches!(m.value_source(id), Some(ValueSource::CommandLine) | Some(ValueSource::EnvVariable))
}
fn has_value(m: &ArgMatches, id: &str, v: &str, ignore_case: bool) -> bool {
    explicit(m, id) && m.get_raw(id).map(|mut it| it.any(|x| if ignore_case { x.to_string_lossy().eq_ignore_ascii_case(v) } else { x.to_str() == Some(v) })).unwrap_or(false)
}

fn check_level(chain: &[&CmdS], m: &ArgMatches, has_sub: bool, req: &str, rep: &mut Report) {
    let me = *chain.last().unwrap();
    let args = effective_args(chain);
    let find = |id: &str| args.iter().find(|(a, _)| a.id == id);
    // groups of this level, including the ones created implicitly by Arg::group
    let mut groups: Vec<GroupS> = me.groups.clone();
    for (a, _) in &args { for g in &a.groups { if let Some(x) = groups.iter_mut().find(|x| &x.id == g) { if !x.args.contains(&a.id) { x.args.push(a.id.clone()); } } else { groups.push(GroupS { id: g.clone(), args: vec![a.id.clone()], ..Default::default() }); } } }
    let group_present = |g: &GroupS| g.args.iter().any(|a| explicit(m, a));
    let present = |id: &str| -> bool { if find(id).is_some() { explicit(m, id) } else { groups.iter().find(|g| g.id == id).map(|g| group_present(g)).unwrap_or(false) } };
    let present_args: Vec<&(ArgS, bool)> = args.iter().filter(|(a, _)| explicit(m, &a.id)).collect();
    let groups_of = |id: &str| -> Vec<&GroupS> { groups.iter().filter(|g| g.args.iter().any(|a| a == id)).collect() };
    // declared direct conflicts of an arg (as ids of args or groups)
    let direct = |a: &ArgS| -> Vec<String> {
        let mut v = a.blacklist.clone();
        for g in groups_of(&a.id) { v.extend(g.conflicts.iter().cloned()); if !g.multiple { v.extend(g.args.iter().filter(|x| **x != a.id).cloned()); } }
        v.extend(a.overrides.iter().filter(|o| **o != a.id).cloned());
        v
    };
    // a global arg can hold a value supplied at another level (above: inherited definition; below: propagated up)
    let other_level = |x: &(ArgS, bool)| x.1 || (x.0.global && has_sub);
    let across = |x: &(ArgS, bool), y: &(ArgS, bool)| other_level(x) || other_level(y);
    // 1. conflicts (arg vs arg, arg vs present group), 3. non-multiple groups are part of `direct`
    for x in &present_args {
        for c in direct(&x.0) {
            if c == x.0.id { continue; }
            if let Some(y) = find(&c) {
                if explicit(m, &c) {
                    let class = if across(x, y) { "conflict-present-together:global-arg-from-another-level" } else { "conflict-present-together" };
                    rep.oracle_fail(class, req, &format!("level {}: `{}` and `{}` are declared to conflict and both explicitly present", me.name, x.0.id, c));
                }
            } else if let Some(g) = groups.iter().find(|g| g.id == c) {
                // a group the arg itself belongs to does not conflict with the arg through its own membership
                let others_present = g.args.iter().any(|a| *a != x.0.id && explicit(m, a));
                if others_present {
                    let inv_global = other_level(x) || g.args.iter().any(|a| find(a).map(|f| other_level(f)).unwrap_or(false));
                    rep.oracle_fail(if inv_global { "conflict-present-together:global-arg-from-another-level" } else { "conflict-with-group-present-together" }, req, &format!("level {}: `{}` conflicts with group `{}` which has a present member", me.name, x.0.id, c));
                }
            }
        }
    }
    // 2. exclusive alone
    let exclusive_present = present_args.iter().any(|(a, _)| a.exclusive);
    if exclusive_present && present_args.len() > 1 {
        let inv_global = present_args.iter().any(|x| other_level(x));
        rep.oracle_fail(if inv_global { "exclusive-not-alone:global-arg-from-another-level" } else { "exclusive-not-alone" }, req, &format!("level {}: present={:?}", me.name, present_args.iter().map(|(a, _)| a.id.clone()).collect::<Vec<_>>()));
    }
    // 4. requirements
    let negated = has_sub && (me.settings.subcommand_negates_reqs || me.settings.args_conflicts_with_subcommands);
    if negated || exclusive_present { return; }
    // a group entry that is still in the matches although none of its members is (the member was overridden away):
    // clap's validator treats the group as present (KNOWN_FINDINGS F22)
    let stale_groups: Vec<&GroupS> = groups.iter().filter(|g| explicit(m, &g.id) && !group_present(g)).collect();
    let exempt_by_stale_group = |id: &str| -> bool {
        let mut mine: Vec<String> = vec![id.to_string()];
        mine.extend(groups_of(id).iter().map(|g| g.id.clone()));
        let my_conf: Vec<String> = find(id).map(|(a, _)| direct(a)).unwrap_or_default().into_iter().chain(groups.iter().filter(|g| g.id == id).flat_map(|g| g.conflicts.clone())).chain(groups_of(id).iter().flat_map(|g| g.conflicts.clone())).collect();
        stale_groups.iter().any(|g| my_conf.contains(&g.id) || g.conflicts.iter().any(|c| mine.contains(c)))
    };
    let exempt = |id: &str| -> bool {
        // a present arg/group that conflicts with `id` or with one of its groups (either direction)
        let mut mine: Vec<String> = vec![id.to_string()];
        mine.extend(groups_of(id).iter().map(|g| g.id.clone()));
        let my_conf: Vec<String> = find(id).map(|(a, _)| direct(a)).unwrap_or_default().into_iter().chain(groups.iter().filter(|g| g.id == id).flat_map(|g| g.conflicts.clone())).chain(groups_of(id).iter().flat_map(|g| g.conflicts.clone())).collect();
        for p in &present_args { if my_conf.contains(&p.0.id) { return true; } if direct(&p.0).iter().any(|c| mine.contains(c)) { return true; } }
        for g in groups.iter().filter(|g| group_present(g)) { if my_conf.contains(&g.id) || g.conflicts.iter().any(|c| mine.contains(c)) { return true; } }
        false
    };
    // `via`: the condition that makes `id` required rests on a global arg whose value was supplied at another level
    let mut need = |id: &str, why: String, via: bool, rep: &mut Report| {
        if !present(id) && !exempt(id) {
            let inv_global = via || find(id).map(|f| other_level(f)).unwrap_or(false);
            let class = if inv_global { "required-missing:global-arg-from-another-level" } else if exempt_by_stale_group(id) { "required-missing:excused-by-the-stale-group-entry-of-an-overridden-arg" } else { "required-missing" };
            rep.oracle_fail(class, req, &format!("level {}: `{}` is required ({}) but not explicitly present", me.name, id, why));
        }
    };
    for (a, _) in &args { if a.required { need(&a.id, "required(true)".into(), false, rep); } }
    // a required group is also excused when a present arg conflicts with (or overrides) one of its members:
    // the override removes the member but the group's own matcher entry stays (observed, see DESIGN.md)
    for g in &groups { if g.required && !group_present(g) && !exempt(&g.id) && !g.args.iter().any(|a| exempt(a)) { rep.oracle_fail("required-group-missing", req, &format!("level {}: group `{}`", me.name, g.id)); } }
    for pa in &present_args {
        let a = &pa.0;
        for (p, target) in &a.requires {
            let holds = match p { PredS::Present => true, PredS::Equals(v) => has_value(m, &a.id, v, a.ignore_case) };
            if holds { need(target, format!("required by `{}`", a.id), other_level(pa), rep); }
        }
    }
    for g in groups.iter().filter(|g| group_present(g)) {
        let via = g.args.iter().any(|a| explicit(m, a) && find(a).map(|f| other_level(f)).unwrap_or(false));
        for t in &g.requires { need(t, format!("required by group `{}`", g.id), via, rep); } }
    for (a, _) in &args {
        if explicit(m, &a.id) { continue; }
        let ic = |o: &str| find(o).map(|(x, _)| x.ignore_case).unwrap_or(false);
        let ol = |o: &str| find(o).map(|f| other_level(f)).unwrap_or(false);
        if a.r_ifs.iter().any(|(o, v)| has_value(m, o, v, ic(o))) { need(&a.id, "required_if_eq".into(), a.r_ifs.iter().any(|(o, v)| has_value(m, o, v, ic(o)) && ol(o)), rep); }
        if !a.r_ifs_all.is_empty() && a.r_ifs_all.iter().all(|(o, v)| has_value(m, o, v, ic(o))) { need(&a.id, "required_if_eq_all".into(), a.r_ifs_all.iter().any(|(o, _)| ol(o)), rep); }
        if !a.r_unless.is_empty() || !a.r_unless_all.is_empty() {
            let fails = (a.r_unless_all.is_empty() || !a.r_unless_all.iter().all(|o| present(o))) && !a.r_unless.iter().any(|o| present(o));
            if fails { need(&a.id, "required_unless_present".into(), false, rep); }
        }
    }
}

pub fn oracle(case: &pcorr::Case<'_>, rep: &mut Report) {
    if case.cmd.settings.ignore_errors { return; }
    let Some(m) = case.matches else { return };
    let mut chain: Vec<&CmdS> = vec![case.cmd];
    let mut cur = m;
    loop {
        let sub = cur.subcommand();
        // an inherited ignore_errors makes deeper levels partial too
        if chain.iter().any(|c| c.settings.ignore_errors) { return; }
        check_level(&chain, cur, sub.is_some(), case.req, rep);
        match sub {
            Some((name, sm)) => {
                let me = *chain.last().unwrap();
                match me.subs.iter().find(|s| s.name == name) { Some(sc) => { chain.push(sc); cur = sm; } None => break }
            }
            None => break,
        }
    }
}

pub fn run(o: &Opts) -> Report {
    let mut rep = Report::new("C03", "random valid command trees with dense relation graphs (conflicts_with, overrides_with, requires/requires_if incl. cycles, exclusive, required, required_if_eq(_all), required_unless_present(_any/_all), groups required/multiple/conflicts/requires, globals, defaults/env, subcommand_negates_reqs) x argv rendered from random presence sets; model vs real on Ok/kind/matches; oracle: relations read from the specification evaluated on the real ArgMatches at every level; non-trivial = successful parse with >= 2 explicit args; distinct by canonical request");
    let cfg = GenCfg { relations: true, defaults: true, subs: true, exotic: false, groups: true, flagsubs: false, settings: true, globals: true };
    let (n_cmds, n_argv) = if o.thorough() { (12000, 30) } else { (2500, 24) };
    pcorr::run(&mut rep, o, cfg, n_cmds, n_argv, 6, 0xC03, |_, _| vec![], |case, rep| oracle(case, rep));
    // witnesses of the known findings F2a / F2b (always replayed)
    let g = ArgS { id: "g".into(), long: Some("g".into()), action: Some("setTrue"), global: true, ..Default::default() };
    let x = ArgS { id: "x".into(), long: Some("x".into()), action: Some("setTrue"), blacklist: vec!["g".into()], ..Default::default() };
    let only = ArgS { id: "only".into(), long: Some("only".into()), action: Some("setTrue"), exclusive: true, ..Default::default() };
    let mk = |sub_arg: ArgS| CmdS { name: "prog".into(), args: vec![g.clone()], subs: vec![CmdS { name: "sub".into(), args: vec![sub_arg], ..Default::default() }], ..Default::default() };
    let av = |v: &[&str]| v.iter().map(|s| s.as_bytes().to_vec()).collect::<Vec<_>>();
    pcorr::run_fixed(&mut rep, o, &[(mk(x.clone()), av(&["prog", "--g", "sub", "--x"])), (mk(only.clone()), av(&["prog", "--g", "sub", "--only"])),
        // the same relations at one level must be rejected
        (mk(x), av(&["prog", "sub", "--g", "--x"])), (mk(only), av(&["prog", "sub", "--g", "--only"]))], |case, rep| oracle(case, rep));
    rep
}
