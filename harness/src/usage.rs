//! The usage line (`clap_builder/src/output/usage.rs`) against the Lean model `ClapModel/Usage.lean`:
//! `render_usage()` of the built root and of each of its subcommands (whose `usage_name` the model derives from the
//! parent's required arguments, `_build_bin_names`), byte for byte.
use crate::spec::*;
use crate::util::*;
use clap::Command;

#[derive(Clone, Debug, Default)]
pub struct UX { pub val_names: Vec<(String, Vec<String>)>, pub hidden_subs: Vec<String>, pub override_usage: Option<String>, pub sub_value_name: Option<String> }

fn takes_values(a: &ArgS) -> bool {
    !matches!(a.action, Some("setTrue") | Some("setFalse") | Some("count") | Some("help") | Some("version")) && a.num_vals != Some((0, Some(0)))
}

pub fn gen_ux(rng: &mut Rng, cmd: &CmdS) -> UX {
    let mut ux = UX::default();
    for a in &cmd.args {
        if !takes_values(a) { continue; }
        match rng.below(5) {
            0 | 1 => ux.val_names.push((a.id.clone(), vec![format!("VN{}", a.id.to_uppercase())])),
            2 if a.num_vals == Some((2, Some(2))) => ux.val_names.push((a.id.clone(), vec![format!("{}A", a.id.to_uppercase()), format!("{}B", a.id.to_uppercase())])),
            _ => {}
        }
    }
    for s in &cmd.subs { if rng.chance(1, 4) { ux.hidden_subs.push(s.name.clone()); } }
    if rng.chance(1, 12) { ux.override_usage = Some("prog [whatever] <I> say".into()); }
    if rng.chance(1, 4) { ux.sub_value_name = Some("THING".into()); }
    ux
}

/// more of what the usage line looks at than the parser generator produces
pub fn usage_bias(rng: &mut Rng, c: &mut CmdS) {
    let n = c.args.len();
    let mut prev_pos_required = true;
    for (i, a) in c.args.iter_mut().enumerate() {
        let positional = a.short.is_none() && a.long.is_none();
        if rng.chance(1, 5) { a.hide = true; }
        if !a.global && a.r_ifs.is_empty() && a.r_ifs_all.is_empty() && a.r_unless.is_empty() && a.r_unless_all.is_empty() {
            if positional { if prev_pos_required && rng.chance(1, 2) { a.required = true; } } else if rng.chance(1, 4) { a.required = true; }
        }
        if positional { prev_pos_required = a.required; if i + 1 == n && rng.chance(1, 4) { a.last = true; a.trailing_var_arg = false; } }
    }
    for g in c.groups.iter_mut() { if rng.chance(1, 3) { g.required = true; } }
    // explicit indices declared OUT OF ORDER: the first two positionals keep their indices but swap their places in the
    // definition (`dest.index(2)` before `src.index(1)`)
    let pos: Vec<usize> = c.args.iter().enumerate().filter(|(_, a)| a.short.is_none() && a.long.is_none()).map(|(i, _)| i).collect();
    if pos.len() >= 2 && rng.chance(1, 4) {
        for (rank, &i) in pos.iter().enumerate() { c.args[i].index = Some(rank + 1); }
        c.args.swap(pos[0], pos[1]);
    }
    for s in c.subs.iter_mut() { usage_bias(rng, s); }
}

pub fn apply(mut c: Command, ux: &UX) -> Command {
    for s in &ux.hidden_subs { c = c.mut_subcommand(s, |sc| sc.hide(true)); }
    if let Some(u) = &ux.override_usage { c = c.override_usage(u.clone()); }
    if let Some(v) = &ux.sub_value_name { c = c.subcommand_value_name(v.clone()); }
    c
}

fn enc_ui(usage_name: &str, ux: &UX, inherited: &[(String, Vec<String>)]) -> String {
    let h = |s: &str| hex(s.as_bytes());
    let mut t = vec!["UI".to_string(), h(usage_name), ux.override_usage.as_deref().map(h).unwrap_or("~".into()), ux.sub_value_name.as_deref().map(h).unwrap_or("~".into())];
    t.push(ux.hidden_subs.len().to_string());
    for s in &ux.hidden_subs { t.push(h(s)); }
    let all: Vec<&(String, Vec<String>)> = ux.val_names.iter().chain(inherited.iter().filter(|p| !ux.val_names.iter().any(|q| q.0 == p.0))).collect();
    t.push(all.len().to_string());
    for (id, ns) in all { t.push(h(id)); t.push(ns.len().to_string()); for n in ns { t.push(h(n)); } }
    t.join(" ")
}

/// the extras of a whole tree: one `UX` per level, the level's `flatten_help`, and the same for its subcommands
#[derive(Clone, Debug, Default)]
pub struct UXT { pub ux: UX, pub flatten: bool, pub subs: Vec<UXT> }

fn gen_uxt(rng: &mut Rng, cmd: &CmdS, depth: usize) -> UXT {
    let mut ux = gen_ux(rng, cmd);
    if depth > 0 && rng.chance(1, 2) { ux.override_usage = None; }
    UXT { ux, flatten: !cmd.subs.is_empty() && rng.chance(1, if depth == 0 { 3 } else { 6 }), subs: cmd.subs.iter().map(|s| gen_uxt(rng, s, depth + 1)).collect() }
}
/// value names are part of the definition (`mut_arg` afterwards would move the arg to the end of the arg list)
fn set_val_names(cmd: &mut CmdS, t: &UXT) {
    for (id, names) in &t.ux.val_names { if let Some(a) = cmd.args.iter_mut().find(|a| &a.id == id) { a.val_names = names.clone(); } }
    for (s, st) in cmd.subs.iter_mut().zip(t.subs.iter()) { set_val_names(s, st); }
}
fn apply_tree(c: Command, spec: &CmdS, t: &UXT) -> Command {
    let mut c = apply(c, &t.ux);
    if t.flatten { c = c.flatten_help(true); }
    for (s, st) in spec.subs.iter().zip(t.subs.iter()) { let (s2, st2) = (s.clone(), st.clone()); c = c.mut_subcommand(&s.name, move |sc| apply_tree(sc, &s2, &st2)); }
    c
}
fn enc_tree(spec: &CmdS, t: &UXT, usage_name: &str, inherited: &[(String, Vec<String>)]) -> String {
    let mut inh: Vec<(String, Vec<String>)> = inherited.to_vec();
    for (id, ns) in &t.ux.val_names { if spec.args.iter().any(|a| &a.id == id && a.global) { inh.retain(|p| &p.0 != id); inh.push((id.clone(), ns.clone())); } }
    let mut out = format!("UT {} {} {}", enc_ui(usage_name, &t.ux, inherited), b01(t.flatten), t.subs.len());
    for (s, st) in spec.subs.iter().zip(t.subs.iter()) { out.push(' '); out.push_str(&enc_tree(s, st, "", &inh)); }
    out
}

pub fn run(rep: &mut Report, o: &Opts) {
    let mut rng = Rng::new(o.seed ^ 0x05A6E);
    let cfg = GenCfg { relations: true, defaults: false, subs: true, exotic: true, groups: true, flagsubs: true, settings: true, globals: true };
    let n_cmds = if o.thorough() { 12000 } else { 1500 };
    let mut reqs: Vec<String> = vec![]; let mut reals: Vec<String> = vec![]; let mut readable: Vec<String> = vec![];
    let mut tried = 0;
    while reqs.len() < n_cmds && tried < n_cmds * 30 {
        tried += 1;
        let mut cmd = gen_cmd(&mut rng, &cfg, 0, "prog");
        usage_bias(&mut rng, &mut cmd);
        let t = gen_uxt(&mut rng, &cmd, 0);
        set_val_names(&mut cmd, &t);
        let key = format!("usage {}", cmd.encode());
        let _guard = RealCall::new(&key);
        let mut envs = vec![];
        let r = std::panic::catch_unwind(std::panic::AssertUnwindSafe(|| { let mut c = apply_tree(cmd.build(&mut envs), &cmd, &t); c.build(); c }));
        for e in envs { std::env::remove_var(e); }
        let Ok(mut c) = r else { rep.count("usage:invalid_definition(skipped)"); continue; };
        let r = std::panic::catch_unwind(std::panic::AssertUnwindSafe(|| {
            let mut out = format!("U {}", hex(c.render_usage().to_string().as_bytes()));
            for s in &cmd.subs { out.push_str(&format!(" S {}", hex(c.find_subcommand_mut(&s.name).unwrap().render_usage().to_string().as_bytes()))); }
            out
        }));
        let real = match r { Ok(x) => x, Err(_) => { rep.oracle_fail("help-render-panics", &key, "render_usage panicked"); "PANIC".to_string() } };
        // oracle on the real line: no flag of a HIDDEN, OPTIONAL option of the root (not required, not the target of any
        // `requires`) occurs in the root's usage line (no flatten_help, no override_usage)
        if !t.flatten && t.ux.override_usage.is_none() && real != "PANIC" {
            let line = String::from_utf8_lossy(&unhex(real.split(' ').nth(1).unwrap_or("-"))).to_string();
            let first = line.lines().next().unwrap_or("").to_string();
            for a in cmd.args.iter().filter(|a| a.hide && !a.required && (a.long.is_some() || a.short.is_some())) {
                let targeted = cmd.args.iter().any(|b| b.requires.iter().any(|(_, tid)| tid == &a.id)) || cmd.groups.iter().any(|g| g.requires.contains(&a.id));
                if targeted { continue; }
                let toks: Vec<String> = a.long.iter().map(|l| format!("--{l}")).chain(a.short.iter().map(|c| format!("-{c}"))).collect();
                for tok in toks {
                    if crate::c12::has_token(&first, &tok) {
                        let in_group = cmd.groups.iter().any(|g| g.args.contains(&a.id)) || !a.groups.is_empty();
                        rep.oracle_fail(if in_group { "hidden-item-shown:usage-line:member-of-a-displayed-group" } else { "hidden-item-shown" }, &key, &format!("{tok:?} of the hidden optional arg {} appears in {first:?}", a.id));
                    }
                }
            }
        }
        // a hidden subcommand is named nowhere in the root's usage, flattened or not
        if t.ux.override_usage.is_none() && real != "PANIC" {
            let whole = String::from_utf8_lossy(&unhex(real.split(' ').nth(1).unwrap_or("-"))).to_string();
            for h in &t.ux.hidden_subs {
                if crate::c12::has_token(&whole, h) { rep.oracle_fail("hidden-item-shown", &key, &format!("hidden subcommand {h:?} appears in the usage {whole:?}")); }
            }
            if t.flatten { rep.count("usage:flattened_root_usages_scanned_for_hidden_subcommands"); }
        }
        // ... and every VISIBLE REQUIRED argument of the root is named there (by a flag, its value name or its id)
        if !t.flatten && t.ux.override_usage.is_none() && real != "PANIC" {
            let line = String::from_utf8_lossy(&unhex(real.split(' ').nth(1).unwrap_or("-"))).to_string();
            let first = line.lines().next().unwrap_or("").to_string();
            for a in cmd.args.iter().filter(|a| a.required && !a.hide) {
                let mut toks: Vec<String> = a.long.iter().map(|l| format!("--{l}")).chain(a.short.iter().map(|c| format!("-{c}"))).collect();
                if toks.is_empty() { toks = if a.val_names.is_empty() { vec![a.id.clone()] } else { a.val_names.clone() }; }
                if !toks.iter().any(|tok| crate::c12::has_token(&first, tok)) {
                    rep.oracle_fail("visible-required-arg-not-in-usage-line", &key, &format!("none of {toks:?} (required arg {}) appears in {first:?}", a.id));
                }
            }
        }
        let req = format!("usaget {} {} {}", cmd.depth(), cmd.encode(), enc_tree(&cmd, &t, "prog", &[]));
        rep.count("usage:commands");
        if cmd.args.iter().any(|a| a.required) || cmd.groups.iter().any(|g| g.required) { rep.count("usage:with_required_arg_or_group"); }
        if cmd.args.iter().any(|a| a.hide) { rep.count("usage:with_hidden_arg"); }
        if cmd.args.iter().any(|a| a.last) { rep.count("usage:with_last_positional"); }
        if !cmd.subs.is_empty() { rep.count("usage:with_subcommands"); }
        if t.flatten { rep.count("usage:root_flatten_help"); }
        if t.subs.iter().any(|s| s.flatten) { rep.count("usage:subcommand_flatten_help"); }
        rep.case(&req, cmd.args.iter().any(|a| a.required) || !cmd.subs.is_empty());
        readable.push(format!("{}\nextras={t:?}", cmd.summary(0)));
        reqs.push(req); reals.push(real);
    }
    if o.driver != "none" {
        let model = driver_batch(&o.driver, &reqs, o.par);
        for (idx, ((req, m), real)) in reqs.iter().zip(model.iter()).zip(reals.iter()).enumerate() {
            if m != real {
                let show = |s: &str| s.split(' ').map(|t| if t.len() > 2 && t.chars().all(|c| c.is_ascii_hexdigit()) { String::from_utf8_lossy(&unhex(t)).to_string() } else { t.to_string() }).collect::<Vec<_>>().join(" | ");
                rep.disagree("usage", req, &format!("{m} [{}]", show(m)), &format!("{real} [{}]", show(real)));
                if rep.notes.len() < 12 { rep.notes.push(readable[idx].clone()); }
            }
        }
        rep.count_n("usage_lines_compared_with_model", reqs.len() as u64);
    }
}

/// what a `MissingRequiredArgument` error carries: the required-usage strings (`ContextKind::InvalidArg`) and the
/// "smart" usage line (`ContextKind::Usage`), byte for byte against `Usage.missingRequiredError` of the model
/// (commands without subcommands; the model runs its own parser up to the validator to obtain the matcher)
pub fn run_err(rep: &mut Report, o: &Opts) {
    use clap::error::{ContextKind, ContextValue, ErrorKind};
    let mut rng = Rng::new(o.seed ^ 0x0E44);
    let cfg = GenCfg { relations: true, defaults: true, subs: true, exotic: false, groups: true, flagsubs: false, settings: true, globals: false };
    let n_cmds = if o.thorough() { 6000 } else { 350 };
    let mut reqs: Vec<String> = vec![]; let mut reals: Vec<String> = vec![]; let mut readable: Vec<String> = vec![];
    let mut tried = 0; let mut accepted = 0;
    while accepted < n_cmds && tried < n_cmds * 30 {
        tried += 1;
        let mut cmd = gen_cmd(&mut rng, &cfg, 0, "prog");
        usage_bias(&mut rng, &mut cmd);
        cmd.settings.ignore_errors = false; cmd.settings.infer_subcommands = false;
        // errors of the ROOT level only: lines that name a subcommand are left out
        let sub_words: Vec<Vec<u8>> = cmd.subs.iter().flat_map(|s| std::iter::once(s.name.clone()).chain(s.aliases.iter().cloned())).map(|w| w.into_bytes()).chain(std::iter::once(b"help".to_vec())).collect();
        let mut ux = gen_ux(&mut rng, &cmd); ux.hidden_subs.clear();
        for (id, names) in &ux.val_names { if let Some(a) = cmd.args.iter_mut().find(|a| &a.id == id) { a.val_names = names.clone(); } }
        if !real_valid(&cmd) { rep.count("usageerr:invalid_definition(skipped)"); continue; }
        accepted += 1;
        for _ in 0..6 {
            let argv = gen_argv(&mut rng, &cmd, 4);
            if argv.iter().skip(1).any(|w| sub_words.contains(w)) { rep.count("usageerr:line_names_a_subcommand(skipped)"); continue; }
            let key = format!("usageerr {} ARGV {:?}", cmd.encode(), argv.iter().map(|a| String::from_utf8_lossy(a).to_string()).collect::<Vec<_>>());
            let _guard = RealCall::new(&key);
            let mut envs = vec![];
            let r = std::panic::catch_unwind(std::panic::AssertUnwindSafe(|| {
                let c = apply(cmd.build(&mut envs), &ux);
                c.try_get_matches_from(argv_os(&argv)).err().map(|e| {
                    let strs = match e.get(ContextKind::InvalidArg) { Some(ContextValue::Strings(v)) => v.clone(), Some(ContextValue::String(x)) => vec![x.clone()], _ => vec![] };
                    let usage = match e.get(ContextKind::Usage) { Some(ContextValue::StyledStr(u)) => u.to_string(), _ => String::new() };
                    (e.kind(), strs, usage) })
            }));
            for e in envs { std::env::remove_var(e); }
            let real = match r {
                Err(_) => { rep.oracle_fail("error-render-panics", &key, "building the MissingRequiredArgument error panicked"); continue; }
                Ok(Some((ErrorKind::MissingRequiredArgument, strs, usage))) => {
                    rep.count("usageerr:missing_required_errors");
                    format!("MR {}{} L {}", strs.len(), strs.iter().map(|x| format!(" {}", hex(x.as_bytes()))).collect::<String>(), hex(usage.as_bytes()))
                }
                Ok(_) => { rep.count("usageerr:other_outcome(not compared)"); continue; }
            };
            let req = format!("usageerr {} {} {} ARGV {} {}", cmd.depth(), cmd.encode(), enc_ui("prog", &ux, &[]), argv.len(), argv.iter().map(|a| hex(a)).collect::<Vec<_>>().join(" ")).trim_end().to_string();
            rep.case(&req, argv.len() >= 2);
            readable.push(format!("{}\nargv={:?}", cmd.summary(0), argv.iter().map(|a| String::from_utf8_lossy(a).to_string()).collect::<Vec<_>>()));
            reqs.push(req); reals.push(real);
        }
    }
    if o.driver != "none" {
        let model = driver_batch(&o.driver, &reqs, o.par);
        for (idx, ((req, m), real)) in reqs.iter().zip(model.iter()).zip(reals.iter()).enumerate() {
            if m != real {
                let show = |s: &str| s.split(' ').map(|t| if t.len() > 2 && t.chars().all(|c| c.is_ascii_hexdigit()) { String::from_utf8_lossy(&unhex(t)).to_string() } else { t.to_string() }).collect::<Vec<_>>().join(" | ");
                rep.disagree("usageerr", req, &format!("{m} [{}]", show(m)), &format!("{real} [{}]", show(real)));
                if rep.notes.len() < 12 { rep.notes.push(readable[idx].clone()); }
            }
        }
        rep.count_n("missing_required_errors_compared_with_model", reqs.len() as u64);
    }
}

/// what an `ArgumentConflict` error raised by the VALIDATOR carries: the argument it is about (`InvalidArg`), the
/// arguments it cannot be used with (`PriorArg`, groups unrolled) and the usage line, against `Usage.conflictError`
pub fn run_conflict(rep: &mut Report, o: &Opts) {
    use clap::error::{ContextKind, ContextValue, ErrorKind};
    let mut rng = Rng::new(o.seed ^ 0x0CF1);
    let cfg = GenCfg { relations: true, defaults: true, subs: true, exotic: false, groups: true, flagsubs: false, settings: true, globals: false };
    let n_cmds = if o.thorough() { 6000 } else { 600 };
    let mut reqs: Vec<String> = vec![]; let mut reals: Vec<String> = vec![]; let mut readable: Vec<String> = vec![];
    let mut tried = 0; let mut accepted = 0;
    while accepted < n_cmds && tried < n_cmds * 30 {
        tried += 1;
        let mut cmd = gen_cmd(&mut rng, &cfg, 0, "prog");
        // more conflicts than the parser generator declares
        let ids: Vec<String> = cmd.args.iter().map(|a| a.id.clone()).collect();
        for a in cmd.args.iter_mut() { if rng.chance(1, 3) && ids.len() > 1 { let o2 = rng.pick(&ids).clone(); if o2 != a.id && !a.blacklist.contains(&o2) { a.blacklist.push(o2); } } if rng.chance(1, 6) { a.hide = true; } }
        cmd.settings.ignore_errors = false; cmd.settings.infer_subcommands = false;
        let sub_words: Vec<Vec<u8>> = cmd.subs.iter().flat_map(|s| std::iter::once(s.name.clone()).chain(s.aliases.iter().cloned())).map(|w| w.into_bytes()).chain(std::iter::once(b"help".to_vec())).collect();
        let mut ux = gen_ux(&mut rng, &cmd); ux.hidden_subs.clear();
        for (id, names) in &ux.val_names { if let Some(a) = cmd.args.iter_mut().find(|a| &a.id == id) { a.val_names = names.clone(); } }
        if !real_valid(&cmd) { rep.count("conflicterr:invalid_definition(skipped)"); continue; }
        accepted += 1;
        for _ in 0..8 {
            let argv = gen_argv(&mut rng, &cmd, 5);
            if argv.iter().skip(1).any(|w| sub_words.contains(w)) { rep.count("conflicterr:line_names_a_subcommand(skipped)"); continue; }
            let key = format!("conflicterr {} ARGV {:?}", cmd.encode(), argv.iter().map(|a| String::from_utf8_lossy(a).to_string()).collect::<Vec<_>>());
            let _guard = RealCall::new(&key);
            let mut envs = vec![];
            let r = std::panic::catch_unwind(std::panic::AssertUnwindSafe(|| {
                let c = apply(cmd.build(&mut envs), &ux);
                c.try_get_matches_from(argv_os(&argv)).err().map(|e| {
                    let ia = match e.get(ContextKind::InvalidArg) { Some(ContextValue::String(x)) => x.clone(), _ => String::new() };
                    let prior = match e.get(ContextKind::PriorArg) { Some(ContextValue::Strings(v)) => v.clone(), Some(ContextValue::String(x)) => vec![x.clone()], _ => vec![] };
                    let usage = match e.get(ContextKind::Usage) { Some(ContextValue::StyledStr(u)) => u.to_string(), _ => String::new() };
                    (e.kind(), ia, prior, usage) })
            }));
            for e in envs { std::env::remove_var(e); }
            let real = match r {
                Err(_) => { rep.oracle_fail("error-render-panics", &key, "building the ArgumentConflict error panicked"); continue; }
                Ok(Some((ErrorKind::ArgumentConflict, ia, prior, usage))) => {
                    rep.count("conflicterr:argument_conflict_errors");
                    format!("CF {} {}{} L {}", hex(ia.as_bytes()), prior.len(), prior.iter().map(|x| format!(" {}", hex(x.as_bytes()))).collect::<String>(), hex(usage.as_bytes()))
                }
                Ok(_) => { rep.count("conflicterr:other_outcome(not compared)"); continue; }
            };
            let req = format!("conflicterr {} {} {} ARGV {} {}", cmd.depth(), cmd.encode(), enc_ui("prog", &ux, &[]), argv.len(), argv.iter().map(|a| hex(a)).collect::<Vec<_>>().join(" ")).trim_end().to_string();
            rep.case(&req, argv.len() >= 3);
            readable.push(format!("{}\nargv={:?}", cmd.summary(0), argv.iter().map(|a| String::from_utf8_lossy(a).to_string()).collect::<Vec<_>>()));
            reqs.push(req); reals.push(real);
        }
    }
    if o.driver != "none" {
        let model = driver_batch(&o.driver, &reqs, o.par);
        let mut compared = 0u64;
        for (idx, ((req, m), real)) in reqs.iter().zip(model.iter()).zip(reals.iter()).enumerate() {
            // the parser's own conflict (a repeated `Set` argument) is not the validator's: not compared here
            if m == "CF-PARSE" { rep.count("conflicterr:raised_by_the_parser(not compared)"); continue; }
            compared += 1;
            if m != real {
                let show = |s: &str| s.split(' ').map(|t| if t.len() > 2 && t.chars().all(|c| c.is_ascii_hexdigit()) { String::from_utf8_lossy(&unhex(t)).to_string() } else { t.to_string() }).collect::<Vec<_>>().join(" | ");
                rep.disagree("conflicterr", req, &format!("{m} [{}]", show(m)), &format!("{real} [{}]", show(real)));
                if rep.notes.len() < 12 { rep.notes.push(readable[idx].clone()); }
            }
        }
        rep.count_n("argument_conflict_errors_compared_with_model", compared);
    }
}
