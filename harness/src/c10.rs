//! C10 — rejections are justified, correctly classified, and carry the CLI exit contract.
use crate::invoc::*;
use crate::spec::*;
use crate::util::*;
use clap::error::{ContextKind, ContextValue, ErrorKind};

fn show(argv: &[Vec<u8>]) -> Vec<String> { argv.iter().map(|a| String::from_utf8_lossy(a).to_string()).collect() }

pub fn run(o: &Opts) -> Report {
    let mut rep = Report::new("C10", "conventional commands extended with a required option, a conflicting pair, a fixed-count option, a ranged-integer option and a possible-values option x fault-free lines (must be accepted) and single-fault mutations of them (drop the required arg, add the conflicting arg, wrong value count, misspelt long flag, unknown token, out-of-language value, --help/--version); oracle: the kind names the injected fault, help/version use stdout+0 and everything else stderr+2, every suggested name exists, the error renders; model must predict Ok/kind; non-trivial = a mutated line; distinct by canonical request");
    let mut rng = Rng::new(o.seed ^ 0xC10);
    let mut reqs = vec![]; let mut impls = vec![];
    let n_cmds = if o.thorough() { 8000 } else { 1200 };
    for _ in 0..n_cmds {
        let mut cv = gen_conventional(&mut rng, false);
        cv.cmd.settings.has_version = rng.chance(1, 2);
        // extras
        let extra = |id: &str, long: &str| ArgS { id: id.into(), long: Some(long.into()), action: Some("set"), ..Default::default() };
        let mut req = extra("req", "required-opt"); req.required = true;
        let mut cx = extra("cx", "with-x"); cx.action = Some("setTrue");
        let mut cy = extra("cy", "with-y"); cy.action = Some("setTrue"); cy.blacklist = vec!["cx".into()];
        let mut two = extra("two", "pair"); two.num_vals = Some((2, Some(2)));
        let mut few = extra("few", "atleast2"); few.num_vals = Some((2, None)); few.action = Some("append");
        // a BOUNDED range: one value is too few, not too many
        let mut r23 = extra("r23", "range23"); r23.num_vals = Some((2, Some(3))); r23.action = Some("append");
        let mut num = extra("num", "number"); num.vp = Some(VpS::I64(Some(-5), Some(10)));
        // possible values with upper-case letters: a suggestion must name one of them exactly
        let pv_names: Vec<(String, Vec<String>)> = if rng.chance(1, 2) { vec![("fast".into(), vec!["f".into()]), ("slow".into(), vec![])] } else { vec![("Fast".into(), vec!["f".into()]), ("SLOW".into(), vec![]), ("Medium-Rare".into(), vec![])] };
        let mut pv = extra("pv", "mode"); pv.vp = Some(VpS::Possible(pv_names.clone()));
        // an option that is required unless a GROUP is present (the group holds `cx`)
        let mut runl = extra("runl", "needs-unless"); runl.r_unless = vec!["ugrp".into()];
        cv.cmd.groups.push(GroupS { id: "ugrp".into(), args: vec!["cx".into()], multiple: true, ..Default::default() });
        for a in [req, cx, cy, two, few, r23, num, pv, runl] { cv.cmd.args.insert(0, a); }
        // indices into cmd.args shifted by 9
        cv.opts = cv.opts.iter().map(|i| i + 9).collect(); cv.flags = cv.flags.iter().map(|i| i + 9).collect(); cv.pos = cv.pos.iter().map(|i| i + 9).collect();
        if !real_valid(&cv.cmd) { rep.count("invalid_definition(skipped)"); continue; }
        let longs: Vec<String> = cv.cmd.args.iter().flat_map(|a| a.long.iter().cloned().chain(a.aliases.iter().cloned())).chain(["help".to_string()]).chain(if cv.cmd.settings.has_version { vec!["version".to_string()] } else { vec![] }).collect();
        for _ in 0..6 {
            let inv = gen_invocation(&mut rng, &cv, false);
            let mut base = render(&mut rng, &cv, &inv, false);
            base.insert(1, b"--required-opt=r".to_vec());
            if rng.chance(1, 2) { base.insert(1, b"--with-x".to_vec()); } else { base.insert(1, b"--needs-unless=u".to_vec()); }
            if rng.chance(1, 3) { base.insert(1, b"--number=7".to_vec()); }
            let first_pv = pv_names[0].0.clone();
            let has_mode = rng.chance(1, 3);
            if has_mode { base.insert(1, format!("--mode={}", if rng.chance(1, 2) { "f".to_string() } else { first_pv.clone() }).into_bytes()); }
            if rng.chance(1, 3) { base.insert(1, b"7".to_vec()); base.insert(1, b"6".to_vec()); base.insert(1, b"--pair".to_vec()); }
            // (line, expected kinds (None = must be accepted), fault name)
            let mut lines: Vec<(Vec<Vec<u8>>, Option<Vec<ErrorKind>>, &str)> = vec![(base.clone(), None, "fault-free")];
            let with = |b: &Vec<Vec<u8>>, extra: &[&str]| { let mut v = b.clone(); let at = 1; for (k, e) in extra.iter().enumerate() { v.insert(at + k, e.as_bytes().to_vec()); } v };
            lines.push((base.iter().filter(|t| !t.starts_with(b"--required-opt")).cloned().collect(), Some(vec![ErrorKind::MissingRequiredArgument]), "drop-required"));
            if base.iter().any(|t| t == b"--with-x") { lines.push((with(&base, &["--with-y"]), Some(vec![ErrorKind::ArgumentConflict]), "add-conflicting")); }
            if !base.iter().any(|t| t == b"--pair") { lines.push((with(&base, &["--pair", "1", "--with-y"]).into_iter().filter(|t| t != b"--with-x").collect(), Some(vec![ErrorKind::WrongNumberOfValues]), "one-value-of-two")); }
            lines.push((with(&base, &["--atleast2", "1", "--with-y"]).into_iter().filter(|t| t != b"--with-x").collect(), Some(vec![ErrorKind::TooFewValues]), "too-few-values"));
            lines.push((with(&base, &["--range23", "1", "--with-y"]).into_iter().filter(|t| t != b"--with-x").collect(), Some(vec![ErrorKind::TooFewValues]), "too-few-values-of-bounded-range"));
            lines.push((with(&base, &["--requirde-opt=z"]), Some(vec![ErrorKind::UnknownArgument]), "misspelt-flag"));
            lines.push((with(&base, &["--number=11"]).into_iter().filter(|t| t != b"--number=7").collect(), Some(vec![ErrorKind::ValueValidation]), "out-of-range"));
            let near = [format!("--mode={}", &first_pv[..first_pv.len() - 1]), "--mode=medium".to_string(), "--mode=slo".to_string(), "--mode=SLO".to_string(), "--mode=Medium-Rar".to_string()];
            lines.push((with(&base, &[rng.pick(&near[..]).as_str()]).into_iter().filter(|t| !(t.starts_with(b"--mode=") && has_mode && (t == &format!("--mode={first_pv}").into_bytes() || t == b"--mode=f"))).collect(), Some(vec![ErrorKind::InvalidValue]), "not-a-possible-value"));
            // neither the group member nor the option itself: the `required_unless_present(<group>)` option is missing
            if base.iter().any(|t| t == b"--needs-unless=u") { lines.push((base.iter().filter(|t| *t != b"--needs-unless=u").cloned().collect(), Some(vec![ErrorKind::MissingRequiredArgument]), "drop-required-unless-group")); }
            lines.push((with(&base, &["--help"]), Some(vec![ErrorKind::DisplayHelp]), "help"));
            lines.push((with(&base, &["--version"]), Some(vec![if cv.cmd.settings.has_version { ErrorKind::DisplayVersion } else { ErrorKind::UnknownArgument }]), "version"));
            lines.push((with(&base, &["--required-opt"]).into_iter().filter(|t| !t.starts_with(b"--required-opt=")).collect(), Some(vec![ErrorKind::InvalidValue, ErrorKind::MissingRequiredArgument, ErrorKind::UnknownArgument, ErrorKind::WrongNumberOfValues, ErrorKind::TooFewValues, ErrorKind::ValueValidation, ErrorKind::ArgumentConflict, ErrorKind::InvalidUtf8]), "value-dropped"));
            for (argv, expected, fault) in lines {
                let (canon, _, err) = real_parse(&cv.cmd, &argv);
                let req = parse_request(&cv.cmd, &argv);
                match (&expected, &err) {
                    (None, Some(e)) => rep.oracle_fail("fault-free-line-rejected", &req, &format!("{:?}: {:?}", e.kind(), show(&argv))),
                    (None, None) if !canon.starts_with("OK") => rep.oracle_fail("panic", &req, &canon),
                    (Some(ks), None) if fault != "value-dropped" => rep.oracle_fail("fault-not-rejected", &req, &format!("{fault}: expected {ks:?}, accepted: {:?}", show(&argv))),
                    (Some(ks), Some(e)) => {
                        if !ks.contains(&e.kind()) { rep.oracle_fail("wrong-error-kind", &req, &format!("{fault}: expected {ks:?}, got {:?}: {:?}", e.kind(), show(&argv))); }
                    }
                    _ => {}
                }
                if let Some(e) = &err {
                    let stdout_kind = matches!(e.kind(), ErrorKind::DisplayHelp | ErrorKind::DisplayVersion);
                    if e.use_stderr() == stdout_kind || e.exit_code() != if stdout_kind { 0 } else { 2 } {
                        rep.oracle_fail("stream-or-exit-code-contract", &req, &format!("{:?}: use_stderr={} exit_code={}", e.kind(), e.use_stderr(), e.exit_code()));
                    }
                    // suggestions name things that exist
                    for (ck, cvl) in e.context() {
                        match (ck, cvl) {
                            (ContextKind::SuggestedArg, ContextValue::String(s)) => { if !longs.iter().any(|l| format!("--{l}") == *s) { rep.oracle_fail("suggestion-names-a-flag-that-does-not-exist", &req, &format!("{s} (longs {longs:?})")); } }
                            (ContextKind::SuggestedValue, ContextValue::String(s)) => {
                                // the value that was refused belongs to `--mode` in these lines
                                if !pv_names.iter().any(|(n, al)| n == s || al.contains(s)) { rep.oracle_fail("suggestion-names-a-value-that-does-not-exist", &req, &format!("{s:?} (possible values {pv_names:?})")); }
                                rep.count("suggested_values");
                            }
                            (ContextKind::ValidValue, ContextValue::Strings(v)) => {
                                if e.kind() == ErrorKind::InvalidValue && !v.is_empty() && !v.iter().all(|x| pv_names.iter().any(|(n, _)| n == x)) { rep.oracle_fail("valid-values-lists-something-else", &req, &format!("{v:?} vs {pv_names:?}")); }
                            }
                            _ => {}
                        }
                    }
                    if std::panic::catch_unwind(std::panic::AssertUnwindSafe(|| e.render().to_string())).is_err() { rep.oracle_fail("error-render-panics", &req, &format!("{:?}", e.kind())); }
                }
                rep.case(&req, fault != "fault-free");
                rep.count(&format!("fault:{fault}"));
                reqs.push(req); impls.push(canon);
            }
        }
    }
    // `arg_required_else_help`: an option given without a value is an argument all the same
    {
        use crate::pcorr::*;
        let mk = || { let mut c = CmdS { name: "prog".into(), ..Default::default() };
            c.settings.arg_required_else_help = true;
            c.args.push(ArgS { id: "color".into(), long: Some("color".into()), action: Some("set"), num_vals: Some((0, Some(1))), ..Default::default() });
            c.args.push(ArgS { id: "include".into(), long: Some("include".into()), short: Some('I'), action: Some("append"), num_vals: Some((0, None)), ..Default::default() });
            c.args.push(ArgS { id: "quiet".into(), short: Some('q'), action: Some("setTrue"), ..Default::default() }); c };
        let cases: Vec<(CmdS, Vec<Vec<u8>>, Expect)> = vec![
            (mk(), bv(&["prog", "--color"]), Box::new(|m| want_source(m, "color", Some(clap::parser::ValueSource::CommandLine)))),
            (mk(), bv(&["prog", "--include"]), Box::new(|m| want_source(m, "include", Some(clap::parser::ValueSource::CommandLine)))),
            (mk(), bv(&["prog", "-I", "--color"]), Box::new(|m| want_source(m, "include", Some(clap::parser::ValueSource::CommandLine)))),
            (mk(), bv(&["prog", "-q"]), Box::new(|m| want_source(m, "quiet", Some(clap::parser::ValueSource::CommandLine)))),
        ];
        run_expect(&mut rep, o, "fault-free-line-rejected", cases);
        // a positional that takes hyphen values: a group that is not entirely made of known shorts is its value - no rule is
        // broken, so nothing may be rejected (and nothing consumed as a flag); an all-known group is still a group of flags
        let mkh = |multi: bool| { let mut c = CmdS { name: "prog".into(), ..Default::default() };
            c.args.push(ArgS { id: "fast".into(), short: Some('f'), action: Some("setTrue"), ..Default::default() });
            c.args.push(ArgS { id: "quiet".into(), short: Some('q'), action: Some("count"), ..Default::default() });
            c.args.push(ArgS { id: "cmd".into(), allow_hyphen: true, num_vals: if multi { Some((1, None)) } else { None }, ..Default::default() }); c };
        let mut hc: Vec<(CmdS, Vec<Vec<u8>>, Expect)> = vec![];
        for multi in [false, true] {
            for w in ["-fx", "-xf", "-fast", "-qfz", "-é"] {
                hc.push((mkh(multi), bv(&["prog", w]), Box::new(move |m| { want_occs(m, &[], "cmd", &[&[w]])?; want_source(m, "fast", Some(clap::parser::ValueSource::DefaultValue)) })));
            }
            hc.push((mkh(multi), bv(&["prog", "-fq", "-fx"]), Box::new(|m| { want_occs(m, &[], "cmd", &[&["-fx"]])?; want_source(m, "fast", Some(clap::parser::ValueSource::CommandLine)) })));
            hc.push((mkh(multi), bv(&["prog", "-qf"]), Box::new(|m| { want_source(m, "fast", Some(clap::parser::ValueSource::CommandLine))?; want_source(m, "cmd", None) })));
        }
        run_expect(&mut rep, o, "fault-free-line-rejected", hc);
        let (canon, _, _) = real_parse(&mk(), &bv(&["prog"]));
        if canon != "ERR DisplayHelpOnMissingArgumentOrSubcommand" { rep.oracle_fail("wrong-error-kind", &parse_request(&mk(), &bv(&["prog"])), &format!("empty command line under arg_required_else_help: {canon}")); }
    }
    // required positionals that are all excused: by a present arg that conflicts with each of them, or by an exclusive one
    for k in 0..(if o.thorough() { 400 } else { 60 }) {
        let npos = 2 + k % 2;
        let mut c = CmdS { name: "prog".into(), ..Default::default() };
        let pos_ids: Vec<String> = (0..npos).map(|i| format!("p{i}")).collect();
        let mut list = ArgS { id: "list".into(), long: Some("list".into()), action: Some("setTrue"), ..Default::default() };
        match k % 3 { 0 => list.blacklist = pos_ids.clone(), 1 => list.exclusive = true, _ => { list.blacklist = pos_ids.clone(); list.short = Some('l'); } }
        c.args.push(list);
        if rng.chance(1, 2) { c.args.push(ArgS { id: "other".into(), long: Some("other".into()), action: Some("set"), ..Default::default() }); }
        for id in &pos_ids { c.args.push(ArgS { id: id.clone(), required: true, ..Default::default() }); }
        if !real_valid(&c) { rep.count("invalid_definition(skipped)"); continue; }
        let t = |v: &[&str]| -> Vec<Vec<u8>> { v.iter().map(|x| x.as_bytes().to_vec()).collect() };
        let all: Vec<&str> = ["prog", "a", "b", "c"][..npos + 1].to_vec();
        let lines: Vec<(Vec<Vec<u8>>, Option<ErrorKind>, &str)> = vec![
            (t(&["prog", "--list"]), None, "all-required-positionals-excused"),
            (t(&all), None, "all-required-positionals-given"),
            (t(&["prog", "a"]), Some(ErrorKind::MissingRequiredArgument), "required-positional-missing"),
            (t(&["prog"]), Some(ErrorKind::MissingRequiredArgument), "required-positional-missing"),
        ];
        for (argv, expected, fault) in lines {
            let (canon, _, err) = real_parse(&c, &argv);
            let req = parse_request(&c, &argv);
            match (&expected, &err) {
                (None, Some(e)) => rep.oracle_fail("fault-free-line-rejected", &req, &format!("{fault}: {:?}: {:?}", e.kind(), show(&argv))),
                (None, None) if !canon.starts_with("OK") => rep.oracle_fail("panic", &req, &canon),
                (Some(k), None) => rep.oracle_fail("fault-not-rejected", &req, &format!("{fault}: expected {k:?}, accepted: {:?}", show(&argv))),
                (Some(k), Some(e)) if *k != e.kind() => rep.oracle_fail("wrong-error-kind", &req, &format!("{fault}: expected {k:?}, got {:?}: {:?}", e.kind(), show(&argv))),
                _ => {}
            }
            rep.case(&req, fault != "all-required-positionals-given");
            rep.count(&format!("fault:{fault}"));
            reqs.push(req); impls.push(canon);
        }
    }
    if o.driver != "none" {
        let model = driver_batch(&o.driver, &reqs, o.par);
        for ((req, m), i) in reqs.iter().zip(model.iter()).zip(impls.iter()) { if m != i { rep.disagree("parse", req, m, i); } }
    }
    {
        use crate::pcorr::*;
        // a value inside the parser's language is not rejected: an ALIAS of a possible value spelt in another case under
        // ignore_case
        let mka = |ic: bool| { let mut c = CmdS { name: "prog".into(), ..Default::default() };
            c.args.push(ArgS { id: "mode".into(), long: Some("mode".into()), action: Some("set"), ignore_case: ic,
                vp: Some(VpS::Possible(vec![("fast".into(), vec!["quick".into(), "Q".into()]), ("slow".into(), vec![])])), ..Default::default() });
            c };
        let mut ok: Vec<(CmdS, Vec<Vec<u8>>, Expect)> = vec![]; let mut bad = vec![];
        for v in ["QUICK", "Quick", "q", "FAST", "quick", "Q"] { ok.push((mka(true), bv(&["prog", "--mode", v]), Box::new(move |m| want_occs(m, &[], "mode", &[&[v]])))); }
        for v in ["quick", "Q", "fast"] { ok.push((mka(false), bv(&["prog", "--mode", v]), Box::new(move |m| want_occs(m, &[], "mode", &[&[v]])))); }
        for v in ["QUICK", "q", "FAST"] { bad.push((mka(false), bv(&["prog", "--mode", v]), clap::error::ErrorKind::InvalidValue)); }
        for v in ["quic", "fastt", ""] { bad.push((mka(true), bv(&["prog", "--mode", v]), clap::error::ErrorKind::InvalidValue)); }
        run_expect(&mut rep, o, "fault-free-line-rejected", ok);
        run_expect_kind(&mut rep, o, "value-outside-the-language-accepted", bad);
        // real crate only: HIDDEN possible values (and their aliases) belong to the language
        {
            use clap::builder::PossibleValue;
            use clap::{Arg, ArgAction, Command};
            let mk = || Command::new("prog").arg(Arg::new("color").long("color").action(ArgAction::Set)
                .value_parser([PossibleValue::new("auto"), PossibleValue::new("tty").hide(true).alias("term"), PossibleValue::new("never")]));
            for (v, accept) in [("auto", true), ("tty", true), ("term", true), ("never", true), ("TTY", false), ("tt", false)] {
                let key = format!("hidden-possible-value argv=[prog, --color, {v}]");
                rep.case(&key, true); rep.count("shape:hidden-possible-value");
                match std::panic::catch_unwind(|| mk().try_get_matches_from(["prog", "--color", v]).map(|m| m.get_one::<String>("color").cloned()).map_err(|e| (e.kind(), e.use_stderr(), e.exit_code()))) {
                    Err(_) => rep.oracle_fail("panic", &key, "panicked"),
                    Ok(Ok(got)) => { if !accept { rep.oracle_fail("value-outside-the-language-accepted", &key, &format!("{got:?}")); } else if got.as_deref() != Some(v) { rep.oracle_fail("fault-free-line-rejected", &key, &format!("stored {got:?}")); } }
                    Ok(Err((k, stderr, code))) => { if accept { rep.oracle_fail("fault-free-line-rejected", &key, &format!("{k:?}")); } else if k != clap::error::ErrorKind::InvalidValue || !stderr || code != 2 { rep.oracle_fail("rejection-misclassified", &key, &format!("{k:?} stderr={stderr} exit={code}")); } }
                }
            }
        }
    }
    crate::pcorr::run_generic(&mut rep, o, 0xC10);
    crate::usage::run_err(&mut rep, o);
    crate::usage::run_conflict(&mut rep, o);
    rep
}
