//! Shared plumbing: PRNG, hex, the Lean driver pool, the report written for bin/check.
use std::collections::{BTreeMap, HashSet};
use std::io::{BufRead, BufReader, Write};
use std::process::{Command, Stdio};

/// splitmix64 — every random choice of a run derives from one seed.
#[derive(Clone)]
pub struct Rng(pub u64);
impl Rng {
    pub fn new(seed: u64) -> Self {
        Rng(seed ^ 0x9E37_79B9_7F4A_7C15)
    }
    pub fn next(&mut self) -> u64 {
        self.0 = self.0.wrapping_add(0x9E37_79B9_7F4A_7C15);
        let mut z = self.0;
        z = (z ^ (z >> 30)).wrapping_mul(0xBF58_476D_1CE4_E5B9);
        z = (z ^ (z >> 27)).wrapping_mul(0x94D0_49BB_1331_11EB);
        z ^ (z >> 31)
    }
    pub fn below(&mut self, n: usize) -> usize {
        if n == 0 {
            0
        } else {
            (self.next() % n as u64) as usize
        }
    }
    pub fn chance(&mut self, num: usize, den: usize) -> bool {
        self.below(den) < num
    }
    pub fn pick<'a, T>(&mut self, xs: &'a [T]) -> &'a T {
        &xs[self.below(xs.len())]
    }
    pub fn fork(&mut self) -> Rng {
        Rng(self.next())
    }
}

pub fn hex(b: &[u8]) -> String {
    if b.is_empty() {
        return "-".to_string();
    }
    let mut s = String::with_capacity(b.len() * 2);
    for x in b {
        s.push_str(&format!("{x:02x}"));
    }
    s
}
pub fn unhex(s: &str) -> Vec<u8> {
    if s == "-" {
        return vec![];
    }
    (0..s.len() / 2)
        .map(|i| u8::from_str_radix(&s[2 * i..2 * i + 2], 16).unwrap())
        .collect()
}
pub fn opt_hex(b: Option<&[u8]>) -> String {
    match b {
        None => "~".into(),
        Some(b) => hex(b),
    }
}
pub fn b01(b: bool) -> &'static str {
    if b {
        "1"
    } else {
        "0"
    }
}

/// Run `requests` through the compiled Lean driver, `par` processes in parallel.
pub fn driver_batch(driver: &str, requests: &[String], par: usize) -> Vec<String> {
    if requests.is_empty() {
        return vec![];
    }
    let par = par.max(1).min(requests.len());
    let chunk = (requests.len() + par - 1) / par;
    let mut out: Vec<Vec<String>> = Vec::new();
    std::thread::scope(|sc| {
        let handles: Vec<_> = requests
            .chunks(chunk)
            .map(|reqs| {
                sc.spawn(move || {
                    let mut child = Command::new(driver)
                        .stdin(Stdio::piped())
                        .stdout(Stdio::piped())
                        .spawn()
                        .expect("spawn lean driver");
                    let mut stdin = child.stdin.take().unwrap();
                    let stdout = child.stdout.take().unwrap();
                    let res = std::thread::scope(|s2| {
                        s2.spawn(move || {
                            let mut buf = String::with_capacity(1 << 16);
                            for r in reqs {
                                buf.push_str(r);
                                buf.push('\n');
                                if buf.len() > (1 << 15) {
                                    stdin.write_all(buf.as_bytes()).ok();
                                    buf.clear();
                                }
                            }
                            stdin.write_all(buf.as_bytes()).ok();
                            drop(stdin);
                        });
                        let rd = BufReader::new(stdout);
                        let mut v = Vec::with_capacity(reqs.len());
                        for l in rd.lines() {
                            v.push(l.unwrap_or_default());
                        }
                        v
                    });
                    child.wait().ok();
                    let mut res = res;
                    // a crashed driver must not look like agreement
                    while res.len() < reqs.len() {
                        res.push("DRIVER-DIED".to_string());
                    }
                    res
                })
            })
            .collect();
        for h in handles {
            out.push(h.join().unwrap());
        }
    });
    out.into_iter().flatten().collect()
}

#[derive(Default)]
pub struct Report {
    pub property: String,
    pub evaluations: u64,
    pub nontrivial: HashSet<u64>,
    pub samples: Vec<String>,
    pub dist: BTreeMap<String, u64>,
    pub disagreements: Vec<serde_json::Value>,
    pub disagreement_count: u64,
    pub oracle_failures: Vec<serde_json::Value>,
    pub oracle_failure_count: u64,
    pub oracle_classes: BTreeMap<String, u64>,
    pub exhaustive: bool,
    pub rule: String,
    pub notes: Vec<String>,
    /// ask the driver whether the totality theorem's hypotheses hold for each generated command (C01)
    pub check_wf: bool,
}

pub fn fnv(s: &str) -> u64 {
    let mut h = 0xcbf29ce484222325u64;
    for b in s.as_bytes() {
        h ^= *b as u64;
        h = h.wrapping_mul(0x100000001b3);
    }
    h
}

impl Report {
    pub fn new(p: &str, rule: &str) -> Self {
        Report {
            property: p.to_string(),
            rule: rule.to_string(),
            ..Default::default()
        }
    }
    pub fn count(&mut self, key: &str) {
        *self.dist.entry(key.to_string()).or_insert(0) += 1;
    }
    pub fn count_n(&mut self, key: &str, n: u64) {
        *self.dist.entry(key.to_string()).or_insert(0) += n;
    }
    /// one evaluated case; `nontrivial` says whether it counts as non-trivial by the rule
    pub fn case(&mut self, canon: &str, nontrivial: bool) {
        self.evaluations += 1;
        if nontrivial {
            self.nontrivial.insert(fnv(canon));
        }
        if self.samples.len() < 8 && nontrivial && (self.evaluations % 97 == 1 || self.samples.len() < 2) {
            self.samples.push(canon.chars().take(400).collect());
        }
    }
    pub fn disagree(&mut self, op: &str, req: &str, model: &str, imp: &str) {
        self.disagreement_count += 1;
        if self.disagreements.len() < 25 {
            self.disagreements.push(serde_json::json!({"op": op, "request": req, "model": model, "impl": imp}));
        }
    }
    /// the implementation itself breaks the property's statement on this case
    pub fn oracle_fail(&mut self, class: &str, case: &str, detail: &str) {
        self.oracle_failure_count += 1;
        *self.oracle_classes.entry(class.to_string()).or_insert(0) += 1;
        let per_class = self
            .oracle_failures
            .iter()
            .filter(|v| v["class"] == class)
            .count();
        if per_class < 5 {
            self.oracle_failures
                .push(serde_json::json!({"class": class, "case": case, "detail": detail}));
        }
    }
    pub fn write(&self, path: &str) {
        let v = serde_json::json!({
            "property": self.property,
            "evaluations": self.evaluations,
            "distinct_nontrivial": self.nontrivial.len(),
            "rule": self.rule,
            "samples": self.samples,
            "distribution": self.dist,
            "model_disagreement_count": self.disagreement_count,
            "model_disagreements": self.disagreements,
            "oracle_failure_count": self.oracle_failure_count,
            "oracle_failures": self.oracle_failures,
            "oracle_classes": self.oracle_classes,
            "exhaustive": self.exhaustive,
            "notes": self.notes,
        });
        std::fs::write(path, serde_json::to_string_pretty(&v).unwrap()).expect("write report");
    }
}

pub struct Opts {
    pub tier: String,
    pub seed: u64,
    pub driver: String,
    pub out: String,
    pub replay: Option<String>,
    pub par: usize,
    pub search: bool,
}
impl Opts {
    pub fn thorough(&self) -> bool {
        self.tier == "thorough"
    }
}

/// Silence the default panic hook while running cases under `catch_unwind`.
pub fn quiet_panics() {
    if std::env::var("VERIF_DEBUG").is_ok() { return; }
    std::panic::set_hook(Box::new(|_| {}));
}


// ------------------------------------------------------------------ watchdog
// A call into the real crates that never returns (or eats memory without bound) cannot be caught by catch_unwind.
// Every such call is bracketed by a `RealCall` guard naming the case; a watchdog thread ends the process with exit
// code 86 when one call has been running for too long or the process has grown too large, after writing the case
// to `<out>.hang` so that bin/check can report it as the replay.
static CALL_STATE: std::sync::Mutex<Option<(std::time::Instant, String)>> = std::sync::Mutex::new(None);
pub struct RealCall;
impl RealCall {
    pub fn new(case: &str) -> RealCall {
        if let Ok(mut g) = CALL_STATE.lock() { *g = Some((std::time::Instant::now(), case.to_string())); }
        RealCall
    }
}
impl Drop for RealCall { fn drop(&mut self) { if let Ok(mut g) = CALL_STATE.lock() { *g = None; } } }

pub fn start_watchdog(property: &str, out: &str, limit_s: u64, limit_rss_mb: u64) {
    let (property, out) = (property.to_string(), out.to_string());
    std::thread::spawn(move || loop {
        std::thread::sleep(std::time::Duration::from_millis(500));
        let rss_mb = std::fs::read_to_string("/proc/self/statm").ok().and_then(|t| t.split(' ').nth(1).and_then(|x| x.parse::<u64>().ok())).map(|pages| pages * 4096 / (1 << 20)).unwrap_or(0);
        let cur = CALL_STATE.lock().ok().and_then(|g| g.clone());
        let (stuck, case) = match &cur { Some((t0, c)) => (t0.elapsed().as_secs() >= limit_s, c.clone()), None => (false, String::new()) };
        if stuck || rss_mb > limit_rss_mb {
            let reason = if stuck { format!("a call into the real crate did not return within {limit_s} s") } else { format!("the process grew to {rss_mb} MB") };
            let j = serde_json::json!({"property": property, "class": "does-not-terminate-or-memory-blowup", "case": case, "detail": reason});
            let _ = std::fs::write(format!("{out}.hang"), j.to_string());
            std::process::exit(86);
        }
    });
}
