//! C17 — descriptive text can never change the structure of a generated script.
use crate::util::*;
use clap::builder::PossibleValue;
use clap::{Arg, ArgAction, Command};
use clap_complete::aot::{generate, Shell};

const ADV: [&str; 34] = [
    "'", "\"", "\\", "$(touch /tmp/pwned)", "`id`", "$HOME", "a'b", "a\"b", "end\\", "\\'", "'\\''", "[x]", "a:b", "(x)", "{x}", "line1\nline2", "\n",
    "\u{2018}q", "\u{2019}q", "\u{201a}q", "\u{201b}q", "\u{201c}q\u{201d}", "caf\u{e9} \u{4f60}", "a,b", "#c", "; rm -rf x", "| x", "&& y", "''", "\"\"", "\\\\", "$", "`", "tab\there",
];
const SHELLS: [&str; 6] = ["fish", "zsh", "pwsh", "elvish", "nu", "bash"];

#[derive(Clone, Debug)]
struct TA { id: String, short: Option<char>, long: Option<String>, kind: u8, help: usize, pvs: Vec<(String, Option<usize>)>,
    /// the text is given as `long_help` only (no `help`): generators that fall back to it must escape it all the same
    long_only: bool } // kind 0 flag 1 option 2 positional
#[derive(Clone, Debug)]
struct TC { name: String, alias: Option<String>, about: Option<usize>, args: Vec<TA>, subs: Vec<TC>, long_about_only: bool }

/// slots are numbered; `kinds[i]` is what the slot is
#[derive(Clone, Copy, Debug, PartialEq)]
enum K { ArgHelp, PosHelp, PvHelp, About }

fn gen_tc(rng: &mut Rng, depth: usize, name: String, kinds: &mut Vec<K>, shorts: &mut Vec<char>) -> TC {
    let mut slot = |k: K, kinds: &mut Vec<K>| { kinds.push(k); kinds.len() - 1 };
    let about = if depth == 0 || rng.chance(3, 4) { Some(slot(K::About, kinds)) } else { None };
    let nargs = rng.below(4);
    let mut args = vec![];
    let mut have_pos = false;
    for i in 0..nargs {
        let kind = if !have_pos && rng.chance(1, 4) { have_pos = true; 2 } else { rng.below(2) as u8 };
        let id = format!("{}a{i}", name.replace('-', ""));
        let (short, long) = if kind == 2 { (None, None) } else {
            let s = if rng.chance(1, 2) && !shorts.is_empty() { Some(shorts.remove(rng.below(shorts.len()))) } else { None };
            (s, if s.is_none() || rng.chance(1, 2) { Some(format!("{id}-long")) } else { None })
        };
        let help = slot(if kind == 2 { K::PosHelp } else { K::ArgHelp }, kinds);
        let pvs = if kind >= 1 && rng.chance(1, 2) {
            let with_help = rng.chance(2, 3);
            (0..1 + rng.below(3)).map(|j| (format!("{id}v{j}"), if with_help && rng.chance(3, 4) { Some(slot(K::PvHelp, kinds)) } else { None })).collect()
        } else { vec![] };
        args.push(TA { id, short, long, kind, help, pvs, long_only: rng.chance(1, 5) });
    }
    let nsubs = if depth >= 2 { 0 } else { rng.below(3) };
    let subs = (0..nsubs).map(|i| { let mut sh: Vec<char> = "abcdefgijkmnopqrstuwxyz".chars().collect(); gen_tc(rng, depth + 1, format!("{}s{i}", if depth == 0 { "".to_string() } else { format!("{name}-") }), kinds, &mut sh) }).collect();
    let alias = if depth > 0 && rng.chance(1, 3) { Some(format!("{name}-al")) } else { None };
    let long_about_only = rng.chance(1, 5);
    TC { name, alias, about, args, subs, long_about_only }
}

fn build(tc: &TC, texts: &[String]) -> Command {
    let mut c = Command::new(tc.name.clone());
    if let Some(a) = tc.about { c = if tc.long_about_only { c.long_about(texts[a].clone()) } else { c.about(texts[a].clone()) }; }
    if let Some(a) = &tc.alias { c = c.visible_alias(a.clone()); }
    for a in &tc.args {
        let mut x = if a.long_only { Arg::new(a.id.clone()).long_help(texts[a.help].clone()) } else { Arg::new(a.id.clone()).help(texts[a.help].clone()) };
        if let Some(s) = a.short { x = x.short(s); }
        if let Some(l) = &a.long { x = x.long(l.clone()); }
        x = match a.kind { 0 => x.action(ArgAction::SetTrue), _ => x.action(ArgAction::Set) };
        if !a.pvs.is_empty() { x = x.value_parser(a.pvs.iter().map(|(n, h)| { let p = PossibleValue::new(n.clone()); match h { Some(i) => p.help(texts[*i].clone()), None => p } }).collect::<Vec<_>>()); }
        c = c.arg(x);
    }
    for s in &tc.subs { c = c.subcommand(build(s, texts)); }
    c
}

fn gen_script(shell: &str, tc: &TC, texts: &[String]) -> String {
    let mut cmd = build(tc, texts);
    let mut buf = vec![];
    match shell {
        "fish" => generate(Shell::Fish, &mut cmd, "prog", &mut buf),
        "zsh" => generate(Shell::Zsh, &mut cmd, "prog", &mut buf),
        "pwsh" => generate(Shell::PowerShell, &mut cmd, "prog", &mut buf),
        "elvish" => generate(Shell::Elvish, &mut cmd, "prog", &mut buf),
        "bash" => generate(Shell::Bash, &mut cmd, "prog", &mut buf),
        _ => generate(clap_complete_nushell::Nushell, &mut cmd, "prog", &mut buf),
    }
    String::from_utf8(buf).expect("utf8 script")
}

fn slot_name(shell: &str, k: K) -> &'static str {
    match (shell, k) { (_, K::PvHelp) => "pvHelp", ("zsh", K::PosHelp) => "posHelp", _ => "help" }
}
fn marker(i: usize) -> String { format!("MK{i:03}Z") }

pub fn run(o: &Opts) -> Report {
    let mut rep = Report::new("C17", "random command trees (depth <= 3, flags, options, positionals, possible values with help, subcommand about) x six generators x an assignment of adversarial strings (quotes of both kinds, backslashes, $(...), backticks, brackets, colons, newlines, typographic quotes, non-ASCII) to EVERY descriptive-text slot; tie: script(adversarial) == script(markers) with each marker replaced by the model's escaped text for that shell/slot, and the model scanner's quoting state at every marker is the slot's declared context; oracle: for every text, scanning the escaped text from the slot's context returns to that context without expansion (the instance of the theorem); bash: the script is byte-identical whatever the texts and passes `bash -n`; non-trivial = at least one slot text with a quote, backslash, $ or newline");
    let mut rng = Rng::new(o.seed ^ 0xC17);
    let n = if o.thorough() { 3000 } else { 250 };
    struct Case { zsh_l2: Vec<(usize, String, usize, usize)>, shell: &'static str, key: String, s_m: String, s_a: String, kinds: Vec<K>, texts: Vec<String>, esc_req: Vec<usize>, scan_req: Vec<(usize, usize)>, slotscan_req: Vec<usize>, real_req: Vec<(usize, String, usize)> }
    let mut reqs: Vec<String> = vec![]; let mut cases: Vec<Case> = vec![];
    for ci in 0..n {
        let mut kinds = vec![];
        let mut shorts: Vec<char> = "abcdefgijkmnopqrstuwxyz".chars().collect();
        let tc = gen_tc(&mut rng, 0, "prog".into(), &mut kinds, &mut shorts);
        let markers: Vec<String> = (0..kinds.len()).map(marker).collect();
        let texts: Vec<String> = (0..kinds.len()).map(|_| {
            let mut t = rng.pick(&ADV[..]).to_string();
            if rng.chance(1, 3) { t = format!("{} {}", rng.pick(&ADV[..]), t); }
            if rng.chance(1, 3) { t = format!("word {t} word"); }
            // long descriptions: a special character around the 100th character (a cap on the ESCAPED text would split it)
            if rng.chance(1, 6) { t = format!("{}{t}", "x".repeat(88 + rng.below(16))); }
            t }).collect();
        rep.count("commands");
        for shell in SHELLS {
            let key = format!("cmd#{ci} shell={shell} texts={texts:?} {tc:?}");
            let r = std::panic::catch_unwind(|| (gen_script(shell, &tc, &markers), gen_script(shell, &tc, &texts)));
            let (s_m, s_a) = match r { Ok(x) => x, Err(_) => { rep.oracle_fail("generator-panics", &key, "generate panicked"); continue; } };
            rep.count(&format!("scripts_{shell}"));
            let nontrivial = texts.iter().any(|t| t.contains(['\'', '"', '\\', '$', '\n']));
            rep.case(&format!("{shell} {}", fnv(&key)), nontrivial);
            if shell == "bash" {
                if markers.iter().any(|m| s_m.contains(m.as_str())) { rep.oracle_fail("bash-emits-descriptive-text", &key, "a marker appears in the bash script"); }
                if s_m != s_a { rep.oracle_fail("bash-script-depends-on-text", &key, "bash scripts differ"); }
                if ci % 10 == 0 {
                    let p = format!("/verif/harness/target/c17_{}.bash", std::process::id());
                    std::fs::write(&p, &s_a).unwrap();
                    let ok = std::process::Command::new("bash").arg("-n").arg(&p).status().map(|s| s.success()).unwrap_or(false);
                    let _ = std::fs::remove_file(&p);
                    if !ok { rep.oracle_fail("bash-rejects-script", &key, "bash -n failed"); }
                    rep.count("bash_n_runs");
                }
                continue;
            }
            let mut case = Case { shell, key, s_m: s_m.clone(), s_a, kinds: kinds.clone(), texts: texts.clone(), esc_req: vec![], scan_req: vec![], slotscan_req: vec![], real_req: vec![], zsh_l2: vec![] };
            for (i, k) in kinds.iter().enumerate() {
                case.esc_req.push(reqs.len());
                reqs.push(format!("esc {shell} {} {}", slot_name(shell, *k), hex(texts[i].as_bytes())));
                case.slotscan_req.push(reqs.len());
                reqs.push(format!("slotscan {shell} {} {}", slot_name(shell, *k), hex(texts[i].as_bytes())));
                let mut from = 0;
                while let Some(p) = s_m[from..].find(markers[i].as_str()) {
                    case.scan_req.push((i, reqs.len()));
                    reqs.push(format!("scan {shell} {}", hex(s_m[..from + p].as_bytes())));
                    from += p + markers[i].len();
                }
            }
            // what the REAL script holds in place of each marker: align the fixed segments of the marker script in the adversarial one
            {
                let mut occ: Vec<(usize, usize)> = vec![]; // (position in s_m, slot)
                for i in 0..kinds.len() { let mut from = 0; while let Some(p) = case.s_m[from..].find(markers[i].as_str()) { occ.push((from + p, i)); from += p + markers[i].len(); } }
                occ.sort();
                let (mut pm, mut pa) = (0usize, 0usize); let mut aligned = true;
                for (k, (pos, i)) in occ.iter().enumerate() {
                    let seg = &case.s_m[pm..*pos];
                    if !case.s_a[pa..].starts_with(seg) { aligned = false; break; }
                    pa += seg.len(); pm = pos + markers[*i].len();
                    let next_seg_end = occ.get(k + 1).map(|x| x.0).unwrap_or(case.s_m.len());
                    let next_seg = &case.s_m[pm..next_seg_end];
                    // the fixed text after the marker: the shortest stretch that brings it back (first occurrence of a non-empty next segment)
                    let probe = &next_seg[..next_seg.len().min(24)];
                    let Some(q) = (if probe.is_empty() { Some(case.s_a.len() - pa) } else { case.s_a[pa..].find(probe) }) else { aligned = false; break; };
                    let real = case.s_a[pa..pa + q].to_string();
                    case.real_req.push((*i, real.clone(), reqs.len()));
                    reqs.push(format!("scanfrom {shell} {} {}", slot_name(shell, kinds[*i]), if real.is_empty() { "-".to_string() } else { hex(real.as_bytes()) }));
                    // zsh, second level: what the shell hands to _arguments for this slot (escape_help slots only)
                    if shell == "zsh" && slot_name(shell, kinds[*i]) != "posHelp" && case.zsh_l2.len() < 6 {
                        let r1 = reqs.len(); reqs.push(format!("zshunq {}", if real.is_empty() { "-".to_string() } else { hex(real.as_bytes()) }));
                        let r2 = reqs.len(); reqs.push(format!("zshspec {}", hex(texts[*i].as_bytes())));
                        case.zsh_l2.push((*i, real.clone(), r1, r2));
                    }
                    pa += q;
                }
                if !aligned { rep.count("scripts_not_alignable"); }
            }
            cases.push(case);
        }
    }
    if o.driver != "none" {
        let model = driver_batch(&o.driver, &reqs, o.par);
        for c in &cases {
            // (1) the generator applies exactly the model's escaper in every slot and changes nothing else
            let mut expected = c.s_m.clone();
            for (i, _) in c.kinds.iter().enumerate() {
                let e = String::from_utf8(unhex(&model[c.esc_req[i]])).unwrap_or_default();
                expected = expected.replace(marker(i).as_str(), &e);
            }
            if expected != c.s_a {
                let (a, b): (Vec<&str>, Vec<&str>) = (expected.lines().collect(), c.s_a.lines().collect());
                let d = a.iter().zip(b.iter()).find(|(x, y)| x != y).map(|(x, y)| format!("model: {x}\nreal:  {y}")).unwrap_or_else(|| format!("{} vs {} lines", a.len(), b.len()));
                rep.disagree("esc", &c.key, &d, "");
            }
            // (2) the slot sits in the declared quoting context
            for (i, r) in &c.scan_req {
                let ctx = model[c.slotscan_req[*i]].split("ctx=").nth(1).unwrap_or("?").to_string();
                if model[*r] != ctx { rep.disagree("scan", &format!("{} slot {i} ({:?})", c.key, c.kinds[*i]), &format!("declared context {ctx}"), &format!("scanner state at the marker: {}", model[*r])); }
                rep.count("marker_contexts_checked");
            }
            // (3') the text the REAL script holds in each slot stays inside its literal (scanner run on the real bytes)
            for (i, real, r) in &c.real_req {
                let out = &model[*r];
                let ctx = out.split("ctx=").nth(1).unwrap_or("?");
                if !out.starts_with(&format!("{ctx} 0 ")) {
                    rep.oracle_fail(&format!("text-leaves-literal:{}/{}", c.shell, slot_name(c.shell, c.kinds[*i])), &c.key,
                        &format!("text {:?} appears in the real script as {real:?}: scanner {out}", c.texts[*i]));
                }
                rep.count("real_slot_texts_scanned");
            }
            // (4) zsh second level: the model's reading of the single-quoted word equals REAL bash's (same quoting rules as zsh
            //     for '..', \' and concatenation), equals the spec-level chain of the text, and the description closes no field
            if !c.zsh_l2.is_empty() {
                let script: String = format!("printf '%s\\0'{}\n", c.zsh_l2.iter().map(|(_, real, _, _)| format!(" '{real}'")).collect::<String>());
                let out = std::process::Command::new("bash").arg("--norc").arg("-c").arg(&script).output();
                if let Ok(out) = out {
                    let parts: Vec<&[u8]> = out.stdout.split(|b| *b == 0).collect();
                    for (k, (i, real, r1, r2)) in c.zsh_l2.iter().enumerate() {
                        let bash_read = parts.get(k).map(|p| hex(p)).unwrap_or_default();
                        let model_read = model[*r1].clone();
                        let spec = model[*r2].split(' ').next().unwrap_or("").to_string();
                        let flags = model[*r2].split(' ').nth(1).unwrap_or("?").to_string();
                        let norm = |h: &str| if h == "-" { String::new() } else { h.to_string() };
                        if norm(&bash_read) != norm(&model_read) { rep.disagree("zshunq", &format!("{} slot {i}", c.key), &format!("model reads {real:?} as {}", model_read), &format!("bash reads it as {}", bash_read)); }
                        if norm(&model_read) != norm(&spec) { rep.disagree("zshspec", &format!("{} slot {i}", c.key), &format!("spec-level chain gives {}", spec), &format!("the shell hands over {}", model_read)); }
                        if flags != "000" { rep.oracle_fail("zsh-spec-field-closed-by-text", &c.key, &format!("text {:?}: dangling-escape/]/: flags {flags}", c.texts[*i])); }
                        rep.count("zsh_second_level_slots");
                    }
                }
            }
            // (3) the text stays inside its literal (instance of the theorem; fails only in unsound slots)
            for (i, k) in c.kinds.iter().enumerate() {
                if !c.s_m.contains(marker(i).as_str()) { continue; }
                let r = &model[c.slotscan_req[i]];
                let ctx = r.split("ctx=").nth(1).unwrap_or("?");
                if !r.starts_with(&format!("{ctx} 0 ")) {
                    rep.oracle_fail(&format!("text-leaves-literal:{}/{}", c.shell, slot_name(c.shell, *k)), &c.key,
                        &format!("text {:?} written as {:?}: scanner {r}", c.texts[i], String::from_utf8_lossy(&unhex(&model[c.esc_req[i]]))));
                }
                rep.count("slot_texts_scanned");
            }
        }
    }
    rep
}
