//! Invocation-first generation for the conventional class (C02, C05, C08):
//! first decide *what* is meant (which args occur, with which values, in which order),
//! then render it to argv with spelling choices, so the oracle knows the intended answer.
use crate::spec::*;
use crate::util::*;

#[derive(Clone, Debug)]
pub enum Item {
    Opt { arg: usize, vals: Vec<Vec<u8>> },   // a value-taking option occurrence
    Flag { arg: usize },                      // a flag occurrence
    Pos { vals: Vec<Vec<u8>> },                // consecutive positional values
}

#[derive(Clone, Debug)]
pub struct Invocation { pub items: Vec<Item>, pub tail: Option<Vec<Vec<u8>>> /* after an explicit `--` */ }

/// is this (positional) arg able to take several values over the command line?
pub fn is_multi(a: &ArgS) -> bool { a.num_vals.is_some() || a.action == Some("append") }

pub struct Conv { pub cmd: CmdS, pub opts: Vec<usize>, pub flags: Vec<usize>, pub pos: Vec<usize> }

/// a command in the conventional class
pub fn gen_conventional(rng: &mut Rng, with_infer: bool) -> Conv {
    let mut cmd = CmdS { name: "prog".into(), ..Default::default() };
    let (mut opts, mut flags, mut pos) = (vec![], vec![], vec![]);
    let shorts = ['a', 'b', 'c', 'd', 'e', 'f'];
    let longs = ["alpha", "alpine", "verbose", "hello", "gamma", "gam"];
    let n_opt = 1 + rng.below(3);
    let n_flag = 1 + rng.below(3);
    for i in 0..n_opt + n_flag {
        let mut a = ArgS { id: format!("id{i}"), ..Default::default() };
        match rng.below(3) { 0 => a.long = Some(longs[i].to_string()), 1 => a.short = Some(shorts[i]), _ => { a.long = Some(longs[i].to_string()); a.short = Some(shorts[i]); } }
        if a.long.is_some() && rng.chance(1, 3) { a.aliases.push(format!("{}-alias", longs[i])); }
        // a short-only arg may still have long aliases (keys and inference candidates like any long)
        if a.long.is_none() && rng.chance(1, 2) { a.aliases.push(format!("{}-alias", longs[i])); }
        if a.short.is_some() && rng.chance(1, 3) { a.short_aliases.push(shorts[i].to_ascii_uppercase()); }
        if i < n_opt {
            a.action = Some(if rng.chance(2, 3) { "append" } else { "set" });
            match rng.below(9) { 0 => a.num_vals = Some((1, Some(2))), 1 => a.num_vals = Some((2, Some(2))), 2 => a.num_vals = Some((1, None)),
                3 => a.num_vals = Some((0, None)), 4 => a.num_vals = Some((0, Some(1))), _ => {} }
            if rng.chance(1, 4) { a.delim = Some(','); }
            if rng.chance(1, 3) { a.vp = Some(VpS::Os); }
            if matches!(a.num_vals, Some((0, _))) && rng.chance(1, 2) { a.default_missing = vec!["dmiss".into()]; }
            opts.push(i);
        } else {
            a.action = Some(if rng.chance(1, 2) { "count" } else { "setTrue" });
            flags.push(i);
        }
        cmd.args.push(a);
    }
    let n_pos = rng.below(3);
    for k in 0..n_pos {
        let i = cmd.args.len();
        let mut a = ArgS { id: format!("pos{k}"), ..Default::default() };
        if k + 1 == n_pos && rng.chance(2, 3) { if rng.chance(1, 4) { a.action = Some("append"); } else { a.num_vals = Some((if rng.chance(1, 2) { 1 } else { 0 }, None)); } }
        if rng.chance(1, 6) { a.delim = Some(','); }
        if rng.chance(1, 3) { a.vp = Some(VpS::Os); }
        pos.push(i);
        cmd.args.push(a);
    }
    cmd.settings.infer_long_args = with_infer && rng.chance(1, 2);
    cmd.settings.dont_delimit_trailing_values = rng.chance(1, 6);
    Conv { cmd, opts, flags, pos }
}

fn plain_val(rng: &mut Rng, k: usize, a: &ArgS) -> Vec<u8> {
    let base = ["v", "value", "x1", "é", "1", "a=b", "a b", "", "-"];
    let mut s = format!("{}{}", rng.pick(&base), k);
    if s.starts_with('-') { s = format!("m{s}"); }
    // delimiter shapes: inner, trailing, leading, doubled (every piece, empty ones included, is a value)
    if a.delim.is_some() { match rng.below(8) { 0 | 1 | 2 => s = format!("{s},{s}z"), 3 => s = format!("{s},"), 4 => s = format!(",{s}"), 5 => s = format!("{s},,z"), _ => {} } }
    let mut b = s.into_bytes();
    // OS-string valued args also get values that are not UTF-8 (valid prefix + invalid tail)
    if a.vp == Some(VpS::Os) && rng.chance(1, 3) { b.push(0xFF); if rng.chance(1, 2) { b.extend_from_slice(b"t"); } }
    b
}

pub fn gen_invocation(rng: &mut Rng, cv: &Conv, with_tail: bool) -> Invocation {
    let mut items = vec![];
    let mut used_set: Vec<usize> = vec![];
    let multi_pos = cv.pos.last().map(|&i| is_multi(&cv.cmd.args[i])).unwrap_or(false);
    let single_pos = cv.pos.len() - if multi_pos { 1 } else { 0 };
    let mut pos_left_single = single_pos;
    let n = rng.below(7);
    let mut k = 0;
    for _ in 0..n {
        k += 1;
        match rng.below(5) {
            0 | 1 if !cv.opts.is_empty() => {
                let ai = *rng.pick(&cv.opts);
                let a = &cv.cmd.args[ai];
                if a.action == Some("set") { if used_set.contains(&ai) { continue; } used_set.push(ai); }
                let nv = match a.num_vals { Some((lo, Some(hi))) => lo + rng.below(hi - lo + 1), Some((lo, None)) => lo + rng.below(3), None => 1 };
                items.push(Item::Opt { arg: ai, vals: (0..nv).map(|j| plain_val(rng, k * 10 + j, a)).collect() });
            }
            2 if !cv.flags.is_empty() => {
                let ai = *rng.pick(&cv.flags);
                if cv.cmd.args[ai].action == Some("setTrue") { if used_set.contains(&ai) { continue; } used_set.push(ai); }
                items.push(Item::Flag { arg: ai });
            }
            _ if !cv.pos.is_empty() => {
                // a positional value directly after an option that can still take values would be that option's value
                if let Some(Item::Opt { arg, vals }) = items.last() {
                    let cap = cv.cmd.args[*arg].num_vals.map(|(_, hi)| hi).unwrap_or(Some(1));
                    if cap.map(|c| vals.len() < c).unwrap_or(true) {
                        match cv.flags.iter().find(|f| cv.cmd.args[**f].action == Some("count")) { Some(f) => items.push(Item::Flag { arg: *f }), None => continue }
                    }
                }
                // positional values: singles first (each exactly once, in order), then the multi one
                if pos_left_single > 0 { pos_left_single -= 1; let pa = &cv.cmd.args[cv.pos[single_pos - pos_left_single - 1]]; items.push(Item::Pos { vals: vec![plain_val(rng, k * 10, pa)] }); }
                else if multi_pos { let pa = &cv.cmd.args[*cv.pos.last().unwrap()]; items.push(Item::Pos { vals: (0..1 + rng.below(2)).map(|j| plain_val(rng, k * 10 + j, pa)).collect() }); }
            }
            _ => {}
        }
    }
    let tail = if with_tail && multi_pos && pos_left_single == 0 {
        let pool: Vec<&[u8]> = vec![b"--help", b"-h", b"-x", b"--alpha=v", b"--", b"", b"plain", b"-", b"--version", b"\xff\xfe", b"-\xff", b"help", b"a,b"];
        Some((0..rng.below(5)).map(|_| rng.pick(&pool).to_vec()).collect())
    } else { None };
    Invocation { items, tail }
}

/// spelling choices are drawn from `rng`; two renderings of one invocation with different rngs are
/// two spellings of the same command line
pub fn render(rng: &mut Rng, cv: &Conv, inv: &Invocation, allow_explicit_escape: bool) -> Vec<Vec<u8>> { render_with(rng, cv, inv, allow_explicit_escape, true) }

/// `attached_short`: may `-ov` / `-o=v` be used (not an equivalent spelling when a positional accepts hyphen values)
pub fn render_with(rng: &mut Rng, cv: &Conv, inv: &Invocation, allow_explicit_escape: bool, attached_short: bool) -> Vec<Vec<u8>> {
    let mut argv: Vec<Vec<u8>> = vec![b"prog".to_vec()];
    let mut i = 0;
    // an explicit `--` may be inserted before the last run of positional items if nothing but positionals follows
    let last_nonpos = inv.items.iter().rposition(|it| !matches!(it, Item::Pos { .. }));
    let escape_at = if allow_explicit_escape && !cv.cmd.settings.dont_delimit_trailing_values && inv.tail.is_none() && rng.chance(1, 2) { Some(last_nonpos.map(|k| k + 1).unwrap_or(0)) } else { None };
    // … or between two values of the final (multi-value) positional item
    let escape_inside: Option<usize> = match inv.items.last() {
        Some(Item::Pos { vals }) if allow_explicit_escape && escape_at.is_none() && !cv.cmd.settings.dont_delimit_trailing_values && inv.tail.is_none() && vals.len() >= 2 && rng.chance(1, 2) => Some(1 + rng.below(vals.len() - 1)),
        _ => None };
    while i < inv.items.len() {
        if escape_at == Some(i) && inv.items[i..].iter().any(|it| matches!(it, Item::Pos { .. })) { argv.push(b"--".to_vec()); }
        match &inv.items[i] {
            Item::Flag { arg } => {
                let a = &cv.cmd.args[*arg];
                // cluster with following short flags
                if a.short.is_some() {
                    let s = short_name(rng, a);
                    let mut cl = format!("-{s}");
                    let mut j = i + 1;
                    while j < inv.items.len() && rng.chance(1, 2) {
                        if let Item::Flag { arg: b } = &inv.items[j] { if cv.cmd.args[*b].short.is_some() { if escape_at != Some(j) { cl.push(short_name(rng, &cv.cmd.args[*b])); j += 1; continue; } } }
                        break;
                    }
                    // the cluster may end in a value-taking short: `-fo=v`, `-fov`, `-fo v`
                    if attached_short && j < inv.items.len() && escape_at != Some(j) && rng.chance(1, 3) {
                        if let Item::Opt { arg: b, vals } = &inv.items[j] {
                            let ob = &cv.cmd.args[*b];
                            if ob.short.is_some() && vals.len() == 1 && !(ob.num_vals.map(|(_, hi)| hi != Some(1)).unwrap_or(false)) {
                                let v = &vals[0];
                                cl.push(short_name(rng, ob));
                                let mut bytes = cl.clone().into_bytes();
                                match rng.below(3) {
                                    0 if !v.is_empty() && v[0] != b'=' => { bytes.extend_from_slice(v); argv.push(bytes); }
                                    1 => { bytes.push(b'='); bytes.extend_from_slice(v); argv.push(bytes); }
                                    _ => { argv.push(bytes); argv.push(v.clone()); }
                                }
                                i = j + 1; continue;
                            }
                        }
                    }
                    if j > i + 1 || a.long.is_none() || rng.chance(1, 2) { argv.push(cl.into_bytes()); i = j; continue; }
                }
                argv.push(long_name(rng, cv, a).into_bytes());
            }
            Item::Opt { arg, vals } => {
                let a = &cv.cmd.args[*arg];
                let use_long = a.long.is_some() && (a.short.is_none() || rng.chance(1, 2));
                // several values, or a value that would be taken for a flag, go in separate tokens
                let cat = |pre: String, v: &[u8]| { let mut b = pre.into_bytes(); b.extend_from_slice(v); b };
                if vals.len() == 1 && !(a.num_vals.map(|(_, hi)| hi != Some(1)).unwrap_or(false)) {
                    let v = &vals[0];
                    if use_long { if rng.chance(1, 2) { argv.push(cat(format!("{}=", long_name(rng, cv, a)), v)); } else { argv.push(long_name(rng, cv, a).into_bytes()); argv.push(v.clone()); } }
                    else { let s = short_name(rng, a); match rng.below(3) { 0 if attached_short && !v.is_empty() && v[0] != b'=' => argv.push(cat(format!("-{s}"), v)), 1 if attached_short => argv.push(cat(format!("-{s}="), v)), _ => { argv.push(format!("-{s}").into_bytes()); argv.push(v.clone()); } } }
                } else if vals.len() == 1 && a.num_vals.map(|(lo, _)| lo == 0).unwrap_or(false) {
                    // an optional value must be attached
                    let v = &vals[0];
                    if use_long || !attached_short { if a.long.is_some() { argv.push(cat(format!("{}=", long_name(rng, cv, a)), v)); } else { argv.push(cat(format!("-{}=", short_name(rng, a)), v)); } } else { argv.push(cat(format!("-{}=", short_name(rng, a)), v)); }
                } else {
                    argv.push(if use_long { long_name(rng, cv, a).into_bytes() } else { format!("-{}", short_name(rng, a)).into_bytes() });
                    for v in vals { argv.push(v.clone()); }
                }
            }
            Item::Pos { vals } => { for (k, v) in vals.iter().enumerate() { if i + 1 == inv.items.len() && escape_inside == Some(k) { argv.push(b"--".to_vec()); } argv.push(v.clone()); } }
        }
        i += 1;
    }
    if let Some(t) = &inv.tail { argv.push(b"--".to_vec()); argv.extend(t.iter().cloned()); }
    argv
}

fn short_name(rng: &mut Rng, a: &ArgS) -> char {
    if !a.short_aliases.is_empty() && rng.chance(1, 3) { a.short_aliases[0] } else { a.short.unwrap() }
}

fn long_name(rng: &mut Rng, cv: &Conv, a: &ArgS) -> String {
    let l = a.long.clone().unwrap();
    let mut name = if !a.aliases.is_empty() && rng.chance(1, 3) { a.aliases[0].clone() } else { l };
    if cv.cmd.settings.infer_long_args && rng.chance(1, 3) {
        // an unambiguous prefix: long enough to exclude every other long/alias
        let all: Vec<String> = cv.cmd.args.iter().flat_map(|x| x.long.iter().cloned().chain(x.aliases.iter().cloned())).chain(["help".to_string(), "version".to_string()]).collect();
        for cut in 1..name.chars().count() {
            let p: String = name.chars().take(cut).collect();
            let owners: Vec<&ArgS> = cv.cmd.args.iter().filter(|x| x.long.iter().chain(x.aliases.iter()).any(|n| n.starts_with(&p))).collect();
            let builtin = ["help", "version"].iter().any(|n| n.starts_with(&p));
            if owners.len() == 1 && !builtin && !all.iter().any(|n| *n == p) { name = p; break; }
        }
    }
    format!("--{name}")
}

/// the values an occurrence stores: split at the delimiter
pub fn stored(a: &ArgS, vals: &[Vec<u8>]) -> Vec<Vec<u8>> {
    // an occurrence without a value stores the `default_missing_value`s (split like any other value)
    if vals.is_empty() && !a.default_missing.is_empty() { let dm: Vec<Vec<u8>> = a.default_missing.iter().map(|s| s.as_bytes().to_vec()).collect(); return stored_split(a, &dm); }
    stored_split(a, vals)
}

fn stored_split(a: &ArgS, vals: &[Vec<u8>]) -> Vec<Vec<u8>> {
    match a.delim { Some(d) => vals.iter().flat_map(|v| v.split(|b| *b == d as u8).map(|x| x.to_vec()).collect::<Vec<_>>()).collect(), None => vals.to_vec() }
}
