//! C02 — every argv token is attributed exactly once, per the documented grammar.
use crate::invoc::*;
use crate::spec::*;
use crate::util::*;
use clap::parser::ValueSource;
use std::collections::BTreeMap;

pub fn run(o: &Opts) -> Report {
    let mut rep = Report::new("C02", "conventional commands (options Set/Append with num_args 1, 1..=2, 2, 1.., optional delimiter; flags; 0-2 positionals, the last maybe multi-valued; aliases; optional prefix inference) x intended invocations (ordered occurrences with values) x random spellings (long/short, =/attached/separate, clusters, aliases, prefixes, optional `--`); oracle: raw occurrences per arg equal the intended ones (split only at a declared delimiter), indices unique and increasing in argv order; model must predict the whole ArgMatches; non-trivial = at least 3 occurrences; distinct by canonical request");
    let mut rng = Rng::new(o.seed ^ 0xC02);
    let mut reqs = vec![]; let mut impls = vec![];
    let n_cmds = if o.thorough() { 8000 } else { 1200 };
    for _ in 0..n_cmds {
        let cv = gen_conventional(&mut rng, true);
        if !real_valid(&cv.cmd) { rep.count("invalid_definition(skipped)"); continue; }
        for _ in 0..12 {
            let wt = rng.chance(1, 4);
            let inv = gen_invocation(&mut rng, &cv, wt);
            let argv = render(&mut rng, &cv, &inv, true);
            let (canon, mm, err) = real_parse(&cv.cmd, &argv);
            let req = parse_request(&cv.cmd, &argv);
            // expected occurrences per arg, and the expected argv order of all stored values
            let mut exp: BTreeMap<String, Vec<Vec<Vec<u8>>>> = BTreeMap::new();
            let mut order: Vec<(String, Vec<u8>)> = vec![];
            let multi_pos = cv.pos.last().map(|&i| is_multi(&cv.cmd.args[i])).unwrap_or(false);
            let mut pos_i = 0usize;
            for it in &inv.items {
                match it {
                    Item::Opt { arg, vals } => { let a = &cv.cmd.args[*arg]; let st = stored(a, vals); for v in &st { order.push((a.id.clone(), v.clone())); } if a.action == Some("set") { exp.insert(a.id.clone(), vec![st]); } else { exp.entry(a.id.clone()).or_default().push(st); } }
                    Item::Flag { arg } => { let a = &cv.cmd.args[*arg]; let e = exp.entry(a.id.clone()).or_default(); if a.action == Some("count") { let n = e.first().map(|g| String::from_utf8_lossy(&g[0]).parse::<u32>().unwrap()).unwrap_or(0) + 1; *e = vec![vec![n.to_string().into_bytes()]]; order.retain(|(id, _)| id != &a.id); order.push((a.id.clone(), n.to_string().into_bytes())); } else { *e = vec![vec![b"true".to_vec()]]; order.push((a.id.clone(), b"true".to_vec())); } }
                    Item::Pos { vals } => {
                        for v in vals {
                            let pi = pos_i.min(cv.pos.len() - 1);
                            let a = &cv.cmd.args[cv.pos[pi]];
                            let is_multi = multi_pos && pi + 1 == cv.pos.len();
                            let st = stored(a, std::slice::from_ref(v));
                            for x in &st { order.push((a.id.clone(), x.clone())); }
                            let e = exp.entry(a.id.clone()).or_default();
                            // consecutive values of the multi positional form one occurrence; interleaved ones form new occurrences
                            if is_multi { if let (Some(last), true) = (e.last_mut(), order.len() > st.len() && order[order.len() - st.len() - 1].0 == a.id) { last.extend(st); } else { e.push(st); } }
                            else { e.push(st); pos_i += 1; }
                        }
                    }
                }
            }
            let with_tail = inv.tail.is_some();
            match (&mm, &err) {
                (Some(m), _) if !with_tail => {
                    let mut all_idx: Vec<(usize, String, Vec<u8>)> = vec![];
                    for a in &cv.cmd.args {
                        let got: Vec<Vec<Vec<u8>>> = m.get_raw_occurrences(&a.id).map(|o| o.map(|g| g.map(|v| std::os::unix::ffi::OsStrExt::as_bytes(v).to_vec()).collect()).collect()).unwrap_or_default();
                        let src = m.value_source(&a.id);
                        if src == Some(ValueSource::CommandLine) {
                            let e = exp.get(&a.id).cloned().unwrap_or_default();
                            // grouping of a multi positional's interleaved values is the model's business; compare flattened for it
                            let is_multi_pos = multi_pos && cv.pos.last().map(|&i| cv.cmd.args[i].id == a.id).unwrap_or(false);
                            let same = if is_multi_pos { got.concat() == e.concat() } else { got == e };
                            if !same { rep.oracle_fail("values-misattributed", &req, &format!("{}: got {:?} intended {:?}", a.id, got.iter().map(|g| g.iter().map(|v| String::from_utf8_lossy(v).to_string()).collect::<Vec<_>>()).collect::<Vec<_>>(), e.iter().map(|g| g.iter().map(|v| String::from_utf8_lossy(v).to_string()).collect::<Vec<_>>()).collect::<Vec<_>>())); }
                            let idx: Vec<usize> = m.indices_of(&a.id).map(|i| i.collect()).unwrap_or_default();
                            let flat: Vec<Vec<u8>> = got.concat();
                            if idx.len() != flat.len() { rep.oracle_fail("index-count-differs-from-value-count", &req, &format!("{}: {} indices for {} values", a.id, idx.len(), flat.len())); }
                            for (i, v) in idx.iter().zip(flat.iter()) { all_idx.push((*i, a.id.clone(), v.clone())); }
                        } else if exp.contains_key(&a.id) { rep.oracle_fail("occurrence-dropped", &req, &format!("{} was given but is reported with source {:?}", a.id, src)); }
                    }
                    all_idx.sort();
                    if all_idx.windows(2).any(|w| w[0].0 == w[1].0) { rep.oracle_fail("indices-not-unique", &req, &format!("{all_idx:?}")); }
                    let by_index: Vec<(String, Vec<u8>)> = all_idx.iter().map(|(_, a, v)| (a.clone(), v.clone())).collect();
                    if by_index != order { rep.oracle_fail("indices-not-in-argv-order", &req, &format!("by index {by_index:?} argv order {order:?}")); }
                }
                (None, Some(e)) if !with_tail => {
                    // a fault-free spelling of a valid invocation must not be rejected, unless a required value count is unmet by construction (never generated)
                    rep.oracle_fail("valid-invocation-rejected", &req, &format!("{:?}: argv={:?}", e.kind(), argv.iter().map(|a| String::from_utf8_lossy(a).to_string()).collect::<Vec<_>>()));
                }
                (None, None) => rep.oracle_fail("panic", &req, &canon),
                _ => {}
            }
            rep.case(&req, inv.items.len() >= 3);
            rep.count(if canon.starts_with("OK") { "ok" } else { "rejected" });
            reqs.push(req); impls.push(canon);
        }
    }
    if o.driver != "none" {
        let model = driver_batch(&o.driver, &reqs, o.par);
        for ((req, m), i) in reqs.iter().zip(model.iter()).zip(impls.iter()) { if m != i { rep.disagree("parse", req, m, i); } }
    }
    {
        // a started hyphen-accepting multi-value positional keeps precedence over known short flags
        use crate::pcorr::*;
        let mk = |trailing: bool| { let mut c = CmdS { name: "prog".into(), ..Default::default() };
            c.args.push(ArgS { id: "verbose".into(), short: Some('v'), long: Some("verbose".into()), action: Some("setTrue"), ..Default::default() });
            c.args.push(ArgS { id: "quiet".into(), short: Some('q'), action: Some("count"), ..Default::default() });
            c.args.push(ArgS { id: "cmd".into(), num_vals: Some((1, None)), allow_hyphen: true, trailing_var_arg: trailing, ..Default::default() }); c };
        let mut cases: Vec<(CmdS, Vec<Vec<u8>>, Expect)> = vec![];
        for tr in [false, true] {
            cases.push((mk(tr), bv(&["prog", "ls", "-v", "dir"]), Box::new(|m| { want_occs(m, &[], "cmd", &[&["ls", "-v", "dir"]])?; want_source(m, "verbose", Some(clap::parser::ValueSource::DefaultValue)) })));
            cases.push((mk(tr), bv(&["prog", "ls", "-vq", "--verbose", "-q"]), Box::new(|m| want_occs(m, &[], "cmd", &[&["ls", "-vq", "--verbose", "-q"]]))));
            cases.push((mk(tr), bv(&["prog", "-v", "ls", "-q"]), Box::new(|m| { want_occs(m, &[], "cmd", &[&["ls", "-q"]])?; want_source(m, "verbose", Some(clap::parser::ValueSource::CommandLine)) })));
        }
        run_expect(&mut rep, o, "hyphen-positional-loses-a-value-to-a-known-flag", cases);
        // with `dont_delimit_trailing_values` every value after `--` stays whole, not only the last one
        let mk2 = || { let mut c = CmdS { name: "prog".into(), ..Default::default() };
            c.settings.dont_delimit_trailing_values = true;
            c.args.push(ArgS { id: "verbose".into(), short: Some('v'), action: Some("setTrue"), ..Default::default() });
            c.args.push(ArgS { id: "items".into(), num_vals: Some((0, None)), delim: Some(','), ..Default::default() }); c };
        let cases2: Vec<(CmdS, Vec<Vec<u8>>, Expect)> = vec![
            (mk2(), bv(&["prog", "-v", "--", "c,d", "e,f"]), Box::new(|m| want_occs(m, &[], "items", &[&["c,d", "e,f"]]))),
            (mk2(), bv(&["prog", "--", "a,b", "c", "d,e", "f"]), Box::new(|m| want_occs(m, &[], "items", &[&["a,b", "c", "d,e", "f"]]))),
            (mk2(), bv(&["prog", "a,b", "c,d"]), Box::new(|m| want_occs(m, &[], "items", &[&["a", "b", "c", "d"]]))),
        ];
        run_expect(&mut rep, o, "trailing-value-split-at-the-delimiter", cases2);
    }
    {
        use crate::pcorr::*;
        // a multi-valued positional that has started collecting keeps collecting: subcommand names among its values are
        // values; before it starts (or after a flag ended it) the same word dispatches
        let mk3 = || { let mut c = CmdS { name: "prog".into(), ..Default::default() };
            c.args.push(ArgS { id: "verbose".into(), short: Some('v'), action: Some("setTrue"), ..Default::default() });
            c.args.push(ArgS { id: "files".into(), num_vals: Some((1, None)), ..Default::default() });
            let mut push = CmdS { name: "push".into(), aliases: vec!["up".into()], ..Default::default() };
            push.args.push(ArgS { id: "force".into(), long: Some("force".into()), action: Some("setTrue"), ..Default::default() });
            c.subs.push(push); c };
        let cases3: Vec<(CmdS, Vec<Vec<u8>>, Expect)> = vec![
            (mk3(), bv(&["prog", "a.txt", "push", "b.txt"]), Box::new(|m| { want_no_sub(m)?; want_occs(m, &[], "files", &[&["a.txt", "push", "b.txt"]]) })),
            (mk3(), bv(&["prog", "-v", "a.txt", "up"]), Box::new(|m| { want_no_sub(m)?; want_occs(m, &[], "files", &[&["a.txt", "up"]]) })),
            (mk3(), bv(&["prog", "-v", "push", "--force"]), Box::new(|m| { want_source(m, "files", None)?; want_occs(m, &["push"], "force", &[&["true"]]) })),
            (mk3(), bv(&["prog", "a.txt", "-v", "push"]), Box::new(|m| { want_occs(m, &[], "files", &[&["a.txt"]])?; if m.subcommand_name() == Some("push") { Ok(()) } else { Err(format!("subcommand {:?}", m.subcommand_name())) } })),
        ];
        run_expect(&mut rep, o, "collecting-positional-loses-a-value-to-a-subcommand", cases3);
        // `<files>... <target> [SUBCOMMAND]`: the look-ahead that keeps the last value for <target> also stops at a subcommand name
        let mk4 = || { let mut c = CmdS { name: "prog".into(), ..Default::default() };
            c.args.push(ArgS { id: "files".into(), num_vals: Some((1, None)), required: true, ..Default::default() });
            c.args.push(ArgS { id: "target".into(), required: true, ..Default::default() });
            let mut sub = CmdS { name: "sub".into(), ..Default::default() };
            sub.args.push(ArgS { id: "x".into(), short: Some('x'), action: Some("setTrue"), ..Default::default() });
            c.subs.push(sub); c };
        let sub_is = |m: &clap::ArgMatches, want: Option<&str>| if m.subcommand_name() == want { Ok(()) } else { Err(format!("subcommand {:?}, expected {want:?}", m.subcommand_name())) };
        let cases4: Vec<(CmdS, Vec<Vec<u8>>, Expect)> = vec![
            (mk4(), bv(&["prog", "a", "b", "sub"]), Box::new(move |m| { want_occs(m, &[], "files", &[&["a"]])?; want_occs(m, &[], "target", &[&["b"]])?; sub_is(m, Some("sub")) })),
            (mk4(), bv(&["prog", "a", "b", "c", "sub", "-x"]), Box::new(move |m| { want_occs(m, &[], "files", &[&["a", "b"]])?; want_occs(m, &[], "target", &[&["c"]])?; sub_is(m, Some("sub")) })),
            (mk4(), bv(&["prog", "a", "b"]), Box::new(move |m| { want_occs(m, &[], "files", &[&["a"]])?; want_occs(m, &[], "target", &[&["b"]])?; sub_is(m, None) })),
        ];
        run_expect(&mut rep, o, "value-given-to-another-argument", cases4);
        // an option that is present without a value is present: its default value is for when it is absent
        let mk5 = || { let mut c = CmdS { name: "prog".into(), ..Default::default() };
            c.args.push(ArgS { id: "level".into(), long: Some("level".into()), short: Some('l'), action: Some("append"), num_vals: Some((0, Some(1))), default_vals: vec!["info".into()], ..Default::default() });
            c.args.push(ArgS { id: "color".into(), long: Some("color".into()), action: Some("set"), num_vals: Some((0, Some(1))), default_vals: vec!["auto".into()], ..Default::default() });
            c.args.push(ArgS { id: "file".into(), ..Default::default() }); c };
        let cases5: Vec<(CmdS, Vec<Vec<u8>>, Expect)> = vec![
            (mk5(), bv(&["prog", "--color=never", "x.txt", "--level"]), Box::new(|m| { want_source(m, "level", Some(clap::parser::ValueSource::CommandLine))?; want_occs(m, &[], "level", &[&[]])?; want_occs(m, &[], "color", &[&["never"]]) })),
            (mk5(), bv(&["prog", "--color", "-l", "debug"]), Box::new(|m| { want_source(m, "color", Some(clap::parser::ValueSource::CommandLine))?; want_occs(m, &[], "color", &[&[]])?; want_occs(m, &[], "level", &[&["debug"]]) })),
            (mk5(), bv(&["prog", "-l", "-l", "debug", "--color", "always"]), Box::new(|m| { want_occs(m, &[], "level", &[&[], &["debug"]])?; want_occs(m, &[], "color", &[&["always"]]) })),
            (mk5(), bv(&["prog"]), Box::new(|m| { want_source(m, "level", Some(clap::parser::ValueSource::DefaultValue))?; want_occs(m, &[], "level", &[&["info"]]) })),
        ];
        run_expect(&mut rep, o, "value-invented-for-a-present-argument", cases5);
        // positionals are filled in INDEX order, whatever order they were declared in
        let mk6 = |multi_last: bool| { let mut c = CmdS { name: "cp".into(), ..Default::default() };
            c.args.push(ArgS { id: "dest".into(), index: Some(2), num_vals: if multi_last { Some((1, None)) } else { None }, ..Default::default() });
            c.args.push(ArgS { id: "force".into(), short: Some('f'), action: Some("setTrue"), ..Default::default() });
            c.args.push(ArgS { id: "src".into(), index: Some(1), ..Default::default() });
            c };
        let cases6: Vec<(CmdS, Vec<Vec<u8>>, Expect)> = vec![
            (mk6(false), bv(&["cp", "a.txt", "b.txt"]), Box::new(|m| { want_occs(m, &[], "src", &[&["a.txt"]])?; want_occs(m, &[], "dest", &[&["b.txt"]]) })),
            (mk6(false), bv(&["cp", "-f", "a.txt", "--", "b.txt"]), Box::new(|m| { want_occs(m, &[], "src", &[&["a.txt"]])?; want_occs(m, &[], "dest", &[&["b.txt"]]) })),
            (mk6(true), bv(&["cp", "a.txt", "b.txt", "c.txt"]), Box::new(|m| { want_occs(m, &[], "src", &[&["a.txt"]])?; want_occs(m, &[], "dest", &[&["b.txt", "c.txt"]]) })),
            (mk6(true), bv(&["cp", "a.txt"]), Box::new(|m| { want_occs(m, &[], "src", &[&["a.txt"]])?; want_occs(m, &[], "dest", &[]) })),
        ];
        run_expect(&mut rep, o, "positional-filled-out-of-index-order", cases6);
        // the command-level `trailing_var_arg` switch belongs to the positional with the HIGHEST index: once it has a value,
        // every later token is one of its values
        let mk7 = |arg_level: bool| { let mut c = CmdS { name: "prog".into(), ..Default::default() };
            c.settings.trailing_var_arg = !arg_level;
            c.args.push(ArgS { id: "x".into(), short: Some('x'), action: Some("setTrue"), ..Default::default() });
            c.args.push(ArgS { id: "first".into(), ..Default::default() });
            c.args.push(ArgS { id: "rest".into(), num_vals: Some((1, None)), trailing_var_arg: arg_level, ..Default::default() });
            c };
        let mut cases7: Vec<(CmdS, Vec<Vec<u8>>, Expect)> = vec![];
        for al in [true, false] {
            cases7.push((mk7(al), bv(&["prog", "f", "cmd", "-x", "--y", "z"]), Box::new(|m| { want_occs(m, &[], "first", &[&["f"]])?; want_occs(m, &[], "rest", &[&["cmd", "-x", "--y", "z"]])?; want_occs(m, &[], "x", &[&["false"]]) })));
            cases7.push((mk7(al), bv(&["prog", "-x", "f", "cmd"]), Box::new(|m| { want_occs(m, &[], "rest", &[&["cmd"]])?; want_occs(m, &[], "x", &[&["true"]]) })));
        }
        run_expect(&mut rep, o, "trailing-var-arg-value-taken-for-a-flag", cases7);
    }
    crate::pcorr::run_generic(&mut rep, o, 0xC02);
    rep
}
