import ClapModel
import Driver.L3
namespace Clap.Driver
open Clap BashGen

/-- `name nalias a.. nopts o.. nvopts v.. nsubs SUB..` (recursive, depth-bounded) -/
def decGNode : Nat → Dec GNode
  | 0 => failure
  | fuel+1 => do
    let name ← hexB
    let aliases ← listOf hexB
    let opts ← listOf hexB
    let vopts ← listOf hexB
    let subs ← listOf (decGNode fuel)
    pure (.mk name aliases opts vopts subs)

def fmtReply : Option Reply → String
  | none => "PANIC"
  | some .nothing => "NOTHING"
  | some .values => "VALUES"
  | some (.words ws) => "WORDS " ++ " ".intercalate (ws.map hexOfBytes)

/-- `bashc TREE cword nwords w..` -/
def handleBashc (args : List String) : Option String :=
  let d : Dec String := do
    let root ← decGNode 8
    let cword ← nat
    let words ← listOf hexB
    pure (fmtReply (complete root words cword))
  (d.run args).map (·.1)

/-- `bashcases TREE` → the `case "${cmd},${i}"` labels in script order and the detail arm labels -/
def handleBashCases (args : List String) : Option String :=
  let d : Dec String := do
    let root ← decGNode 8
    let cases := (caseTable root).map fun t => hexOfBytes (t.1 ++ [44] ++ t.2.1) ++ ">" ++ hexOfBytes t.2.2
    let dets := match details root with
      | none => "PANIC"
      | some ds => " ".intercalate (ds.map fun d => hexOfBytes d.label ++ ":" ++ toString d.level)
    pure (" ".intercalate cases ++ " | " ++ dets)
  (d.run args).map (·.1)

def handleL7 (cmd : String) (args : List String) : Option String :=
  if cmd == "bashc" then some ((handleBashc args).getD "bad-op")
  else if cmd == "bashcases" then some ((handleBashCases args).getD "bad-op")
  else none

end Clap.Driver
