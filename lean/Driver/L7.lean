import ClapModel
import Driver.L3
namespace Clap.Driver
open Clap BashGen CaseGen

/-- `name nalias a.. nopts o.. nvopts v.. nsubs SUB..` (recursive, depth-bounded) -/
def decGNode : Nat → Dec GNode
  | 0 => failure
  | fuel+1 => do
    let name ← hexB
    let aliases ← listOf hexB
    let opts ← listOf hexB
    let vopts ← listOf hexB
    let subs ← listOf (decGNode fuel)
    pure (.mk name aliases opts vopts subs)

def fmtReply : Option Reply → String
  | none => "PANIC"
  | some .nothing => "NOTHING"
  | some .values => "VALUES"
  | some (.words ws) => "WORDS " ++ " ".intercalate (ws.map hexOfBytes)

/-- `bashc TREE cword nwords w..` -/
def handleBashc (args : List String) : Option String :=
  let d : Dec String := do
    let root ← decGNode 8
    let cword ← nat
    let words ← listOf hexB
    pure (fmtReply (complete root words cword))
  (d.run args).map (·.1)

/-- `bashcases TREE` → the `case "${cmd},${i}"` labels in script order and the detail arm labels -/
def handleBashCases (args : List String) : Option String :=
  let d : Dec String := do
    let root ← decGNode 8
    let cases := (caseTable root).map fun t => hexOfBytes (t.1 ++ [44] ++ t.2.1) ++ ">" ++ hexOfBytes t.2.2
    let dets := match details root with
      | none => "PANIC"
      | some ds => " ".intercalate (ds.map fun d => hexOfBytes d.label ++ ":" ++ toString d.level)
    pure (" ".intercalate cases ++ " | " ++ dets)
  (d.run args).map (·.1)

def strB : Dec Shell.Str := do
  let b ← hexB
  ofOpt ((String.fromUTF8? (ByteArray.mk b.toArray)).map String.toList)

def optStrB : Dec (Option Shell.Str) := do
  let b ← optB
  match b with
  | none => pure none
  | some x => ofOpt ((String.fromUTF8? (ByteArray.mk x.toArray)).map fun s => some s.toList)

def decCOpt : Dec COpt := do
  let shorts ← listOf strB
  let longs ← listOf strB
  let help ← optStrB
  let t ← tok
  pure { shorts, longs, help, takes := t == "1" }

/-- `nnames name.. about|~ nopts OPT.. nsubs SUB..` -/
def decCNode : Nat → Dec CNode
  | 0 => failure
  | fuel+1 => do
    let names ← listOf strB
    let about ← optStrB
    let opts ← listOf decCOpt
    let subs ← listOf (decCNode fuel)
    pure (.mk names about opts subs)

/-- `casegen <elvish|pwsh> <bin> TREE` → hex of the whole script -/
def handleCaseGen (args : List String) : Option String :=
  let d : Dec String := do
    let t ← tok
    let sh ← ofOpt (if t == "elvish" then some Sh2.elvish else if t == "pwsh" then some Sh2.pwsh else none)
    let bin ← strB
    let root ← decCNode 8
    pure (hexOfBytes (String.ofList (script sh bin root)).toUTF8.toList)
  (d.run args).map (·.1)

def handleL7 (cmd : String) (args : List String) : Option String :=
  if cmd == "casegen" then some ((handleCaseGen args).getD "bad-op") else
  if cmd == "bashc" then some ((handleBashc args).getD "bad-op")
  else if cmd == "bashcases" then some ((handleBashCases args).getD "bad-op")
  else none

end Clap.Driver
