import ClapModel
import Driver.L3
namespace Clap.Driver
open Clap BashGen CaseGen

/-- `name nalias a.. nopts o.. nvopts v.. nsubs SUB..` (recursive, depth-bounded) -/
def decGNode : Nat → Dec GNode
  | 0 => failure
  | fuel+1 => do
    let name ← hexB
    let aliases ← listOf hexB
    let opts ← listOf hexB
    let vopts ← listOf hexB
    let subs ← listOf (decGNode fuel)
    pure (.mk name aliases opts vopts subs)

def fmtReply : Option Reply → String
  | none => "PANIC"
  | some .nothing => "NOTHING"
  | some .values => "VALUES"
  | some (.words ws) => "WORDS " ++ " ".intercalate (ws.map hexOfBytes)

/-- `bashc TREE cword nwords w..` -/
def handleBashc (args : List String) : Option String :=
  let d : Dec String := do
    let root ← decGNode 8
    let cword ← nat
    let words ← listOf hexB
    pure (fmtReply (complete root words cword))
  (d.run args).map (·.1)

/-- `bashcases TREE` → the `case "${cmd},${i}"` labels in script order and the detail arm labels -/
def handleBashCases (args : List String) : Option String :=
  let d : Dec String := do
    let root ← decGNode 8
    let cases := (caseTable root).map fun t => hexOfBytes (t.1 ++ [44] ++ t.2.1) ++ ">" ++ hexOfBytes t.2.2
    let dets := match details root with
      | none => "PANIC"
      | some ds => " ".intercalate (ds.map fun d => hexOfBytes d.label ++ ":" ++ toString d.level)
    pure (" ".intercalate cases ++ " | " ++ dets)
  (d.run args).map (·.1)

def strB : Dec Shell.Str := do
  let b ← hexB
  ofOpt ((String.fromUTF8? (ByteArray.mk b.toArray)).map String.toList)

def optStrB : Dec (Option Shell.Str) := do
  let b ← optB
  match b with
  | none => pure none
  | some x => ofOpt ((String.fromUTF8? (ByteArray.mk x.toArray)).map fun s => some s.toList)

def decCOpt : Dec COpt := do
  let shorts ← listOf strB
  let longs ← listOf strB
  let help ← optStrB
  let t ← tok
  pure { shorts, longs, help, takes := t == "1" }

/-- `nnames name.. about|~ nopts OPT.. nsubs SUB..` -/
def decCNode : Nat → Dec CNode
  | 0 => failure
  | fuel+1 => do
    let names ← listOf strB
    let about ← optStrB
    let opts ← listOf decCOpt
    let subs ← listOf (decCNode fuel)
    pure (.mk names about opts subs)

/-- `casegen <elvish|pwsh> <bin> TREE` → hex of the whole script -/
def handleCaseGen (args : List String) : Option String :=
  let d : Dec String := do
    let t ← tok
    let sh ← ofOpt (if t == "elvish" then some Sh2.elvish else if t == "pwsh" then some Sh2.pwsh else none)
    let bin ← strB
    let root ← decCNode 8
    pure (hexOfBytes (String.ofList (script sh bin root)).toUTF8.toList)
  (d.run args).map (·.1)

def decFOpt : Dec FishGen.FOpt := do
  let shorts ← listOf strB
  let longs ← listOf strB
  let help ← optStrB
  let t ← tok
  let pvt ← tok
  let pvs ← if pvt == "~" then pure none else do
    let n ← ofOpt pvt.toNat?
    let l ← many (do let nm ← strB; let h ← strB; let hid ← tok; pure (nm, h, hid == "1")) n
    pure (some l)
  let ht ← tok
  let hint ← ofOpt (match ht with
    | "0" => some FishGen.Hint.unknown | "1" => some .path | "2" => some .dir | "3" => some .command
    | "4" => some .user | "5" => some .host | "6" => some .other | _ => none)
  let short1 ← optStrB
  let long1 ← optStrB
  pure { shorts, longs, help, takes := t == "1", pvs, hint, short1, long1 }

def decFNode : Nat → Dec FishGen.FNode
  | 0 => failure
  | fuel+1 => do
    let names ← listOf strB
    let about ← optStrB
    let opts ← listOf decFOpt
    let hp ← tok
    let subs ← listOf (decFNode fuel)
    pure (.mk names about opts (hp == "1") subs)

/-- `fishgen <bin> TREE` → hex of the whole fish script -/
def handleFishGen (args : List String) : Option String :=
  let d : Dec String := do
    let bin ← strB
    let root ← decFNode 8
    pure (hexOfBytes (String.ofList (FishGen.script bin root)).toUTF8.toList)
  (d.run args).map (·.1)

def decNArg : Dec NuGen.NArg := do
  let id ← strB
  let flags ← tok      -- positional, append, required, takes, pathHint
  let b := fun (i : Nat) => (flags.toList.getD i '0') == '1'
  let shorts ← listOf strB
  let longs ← listOf strB
  let pvs ← listOf strB
  let help ← optStrB
  pure { id, positional := b 0, append := b 1, required := b 2, takes := b 3, pathHint := b 4, shorts, longs, pvs, help }

def decNNode : Nat → Dec NuGen.NNode
  | 0 => failure
  | fuel+1 => do
    let bin ← strB
    let about ← optStrB
    let args ← listOf decNArg
    let subs ← listOf (decNNode fuel)
    pure (.mk bin about args subs)

/-- `nugen TREE` → hex of the whole nushell script -/
def handleNuGen (args : List String) : Option String :=
  let d : Dec String := do
    let root ← decNNode 8
    pure (hexOfBytes (String.ofList (NuGen.script root)).toUTF8.toList)
  (d.run args).map (·.1)

def decZArg : Dec ZshGen.ZArg := do
  let id ← strB
  let flags ← tok      -- positional, takes, star, required, last, multi
  let b := fun (i : Nat) => (flags.toList.getD i '0') == '1'
  let short1 ← optStrB
  let shortAliases ← listOf strB
  let long1 ← optStrB
  let longAliases ← listOf strB
  let shortsAll ← listOf strB
  let longsAll ← listOf strB
  let help ← optStrB
  let valueName ← optStrB
  let minVals ← nat
  let conflicts ← listOf strB
  let pvt ← tok
  let pvs ← if pvt == "~" then pure none else do
    let n ← ofOpt pvt.toNat?
    let l ← many (do let nm ← strB; let h ← optStrB; let hid ← tok; pure (nm, h, hid == "1")) n
    pure (some l)
  let ht ← tok
  let hint ← ofOpt (match ht with
    | "0" => some ZshGen.Hint.unknown | "1" => some .other | "2" => some .files | "3" => some .dir | "4" => some .exe
    | "5" => some .cmdName | "6" => some .cmdString | "7" => some .cmdArgs | "8" => some .user | "9" => some .host
    | "10" => some .url | "11" => some .email | "12" => some .unsupported | _ => none)
  let terminator ← optStrB
  pure { id, positional := b 0, takes := b 1, star := b 2, required := b 3, last := b 4, multi := b 5, short1, shortAliases, long1, longAliases,
         shortsAll, longsAll, help, valueName, minVals, conflicts, pvs, hint, terminator }

def decZNode : Nat → Dec ZshGen.ZNode
  | 0 => failure
  | fuel+1 => do
    let name ← strB
    let bin ← strB
    let about ← optStrB
    let aliases ← listOf strB
    let args ← listOf decZArg
    let subs ← listOf (decZNode fuel)
    pure (.mk name bin about aliases args subs)

/-- `zshgen TREE` → hex of the whole zsh script -/
def handleZshGen (args : List String) : Option String :=
  let d : Dec String := do
    let root ← decZNode 8
    pure (hexOfBytes (String.ofList (ZshGen.script 8 root)).toUTF8.toList)
  (d.run args).map (·.1)

def handleL7 (cmd : String) (args : List String) : Option String :=
  if cmd == "zshgen" then some ((handleZshGen args).getD "bad-op") else
  if cmd == "nugen" then some ((handleNuGen args).getD "bad-op") else
  if cmd == "fishgen" then some ((handleFishGen args).getD "bad-op") else
  if cmd == "casegen" then some ((handleCaseGen args).getD "bad-op") else
  if cmd == "bashc" then some ((handleBashc args).getD "bad-op")
  else if cmd == "bashcases" then some ((handleBashCases args).getD "bad-op")
  else none

end Clap.Driver
