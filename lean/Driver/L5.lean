import ClapModel
import Driver.L3
namespace Clap.Driver
open Clap Man

def decBit : Dec Bool := do let t ← tok; pure (t == "1")

def decMArg : Dec MArg := do
  let id ← hexB
  let short ← optB
  let long ← optB
  let vnT ← tok
  let valNames ← if vnT == "~" then pure none else do
    let n ← ofOpt vnT.toNat?
    let v ← many hexB n
    pure (some v)
  let b ← bits
  let g := fun i => b.getD i false
  let heading ← optB
  let help ← optB
  let longHelp ← optB
  let defaults ← listOf hexB
  let env ← optB
  let pvs ← listOf (do
    let n ← hexB
    let h ← optB
    let hd ← decBit
    pure ({ name := n, help := h, hide := hd } : MPV))
  pure { id, short, long, valNames, takesValues := g 0, required := g 1, hide := g 2, isCount := g 3, hideShortHelp := g 4,
         hideLongHelp := g 5, hideDefault := g 6, hideEnv := g 7, hidePV := g 8, heading, help, longHelp, defaults, env, pvs }

def decMSub : Dec MSub := do
  let name ← hexB
  let about ← optB
  let hide ← decBit
  pure { name, about, hide }

def decMCmd : Dec MCmd := do
  let name ← hexB
  let displayName ← optB
  let binName ← optB
  let about ← optB
  let longAbout ← optB
  let version ← optB
  let longVersion ← optB
  let author ← optB
  let afterHelp ← optB
  let afterLongHelp ← optB
  let subHeading ← optB
  let subValueName ← optB
  let subRequired ← decBit
  let args ← listOf decMArg
  let subs ← listOf decMSub
  let ovTitle ← optB
  let ovSection ← optB
  let ovDate ← optB
  let ovSource ← optB
  let ovManual ← optB
  pure { name, displayName, binName, about, longAbout, version, longVersion, author, afterHelp, afterLongHelp, subHeading,
         subValueName, subRequired, args, subs, ovTitle, ovSection, ovDate, ovSource, ovManual }

/-- `man CMD…` → `OK <hex of the page>` | `PANIC` -/
def handleMan (args : List String) : Option String :=
  (decMCmd.run args).map fun (c, _) =>
    match manPage c with
    | some p => "OK " ++ hexOfBytes p
    | none => "PANIC"

/-- `roff <n> (R|I|B hex | BR)…` one text line; `roffc name nargs arg…` one control line -/
def handleRoff (args : List String) : Option String :=
  let d : Dec String := do
    let n ← nat
    let inl ← many (do
      let t ← tok
      if t == "BR" then pure Roff.Inline.lineBreak else do
        let b ← hexB
        if t == "R" then pure (Roff.Inline.roman b) else if t == "I" then pure (Roff.Inline.italic b)
        else if t == "B" then pure (Roff.Inline.bold b) else failure) n
    pure (hexOfBytes (Roff.render [.text inl]))
  (d.run args).map (·.1)

def handleRoffC (args : List String) : Option String :=
  let d : Dec String := do
    let name ← hexB
    let as ← listOf hexB
    pure (hexOfBytes (Roff.render [.control name as]))
  (d.run args).map (·.1)

def handleL5 (cmd : String) (args : List String) : Option String :=
  if cmd == "man" then some ((handleMan args).getD "bad-op")
  else if cmd == "roff" then some ((handleRoff args).getD "bad-op")
  else if cmd == "roffc" then some ((handleRoffC args).getD "bad-op")
  else none

end Clap.Driver
