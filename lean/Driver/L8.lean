import ClapModel
import Driver.L3
namespace Clap.Driver
open Clap Engine

def decEArg : Dec EArg := do
  let id ← hexB
  let shorts ← listOf hexB
  let longs ← listOf hexB
  let hiddenLongs ← listOf hexB
  let long ← optB
  let b ← bits
  let mn ← nat
  let mx ← nat
  let idxT ← tok
  let index ← if idxT == "~" then pure none else ofOpt (idxT.toNat?.map some)
  let pvT ← tok
  let pvs ← if pvT == "~" then pure none else do
    let n ← ofOpt pvT.toNat?
    let l ← many (do let nm ← hexB; let h ← tok; pure ({ name := nm, hide := h == "1" } : EPV)) n
    pure (some l)
  let delimiter ← optB
  pure { id, shorts, longs, hiddenLongs, long, takesValues := b.getD 0 false, allowHyphen := b.getD 1 false, hide := b.getD 2 false,
         minVals := mn, maxVals := mx, index, pvs, delimiter }

def decECmd : Nat → Dec ECmd
  | 0 => failure
  | fuel+1 => do
    let names ← listOf hexB
    let hidden ← listOf hexB
    let b ← bits
    let args ← listOf decEArg
    let subs ← listOf (decECmd fuel)
    pure (.mk names hidden (b.getD 0 false) (b.getD 1 false) args subs)

def fmtOut : Out → String
  | .noCompletion => "NONE"
  | .panic s => "PANIC " ++ s
  | .cands cs =>
    let items := cs.map fun c => hexOfBytes c.value ++ ":" ++ b01 c.hidden
    "CANDS " ++ " ".intercalate (items.toArray.qsort (· < ·)).toList

/-- `engine CMD idx nargs arg..` -/
def handleEngine (args : List String) : Option String :=
  let d : Dec String := do
    let c ← decECmd 8
    let idx ← nat
    let argv ← listOf hexB
    pure (fmtOut (complete c argv idx))
  (d.run args).map (·.1)

def handleL8 (cmd : String) (args : List String) : Option String :=
  if cmd == "engine" then some ((handleEngine args).getD "bad-op") else none

end Clap.Driver
