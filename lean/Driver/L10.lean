import ClapModel.Usage
import Driver.L3
namespace Clap.Driver
open Clap

/-- `UI <usageName> <override|~> <subValueName|~> <n hiddenSub…> <n (id <k name…>)…>` -/
def decUInfo : Dec Usage.UInfo := do
  let _ ← tok  -- "UI"
  let usageName ← hexB; let overrideUsage ← optB; let subValueName ← optB
  let hiddenSubs ← listOf hexB
  let valNames ← listOf (do let id ← hexB; let ns ← listOf hexB; pure (id, ns))
  pure { usageName, overrideUsage, subValueName, hiddenSubs, valNames }

def fmtOB : Option Bytes → String
  | some b => hexOfBytes b
  | none => "PANIC"

/-- `usage <depth> CMD … <UI root> <k> <UI sub>…`  →
`U <usage line> R <n piece…> [S <usage_name> <usage line>]…` for the built root and its (user-defined) subcommands -/
def handleUsage (args : List String) : String :=
  match args with
  | d :: rest =>
    match d.toNat? with
    | none => "bad-op"
    | some depth =>
      match (do let c ← decCmd (depth + 3); let u ← decUInfo; let us ← listOf decUInfo; pure (c, u, us) : Dec _).run rest with
      | some ((cmd, u, us), _) =>
        let b := Build.buildAll (depth + 2) cmd
        let root := "U " ++ fmtOB (Usage.renderUsage b u)
        let reqs := match Usage.requiredUsageFrom b u (Validator.requiredGraph b) [] none true with
          | some ps => s!" R {ps.length}" ++ String.join (ps.map fun p => " " ++ hexOfBytes p)
          | none => " R PANIC"
        let subs := (b.subs.filter fun s => s.name != Usage.b_help).zip us
        let subOut := subs.map fun (s, su) =>
          match Usage.subUsageName b u u.usageName s with
          | some un => s!" S {hexOfBytes un} " ++ fmtOB (Usage.renderUsage s { su with usageName := un })
          | none => " S PANIC PANIC"
        root ++ reqs ++ String.join subOut
      | none => "bad-cmd"
  | _ => "bad-op"

def handleL10 (cmd : String) (args : List String) : Option String :=
  if cmd == "usage" then some (handleUsage args) else none

end Clap.Driver
