import ClapModel.Usage
import Driver.L3
namespace Clap.Driver
open Clap

/-- `UI <usageName> <override|~> <subValueName|~> <n hiddenSub…> <n (id <k name…>)…>` -/
def decUInfo : Dec Usage.UInfo := do
  let _ ← tok  -- "UI"
  let usageName ← hexB; let overrideUsage ← optB; let subValueName ← optB
  let hiddenSubs ← listOf hexB
  let valNames ← listOf (do let id ← hexB; let ns ← listOf hexB; pure (id, ns))
  pure { usageName, overrideUsage, subValueName, hiddenSubs, valNames }

def fmtOB : Option Bytes → String
  | some b => hexOfBytes b
  | none => "PANIC"

/-- `usage <depth> CMD … <UI root> <k> <UI sub>…`  →
`U <usage line> R <n piece…> [S <usage_name> <usage line>]…` for the built root and its (user-defined) subcommands -/
def handleUsage (args : List String) : String :=
  match args with
  | d :: rest =>
    match d.toNat? with
    | none => "bad-op"
    | some depth =>
      match (do let c ← decCmd (depth + 3); let u ← decUInfo; let us ← listOf decUInfo; pure (c, u, us) : Dec _).run rest with
      | some ((cmd, u, us), _) =>
        let b := Build.buildAll (depth + 2) cmd
        let root := "U " ++ fmtOB (Usage.renderUsage b u)
        let reqs := match Usage.requiredUsageFrom b u (Validator.requiredGraph b) [] none true with
          | some ps => s!" R {ps.length}" ++ String.join (ps.map fun p => " " ++ hexOfBytes p)
          | none => " R PANIC"
        let subs := (b.subs.filter fun s => s.name != Usage.b_help).zip us
        let subOut := subs.map fun (s, su) =>
          match Usage.subUsageName b u u.usageName s with
          | some un => s!" S {hexOfBytes un} " ++ fmtOB (Usage.renderUsage s { su with usageName := un })
          | none => " S PANIC PANIC"
        root ++ reqs ++ String.join subOut
      | none => "bad-cmd"
  | _ => "bad-op"

/-- `usageerr <depth> CMD … <UI> ARGV <n> tok…` (a command without subcommands): what a `MissingRequiredArgument`
error carries - `MR <n> <required-usage string>… L <usage line>` - or the outcome otherwise -/
def handleUsageErr (args : List String) : String :=
  match args with
  | d :: rest =>
    match d.toNat? with
    | none => "bad-op"
    | some depth =>
      match (do let c ← decCmd (depth + 3); let u ← decUInfo; pure (c, u) : Dec _).run rest with
      | some ((cmd, u), "ARGV" :: _ :: toks) =>
        match toks.mapM bytesOfHex with
        | none => "bad-op"
        | some argv =>
          let b := Build.buildAll (depth + 2) cmd
          let toks := if b.settings.noBinaryName then argv else argv.drop 1
          match Parser.getMatchesWith (fun _ _ => false) (depth + 2) b toks {} with
          | none => "OUT-OF-FUEL"
          | some (_, .ok ()) => "OK"
          | some (p, .error .missingRequiredArgument) =>
            match Validator.potential b p.args with
            | none => "PANIC"
            | some pot =>
              match Usage.missingRequiredError b u p.args pot with
              | none => "PANIC"
              | some (rs, line) => s!"MR {rs.length}" ++ String.join (rs.map fun r => " " ++ hexOfBytes r) ++ " L " ++ hexOfBytes line
          | some (_, .error e) => "ERR " ++ fmtEK e
      | _ => "bad-cmd"
  | _ => "bad-op"

/-- `UT <UI …> <flatten 0|1> <n> <UT …>…` -/
def decUTree : Nat → Dec Usage.UTree
  | 0 => failure
  | fuel+1 => do
    let _ ← tok  -- "UT"
    let u ← decUInfo
    let fl ← nat
    let subs ← listOf (decUTree fuel)
    pure (.mk u (fl == 1) subs)

/-- `usaget <depth> CMD … <UT tree>` → `U <usage line> [S <usage line>]…` for the built root and its user-defined
subcommands, `flatten_help` included (one line per visible subcommand, recursively) -/
def handleUsageTree (args : List String) : String :=
  match args with
  | d :: rest =>
    match d.toNat? with
    | none => "bad-op"
    | some depth =>
      match (do let c ← decCmd (depth + 3); let t ← decUTree (depth + 3); pure (c, t) : Dec _).run rest with
      | some ((cmd, t), _) =>
        let b := Build.buildAll (depth + 2) cmd
        let u := t.info
        let bin := u.usageName
        let root := "U " ++ fmtOB (Usage.renderUsageTree (depth + 4) b t bin)
        let subOut := (Usage.pairSubs b.subs t.subs).filterMap fun (s, st?) =>
          st?.map fun st =>
            match Usage.subUsageName b u bin s with
            | some un => " S " ++ fmtOB (Usage.renderUsageTree (depth + 4) s (.mk { st.info with usageName := un } st.flatten st.subs) (bin ++ [32] ++ s.name))
            | none => " S PANIC"
        root ++ String.join subOut
      | none => "bad-cmd"
  | _ => "bad-op"

/-- `conflicterr <depth> CMD … <UI> ARGV <n> tok…` (a command without subcommands): what an `ArgumentConflict` error of
the VALIDATOR carries - `CF <InvalidArg> <n> <PriorArg>… L <usage line>`; `CF-PARSE` when the parser itself rejects -/
def handleConflictErr (args : List String) : String :=
  match args with
  | d :: rest =>
    match d.toNat? with
    | none => "bad-op"
    | some depth =>
      match (do let c ← decCmd (depth + 3); let u ← decUInfo; pure (c, u) : Dec _).run rest with
      | some ((cmd, u), "ARGV" :: _ :: toks) =>
        match toks.mapM bytesOfHex with
        | none => "bad-op"
        | some argv =>
          let b := Build.buildAll (depth + 2) cmd
          let toks := if b.settings.noBinaryName then argv else argv.drop 1
          match Parser.parse (fun _ _ => false) (fun _ _ _ => none) b toks {} with
          | some (p1, .ok ()) =>
            match Parser.resolvePending b p1 with
            | (p2, .ok ()) =>
              match Parser.addEnv b b.args p2 with
              | (p3, .ok ()) =>
                match Parser.addDefaults b b.args p3 with
                | (p4, .ok ()) =>
                  match Validator.potential b p4.args with
                  | none => "PANIC"
                  | some pot =>
                    match Usage.conflictError b u p4.args pot with
                    | none => "PANIC"
                    | some none => "NO-CONFLICT"
                    | some (some (ia, prior, line)) =>
                      s!"CF {hexOfBytes ia} {prior.length}" ++ String.join (prior.map fun r => " " ++ hexOfBytes r) ++ " L " ++ hexOfBytes line
                | _ => "CF-PARSE"
              | _ => "CF-PARSE"
            | _ => "CF-PARSE"
          | _ => "CF-PARSE"
      | _ => "bad-cmd"
  | _ => "bad-op"

def handleL10 (cmd : String) (args : List String) : Option String :=
  if cmd == "conflicterr" then some (handleConflictErr args)
  else if cmd == "usaget" then some (handleUsageTree args)
  else if cmd == "usage" then some (handleUsage args)
  else if cmd == "usageerr" then some (handleUsageErr args) else none

end Clap.Driver
