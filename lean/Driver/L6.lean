import ClapModel
import Driver.L3
namespace Clap.Driver
open Clap Shell

def decSh (t : String) : Option Sh :=
  match t with
  | "fish" => some .fish | "zsh" => some .zsh | "pwsh" => some .pwsh | "elvish" => some .elvish | "nu" => some .nu | _ => none

def decSlot (t : String) : Option Slot :=
  match t with
  | "help" => some .help | "posHelp" => some .posHelp | "pvHelp" => some .pvHelp | _ => none

def charsOfHex (t : String) : Option Str := do
  let b ← bytesOfHex t
  let s ← String.fromUTF8? (ByteArray.mk b.toArray)
  pure s.toList

def hexOfChars (s : Str) : String := hexOfBytes (String.ofList s).toUTF8.toList

def fmtSt : St → String
  | .n ws => if ws then "n1" else "n0"
  | .nBs => "nBs" | .sq => "sq" | .sqBs => "sqBs" | .sqQ => "sqQ" | .dq => "dq" | .dqBs => "dqBs" | .bt => "bt" | .cm => "cm"

def handleL6 (cmd : String) (args : List String) : Option String :=
  match cmd, args with
  | "esc", [sh, slot, t] => some ((do
      let sh ← decSh sh; let slot ← decSlot slot; let t ← charsOfHex t
      pure (hexOfChars (slotEscape sh slot t))).getD "bad-op")
  | "slotscan", [sh, slot, t] => some ((do
      let sh ← decSh sh; let slot ← decSlot slot; let t ← charsOfHex t
      let r := run (stepOf sh) (slotCtx sh slot) (slotEscape sh slot t)
      pure s!"{fmtSt r.1} {b01 r.2} ctx={fmtSt (slotCtx sh slot)}").getD "bad-op")
  | "scanfrom", [sh, slot, t] => some ((do
      let sh ← decSh sh; let slot ← decSlot slot; let t ← charsOfHex t
      let r := run (stepOf sh) (slotCtx sh slot) t
      pure s!"{fmtSt r.1} {b01 r.2} ctx={fmtSt (slotCtx sh slot)}").getD "bad-op")
  | "zshunq", [t] => some ((do
      let t ← charsOfHex t
      pure (hexOfChars (zshUnqSq t))).getD "bad-op")
  | "zshspec", [t] => some ((do
      let t ← charsOfHex t
      let e := applyChain zshHelpSpecChain t
      let r1 := specRun ']' false e
      let r2 := specRun ':' false e
      pure s!"{hexOfChars e} {b01 r1.1}{b01 r1.2}{b01 r2.2}").getD "bad-op")
  | "scan", [sh, t] => some ((do
      let sh ← decSh sh; let t ← charsOfHex t
      pure (fmtSt (run (stepOf sh) (.n true) t).1)).getD "bad-op")
  | _, _ => none

end Clap.Driver
