import Driver.L0
import Driver.L1
import Driver.L2
import Driver.L3
import Driver.L4
import Driver.L5
import Driver.L6
import Driver.L7
import Driver.L8
import Driver.L9
import Driver.L10
open Clap.Driver

def dispatch (line : String) : String :=
  match line.trimAscii.toString.splitOn " " with
  | [] => "bad-op"
  | cmd :: args =>
    match handleL0 cmd args with
    | some r => r
    | none =>
    match handleL1 cmd args with
    | some r => r
    | none =>
    match handleL2 cmd args with
    | some r => r
    | none =>
    match handleL3 cmd args with
    | some r => r
    | none =>
    match handleL4 cmd args with
    | some r => r
    | none =>
    match handleL5 cmd args with
    | some r => r
    | none =>
    match handleL6 cmd args with
    | some r => r
    | none =>
    match handleL7 cmd args with
    | some r => r
    | none =>
    match handleL8 cmd args with
    | some r => r
    | none =>
    match handleL9 cmd args with
    | some r => r
    | none =>
    match handleL10 cmd args with
    | some r => r
    | none => "bad-op"

partial def loop (hin : IO.FS.Stream) (hout : IO.FS.Stream) : IO Unit := do
  let line ← hin.getLine
  if line.isEmpty then return ()
  hout.putStrLn (dispatch line)
  loop hin hout

def main : IO Unit := do
  let hin ← IO.getStdin
  let hout ← IO.getStdout
  loop hin hout
  hout.flush
