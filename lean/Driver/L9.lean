import ClapModel
import Driver.L3
namespace Clap.Driver
open Clap Derive Gen

def decDTy (t : String) : Option DTy :=
  match t with
  | "unit" => some .unit | "option" => some .option | "optionOption" => some .optionOption | "optionVec" => some .optionVec
  | "vec" => some .vec | "vecVec" => some .vecVec | "optionVecVec" => some .optionVecVec | "other" => some .other | _ => none

def decEntry : Dec Entry := do
  let t ← tok
  if t == "~" then pure none else do
    let n ← ofOpt t.toNat?
    let gs ← many (listOf hexB) n
    pure (some gs)

def hexList (l : List Bytes) : String := ",".intercalate (l.map fun b => if b.isEmpty then "-" else hexOfBytes b)
def hexGroups (g : List (List Bytes)) : String := ";".intercalate (g.map hexList)

def fmtVal : Except Err Val → String
  | .error .missingRequired => "ERR missing"
  | .ok .unit => "unit"
  | .ok (.one v) => "one:" ++ hexList [v]
  | .ok (.opt none) => "opt:~"
  | .ok (.opt (some v)) => "opt:" ++ hexList [v]
  | .ok (.optOpt none) => "optopt:~"
  | .ok (.optOpt (some none)) => "optopt:S~"
  | .ok (.optOpt (some (some v))) => "optopt:S" ++ hexList [v]
  | .ok (.vec vs) => "vec:" ++ hexList vs
  | .ok (.optVec none) => "optvec:~"
  | .ok (.optVec (some vs)) => "optvec:S" ++ hexList vs
  | .ok (.vecVec gs) => "vecvec:" ++ hexGroups gs
  | .ok (.optVecVec none) => "optvecvec:~"
  | .ok (.optVecVec (some gs)) => "optvecvec:S" ++ hexGroups gs

def fmtAction : DAction → Bool → String
  | .append, _ => "Append" | .set, _ => "Set"
  | .setTrueIfBoolElseSet, b => if b then "SetTrue" else "Set"

/-- `dextract ty ENTRY` ; `daugment ty positional isBool hasDefault` ; `venum n (id k names..).. input ignoreCase` -/
def handleL9 (cmd : String) (args : List String) : Option String :=
  if cmd == "dextract" then
    some (((do
      let t ← tok; let ty ← ofOpt (decDTy t)
      let e ← decEntry
      let r ← ofOpt (rowOf ty)
      pure (fmtVal (extract r e)) : Dec String).run args).map (·.1) |>.getD "bad-op")
  else if cmd == "daugment" then
    some (((do
      let t ← tok; let ty ← ofOpt (decDTy t)
      let pos ← nat; let isBool ← nat; let hasDefault ← nat
      let r ← ofOpt (rowOf ty)
      let na := match r.numArgs with
        | .none => "~"
        | .zeroOrOne => if r.numArgsPositionalOnly && pos == 0 then "~" else "0..=1"
        | .oneOrMore => if r.numArgsPositionalOnly && pos == 0 then "~" else "1.."
      let takes := !(r.action == .setTrueIfBoolElseSet && isBool == 1)
      let req := r.requiredIfNoDefault && hasDefault == 0 && takes
      pure s!"{fmtAction r.action (isBool == 1)} {na} {b01 req}" : Dec String).run args).map (·.1) |>.getD "bad-op")
  else if cmd == "venum" then
    some (((do
      let vs ← listOf (do let id ← nat; let names ← listOf hexB; pure ({ id, names } : Variant))
      let input ← hexB
      let ic ← nat
      pure (match fromStr vs input (ic == 1) with | some i => toString i | none => "none") : Dec String).run args).map (·.1) |>.getD "bad-op")
  else if cmd == "optsub" then
    -- `optsub <cur> <line>`: cur = `~` | name k (field val|~)… ; line = `~` | name k (field val)…  (all hex) ; schema of the corpus enum
    some (((do
      let decCur : Dec (Option SubVal) := do
        let t ← tok
        if t == "~" then pure none else
        let name ← ofOpt (bytesOfHex t)
        let fs ← listOf (do let f ← hexB; let v ← optB; pure (f, v))
        pure (some ⟨name, fs⟩)
      let decLine : Dec (Option SubLine) := do
        let t ← tok
        if t == "~" then pure none else
        let name ← ofOpt (bytesOfHex t)
        let fs ← listOf (do let f ← hexB; let v ← hexB; pure (f, v))
        pure (some ⟨name, fs⟩)
      let cur ← decCur; let line ← decLine
      -- `OptSub` of the harness corpus: add { a, b }, sync { jobs, name }
      let schema : Bytes → List Bytes := fun n => if n == [97, 100, 100] then [[97], [98]] else [[106, 111, 98, 115], [110, 97, 109, 101]]
      pure (match updateOptSub schema cur line with
        | .error _ => "ERR MissingSubcommand"
        | .ok none => "OK ~"
        | .ok (some v) => s!"OK {hexOfBytes v.name} {v.fields.length}" ++
            String.join (v.fields.map fun p => s!" {hexOfBytes p.1} " ++ (match p.2 with | some x => hexOfBytes x | none => "~"))) : Dec String).run args).map (·.1) |>.getD "bad-op")
  else none

end Clap.Driver
