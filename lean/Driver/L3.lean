import ClapModel
import Driver.L0
namespace Clap.Driver
open Clap

/-- token-stream decoder -/
abbrev Dec := StateT (List String) Option

def ofOpt {α} (o : Option α) : Dec α := fun s => o.map fun a => (a, s)
def tok : Dec String := fun s => match s with | [] => none | t :: ts => some (t, ts)
def nat : Dec Nat := do let t ← tok; ofOpt (t.toNat?)
def hexB : Dec Bytes := do let t ← tok; ofOpt (bytesOfHex t)
def optB : Dec (Option Bytes) := do
  let t ← tok
  if t == "~" then pure none else ofOpt ((bytesOfHex t).map some)
def many {α} (d : Dec α) : Nat → Dec (List α)
  | 0 => pure []
  | n+1 => do let x ← d; let xs ← many d n; pure (x :: xs)
def listOf {α} (d : Dec α) : Dec (List α) := do let n ← nat; many d n
def bits : Dec (List Bool) := do let t ← tok; pure (t.toList.map (· == '1'))

def decPred : Dec Pred := do
  let t ← tok
  if t == "P" then pure .isPresent
  else if t.startsWith "E" then ofOpt ((bytesOfHex (t.drop 1).toString).map .equals)
  else failure

def decAction : Dec (Option Action) := do
  let t ← tok
  match t with
  | "~" => pure none
  | "set" => pure (some .set) | "append" => pure (some .append) | "setTrue" => pure (some .setTrue)
  | "setFalse" => pure (some .setFalse) | "count" => pure (some .count) | "help" => pure (some .help)
  | "helpShort" => pure (some .helpShort) | "helpLong" => pure (some .helpLong) | "version" => pure (some .version)
  | _ => failure

def decRange : Dec (Option Range) := do
  let t ← tok
  if t == "~" then pure none else
  match t.splitOn ":" with
  | [a, b] => match a.toNat? with
    | some a => if b == "max" then pure (some ⟨a, none⟩) else match b.toNat? with
      | some b => pure (some ⟨a, some b⟩)
      | none => failure
    | none => failure
  | _ => failure

def decBound (t : String) : Option Values.Bound :=
  if t == "u" then some .unbounded
  else if t.startsWith "i" then (t.drop 1).toString.toInt?.map .included
  else if t.startsWith "x" then (t.drop 1).toString.toInt?.map .excluded
  else none

def decVP : Dec (Option VP) := do
  let t ← tok
  match t.splitOn ":" with
  | ["~"] => pure none
  | ["string"] => pure (some .string) | ["os"] => pure (some .osString) | ["bool"] => pure (some .bool)
  | ["count"] => pure (some .count) | ["nonempty"] => pure (some .nonEmpty)
  | ["i64", lo, hi] => match decBound lo, decBound hi with
    | some lo, some hi => pure (some (.i64r lo hi))
    | _, _ => failure
  | ["pv", body] =>
    let pvs := (body.splitOn ";").mapM fun pv =>
      match (pv.splitOn ",").mapM bytesOfHex with
      | some (n :: al) => some ({ name := n, aliases := al } : Values.PossibleValue)
      | _ => none
    ofOpt (pvs.map fun l => some (.possible l))
  | _ => failure

def decArg : Dec Arg := do
  let _ ← tok  -- "ARG"
  let id ← hexB; let short ← optB; let long ← optB
  let aliases ← listOf hexB; let shortAliases ← listOf hexB
  let idxT ← tok
  let index := if idxT == "~" then none else idxT.toNat?
  let action ← decAction; let numVals ← decRange
  let delim ← optB; let terminator ← optB
  let fl ← bits
  let f := fun i => fl.getD i false
  let defaultVals ← listOf hexB; let defaultMissing ← listOf hexB
  let defaultIfs ← listOf (do let i ← hexB; let p ← decPred; let d ← optB; pure (i, p, d))
  let envT ← tok
  let env : Option (Option Bytes) ← (if envT == "~" then pure none else if envT == "unset" then pure (some none)
      else ofOpt ((bytesOfHex envT).map fun b => some (some b)))
  let blacklist ← listOf hexB; let overrides ← listOf hexB
  let requires ← listOf (do let p ← decPred; let i ← hexB; pure (p, i))
  let rIfs ← listOf (do let i ← hexB; let v ← hexB; pure (i, v))
  let rIfsAll ← listOf (do let i ← hexB; let v ← hexB; pure (i, v))
  let rUnless ← listOf hexB; let rUnlessAll ← listOf hexB
  let groups ← listOf hexB
  let vp ← decVP
  pure { id, short, long, aliases, shortAliases, index, action, numVals, delim, terminator,
         required := f 0, global := f 1, exclusive := f 2, last := f 3, trailingVarArg := f 4, allowHyphen := f 5,
         allowNegative := f 6, requireEquals := f 7, ignoreCase := f 8, hide := f 9,
         defaultVals, defaultMissing, defaultIfs, env, blacklist, overrides, requires, rIfs, rIfsAll,
         rUnless, rUnlessAll, groups, vp }

def decGroup : Dec Group := do
  let _ ← tok  -- "GROUP"
  let id ← hexB; let args ← listOf hexB; let fl ← bits
  let requires ← listOf hexB; let conflicts ← listOf hexB
  pure { id, args, required := fl.getD 0 false, multiple := fl.getD 1 false, requires, conflicts }

def decSettings : Dec Settings := do
  let fl ← bits
  let f := fun i => fl.getD i false
  pure { argsConflictsWithSubcommands := f 0, subcommandPrecedenceOverArg := f 1, inferLongArgs := f 2,
         inferSubcommands := f 3, allowExternalSubcommands := f 4, ignoreErrors := f 5, argsOverrideSelf := f 6,
         dontDelimitTrailingValues := f 7, allowMissingPositional := f 8, subcommandRequired := f 9,
         argRequiredElseHelp := f 10, subcommandNegatesReqs := f 11, disableHelpFlag := f 12,
         disableVersionFlag := f 13, disableHelpSubcommand := f 14, noBinaryName := f 15, hasVersion := f 16,
         allowHyphenValues := f 17, allowNegativeNumbers := f 18, trailingVarArg := f 19 }

def decCmd : Nat → Dec Cmd
  | 0 => failure
  | fuel+1 => do
    let _ ← tok  -- "CMD"
    let name ← hexB; let aliases ← listOf hexB; let sf ← optB; let lf ← optB
    let sfa ← listOf hexB; let lfa ← listOf hexB
    let st ← decSettings
    let args ← listOf decArg; let groups ← listOf decGroup
    let subs ← listOf (decCmd fuel)
    pure (Cmd.mk name aliases sf lf sfa lfa st args groups subs)

def fmtSource : Option Source → String
  | none => "~" | some .default => "d" | some .env => "e" | some .cmdline => "c"

def fmtArgMap (valid : Id → Bool) (m : ArgMap) : String :=
  " ".intercalate (m.map fun (id, ma) =>
    if !valid id then s!"A {hexOfBytes id} ?" else
    s!"A {hexOfBytes id} {fmtSource ma.source} {ma.indices.length}" ++
    String.join (ma.indices.map fun i => s!" {i}") ++ s!" {ma.rawVals.length}" ++
    String.join (ma.rawVals.map fun g => s!" {g.length}" ++ String.join (g.map fun v => " " ++ hexOfBytes v)))

/-- the ids `ArgMatches` of a level accepts in debug builds (`valid_args` + the external id) -/
def validFor (c : Option Cmd) (id : Id) : Bool :=
  match c with
  | none => true
  | some c => id.isEmpty || c.args.any (·.id == id) || c.groups.any (·.id == id)

def fmtLevels : Option Cmd → List (Bytes × ArgMap) → List String
  | _, [] => []
  | c, (name, am) :: rest =>
    -- an external subcommand's matches are created from the parent command (`ArgMatcher::new(self.cmd)`)
    let sc := if am.any (fun p => p.1.isEmpty) then c else c.bind fun c => c.findSubcommand name
    (s!"L {hexOfBytes name} {am.length}" ++ (if am.isEmpty then "" else " " ++ fmtArgMap (validFor sc) am)) :: fmtLevels sc rest

def fmtMatches (c : Cmd) (m : Matches) : String :=
  " ".intercalate ((s!"L - {m.args.length}" ++ (if m.args.isEmpty then "" else " " ++ fmtArgMap (validFor (some c)) m.args)) :: fmtLevels (some c) m.subs)

def fmtEK : EK → String
  | .invalidValue => "InvalidValue" | .unknownArgument => "Unknown" | .invalidSubcommand => "Unknown"
  | .noEquals => "NoEquals" | .valueValidation => "ValueValidation" | .tooManyValues => "TooManyValues"
  | .tooFewValues => "TooFewValues" | .wrongNumberOfValues => "WrongNumberOfValues"
  | .argumentConflict => "ArgumentConflict" | .missingRequiredArgument => "MissingRequiredArgument"
  | .missingSubcommand => "MissingSubcommand" | .invalidUtf8 => "InvalidUtf8" | .displayHelp => "DisplayHelp"
  | .displayHelpOnMissing => "DisplayHelpOnMissingArgumentOrSubcommand" | .displayVersion => "DisplayVersion"
  | .panic site => s!"PANIC {site.replace " " "_"}"

/-- `parse <depth> CMD … ARGV <n> tok…` -/
def handleParse (args : List String) : String :=
  match args with
  | d :: rest =>
    match d.toNat? with
    | none => "bad-op"
    | some depth =>
      match (decCmd (depth + 3)).run rest with
      | some (cmd, "ARGV" :: n :: toks) =>
        match n.toNat?, toks.mapM bytesOfHex with
        | some _, some argv =>
          match Command.tryGetMatchesFrom (fun _ _ => false) depth cmd argv with
          | some (.ok m) => "OK " ++ fmtMatches (Build.buildAll (depth + 2) cmd) m
          | some (.error e) => "ERR " ++ fmtEK e
          | none => "OUT-OF-FUEL"
        | _, _ => "bad-op"
      | _ => "bad-cmd"
  | _ => "bad-op"

/-- `wf <depth> CMD …` → do the hypotheses of `tryGetMatchesFrom_total` hold for the built tree? -/
def handleWf (args : List String) : String :=
  match args with
  | d :: rest =>
    match d.toNat? with
    | none => "bad-op"
    | some depth =>
      match (decCmd (depth + 3)).run rest with
      | some (cmd, _) =>
        let b := Build.buildAll (depth + 2) cmd
        s!"WF tree={if b.wfTreeB (depth + 3) then 1 else 0} height={if b.height ≤ depth + 3 then 1 else 0} user={if cmd.userTreeB (depth + 3) && decide (cmd.height ≤ depth + 3) then 1 else 0}"
      | none => "bad-cmd"
  | _ => "bad-op"

def handleL3 (cmd : String) (args : List String) : Option String :=
  if cmd == "parse" then some (handleParse args)
  else if cmd == "wf" then some (handleWf args) else none

end Clap.Driver
