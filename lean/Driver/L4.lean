import ClapModel
import Driver.L3
namespace Clap.Driver
open Clap Help

/-- `id short long nvn vn.. min max|~ bits heading|~ helpW ndef d.. npv (name hide hasHelp)..`
bits: takesValue required isCount isAppend requireEquals hide hideShort hideLong nextLine hidePV hideDefault -/
def decHArg : Dec HArg := do
  let id ← hexB
  let short ← optB
  let long ← optB
  let vns ← listOf hexB
  let mn ← nat
  let mxT ← tok
  let mx ← if mxT == "~" then pure none else ofOpt (mxT.toNat?.map some)
  let b ← bits
  let heading ← optB
  let helpW ← nat
  let defaults ← listOf hexB
  let pvs ← listOf (do
    let n ← hexB
    let fl ← bits
    let w ← nat
    pure ({ name := n, hide := fl.getD 0 false, hasHelp := fl.getD 1 false, w } : PV))
  let g := fun i => b.getD i false
  pure { id, short, long, valNames := vns, minVals := mn, maxVals := mx, takesValue := g 0, required := g 1, isCount := g 2,
         isAppend := g 3, requireEquals := g 4, hide := g 5, hideShortHelp := g 6, hideLongHelp := g 7, nextLineHelp := g 8,
         hidePossibleValues := g 9, hideDefault := g 10, heading, helpW, defaults, pvs }

def decHSub : Dec HSub := do
  let name ← hexB
  let sf ← optB
  let lf ← optB
  let b ← bits
  let aboutW ← nat
  let specW ← nat
  pure { name, shortFlag := sf, longFlag := lf, hide := b.getD 0 false, aboutW, specW }

def fmtKind : Kind → String
  | .positional => "P"
  | .options => "O"
  | .custom h => "C" ++ hexOfBytes h

def fmtPad : Option Nat → String
  | none => "UNDERFLOW"
  | some n => toString n

def fmtSection (s : Section) : String :=
  s!"SEC {fmtKind s.kind} {s.longest} {b01 s.nextLine} {s.lines.length}" ++
    String.join (s.lines.map fun l => s!" {hexOfBytes l.id} {hexOfBytes l.left} {fmtPad l.pad}")

/-- `hsec <useLong> <cmdNextLine> <termW|~> <nargs> ARG.. <nsubs> SUB..` -/
def handleHsec (args : List String) : Option String :=
  let d : Dec String := do
    let ul ← nat
    let nl ← nat
    let twT ← tok
    let tw ← if twT == "~" then pure none else ofOpt (twT.toNat?.map some)
    let hargs ← listOf decHArg
    let subs ← listOf decHSub
    let secs := renderSections (nl == 1) (ul == 1) tw hargs
    let shown := if hasVisibleSubcommands subs then subs.filter Gen.shouldShowSubcommand else []
    let sl := subLongest subs
    let snl := subsWrap (nl == 1) tw subs sl
    let subOut := s!"SUBS {sl} {b01 snl} {shown.length}" ++
      String.join (shown.map fun sc => s!" {hexOfBytes sc.name} {hexOfBytes (sp Gen.tabWidth ++ subDisplay sc)} {fmtPad (subcmdPadding snl sc sl)}")
    pure (" ".intercalate (secs.map fmtSection ++ [subOut]))
  (d.run args).map (·.1)

def handleL4 (cmd : String) (args : List String) : Option String :=
  if cmd == "hsec" then some ((handleHsec args).getD "bad-op") else none

end Clap.Driver
