import ClapModel
import Driver.L0
namespace Clap.Driver
open Clap Values

def fmtErr : VErr → String
  | .invalidUtf8 => "ERR InvalidUtf8"
  | .valueValidation => "ERR ValueValidation"
  | .invalidValue => "ERR InvalidValue"

def fmtIntRes : VRes Int → String
  | .ok v => s!"OK {v}"
  | .err e => fmtErr e

def parseBound (t : String) : Option Bound :=
  if t == "u" then some .unbounded
  else if t.startsWith "i" then (t.drop 1).toString.toInt?.map .included
  else if t.startsWith "x" then (t.drop 1).toString.toInt?.map .excluded
  else none

def findFactory (ty : String) : Option Gen.IntFactory := Gen.intFactories.find? fun f => f.ty == ty
def findFromRange (k : String) : Option Gen.FromRange := Gen.fromRanges.find? fun f => f.kind == k

def parsePV (t : String) : Option PossibleValue :=
  match (t.splitOn ",").mapM bytesOfHex with
  | some (n :: al) => some { name := n, aliases := al }
  | _ => none

def parseTy (t : String) : Option Store.Ty :=
  if t == "string" then some .string else if t == "i64" then some .i64
  else if t == "bool" then some .bool else if t == "u8" then some .u8 else none

def parseStoreOp (t : String) : Option Store.Op :=
  match t.splitOn ":" with
  | ["g1", id, ty] => do some (.getOne (← bytesOfHex id) (← parseTy ty))
  | ["gm", id, ty] => do some (.getMany (← bytesOfHex id) (← parseTy ty))
  | ["r1", id, ty] => do some (.removeOne (← bytesOfHex id) (← parseTy ty))
  | ["rm", id, ty] => do some (.removeMany (← bytesOfHex id) (← parseTy ty))
  | ["raw", id] => do some (.getRaw (← bytesOfHex id))
  | ["has", id] => do some (.contains (← bytesOfHex id))
  | ["clr", id] => do some (.clear (← bytesOfHex id))
  | _ => none

def fmtStoreRes : Store.Res → String
  | .absent => "none"
  | .one none => "none"
  | .one (some v) => s!"one:{hexOfBytes v}"
  | .many vs => "many:" ++ ",".intercalate (vs.map hexOfBytes)
  | .bool b => s!"bool:{b01 b}"
  | .errDowncast => "err:downcast"
  | .errUnknown => "err:unknown"

/-- `store <nvalid> id… <nargs> (id ty nvals val…)… op…` -/
def handleStore (args : List String) : Option String := do
  let nvalid ← args.head?.bind String.toNat?
  let rest := args.drop 1
  let valid ← (rest.take nvalid).mapM bytesOfHex
  let rest := rest.drop nvalid
  let nargs ← rest.head?.bind String.toNat?
  let rec readArgs : Nat → List String → Option (List (Bytes × Store.Entry) × List String)
    | 0, r => some ([], r)
    | n+1, id :: ty :: nv :: r => do
      let id ← bytesOfHex id
      let ty ← parseTy ty
      let nv ← nv.toNat?
      let vals ← (r.take nv).mapM bytesOfHex
      let (more, r') ← readArgs n (r.drop nv)
      some ((id, ⟨ty, vals⟩) :: more, r')
    | _, _ => none
  let (entries, rest) ← readArgs nargs (rest.drop 1)
  let ops ← rest.mapM parseStoreOp
  let out := Store.run ⟨valid, entries⟩ ops
  some (" ".intercalate (out.map fun (r, order) => fmtStoreRes r ++ "|" ++ ",".intercalate (order.map hexOfBytes)))

def handleL2 (cmd : String) (args : List String) : Option String :=
  if cmd == "ifac" then
    match args with
    | [ty, h] => match findFactory ty, bytesOfHex h with
      | some f, some b => some (fmtIntRes ((ofFactory f).parse b))
      | _, _ => some "bad-op"
    | _ => some "bad-op"
  else if cmd == "ifacr" then
    match args with
    | [ty, lo, hi, h] => match findFactory ty, parseBound lo, parseBound hi, bytesOfHex h with
      | some f, some lo, some hi, some b => some (fmtIntRes (((ofFactory f).range lo hi).parse b))
      | _, _, _, _ => some "bad-op"
    | _ => some "bad-op"
  else if cmd == "ifrom" then
    match args with
    | [k, s, e, h] => match findFromRange k, s.toInt?, e.toInt?, bytesOfHex h with
      | some r, some s, some e, some b => some (fmtIntRes ((ofFromRange r s e).parse b))
      | _, _, _, _ => some "bad-op"
    | _ => some "bad-op"
  else if cmd == "bval" then
    match args with
    | [p, h] => match bytesOfHex h with
      | some b =>
        let r := if p == "bool" then boolParser b else if p == "boolish" then boolishParser b else falseyParser b
        some (match r with | .ok v => s!"OK {b01 v}" | .err e => fmtErr e)
      | none => some "bad-op"
    | _ => some "bad-op"
  else if cmd == "pval" || cmd == "eval" then
    match args with
    | ic :: n :: rest =>
      match n.toNat? with
      | some n =>
        match (rest.take n).mapM parsePV, (rest.drop n).head?.bind bytesOfHex with
        | some pvs, some b =>
          if cmd == "pval" then
            some (match possibleValuesParser pvs (ic == "1") b with | .ok v => s!"OK {hexOfBytes v}" | .err e => fmtErr e)
          else
            some (match enumValueParser pvs (ic == "1") b with | .ok v => s!"OK {v}" | .err e => fmtErr e)
        | _, _ => some "bad-op"
      | none => some "bad-op"
    | _ => some "bad-op"
  else if cmd == "store" then some ((handleStore args).getD "bad-op")
  else none

end Clap.Driver
