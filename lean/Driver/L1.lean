import ClapModel
import Driver.L0
namespace Clap.Driver
open Clap TextWrap

def strOfHex (h : String) : Option Str :=
  match bytesOfHex h with
  | none => none
  | some b => (String.fromUTF8? (ByteArray.mk b.toArray)).map String.toList

def hexOfStr (s : Str) : String := hexOfBytes (String.ofList s).toUTF8.toList

/-- `cp:w,cp:w,…` or `-` ; everything not listed has width 1 -/
def parseWidths (t : String) : Option (Char → Nat) :=
  if t == "-" then some (fun _ => 1) else
  let entries := (t.splitOn ",").mapM fun e =>
    match e.splitOn ":" with
    | [a, b] => match a.toNat?, b.toNat? with
      | some a, some b => some (a, b)
      | _, _ => none
    | _ => none
  entries.map fun es => fun c =>
    match es.find? (fun p => p.1 == c.toNat) with
    | some p => p.2
    | none => 1

def parseHard (t : String) : Option Nat := if t == "max" then some (2^64 - 1) else t.toNat?

def parseSeg (t : String) : Option Seg :=
  if t.startsWith "t" then (strOfHex (t.drop 1).toString).map .text
  else if t.startsWith "e" then (strOfHex (t.drop 1).toString).map .esc
  else none

def handleL1 (cmd : String) (args : List String) : Option String :=
  if cmd == "wrap" then
    match args with
    | [h, tbl, txt] => match parseHard h, parseWidths tbl, strOfHex txt with
      | some h, some cw, some s => some (hexOfStr (wrap cw s h))
      | _, _, _ => some "bad-op"
    | _ => some "bad-op"
  else if cmd == "dwidth" then
    match args with
    | [tbl, txt] => match parseWidths tbl, strOfHex txt with
      | some cw, some s => some (toString (displayWidth cw s))
      | _, _ => some "bad-op"
    | _ => some "bad-op"
  else if cmd == "swrap" then
    match args with
    | h :: tbl :: segs => match parseHard h, parseWidths tbl, segs.mapM parseSeg with
      | some h, some cw, some ss => some (hexOfStr (styledWrap cw ss h))
      | _, _, _ => some "bad-op"
    | _ => some "bad-op"
  else none

end Clap.Driver
