import ClapModel
namespace Clap.Driver
open Clap

def b01 (b : Bool) : String := if b then "1" else "0"
def optHex : Option Bytes → String
  | none => "~"
  | some b => hexOfBytes b

def fmtFlag : ShortFlags.Flag → String
  | .ch c => s!"c{Utf8.codePoint c}"
  | .bad s => s!"b{hexOfBytes s}"
  | .done => "~"

/-- walk a cluster with `next_flag` until `None` (bounded by the byte length + 2) -/
def walkFlags : Nat → ShortFlags → List String
  | 0, _ => []
  | n+1, s =>
    match s.nextFlag with
    | (_, .done) => []
    | (s', f) => fmtFlag f :: walkFlags n s'

def handleLex (b : Bytes) : String :=
  let long := match ParsedArg.toLong b with
    | none => "~"
    | some (n, u, v) => s!"{hexOfBytes n}:{b01 u}:{optHex v}"
  let short := match ParsedArg.toShort b with
    | none => "~"
    | some s =>
      let w := walkFlags (b.length + 2) s
      let v := (s.nextValueOs).2
      s!"{",".intercalate w}/{optHex v}/{b01 s.isNegativeNumber}{b01 s.isEmpty}"
  s!"E{b01 (ParsedArg.isEmpty b)} S{b01 (ParsedArg.isStdio b)} X{b01 (ParsedArg.isEscape b)} N{b01 (ParsedArg.isNegativeNumber b)} L{b01 (ParsedArg.isLong b)} H{b01 (ParsedArg.isShort b)} long={long} short={short}"

def shortOps : ShortFlags → List String → List String
  | _, [] => []
  | s, op :: ops =>
    if op == "f" then
      let (s', f) := s.nextFlag; fmtFlag f :: shortOps s' ops
    else if op == "v" then
      let (s', v) := s.nextValueOs; optHex v :: shortOps s' ops
    else if op == "e" then b01 s.isEmpty :: shortOps s ops
    else if op == "n" then b01 s.isNegativeNumber :: shortOps s ops
    else if op.startsWith "a" then
      match (op.drop 1).toString.toNat? with
      | some n =>
        let (s', r) := ShortFlags.advanceBy n 0 s
        (match r with | none => "ok" | some i => s!"err{i}") :: shortOps s' ops
      | none => ["bad-op"]
    else ["bad-op"]

def handleShort (b : Bytes) (ops : List String) : String :=
  match ParsedArg.toShort b with
  | none => "~"
  | some s => " ".intercalate (shortOps s ops)

def handleOsStr (op : String) (h n : Bytes) : String :=
  if op == "find" then (match OsStrExt.find h n with | none => "~" | some i => toString i)
  else if op == "contains" then b01 (OsStrExt.contains h n)
  else if op == "starts" then b01 (Bytes.startsWith h n)
  else if op == "strip" then optHex (Bytes.stripPrefix h n)
  else if op == "splitonce" then
    (match OsStrExt.splitOnce h n with | none => "~" | some (a, b) => s!"{hexOfBytes a} {hexOfBytes b}")
  else if op == "split" then
    (match OsStrExt.split h n with | none => "PANIC" | some l => " ".intercalate (l.map hexOfBytes))
  else "bad-op"

/-- cursor ops: `n` next, `p` peek, `r` remaining, `e` is_end, `ss<u64>`,
`se<i64>`, `sc<i64>`, `i<hex>,<hex>…` (`i` alone inserts nothing) -/
def parseCursorOp (t : String) : Option RawArgs.Op :=
  if t == "n" then some .next
  else if t == "p" then some .peek
  else if t == "r" then some .remaining
  else if t == "e" then some .isEnd
  else if t.startsWith "ss" then (t.drop 2).toString.toNat?.map fun n => .seek (.start n)
  else if t.startsWith "se" then (t.drop 2).toString.toInt?.map fun n => .seek (.fromEnd n)
  else if t.startsWith "sc" then (t.drop 2).toString.toInt?.map fun n => .seek (.current n)
  else if t.startsWith "i" then
    let body := (t.drop 1).toString
    if body.isEmpty then some (.insert []) else
    (body.splitOn ",").mapM bytesOfHex |>.map fun l => .insert l
  else none

def fmtRes : RawArgs.Res → String
  | .item o => optHex o
  | .items l => "[" ++ ",".intercalate (l.map hexOfBytes) ++ "]"
  | .bool b => b01 b
  | .unit => "ok"
  | .panic => "PANIC"

def handleCursor (args : List String) : String :=
  match args with
  | [] => "bad-op"
  | n :: rest =>
    match n.toNat? with
    | none => "bad-op"
    | some k =>
      match (rest.take k).mapM bytesOfHex, (rest.drop k).mapM parseCursorOp with
      | some items, some ops => " ".intercalate ((RawArgs.run ⟨items, 0⟩ ops).map fmtRes)
      | _, _ => "bad-op"

def handleL0 (cmd : String) (args : List String) : Option String :=
  if cmd == "lex" then
    match args with
    | [h] => (bytesOfHex h).map handleLex
    | _ => some "bad-op"
  else if cmd == "short" then
    match args with
    | h :: ops => (bytesOfHex h).map fun b => handleShort b ops
    | _ => some "bad-op"
  else if cmd == "osstr" then
    match args with
    | [op, h, n] => match bytesOfHex h, bytesOfHex n with
      | some h, some n => some (handleOsStr op h n)
      | _, _ => some "bad-op"
    | _ => some "bad-op"
  else if cmd == "cursor" then some (handleCursor args)
  else none

end Clap.Driver
