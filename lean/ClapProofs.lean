import ClapProofs.C01
import ClapProofs.C03
import ClapProofs.C04
import ClapProofs.C06
import ClapProofs.C07
import ClapProofs.C13
import ClapProofs.C14
import ClapProofs.C20
