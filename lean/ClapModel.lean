import ClapModel.Bytes
import ClapModel.Utf8
import ClapModel.Lex
import ClapModel.RawArgs
import ClapModel.TextWrap
import ClapModel.Values
import ClapModel.Store
