/-
C04 — Typed values are exactly what the value parser's language admits.
-/
import ClapModel
namespace Clap.C04
open Clap Values

/-! #### 1. ranged integer parsers: a language equality -/

/-- the integer grammar a ranged parser reads with -/
def grammar (p : Ranged) (raw : Bytes) : Option Int :=
  if p.viaU64 then intGrammarUnsigned raw else intGrammarSigned raw

/-- the parse width's own range -/
def inWidth (p : Ranged) (v : Int) : Prop :=
  if p.viaU64 then 0 ≤ v ∧ v ≤ u64Max else i64Min ≤ v ∧ v ≤ i64Max

/-- **accepted ⇔ in the language**: a ranged parser returns `v` exactly when the
raw string is UTF-8, denotes the decimal integer `v`, `v` fits the parse width,
lies inside both declared bounds and inside the target type. The typed value
is the mathematical value of the string: never wrapped or truncated. -/
theorem check_ok (p : Ranged) (w v : Int) :
    p.check w = .ok v ↔ w = v ∧ boundsContain p.lo p.hi v = true ∧ p.tmin ≤ v ∧ v ≤ p.tmax := by
  unfold Ranged.check
  cases hb : boundsContain p.lo p.hi w
  · simp; intro h; subst h; simp [hb]
  · by_cases ht : p.tmin ≤ w ∧ w ≤ p.tmax
    · simp [ht]; intro h; subst h; exact ⟨hb, ht⟩
    · simp [ht]; intro h _ h1; subst h; omega

theorem readInt_some (p : Ranged) (raw : Bytes) (v : Int) :
    p.readInt raw = some v ↔ grammar p raw = some v ∧ inWidth p v := by
  unfold Ranged.readInt grammar inWidth
  cases hu : p.viaU64
  · simp only [Bool.false_eq_true, ↓reduceIte, parseI64]
    cases hg : intGrammarSigned raw with
    | none => simp
    | some w =>
      by_cases hw : i64Min ≤ w ∧ w ≤ i64Max
      · simp [hw]; intro h; subst h; exact hw
      · simp [hw]; intro h h1; subst h; omega
  · simp only [↓reduceIte, parseU64]
    cases hg : intGrammarUnsigned raw with
    | none => simp
    | some w =>
      by_cases hw : 0 ≤ w ∧ w ≤ u64Max
      · simp [hw]; intro h; subst h; exact hw
      · simp [hw]; intro h h1; subst h; omega

theorem ranged_language (p : Ranged) (raw : Bytes) (v : Int) :
    p.parse raw = .ok v ↔
      Utf8.valid raw = true ∧ grammar p raw = some v ∧ inWidth p v ∧
      boundsContain p.lo p.hi v = true ∧ p.tmin ≤ v ∧ v ≤ p.tmax := by
  unfold Ranged.parse
  cases hv : Utf8.valid raw
  · simp
  · simp only [Bool.not_true, Bool.false_eq_true, ↓reduceIte, true_and]
    cases hr : p.readInt raw with
    | none =>
      simp only [reduceCtorEq, false_iff]
      intro ⟨h1, h2, _⟩
      have := (readInt_some p raw v).2 ⟨h1, h2⟩
      rw [hr] at this; simp at this
    | some w =>
      simp only [check_ok]
      have hw := (readInt_some p raw w).1 hr
      constructor
      · rintro ⟨rfl, hb, ht⟩; exact ⟨hw.1, hw.2, hb, ht⟩
      · rintro ⟨h1, h2, hb, ht⟩
        have := (readInt_some p raw v).2 ⟨h1, h2⟩
        rw [hr] at this
        exact ⟨by simpa using this, hb, ht⟩

/-- every rejection is a value error: `InvalidUtf8` exactly for non-UTF-8 input,
`ValueValidation` otherwise (never `InvalidValue`) -/
theorem ranged_rejection_kind (p : Ranged) (raw : Bytes) (e : VErr) (h : p.parse raw = .err e) :
    (e = .invalidUtf8 ↔ Utf8.valid raw = false) ∧ e ≠ .invalidValue := by
  unfold Ranged.parse Ranged.check at h
  cases hv : Utf8.valid raw <;> simp [hv] at h
  · subst h; simp
  · split at h
    · simp at h; subst h; simp
    · split at h
      · simp at h; subst h; simp
      · split at h <;> simp at h
        subst h; simp

/-! #### 2. the factories and `From<Range>` conversions extracted from the source -/

/-- a factory whose declared range is its target type's `MIN..=MAX` (or nothing
at all when the parse width is the target type) -/
def FactoryOk (f : Gen.IntFactory) : Bool :=
  (f.lo == .included || f.lo == .unbounded) && (f.hi == .included || f.hi == .unbounded) &&
  (if f.viaU64 then decide (0 ≤ f.tmin ∧ f.tmax ≤ u64Max) else decide (i64Min ≤ f.tmin ∧ f.tmax ≤ i64Max)) &&
  (f.lo == .unbounded → (if f.viaU64 then f.tmin == 0 else f.tmin == i64Min)) &&
  (f.hi == .unbounded → (if f.viaU64 then f.tmax == u64Max else f.tmax == i64Max))

/-- checked against the table re-extracted from `value_parser.rs` on every run -/
theorem factories_ok : ∀ f ∈ Gen.intFactories, FactoryOk f = true := by decide

theorem factories_cover : Gen.intFactories.map (·.ty) = ["u8", "i8", "u16", "i16", "u32", "i32", "u64", "i64"] := by decide

/-- **`value_parser!(T)` accepts precisely the decimal integers of `T`** -/
theorem factory_language (f : Gen.IntFactory) (hf : f ∈ Gen.intFactories) (raw : Bytes) (v : Int) :
    (ofFactory f).parse raw = .ok v ↔
      Utf8.valid raw = true ∧ (if f.viaU64 then intGrammarUnsigned raw else intGrammarSigned raw) = some v ∧
      f.tmin ≤ v ∧ v ≤ f.tmax := by
  have hok := factories_ok f hf
  rw [ranged_language]
  obtain ⟨ty, via, tmin, tmax, lo, hi⟩ := f
  simp only [FactoryOk, Bool.and_eq_true, Bool.or_eq_true, beq_iff_eq] at hok
  obtain ⟨⟨⟨⟨hlo, hhi⟩, hw⟩, hlu⟩, hhu⟩ := hok
  simp only [ofFactory, Ranged.new, Ranged.range, grammar, inWidth]
  cases via <;> simp only [Bool.false_eq_true, ↓reduceIte, decide_eq_true_eq] at hw hlu hhu ⊢ <;>
  rcases hlo with rfl | rfl <;> rcases hhi with rfl | rfl <;>
  simp [shapeBound, boundsContain] at hlu hhu ⊢ <;>
  (simp only [u64Max, i64Min, i64Max] at *; intros; omega)

/-- the six `impl From<std::ops::R<i64>> for ValueParser`, as extracted, are the
mathematical meaning of the Rust range syntax -/
theorem fromRanges_table : Gen.fromRanges =
    [⟨"Range", .included, .excluded⟩, ⟨"RangeInclusive", .included, .included⟩, ⟨"RangeFrom", .included, .unbounded⟩,
     ⟨"RangeTo", .unbounded, .excluded⟩, ⟨"RangeToInclusive", .unbounded, .included⟩, ⟨"RangeFull", .unbounded, .unbounded⟩] := by
  decide

/-- what `a..b`, `a..=b`, `a..`, `..b`, `..=b`, `..` mean -/
def rangeMeaning (kind : String) (s e v : Int) : Prop :=
  if kind = "Range" then s ≤ v ∧ v < e
  else if kind = "RangeInclusive" then s ≤ v ∧ v ≤ e
  else if kind = "RangeFrom" then s ≤ v
  else if kind = "RangeTo" then v < e
  else if kind = "RangeToInclusive" then v ≤ e
  else True

/-- **`Arg::value_parser(range)` accepts precisely the `i64` decimal integers in the range** -/
theorem fromRange_language (r : Gen.FromRange) (hr : r ∈ Gen.fromRanges) (s e : Int) (raw : Bytes) (v : Int) :
    (ofFromRange r s e).parse raw = .ok v ↔
      Utf8.valid raw = true ∧ intGrammarSigned raw = some v ∧ i64Min ≤ v ∧ v ≤ i64Max ∧ rangeMeaning r.kind s e v := by
  rw [ranged_language]
  rw [fromRanges_table] at hr
  simp only [List.mem_cons, List.not_mem_nil, or_false] at hr
  rcases hr with rfl | rfl | rfl | rfl | rfl | rfl <;>
  simp [ofFromRange, Ranged.new, Ranged.range, grammar, inWidth, shapeBound, boundsContain, rangeMeaning] <;>
  (intros; omega)

/-! #### 3. `.range()` narrows by replacing the specified ends -/

theorem range_spec (p : Ranged) (lo hi : Bound) (v : Int) :
    boundsContain (p.range lo hi).lo (p.range lo hi).hi v =
      boundsContain (match lo with | .unbounded => p.lo | b => b) (match hi with | .unbounded => p.hi | b => b) v := by
  cases lo <;> cases hi <;> rfl

/-! #### 4. boolean-like parsers accept precisely their documented literals -/

/-- y, yes, t, true, on, 1 -/
theorem true_literals_documented :
    Gen.trueLiterals = [[121], [121, 101, 115], [116], [116, 114, 117, 101], [111, 110], [49]] := by decide
/-- n, no, f, false, off, 0 -/
theorem false_literals_documented :
    Gen.falseLiterals = [[110], [110, 111], [102], [102, 97, 108, 115, 101], [111, 102, 102], [48]] := by decide

/-- no literal is both true and false (so the order of the two table look-ups is immaterial) -/
theorem literals_disjoint : ∀ l ∈ Gen.trueLiterals, l ∉ Gen.falseLiterals := by decide

theorem bool_language (raw : Bytes) (b : Bool) :
    boolParser raw = .ok b ↔ (raw = bTrue ∧ b = true) ∨ (raw = bFalse ∧ b = false) := by
  unfold boolParser
  by_cases h1 : raw = bTrue
  · subst h1
    have : bTrue ≠ bFalse := by decide
    cases b <;> simp [this]
  · by_cases h2 : raw = bFalse
    · subst h2
      have : bFalse ≠ bTrue := by decide
      cases b <;> simp [this]
    · cases b <;> simp [h1, h2]

theorem boolish_language (raw : Bytes) (b : Bool) :
    boolishParser raw = .ok b ↔
      Utf8.valid raw = true ∧ toLowercase raw ∈ (if b then Gen.trueLiterals else Gen.falseLiterals) := by
  unfold boolishParser strToBool
  cases hv : Utf8.valid raw <;> simp
  by_cases ht : toLowercase raw ∈ Gen.trueLiterals
  · have hf := literals_disjoint _ ht
    cases b <;> simp [ht, hf]
  · by_cases hf : toLowercase raw ∈ Gen.falseLiterals
    · cases b <;> simp [ht, hf]
    · cases b <;> simp [ht, hf]

/-- falsey: every (UTF-8) string is accepted; it is `false` exactly for the empty
string and the false literals -/
theorem falsey_language (raw : Bytes) (b : Bool) :
    falseyParser raw = .ok b ↔
      Utf8.valid raw = true ∧ (b = false ↔ (raw = [] ∨ toLowercase raw ∈ Gen.falseLiterals)) := by
  unfold falseyParser strToBool
  cases hv : Utf8.valid raw <;> simp
  cases raw with
  | nil => cases b <;> simp
  | cons x xs =>
    simp only [List.isEmpty_cons, Bool.false_eq_true, ↓reduceIte, reduceCtorEq, false_or]
    by_cases ht : toLowercase (x :: xs) ∈ Gen.trueLiterals
    · have hf := literals_disjoint _ ht
      cases b <;> simp [ht, hf]
    · by_cases hf : toLowercase (x :: xs) ∈ Gen.falseLiterals
      · cases b <;> simp [ht, hf]
      · cases b <;> simp [ht, hf]

/-! #### 5. possible values -/

/-- accepted ⇔ equal (or ASCII-case-equal when asked) to a declared name or
alias; the typed value is the input itself -/
theorem possible_language (pvs : List PossibleValue) (ic : Bool) (raw v : Bytes) :
    possibleValuesParser pvs ic raw = .ok v ↔
      Utf8.valid raw = true ∧ v = raw ∧
      ∃ p ∈ pvs, ∃ n ∈ p.name :: p.aliases, (if ic then eqIgnoreAsciiCase n raw = true else n = raw) := by
  have hmatch : ∀ p : PossibleValue, p.matches raw ic = true ↔
      ∃ n ∈ p.name :: p.aliases, (if ic then eqIgnoreAsciiCase n raw = true else n = raw) := by
    intro p
    unfold PossibleValue.matches
    cases ic
    · simp only [Bool.false_eq_true, ↓reduceIte, List.any_cons, Bool.or_eq_true, beq_iff_eq, List.any_eq_true,
        List.mem_cons, exists_eq_or_imp]
    · simp
  unfold possibleValuesParser
  cases hv : Utf8.valid raw
  · simp
  · simp only [Bool.not_true, Bool.false_eq_true, ↓reduceIte, true_and]
    by_cases hany : (pvs.any fun v => v.matches raw ic) = true
    · simp only [hany, ↓reduceIte, VRes.ok.injEq]
      simp only [List.any_eq_true] at hany
      obtain ⟨p, hp, hm⟩ := hany
      constructor
      · intro h; exact ⟨h.symm, p, hp, (hmatch p).1 hm⟩
      · intro h; exact h.1.symm
    · simp only [hany, Bool.false_eq_true, ↓reduceIte, reduceCtorEq, false_iff]
      rintro ⟨_, p, hp, hm⟩
      apply hany
      simp only [List.any_eq_true]
      exact ⟨p, hp, (hmatch p).2 hm⟩

/-- without `ignore_case` nothing but an exact name or alias is accepted -/
theorem possible_exact (pvs : List PossibleValue) (raw v : Bytes)
    (h : possibleValuesParser pvs false raw = .ok v) : ∃ p ∈ pvs, raw = p.name ∨ raw ∈ p.aliases := by
  obtain ⟨_, _, p, hp, n, hn, hm⟩ := (possible_language pvs false raw v).1 h
  simp at hm hn
  subst hm
  exact ⟨p, hp, hn⟩

/-- the value enum parser returns the first variant that matches -/
theorem enum_first_match (vs : List PossibleValue) (ic : Bool) (raw : Bytes) (i : Nat)
    (h : enumValueParser vs ic raw = .ok i) :
    ∃ hi : i < vs.length, (vs[i]).matches raw ic = true ∧ ∀ j (hj : j < i), (vs[j]'(by omega)).matches raw ic = false := by
  unfold enumValueParser at h
  cases hv : Utf8.valid raw <;> simp [hv] at h
  cases hf : vs.findIdx? (fun v => v.matches raw ic) with
  | none => simp [hf] at h
  | some k =>
    simp [hf] at h
    subst h
    rw [List.findIdx?_eq_some_iff_getElem] at hf
    obtain ⟨hk, hm, hmin⟩ := hf
    exact ⟨hk, hm, fun j hj => by simpa using hmin j hj⟩

/-! #### 6. typed access never disturbs the store when it fails -/

open Store in
/-- a typed get/remove with the wrong type or an unknown id returns an error and
leaves the store equal (keys, order, values); reads never change it -/
theorem typed_access_frame (s : St) (op : Op) :
    ((step s op).2 = .errDowncast ∨ (step s op).2 = .errUnknown → (step s op).1 = s) ∧
    ((∃ id t, op = .getOne id t ∨ op = .getMany id t) ∨ (∃ id, op = .getRaw id ∨ op = .contains id) → (step s op).1 = s) := by
  cases op <;> simp only [step, getT] <;> (try split) <;> (try split) <;> (try split) <;> simp_all

open Store in
/-- over every history: if every call of a history failed or was a read, the store is untouched -/
theorem typed_access_frame_history (ops : List Op) : ∀ (s : St),
    (∀ p ∈ run s ops, p.1 = .errDowncast ∨ p.1 = .errUnknown) → ∀ p ∈ run s ops, p.2 = s.args.map (·.1) := by
  induction ops with
  | nil => intro s _ p hp; simp [run] at hp
  | cons op ops ih =>
    intro s hall p hp
    simp only [run] at hall hp
    have h0 := hall _ (List.mem_cons_self)
    have hs : (step s op).1 = s := (typed_access_frame s op).1 h0
    rcases List.mem_cons.1 hp with rfl | hp'
    · simp [hs]
    · have := ih (step s op).1 (fun q hq => hall q (List.mem_cons_of_mem _ hq)) p hp'
      rw [hs] at this; exact this

open Store in
/-- a successful removal takes out exactly that entry and keeps the others in order -/
theorem removeKey_sublist (id : Bytes) : ∀ l : List (Bytes × Entry), (removeKey id l).Sublist l
  | [] => by simp [removeKey]
  | p :: ps => by
    unfold removeKey
    split
    · exact List.sublist_cons_self p ps
    · exact (removeKey_sublist id ps).cons_cons p

end Clap.C04
