/-
C02 / C08 — attribution at loop level: a command line spelt with exact long names - `--name=value`,
`--flag`, also by alias or unambiguous prefix - is processed as exactly one occurrence per token, in order, each carrying exactly the
bytes after the `=`.
-/
import ClapProofs.C08
import ClapProofs.C01Loop
namespace Clap.C02
open Clap Parser Bytes

/-- an occurrence written with a long name - the canonical one, an alias, or (under `infer_long_args`) an unambiguous
prefix: `--name=value` or (for a flag) `--name` -/
structure LOcc where
  name : Bytes
  value : Option Bytes

def LOcc.spell (o : LOcc) : Bytes :=
  match o.value with
  | some v => dash :: dash :: o.name ++ Bytes.eq :: v
  | none => dash :: dash :: o.name

/-- the token is not a subcommand name, alias or (under `infer_subcommands`) unambiguous prefix of one, whatever was
parsed before - on a level without subcommands every token is like that -/
def NoSubTok (c : Cmd) (tok : Bytes) : Prop := ∀ vaf, possibleSubcommand c tok vaf = none

/-- what the occurrence means: the arg the name is a key of, with the attached value if the arg takes values -/
def LOcc.ok (c : Cmd) (o : LOcc) : Prop :=
  NoSubTok c o.spell ∧ Bytes.eq ∉ o.name ∧ o.name ≠ [] ∧ Utf8.valid o.name = true ∧
  ∃ a, findLong c o.name = some a ∧ a.takesValue = o.value.isSome

/-- the abstract run: one `react` per occurrence, in order, stopping at the first error -/
def runOccs (c : Cmd) : List LOcc → P → R LoopEnd
  | [], p => (p, .ok .done)
  | o :: rest, p =>
    match findLong c o.name with
    | none => (p, .error .unknownArgument)
    | some a =>
      match react c (some .long) .cmdline a o.value.toList none p with
      | (p1, .error e) => (p1, .error e)
      | (p1, .ok _) => runOccs c rest p1

theorem possibleSubcommand_none_of_no_subs (c : Cmd) (h : c.subs = []) (tok : Bytes) (vaf : Bool) :
    possibleSubcommand c tok vaf = none := by
  unfold possibleSubcommand
  simp [h, Cmd.findSubcommand]

theorem noSubTok_of_no_subs (c : Cmd) (h : c.subs = []) (tok : Bytes) : NoSubTok c tok :=
  fun vaf => possibleSubcommand_none_of_no_subs c h tok vaf

theorem spell_not_escape (o : LOcc) (hne : o.name ≠ []) : ParsedArg.isEscape o.spell = false := by
  unfold LOcc.spell ParsedArg.isEscape
  cases hn : o.name with
  | nil => exact absurd hn hne
  | cons x xs => cases o.value <;> simp [hn]

/-- **one token, one occurrence**: in the ground state the loop handles `--name=value` / `--name` by a single
`react` on the named arg with exactly the attached bytes, then goes on with the rest -/
theorem loop_long_step (c : Cmd) (similar : Bytes → Bytes → Bool) (o : LOcc) (hns : NoSubTok c o.spell) (a : Arg)
    (hname : Bytes.eq ∉ o.name) (hne : o.name ≠ []) (hutf : Utf8.valid o.name = true)
    (hget : findLong c o.name = some a) (htv : a.takesValue = o.value.isSome)
    (ls : LoopSt) (rest : List Bytes) (p : P) (htr : ls.trailing = false) (hst : ls.st = .valuesDone) :
    loop c similar ls (o.spell :: rest) p =
      match react c (some .long) .cmdline a o.value.toList none p with
      | (p1, .error e) => (p1, .error e)
      | (p1, .ok _) => loop c similar { ls with validArgFound := true } rest p1 := by
  have hsc := hns ls.validArgFound
  have hesc := spell_not_escape o hne
  have hfl : findLong c o.name = some a := hget
  rw [loop]
  simp only [htr, Bool.false_eq_true, ↓reduceIte, hst, hsc, hesc, BEq.rfl, Bool.or_true]
  cases hv : o.value with
  | some v =>
    have htl : ParsedArg.toLong o.spell = some (o.name, Utf8.valid o.name, some v) := by
      unfold LOcc.spell; rw [hv]; exact C08.toLong_attached o.name v hname hne
    rw [hv] at htv
    simp only [htl, parseLongArg, stateArg, Option.map_none, Option.getD_none, Bool.false_eq_true, ↓reduceIte, hutf,
      Bool.not_true, Option.isNone_some, Bool.and_false, hfl, htv, Option.isSome_some, parseOptValue, Bool.and_false,
      Option.toList_some]
    have hres := C01.react_result c (some .long) .cmdline a [v] none p
    cases hr : react c (some .long) .cmdline a [v] none p with
    | mk p1 r =>
      rw [hr] at hres
      cases r with
      | error e => simp
      | ok r' =>
        have := hres r' rfl
        subst this
        simp [hst]
  | none =>
    have htl : ParsedArg.toLong o.spell = some (o.name, Utf8.valid o.name, none) := by
      unfold LOcc.spell; rw [hv]; exact C08.toLong_separate o.name hname hne
    rw [hv] at htv
    have hne' : (o.name.isEmpty && true) = false := by
      cases hn : o.name with
      | nil => exact absurd hn hne
      | cons x xs => rfl
    simp only [htl, parseLongArg, stateArg, Option.map_none, Option.getD_none, Bool.false_eq_true, ↓reduceIte, hutf,
      Bool.not_true, Option.isNone_none, hne', hfl, htv, Option.isSome_none, Option.toList_none]
    have hres := C01.react_result c (some .long) .cmdline a [] none p
    cases hr : react c (some .long) .cmdline a [] none p with
    | mk p1 r =>
      rw [hr] at hres
      cases r with
      | error e => simp
      | ok r' =>
        have := hres r' rfl
        subst this
        simp [hst]

/-- **attribution for exact long spellings, any length**: on a level without subcommands, a command line made of
`--name=value` / `--flag` tokens with exact names is processed as exactly the sequence of occurrences it spells -
one `react` per token, on the arg that owns the name, with exactly the bytes after `=` (none for a flag), in argv
order; nothing is invented, dropped, duplicated or given to another arg. Induction over the command line. -/
theorem loop_long_run (c : Cmd) (similar : Bytes → Bytes → Bool) :
    ∀ (occs : List LOcc), (∀ o ∈ occs, o.ok c) → ∀ (ls : LoopSt) (p : P), ls.trailing = false → ls.st = .valuesDone →
      loop c similar ls (occs.map LOcc.spell) p = runOccs c occs p := by
  intro occs
  induction occs with
  | nil => intro _ ls p _ _; simp [loop, runOccs]
  | cons o rest ih =>
    intro hok ls p htr hst
    obtain ⟨hns, hname, hne, hutf, a, hget, htv⟩ := hok o List.mem_cons_self
    rw [List.map_cons, loop_long_step c similar o hns a hname hne hutf hget htv ls _ p htr hst]
    unfold runOccs
    rw [hget]
    simp only
    cases hr : react c (some .long) .cmdline a o.value.toList none p with
    | mk p1 r =>
      cases r with
      | error e => rfl
      | ok r' =>
        simp only
        exact ih (fun o' ho' => hok o' (List.mem_cons_of_mem _ ho')) _ p1 htr hst

/-- the hypotheses are met: `prog --opt=v --flag` on a command with an option and a flag -/
example :
    let c : Cmd := .mk [112] [] none none [] [] {}
      [{ id := [111], long := some [111] }, { id := [102], long := some [102], action := some .setTrue, numVals := some ⟨0, some 0⟩ }] [] []
    c.subs = [] ∧ (⟨[111], some [118]⟩ : LOcc).ok c ∧ (⟨[102], none⟩ : LOcc).ok c := by
  refine ⟨rfl, ⟨noSubTok_of_no_subs _ rfl _, by decide, by decide, by decide, _, rfl, by decide⟩,
    ⟨noSubTok_of_no_subs _ rfl _, by decide, by decide, by decide, _, rfl, by decide⟩⟩

/-! #### both spellings of an option's value: `--name=value` and `--name value` -/

/-- an occurrence with a choice of spelling: `sep` = the value is the next token -/
structure SOcc where
  name : Bytes
  value : Option Bytes
  sep : Bool

def SOcc.toL (o : SOcc) : LOcc := ⟨o.name, o.value⟩

def SOcc.spell (o : SOcc) : List Bytes :=
  match o.value, o.sep with
  | some v, true => [dash :: dash :: o.name, v]
  | _, _ => [o.toL.spell]

/-- the separate spelling is offered for single-valued options without `require_equals` or a terminator, and for
values that do not look like a flag -/
def SOcc.ok (c : Cmd) (o : SOcc) : Prop :=
  o.toL.ok c ∧
  (o.sep = true → ∀ v, o.value = some v → ∀ a, findLong c o.name = some a →
    NoSubTok c (dash :: dash :: o.name) ∧ NoSubTok c v ∧
    Bytes.startsWith v [dash] = false ∧ a.getNumArgs = Range.single ∧ a.requireEquals = false ∧ a.terminator = none)

/-- what the caller of the loop sees: `Parser::parse`'s next step resolves whatever is still pending -/
def obs (c : Cmd) (x : R LoopEnd) : Except EK (P × LoopEnd) :=
  match x with
  | (p, .ok le) =>
    match resolvePending c p with
    | (q, .ok ()) => .ok (q, le)
    | (_, .error e) => .error e
  | (_, .error e) => .error e

def obsA (x : R LoopEnd) : Except EK (P × LoopEnd) :=
  match x with
  | (q, .ok le) => .ok (q, le)
  | (_, .error e) => .error e

theorem resolvePending_none (c : Cmd) (q : P) (h : q.pending = none) : resolvePending c q = (q, .ok ()) := by
  unfold resolvePending; rw [h]

theorem react_none (c : Cmd) (i : Option Ident) (s : Source) (a : Arg) (vals : List Bytes) (t : Option Nat) (q : P)
    (h : q.pending = none) : react c i s a vals t q = reactCore c i s a vals t q := by
  unfold react; rw [resolvePending_none c q h]

theorem noDash_lex {v : Bytes} (h : Bytes.startsWith v [dash] = false) :
    ParsedArg.isEscape v = false ∧ ParsedArg.toLong v = none ∧ ParsedArg.toShort v = none := by
  cases v with
  | nil => simp [ParsedArg.isEscape, ParsedArg.toLong, ParsedArg.toShort, Bytes.stripPrefix]
  | cons x xs =>
    have hx : (x == dash) = false := by simpa [Bytes.startsWith] using h
    refine ⟨?_, ?_, ?_⟩
    · unfold ParsedArg.isEscape
      apply Bool.eq_false_iff.2
      intro heq
      have : x :: xs = [dash, dash] := by simpa using heq
      simp at this
      rw [this.1] at hx; simp at hx
    · simp [ParsedArg.toLong, Bytes.stripPrefix, hx]
    · simp [ParsedArg.toShort, Bytes.stripPrefix, hx]

theorem resolvePending_ok_pending (c : Cmd) (p q : P) (u : Unit) (hr : resolvePending c p = (q, .ok u)) :
    q.pending = none := by
  unfold resolvePending at hr
  split at hr
  · next hpn =>
    have : p = q := by simpa using hr
    rw [← this]; exact hpn
  · next pd hpd =>
    simp only at hr
    split at hr
    · simp at hr
    · next a' _ =>
      have h1 := C01.reactCore_pending c pd.ident .cmdline a' pd.rawVals pd.trailingIdx { p with pending := none }
      cases hrc : reactCore c pd.ident .cmdline a' pd.rawVals pd.trailingIdx { p with pending := none } with
      | mk p2 r2 =>
        rw [hrc] at hr h1
        have : p2 = q := by
          cases r2 <;> simp [Except.map] at hr
          exact hr
        rw [← this]; exact h1

/-- the value token of `--name value`: it joins the pending option, which then has all its values -/
theorem loop_value_step (c : Cmd) (similar : Bytes → Bytes → Bool) (v : Bytes) (hnsv : NoSubTok c v) (a : Arg)
    (hfind : c.find a.id = some a)
    (hv : Bytes.startsWith v [dash] = false) (hnum : a.getNumArgs = Range.single) (hterm : a.terminator = none)
    (ls : LoopSt) (rest : List Bytes) (q : P) (htr : ls.trailing = false) (hst : ls.st = .opt a.id)
    (hq : q.pending = some { id := a.id, ident := some .long, rawVals := [], trailingIdx := none }) :
    loop c similar ls (v :: rest) q =
      loop c similar { ls with st := .valuesDone } rest
        { q with pending := some { id := a.id, ident := some .long, rawVals := [v], trailingIdx := none } } := by
  have hsc := hnsv ls.validArgFound
  obtain ⟨hvesc, hvlong, hvshort⟩ := noDash_lex hv
  have hterm' : isTerminator a v = false := by simp [isTerminator, hterm]
  have hnm : needsMoreVals { q with pending := some { id := a.id, ident := some .long, rawVals := [v], trailingIdx := none } } a = false := by
    simp [needsMoreVals, hnum, Range.single, Range.acceptsMore]
  rw [loop]
  simp only [htr, Bool.false_eq_true, ↓reduceIte, hsc, ite_self, hvesc, hvlong, hvshort, optValuePart, hst, hfind, hterm',
    pendingPush, hq, Option.getD_some, bne_self_eq_false, Option.isSome_none, Bool.false_and, List.nil_append, hnm]

/-- **`--name value`**: from the ground state the two tokens leave exactly the value pending for the named arg
(after resolving what was pending before) and return to the ground state -/
theorem loop_sep_step (c : Cmd) (wf : C01.WF c) (similar : Bytes → Bytes → Bool) (name v : Bytes)
    (hns : NoSubTok c (dash :: dash :: name)) (hnsv : NoSubTok c v)
    (a : Arg) (hname : Bytes.eq ∉ name) (hne : name ≠ []) (hutf : Utf8.valid name = true)
    (hget : findLong c name = some a) (htv : a.takesValue = true)
    (hv : Bytes.startsWith v [dash] = false) (hnum : a.getNumArgs = Range.single) (hreq : a.requireEquals = false)
    (hterm : a.terminator = none)
    (ls : LoopSt) (rest : List Bytes) (p : P) (htr : ls.trailing = false) (hst : ls.st = .valuesDone) :
    loop c similar ls ((dash :: dash :: name) :: v :: rest) p =
      match resolvePending c p with
      | (q, .error e) => (q, .error e)
      | (q, .ok ()) =>
        loop c similar { ls with validArgFound := true } rest
          { q with pending := some { id := a.id, ident := some .long, rawVals := [v], trailingIdx := none } } := by
  have hsc := hns ls.validArgFound
  have hfl : findLong c name = some a := hget
  obtain ⟨hfind, _⟩ := C01.findLong_spec wf hfl
  have htl : ParsedArg.toLong (dash :: dash :: name) = some (name, Utf8.valid name, none) :=
    C08.toLong_separate name hname hne
  have hesc : ParsedArg.isEscape (dash :: dash :: name) = false := by
    cases hn : name with
    | nil => exact absurd hn hne
    | cons x xs => simp [ParsedArg.isEscape]
  have hne' : (name.isEmpty && true) = false := by
    cases hn : name with
    | nil => exact absurd hn hne
    | cons x xs => rfl
  rw [loop]
  simp only [htr, Bool.false_eq_true, ↓reduceIte, hst, hsc, ite_self, hesc, htl, parseLongArg, stateArg, Option.map_none,
    Option.getD_none, hutf, Bool.not_true, Option.isNone_none, hne', hfl, htv, parseOptValue, hreq, Bool.false_and,
    Option.isSome_none]
  cases hr : resolvePending c p with
  | mk q r =>
    cases r with
    | error e => simp
    | ok u =>
      have hqn : q.pending = none := resolvePending_ok_pending c p q u hr
      simp only [pendingPush, hqn, Option.getD_none, bne_self_eq_false, Bool.false_eq_true, ↓reduceIte,
        Option.isSome_some, Bool.true_and]
      have := loop_value_step c similar v hnsv a hfind hv hnum hterm
        { st := .opt a.id, posCounter := ls.posCounter, validArgFound := true, trailing := false } rest
        { q with pending := some { id := a.id, ident := some .long, rawVals := [], trailingIdx := none } } rfl rfl rfl
      simpa [hst, htr] using this

theorem resolvePending_some (c : Cmd) (q : P) (a : Arg) (v : Bytes) (hq : q.pending = none) (hfind : c.find a.id = some a) :
    resolvePending c { q with pending := some { id := a.id, ident := some .long, rawVals := [v], trailingIdx := none } } =
      ((reactCore c (some .long) .cmdline a [v] none q).1, (reactCore c (some .long) .cmdline a [v] none q).2.map fun _ => ()) := by
  have hq' : ({ q with pending := none } : P) = q := by cases q; simp_all
  unfold resolvePending
  simp only [hfind, hq']

/-- **attribution, both spellings, any length**: a command line of exact long names with values attached
(`--name=value`) or in the next token (`--name value`), in any mixture, is observed by the rest of the parser as
exactly the sequence of occurrences it spells - one `react` per occurrence on the owner of the name with exactly
the value's bytes, in order -/
theorem loop_spellings (c : Cmd) (wf : C01.WF c) (similar : Bytes → Bytes → Bool) :
    ∀ (occs : List SOcc), (∀ o ∈ occs, o.ok c) → ∀ (ls : LoopSt) (p : P), ls.trailing = false → ls.st = .valuesDone →
      obs c (loop c similar ls (occs.flatMap SOcc.spell) p) =
        match resolvePending c p with
        | (q, .ok ()) => obsA (runOccs c (occs.map SOcc.toL) q)
        | (_, .error e) => .error e := by
  intro occs
  induction occs with
  | nil =>
    intro _ ls p _ _
    simp only [List.flatMap_nil, loop, obs, List.map_nil, runOccs, obsA]
  | cons o rest ih =>
    intro hok ls p htr hst
    obtain ⟨⟨hns, hname, hne, hutf, a, hget, htv⟩, hsep⟩ := hok o List.mem_cons_self
    simp only [SOcc.toL] at hname hne hutf hget htv
    have hok' : ∀ o' ∈ rest, o'.ok c := fun o' ho' => hok o' (List.mem_cons_of_mem _ ho')
    have hfl : findLong c o.name = some a := hget
    obtain ⟨hfind, _⟩ := C01.findLong_spec wf hfl
    rw [List.flatMap_cons, List.map_cons]
    -- what both sides do once the pending arg is resolved to `q` and the occurrence has reacted
    have tail : ∀ (q : P) (vals : List Bytes), q.pending = none → o.value.toList = vals →
        ∀ (x : R LoopEnd),
          x = (match reactCore c (some .long) .cmdline a vals none q with
            | (p1, .error e) => (p1, .error e)
            | (p1, .ok _) => runOccs c (rest.map SOcc.toL) p1) →
          obsA (runOccs c (o.toL :: rest.map SOcc.toL) q) = obsA x := by
      intro q vals hq hvals x hx
      subst hx
      conv => lhs; unfold runOccs
      simp only [SOcc.toL, hget]
      rw [hvals, react_none c _ _ _ _ _ q hq]
    cases hr : resolvePending c p with
    | mk q r =>
      cases r with
      | error e =>
        -- whatever was pending fails to resolve: both spellings surface that error at the first token
        simp only
        cases hv : o.value with
        | none =>
          have hsp : o.spell = [o.toL.spell] := by simp [SOcc.spell, hv]
          rw [hsp, List.singleton_append,
            loop_long_step c similar o.toL hns a hname hne hutf hget htv ls _ p htr hst]
          unfold react; rw [hr]; rfl
        | some v =>
          cases hs : o.sep with
          | false =>
            have hsp : o.spell = [o.toL.spell] := by simp [SOcc.spell, hv, hs]
            rw [hsp, List.singleton_append,
              loop_long_step c similar o.toL hns a hname hne hutf hget htv ls _ p htr hst]
            unfold react; rw [hr]; rfl
          | true =>
            obtain ⟨hns1, hnsv, hvd, hnum, hreq, hterm⟩ := hsep hs v hv a hget
            have hsp : o.spell = [dash :: dash :: o.name, v] := by simp [SOcc.spell, hv, hs]
            rw [hsp]
            simp only [List.cons_append, List.nil_append]
            rw [loop_sep_step c wf similar o.name v hns1 hnsv a hname hne hutf hget (by rw [htv, hv]; rfl) hvd hnum hreq hterm
              ls _ p htr hst, hr]
            rfl
      | ok u =>
        have hq : q.pending = none := resolvePending_ok_pending c p q u hr
        simp only
        -- the one-token spellings
        have one : o.spell = [o.toL.spell] →
            obs c (loop c similar ls (o.spell ++ rest.flatMap SOcc.spell) p) =
              obsA (runOccs c (o.toL :: rest.map SOcc.toL) q) := by
          intro hsp
          rw [hsp, List.singleton_append,
            loop_long_step c similar o.toL hns a hname hne hutf hget htv ls _ p htr hst]
          have hreact : react c (some .long) .cmdline a o.toL.value.toList none p =
              reactCore c (some .long) .cmdline a o.value.toList none q := by
            unfold react; rw [hr]; rfl
          rw [hreact]
          rw [tail q o.value.toList hq rfl _ rfl]
          cases hrc : reactCore c (some .long) .cmdline a o.value.toList none q with
          | mk p1 r1 =>
            cases r1 with
            | error e => rfl
            | ok r' =>
              simp only
              have hp1 : p1.pending = none := by
                have := C01.reactCore_pending c (some .long) .cmdline a o.value.toList none q
                rw [hrc] at this; rw [this]; exact hq
              rw [ih hok' { ls with validArgFound := true } p1 htr hst, resolvePending_none c p1 hp1]
        cases hv : o.value with
        | none => exact one (by simp [SOcc.spell, hv])
        | some v =>
          cases hs : o.sep with
          | false => exact one (by simp [SOcc.spell, hv, hs])
          | true =>
            obtain ⟨hns1, hnsv, hvd, hnum, hreq, hterm⟩ := hsep hs v hv a hget
            have hsp : o.spell = [dash :: dash :: o.name, v] := by simp [SOcc.spell, hv, hs]
            rw [hsp]
            simp only [List.cons_append, List.nil_append]
            rw [loop_sep_step c wf similar o.name v hns1 hnsv a hname hne hutf hget (by rw [htv, hv]; rfl) hvd hnum hreq hterm
              ls _ p htr hst, hr]
            simp only
            rw [ih hok' { ls with validArgFound := true } _ htr hst, resolvePending_some c q a v hq hfind]
            rw [tail q [v] hq (by rw [hv]; rfl) _ rfl]
            cases hrc : reactCore c (some .long) .cmdline a [v] none q with
            | mk p1 r1 =>
              cases r1 with
              | error e => rfl
              | ok r' => rfl

/-- **`--name=value` and `--name value` are interchangeable** (C08, at the level of whole command lines): two
command lines that spell the same occurrences, differing only in which values are attached, are observed
identically - same matches-in-progress or same error -/
theorem spellings_equivalent (c : Cmd) (wf : C01.WF c) (similar : Bytes → Bytes → Bool)
    (occs occs' : List SOcc) (hok : ∀ o ∈ occs, o.ok c) (hok' : ∀ o ∈ occs', o.ok c)
    (hsame : occs.map SOcc.toL = occs'.map SOcc.toL) (ls : LoopSt) (p : P)
    (htr : ls.trailing = false) (hst : ls.st = .valuesDone) :
    obs c (loop c similar ls (occs.flatMap SOcc.spell) p) = obs c (loop c similar ls (occs'.flatMap SOcc.spell) p) := by
  rw [loop_spellings c wf similar occs hok ls p htr hst, loop_spellings c wf similar occs' hok' ls p htr hst, hsame]

/-- the hypotheses are met by `prog --opt v --flag --opt=w` (an option spelt both ways, and a flag) -/
example :
    let c : Cmd := .mk [112] [] none none [] [] { argsOverrideSelf := true }
      [{ id := [111], long := some [111] }, { id := [102], long := some [102], action := some .setTrue, numVals := some ⟨0, some 0⟩ }] [] []
    c.subs = [] ∧ (⟨[111], some [118], true⟩ : SOcc).ok c ∧ (⟨[102], none, false⟩ : SOcc).ok c ∧
      (⟨[111], some [119], false⟩ : SOcc).ok c := by
  refine ⟨rfl, ⟨⟨noSubTok_of_no_subs _ rfl _, by decide, by decide, by decide, _, rfl, by decide⟩, ?_⟩,
    ⟨⟨noSubTok_of_no_subs _ rfl _, by decide, by decide, by decide, _, rfl, by decide⟩, ?_⟩,
    ⟨⟨noSubTok_of_no_subs _ rfl _, by decide, by decide, by decide, _, rfl, by decide⟩, ?_⟩⟩
  · intro _ v hv a ha
    simp [SOcc.toL] at hv ha
    subst hv
    have : a = { id := [111], long := some [111] } := by
      simpa [findLong, Cmd.getLong, Cmd.getKey, Cmd.args, Arg.keys] using ha.symm
    subst this
    exact ⟨noSubTok_of_no_subs _ rfl _, noSubTok_of_no_subs _ rfl _, by decide, by decide, by decide, by decide⟩
  · intro h; cases h
  · intro h; cases h

theorem runOccs_congr (c : Cmd) : ∀ (l l' : List LOcc),
    l.map (fun o => (findLong c o.name, o.value)) = l'.map (fun o => (findLong c o.name, o.value)) →
    ∀ p, runOccs c l p = runOccs c l' p
  | [], [], _, _ => rfl
  | [], _ :: _, h, _ => by simp at h
  | _ :: _, [], h, _ => by simp at h
  | o :: l, o' :: l', h, p => by
    simp only [List.map_cons, List.cons.injEq, Prod.mk.injEq] at h
    obtain ⟨⟨h1, h2⟩, h3⟩ := h
    unfold runOccs
    rw [h1, h2]
    split
    · rfl
    · split
      · rfl
      · exact runOccs_congr c l l' h3 _

/-- **any long spelling of the same occurrences** - canonical name, alias, unambiguous prefix (with
`infer_long_args`), value attached or separate, in any mixture - is observed identically (C08, whole command lines) -/
theorem long_spellings_equivalent (c : Cmd) (wf : C01.WF c) (similar : Bytes → Bytes → Bool)
    (occs occs' : List SOcc) (hok : ∀ o ∈ occs, o.ok c) (hok' : ∀ o ∈ occs', o.ok c)
    (hsame : occs.map (fun o => (findLong c o.name, o.value)) = occs'.map (fun o => (findLong c o.name, o.value)))
    (ls : LoopSt) (p : P) (htr : ls.trailing = false) (hst : ls.st = .valuesDone) :
    obs c (loop c similar ls (occs.flatMap SOcc.spell) p) = obs c (loop c similar ls (occs'.flatMap SOcc.spell) p) := by
  rw [loop_spellings c wf similar occs hok ls p htr hst, loop_spellings c wf similar occs' hok' ls p htr hst]
  have : ∀ q, runOccs c (occs.map SOcc.toL) q = runOccs c (occs'.map SOcc.toL) q :=
    runOccs_congr c _ _ (by simpa [List.map_map, SOcc.toL, Function.comp_def] using hsame)
  cases resolvePending c p with
  | mk q r => cases r <;> simp [this]

end Clap.C02
