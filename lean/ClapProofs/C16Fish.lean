/-
C16 — the fish generator: every level down to two below the root has its `complete` lines in the script, each line
guarded by the condition that names the path; deeper levels are not generated (the source's documented limit).
-/
import ClapProofs.C16
import ClapModel.FishGen
namespace Clap.C16
open Clap Shell FishGen

theorem genNames_mem (bin needsFn usingFn : Str) (parents : List Str) (sc : FNode) : ∀ (names : List Str) (nm : Str), nm ∈ names →
    genInner bin needsFn usingFn (parents ++ [nm]) sc <:+: genNames bin needsFn usingFn parents sc names := by
  intro names
  induction names with
  | nil => intro nm h; cases h
  | cons x xs ih =>
    intro nm h
    unfold genNames
    rcases List.mem_cons.1 h with rfl | h'
    · exact infix_append_left _ (List.infix_refl _)
    · exact infix_append_right _ (ih nm h')

theorem genSubs_mem (bin needsFn usingFn : Str) (parents : List Str) : ∀ (subs : List FNode) (sc : FNode), sc ∈ subs →
    ∀ nm ∈ sc.names, genInner bin needsFn usingFn (parents ++ [nm]) sc <:+: genSubs bin needsFn usingFn parents subs := by
  intro subs
  induction subs with
  | nil => intro sc h; cases h
  | cons x xs ih =>
    intro sc h nm hnm
    unfold genSubs
    rcases List.mem_cons.1 h with rfl | h'
    · exact infix_append_left _ (genNames_mem bin needsFn usingFn parents sc sc.names nm hnm)
    · exact infix_append_right _ (ih sc h' nm hnm)

theorem genInner_level (bin needsFn usingFn : Str) (parents : List Str) (n : FNode) (h : parents.length ≤ 2) :
    levelLines bin needsFn usingFn parents n <:+: genInner bin needsFn usingFn parents n := by
  cases n with
  | mk names about opts hasPos subs =>
    unfold genInner
    have : ¬ parents.length > 2 := by omega
    simp only [this, ↓reduceIte]
    exact infix_append_left _ (List.infix_refl _)

theorem genInner_sub (bin needsFn usingFn : Str) (parents : List Str) (n : FNode) (h : parents.length ≤ 2)
    (sc : FNode) (hs : sc ∈ n.subs) (nm : Str) (hn : nm ∈ sc.names) :
    genInner bin needsFn usingFn (parents ++ [nm]) sc <:+: genInner bin needsFn usingFn parents n := by
  cases n with
  | mk names about opts hasPos subs =>
    have hR : genInner bin needsFn usingFn parents (.mk names about opts hasPos subs) =
        levelLines bin needsFn usingFn parents (.mk names about opts hasPos subs) ++ genSubs bin needsFn usingFn parents subs := by
      have : ¬ parents.length > 2 := by omega
      unfold genInner
      simp only [this, ↓reduceIte]
    rw [hR]
    exact infix_append_right _ (genSubs_mem bin needsFn usingFn parents subs sc hs nm hn)

/-- the helper-function names the script uses -/
def fnNames (bin : Str) (root : FNode) : Str × Str :=
  if root.subs.isEmpty then (s "__fish_use_subcommand", s "__fish_seen_subcommand_from")
  else (s "__fish_" ++ escapeName bin ++ s "_needs_command", s "__fish_" ++ escapeName bin ++ s "_using_subcommand")

theorem script_has_inner (bin : Str) (root : FNode) :
    genInner bin (fnNames bin root).1 (fnNames bin root).2 [] root <:+: script bin root := by
  unfold script fnNames
  split
  · exact List.infix_refl _
  · exact infix_append_right _ (List.infix_refl _)

/-- **the root level, every first-level subcommand under every visible spelling, and every second-level subcommand
under every spelling have their lines in the fish script** -/
theorem fish_level_root (bin : Str) (root : FNode) :
    levelLines bin (fnNames bin root).1 (fnNames bin root).2 [] root <:+: script bin root :=
  List.IsInfix.trans (genInner_level _ _ _ [] root (by simp)) (script_has_inner bin root)

theorem fish_level_one (bin : Str) (root c : FNode) (hc : c ∈ root.subs) (nm : Str) (hn : nm ∈ c.names) :
    levelLines bin (fnNames bin root).1 (fnNames bin root).2 [nm] c <:+: script bin root :=
  List.IsInfix.trans (genInner_level _ _ _ [nm] c (by simp))
    (List.IsInfix.trans (genInner_sub _ _ _ [] root (by simp) c hc nm hn) (script_has_inner bin root))

theorem fish_level_two (bin : Str) (root c g : FNode) (hc : c ∈ root.subs) (nm : Str) (hn : nm ∈ c.names)
    (hg : g ∈ c.subs) (nm2 : Str) (hn2 : nm2 ∈ g.names) :
    levelLines bin (fnNames bin root).1 (fnNames bin root).2 [nm, nm2] g <:+: script bin root :=
  List.IsInfix.trans (genInner_level _ _ _ [nm, nm2] g (by simp))
    (List.IsInfix.trans (genInner_sub _ _ _ [nm] c (by simp) g hg nm2 hn2)
      (List.IsInfix.trans (genInner_sub _ _ _ [] root (by simp) c hc nm hn) (script_has_inner bin root)))

/-- a level's lines hold a line for every option and every flag, spelling every short and long of it -/
theorem levelLines_has_opt (bin needsFn usingFn : Str) (parents : List Str) (n : FNode) (cond : Str)
    (hc : condition needsFn usingFn parents n = some cond) (o : FOpt) (ho : o ∈ n.opts) :
    (if o.takes then optLine (s "complete -c " ++ bin ++ cond) o else flagLine (s "complete -c " ++ bin ++ cond) o)
      <:+: levelLines bin needsFn usingFn parents n := by
  unfold levelLines
  rw [hc]
  simp only
  by_cases ht : o.takes = true
  · simp only [ht, ↓reduceIte]
    exact infix_append_left _ (infix_append_left _ (infix_flatMap _ _ o (List.mem_filter.2 ⟨ho, ht⟩)))
  · have hf : o.takes = false := by simpa using ht
    simp only [hf, Bool.false_eq_true, ↓reduceIte]
    exact infix_append_left _ (infix_append_right _ (infix_flatMap _ _ o (List.mem_filter.2 ⟨ho, by simp [hf]⟩)))

theorem optSpells_has_long (o : FOpt) (l : Str) (hl : l ∈ o.longs) : (s " -l " ++ escapeString l false) <:+: optSpells o := by
  unfold optSpells
  exact infix_append_left _ (infix_append_right _ (infix_flatMap o.longs (fun l => s " -l " ++ escapeString l false) l hl))

theorem optSpells_has_short (o : FOpt) (x : Str) (hx : x ∈ o.shorts) : (s " -s " ++ x) <:+: optSpells o := by
  unfold optSpells
  exact infix_append_left _ (infix_append_left _ (infix_flatMap o.shorts (fun x => s " -s " ++ x) x hx))

/-- … and a line offering every subcommand name and visible alias of the level -/
theorem levelLines_has_sub (bin needsFn usingFn : Str) (parents : List Str) (n : FNode) (cond : Str)
    (hc : condition needsFn usingFn parents n = some cond) (sc : FNode) (hs : sc ∈ n.subs) (nm : Str) (hn : nm ∈ sc.names) :
    (s " -a \"" ++ nm ++ s "\"") <:+: levelLines bin needsFn usingFn parents n := by
  unfold levelLines
  rw [hc]
  simp only
  refine infix_append_right _ (List.IsInfix.trans ?_ (infix_flatMap n.subs _ sc hs))
  refine List.IsInfix.trans ?_ (infix_flatMap sc.names _ nm hn)
  exact ⟨_, _, by simp only [List.append_assoc]; rfl⟩

/-- **the documented limit**: below two levels nothing is generated -/
theorem fish_deeper_levels_absent (bin needsFn usingFn : Str) (parents : List Str) (n : FNode) (h : 2 < parents.length) :
    genInner bin needsFn usingFn parents n = [] := by
  cases n with
  | mk names about opts hasPos subs => unfold genInner; simp [h]

/-- the condition of a level at depth one names the subcommand spelling, and excludes - by name - every spelling of the
next level, so that the level's options are not offered once a deeper subcommand has been typed -/
theorem condition_one (needsFn usingFn c : Str) (n : FNode) :
    condition needsFn usingFn [c] n = some (s " -n \"" ++ usingFn ++ s " " ++ c ++
      (if n.subs.isEmpty then [] else s "; and not __fish_seen_subcommand_from") ++ ((subNames n).flatMap fun nm => s " " ++ nm) ++ s "\"") := rfl

end Clap.C16
