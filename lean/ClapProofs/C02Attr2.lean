/-
C02 — attribution with positionals: command lines mixing long options (any long spelling, value attached or
separate), flags and positional values.
-/
import ClapProofs.C02Attr
namespace Clap.C02
open Clap Parser Bytes

/-- a positional that takes exactly one value and has no special role -/
def SinglePos (a : Arg) : Prop :=
  a.isMultiple = false ∧ a.isMultipleValues = false ∧ a.last = false ∧ a.trailingVarArg = false ∧ a.terminator = none

instance (a : Arg) : Decidable (SinglePos a) := by unfold SinglePos; infer_instance

/-- a level whose positionals need no special ordering rules: no `allow_missing_positional`, and only the last
positional (the one with the highest index) may take several values -/
structure SimplePos (c : Cmd) : Prop where
  noMissing : c.settings.allowMissingPositional = false
  lastOnly : ∀ a ∈ c.args, a.isPositional = true → a.isMultiple = true → a.index = some c.positionalCount

theorem correctPosCounter_simple {c : Cmd} (sp : SimplePos c) (ls : LoopSt) (peek : Option Bytes)
    (htr : ls.trailing = false) : correctPosCounter c ls peek = ls.posCounter := by
  have h1 : (c.positionals.any fun a => a.isMultiple && c.positionalCount != a.index.getD 0) = false := by
    apply Bool.eq_false_iff.2
    intro h
    rw [List.any_eq_true] at h
    obtain ⟨a, ha, h2⟩ := h
    unfold Cmd.positionals at ha
    obtain ⟨ha1, ha2⟩ := List.mem_filter.1 ha
    simp only [Bool.and_eq_true] at h2
    have := sp.lastOnly a ha1 ha2 h2.1
    rw [this] at h2
    simp at h2
  unfold correctPosCounter
  simp [h1, sp.noMissing, htr]

/-- **a positional value**: in the ground state a token that does not look like a flag is left pending, verbatim,
for the positional whose turn it is (after resolving what was pending before), and the counter moves on -/
theorem loop_pos_step (c : Cmd) (wf : C01.WF c) (sp : SimplePos c) (similar : Bytes → Bytes → Bool)
    (v : Bytes) (hnsv : NoSubTok c v) (a : Arg) (hsingle : SinglePos a) (hv : Bytes.startsWith v [dash] = false)
    (ls : LoopSt) (rest : List Bytes) (p : P) (htr : ls.trailing = false) (hst : ls.st = .valuesDone)
    (hget : c.getPos ls.posCounter = some a) :
    loop c similar ls (v :: rest) p =
      match resolvePending c p with
      | (q, .error e) => (q, .error e)
      | (q, .ok ()) =>
        loop c similar { ls with posCounter := ls.posCounter + 1, validArgFound := true } rest
          { q with pending := some { id := a.id, ident := some .index, rawVals := [v], trailingIdx := none } } := by
  have hsc := hnsv ls.validArgFound
  obtain ⟨hvesc, hvlong, hvshort⟩ := noDash_lex hv
  obtain ⟨hmul, hmv, hlast, htva, hterm⟩ := hsingle
  have hterm' : isTerminator a v = false := by simp [isTerminator, hterm]
  have hcp := correctPosCounter_simple sp ls rest.head? htr
  rw [loop]
  simp only [htr, Bool.false_eq_true, ↓reduceIte, hsc, ite_self, hvesc, hvlong, hvshort, optValuePart, hst, positionalPart,
    hcp, hget, hlast, Bool.false_and, hmv, Bool.not_false, Bool.or_true, htva, Bool.or_self]
  cases hr : resolvePending c p with
  | mk q r =>
    cases r with
    | error e => simp
    | ok u =>
      have hqn : q.pending = none := resolvePending_ok_pending c p q u hr
      simp [hterm', pendingPush, hqn, hmul]

/-! #### the general statement -/

inductive Occ
  | opt (o : SOcc)
  | pos (v : Bytes)

def Occ.spell : Occ → List Bytes
  | .opt o => o.spell
  | .pos v => [v]

/-- the abstract run: one `react` per occurrence, positionals in index order -/
def runAll (c : Cmd) : List Occ → Nat → P → R LoopEnd
  | [], _, p => (p, .ok .done)
  | .opt o :: rest, pc, p =>
    match findLong c o.name with
    | none => (p, .error .unknownArgument)
    | some a =>
      match react c (some .long) .cmdline a o.value.toList none p with
      | (p1, .error e) => (p1, .error e)
      | (p1, .ok _) => runAll c rest pc p1
  | .pos v :: rest, pc, p =>
    match c.getPos pc with
    | none => (p, .error .unknownArgument)
    | some a =>
      match react c (some .index) .cmdline a [v] none p with
      | (p1, .error e) => (p1, .error e)
      | (p1, .ok _) => runAll c rest (pc + 1) p1

/-- the command line is well-formed: options as in `SOcc.ok`; a positional value does not look like a flag and
there is a positional left to take it -/
def okAll (c : Cmd) : List Occ → Nat → Prop
  | [], _ => True
  | .opt o :: rest, pc => o.ok c ∧ okAll c rest pc
  | .pos v :: rest, pc => NoSubTok c v ∧ Bytes.startsWith v [dash] = false ∧ (∃ a, c.getPos pc = some a ∧ SinglePos a) ∧ okAll c rest (pc + 1)

theorem resolvePending_some' (c : Cmd) (q : P) (a : Arg) (i : Ident) (v : Bytes) (hq : q.pending = none)
    (hfind : c.find a.id = some a) :
    resolvePending c { q with pending := some { id := a.id, ident := some i, rawVals := [v], trailingIdx := none } } =
      ((reactCore c (some i) .cmdline a [v] none q).1, (reactCore c (some i) .cmdline a [v] none q).2.map fun _ => ()) := by
  have hq' : ({ q with pending := none } : P) = q := by cases q; simp_all
  unfold resolvePending
  simp only [hfind, hq']

/-- **attribution for options, flags and positionals, any length**: on a level without subcommands whose positionals
are single-valued, a command line mixing long options (canonical name, alias or unambiguous prefix; value attached
or in the next token), flags and positional values is observed by the rest of the parser as exactly the sequence of
occurrences it spells: one `react` per occurrence, on the owner of the name or on the positional whose turn it is,
with exactly the value's bytes, in argv order -/
theorem loop_occurrences (c : Cmd) (wf : C01.WF c) (sp : SimplePos c) (similar : Bytes → Bytes → Bool) :
    ∀ (occs : List Occ) (ls : LoopSt) (p : P), okAll c occs ls.posCounter → ls.trailing = false → ls.st = .valuesDone →
      obs c (loop c similar ls (occs.flatMap Occ.spell) p) =
        match resolvePending c p with
        | (q, .ok ()) => obsA (runAll c occs ls.posCounter q)
        | (_, .error e) => .error e := by
  intro occs
  induction occs with
  | nil =>
    intro ls p _ _ _
    simp only [List.flatMap_nil, loop, obs, runAll, obsA]
    cases resolvePending c p with
    | mk q r => cases r <;> rfl
  | cons oc rest ih =>
    intro ls p hok htr hst
    rw [List.flatMap_cons]
    cases oc with
    | pos v =>
      obtain ⟨hnsv, hv, ⟨a, hget, hsingle⟩, hok'⟩ := hok
      cases hget' : c.getPos ls.posCounter with
      | none => rw [hget] at hget'; cases hget'
      | some a' =>
        have : a = a' := by rw [hget] at hget'; cases hget'; rfl
        subst this
        obtain ⟨hfind, _⟩ := C01.getPos_spec wf hget
        simp only [Occ.spell, List.singleton_append]
        rw [loop_pos_step c wf sp similar v hnsv a hsingle hv ls _ p htr hst hget]
        cases hr : resolvePending c p with
        | mk q r =>
          cases r with
          | error e => rfl
          | ok u =>
            have hq : q.pending = none := resolvePending_ok_pending c p q u hr
            simp only
            rw [ih { ls with posCounter := ls.posCounter + 1, validArgFound := true } _ hok' htr hst,
              resolvePending_some' c q a .index v hq hfind]
            conv => rhs; unfold runAll
            simp only [hget]
            rw [react_none c _ _ _ _ _ q hq]
            cases hrc : reactCore c (some .index) .cmdline a [v] none q with
            | mk p1 r1 => cases r1 <;> rfl
    | opt o =>
      obtain ⟨⟨⟨hns, hname, hne, hutf, a, hget, htv⟩, hsep⟩, hok'⟩ := hok
      simp only [SOcc.toL] at hname hne hutf hget htv
      obtain ⟨hfind, _⟩ := C01.findLong_spec wf hget
      simp only [Occ.spell]
      have tail : ∀ (q : P) (vals : List Bytes), q.pending = none → o.value.toList = vals →
          obsA (runAll c (.opt o :: rest) ls.posCounter q) =
            obsA (match reactCore c (some .long) .cmdline a vals none q with
              | (p1, .error e) => (p1, .error e)
              | (p1, .ok _) => runAll c rest ls.posCounter p1) := by
        intro q vals hq hvals
        conv => lhs; unfold runAll
        simp only [hget]
        rw [hvals, react_none c _ _ _ _ _ q hq]
      cases hr : resolvePending c p with
      | mk q r =>
        cases r with
        | error e =>
          simp only
          cases hv : o.value with
          | none =>
            have hsp : o.spell = [o.toL.spell] := by simp [SOcc.spell, hv]
            rw [hsp, List.singleton_append, loop_long_step c similar o.toL hns a hname hne hutf hget htv ls _ p htr hst]
            unfold react; rw [hr]; rfl
          | some v =>
            cases hs : o.sep with
            | false =>
              have hsp : o.spell = [o.toL.spell] := by simp [SOcc.spell, hv, hs]
              rw [hsp, List.singleton_append, loop_long_step c similar o.toL hns a hname hne hutf hget htv ls _ p htr hst]
              unfold react; rw [hr]; rfl
            | true =>
              obtain ⟨hns1, hnsv, hvd, hnum, hreq, hterm⟩ := hsep hs v hv a hget
              have hsp : o.spell = [dash :: dash :: o.name, v] := by simp [SOcc.spell, hv, hs]
              rw [hsp]
              simp only [List.cons_append, List.nil_append]
              rw [loop_sep_step c wf similar o.name v hns1 hnsv a hname hne hutf hget (by rw [htv, hv]; rfl) hvd hnum hreq hterm
                ls _ p htr hst, hr]
              rfl
        | ok u =>
          have hq : q.pending = none := resolvePending_ok_pending c p q u hr
          simp only
          have one : o.spell = [o.toL.spell] →
              obs c (loop c similar ls (o.spell ++ rest.flatMap Occ.spell) p) =
                obsA (runAll c (.opt o :: rest) ls.posCounter q) := by
            intro hsp
            rw [hsp, List.singleton_append, loop_long_step c similar o.toL hns a hname hne hutf hget htv ls _ p htr hst]
            have hreact : react c (some .long) .cmdline a o.toL.value.toList none p =
                reactCore c (some .long) .cmdline a o.value.toList none q := by
              unfold react; rw [hr]; rfl
            rw [hreact, tail q o.value.toList hq rfl]
            cases hrc : reactCore c (some .long) .cmdline a o.value.toList none q with
            | mk p1 r1 =>
              cases r1 with
              | error e => rfl
              | ok r' =>
                simp only
                have hp1 : p1.pending = none := by
                  have := C01.reactCore_pending c (some .long) .cmdline a o.value.toList none q
                  rw [hrc] at this; rw [this]; exact hq
                rw [ih { ls with validArgFound := true } p1 hok' htr hst, resolvePending_none c p1 hp1]
          cases hv : o.value with
          | none => exact one (by simp [SOcc.spell, hv])
          | some v =>
            cases hs : o.sep with
            | false => exact one (by simp [SOcc.spell, hv, hs])
            | true =>
              obtain ⟨hns1, hnsv, hvd, hnum, hreq, hterm⟩ := hsep hs v hv a hget
              have hsp : o.spell = [dash :: dash :: o.name, v] := by simp [SOcc.spell, hv, hs]
              rw [hsp]
              simp only [List.cons_append, List.nil_append]
              rw [loop_sep_step c wf similar o.name v hns1 hnsv a hname hne hutf hget (by rw [htv, hv]; rfl) hvd hnum hreq hterm
                ls _ p htr hst, hr]
              simp only
              rw [ih { ls with validArgFound := true } _ hok' htr hst, resolvePending_some' c q a .long v hq hfind,
                tail q [v] hq (by rw [hv]; rfl)]
              cases hrc : reactCore c (some .long) .cmdline a [v] none q with
              | mk p1 r1 => cases r1 <;> rfl

/-- the hypotheses are met by `prog file --flag other` on a command with two positionals and a flag -/
example :
    let c : Cmd := .mk [112] [] none none [] [] {}
      [{ id := [102], long := some [102], action := some .setTrue, numVals := some ⟨0, some 0⟩ },
       { id := [97], index := some 1 }, { id := [98], index := some 2 }] [] []
    c.subs = [] ∧ SimplePos c ∧ okAll c [.pos [120], .opt ⟨[102], none, false⟩, .pos [121]] 1 := by
  refine ⟨rfl, ⟨rfl, ?_⟩, ⟨noSubTok_of_no_subs _ rfl _, by decide, ⟨_, rfl, by decide⟩,
    ⟨⟨noSubTok_of_no_subs _ rfl _, by decide, by decide, by decide, _, rfl, by decide⟩, ?_⟩,
    noSubTok_of_no_subs _ rfl _, by decide, ⟨_, rfl, by decide⟩, trivial⟩⟩
  · intro a ha hp hm
    simp [Cmd.args] at ha
    rcases ha with rfl | rfl | rfl
    · simp [Arg.isPositional] at hp
    · exact absurd hm (by decide)
    · exact absurd hm (by decide)
  · intro h; cases h

end Clap.C02
