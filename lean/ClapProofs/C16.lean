/-
C16 — Generated completion scripts cover the whole command tree and work in the shell.

The theorems are about the model of the bash generator and of the bash
fragment its script uses (`ClapModel/BashGen.lean`); the model is compared on
every run with the real generator's script AND with the real bash executing it.
-/
import ClapModel
namespace Clap.C16
open Clap BashGen

/-! #### the case table holds an entry for every node, under every one of its names -/

theorem mem_insertSorted {α} (lt : α → α → Bool) (x y : α) (l : List α) : y ∈ insertSorted lt x l ↔ y = x ∨ y ∈ l := by
  induction l with
  | nil => simp [insertSorted]
  | cons z zs ih =>
    simp only [insertSorted]
    split
    · simp only [List.mem_cons, ih]
      constructor
      · rintro (h | h | h); exact Or.inr (Or.inl h); exact Or.inl h; exact Or.inr (Or.inr h)
      · rintro (h | h | h); exact Or.inr (Or.inl h); exact Or.inl h; exact Or.inr (Or.inr h)
    · simp [List.mem_cons]

theorem mem_sortBy_aux {α} (lt : α → α → Bool) (l acc : List α) (y : α) :
    y ∈ l.foldl (fun acc x => insertSorted lt x acc) acc ↔ y ∈ acc ∨ y ∈ l := by
  induction l generalizing acc with
  | nil => simp
  | cons x xs ih =>
    simp only [List.foldl_cons, ih, mem_insertSorted, List.mem_cons]
    constructor
    · rintro ((h | h) | h); exact Or.inr (Or.inl h); exact Or.inl h; exact Or.inr (Or.inr h)
    · rintro (h | h | h); exact Or.inl (Or.inr h); exact Or.inl (Or.inl h); exact Or.inr h

/-- sorting the table loses and invents nothing -/
theorem mem_sortBy {α} (lt : α → α → Bool) (l : List α) (y : α) : y ∈ sortBy lt l ↔ y ∈ l := by
  unfold sortBy; rw [mem_sortBy_aux]; simp

/-- a chain of nodes below `n`: each one a subcommand of the previous -/
inductive Chain : GNode → List GNode → Prop
  | nil (n : GNode) : Chain n []
  | cons (n c : GNode) (rest : List GNode) : c ∈ n.subs → Chain c rest → Chain n (c :: rest)

/-- the function name the generator gives the node at the end of a chain -/
def fnOf (parentFn : Bytes) : List GNode → Bytes
  | [] => parentFn
  | c :: rest => fnOf (parentFn ++ uu ++ mangle c.name) rest

mutual
theorem addCommand_self (pf : Bytes) (n : GNode) (w : Bytes) (hw : w ∈ n.names) :
    (pf, w, pf ++ uu ++ mangle n.name) ∈ addCommand pf n := by
  cases n with
  | mk name aliases o v subs =>
    simp only [addCommand, GNode.names, GNode.name, GNode.aliases, List.mem_cons] at hw ⊢
    rcases hw with rfl | hw
    · exact List.mem_append_left _ List.mem_cons_self
    · refine List.mem_append_left _ (List.mem_cons_of_mem _ (List.mem_map.2 ⟨w, hw, rfl⟩))
theorem addCommand_sub (pf : Bytes) (n : GNode) (e : Bytes × Bytes × Bytes)
    (he : e ∈ addCommands (pf ++ uu ++ mangle n.name) n.subs) : e ∈ addCommand pf n := by
  cases n with
  | mk name aliases o v subs =>
    simp only [addCommand, GNode.name, GNode.subs] at he ⊢
    exact List.mem_append_right _ he
end

theorem addCommands_mem (pf : Bytes) (l : List GNode) (c : GNode) (hc : c ∈ l) (e : Bytes × Bytes × Bytes)
    (he : e ∈ addCommand pf c) : e ∈ addCommands pf l := by
  induction l with
  | nil => simp at hc
  | cons x xs ih =>
    simp only [addCommands]
    rcases List.mem_cons.1 hc with rfl | h
    · exact List.mem_append_left _ he
    · exact List.mem_append_right _ (ih h)

/-- **the walk table is complete**: for every chain of subcommands below the root (any depth) and every
name or visible alias of its last node, the table sends (function of the parent, that word) to the
function of the node -/
theorem table_complete (pf : Bytes) (n : GNode) (pre : List GNode) (c : GNode) (hch : Chain n (pre ++ [c]))
    (w : Bytes) (hw : w ∈ c.names) :
    (fnOf pf pre, w, fnOf pf (pre ++ [c])) ∈ addCommands pf n.subs := by
  induction pre generalizing n pf with
  | nil =>
    cases hch with
    | cons _ _ _ hmem _ =>
      simp only [fnOf, List.nil_append]
      exact addCommands_mem pf n.subs c hmem _ (addCommand_self pf c w hw)
  | cons p ps ih =>
    cases hch with
    | cons _ _ _ hmem hrest =>
      simp only [fnOf, List.cons_append]
      exact addCommands_mem pf n.subs p hmem _ (addCommand_sub pf p _ (ih (pf ++ uu ++ mangle p.name) p hrest))

/-! #### the walk reaches the addressed level when the mangled names are unambiguous -/

/-- no two table entries with the same `(function, word)` key lead to different functions -/
def Unambiguous (table : List (Bytes × Bytes × Bytes)) : Prop :=
  ∀ e1 ∈ table, ∀ e2 ∈ table, e1.1 = e2.1 → e1.2.1 = e2.2.1 → e1.2.2 = e2.2.2

theorem lookup_of_mem (table : List (Bytes × Bytes × Bytes)) (hu : Unambiguous table) (f w g : Bytes)
    (h : (f, w, g) ∈ table) : (table.find? fun t => t.1 == f && t.2.1 == w) = some (f, w, g) ∨
      ∃ t, (table.find? fun t => t.1 == f && t.2.1 == w) = some t ∧ t.2.2 = g := by
  right
  cases hf : table.find? fun t => t.1 == f && t.2.1 == w with
  | none =>
    have := List.find?_eq_none.1 hf (f, w, g) h
    simp at this
  | some t =>
    refine ⟨t, rfl, ?_⟩
    have ht := List.mem_of_find?_eq_some hf
    have hk := List.find?_some hf
    simp only [Bool.and_eq_true, beq_iff_eq] at hk
    exact hu t ht (f, w, g) h hk.1 hk.2

/-- the words of a chain: one name (or visible alias) per node -/
def Spells : List GNode → List Bytes → Prop
  | [], [] => True
  | c :: cs, w :: ws => w ∈ c.names ∧ Spells cs ws
  | _, _ => False

theorem walk_chain (root : GNode) (cmd0 : Bytes) (n : GNode) (pf : Bytes) (hpf : pf ≠ [])
    (table : List (Bytes × Bytes × Bytes)) (hu : Unambiguous table)
    (hsub : ∀ e, e ∈ addCommands pf n.subs → e ∈ table)
    (chain : List GNode) (hch : Chain n chain) (ws : List Bytes) (hsp : Spells chain ws) :
    walk root table cmd0 pf ws = fnOf pf chain := by
  induction chain generalizing n pf ws with
  | nil =>
    cases ws with
    | nil => rfl
    | cons _ _ => simp [Spells] at hsp
  | cons c cs ih =>
    cases ws with
    | nil => simp [Spells] at hsp
    | cons w ws =>
      simp only [Spells] at hsp
      cases hch with
      | cons _ _ _ hmem hrest =>
        have hent : (pf, w, pf ++ uu ++ mangle c.name) ∈ table :=
          hsub _ (addCommands_mem pf n.subs c hmem _ (addCommand_self pf c w hsp.1))
        have hne : pf.isEmpty = false := by cases pf <;> simp_all
        simp only [walk, hne, Bool.false_and, Bool.false_eq_true, ↓reduceIte, fnOf]
        rcases lookup_of_mem table hu pf w _ hent with h | ⟨t, ht, htg⟩
        · rw [h]
          exact ih c _ (by simp [uu]) (fun e he => hsub e (addCommands_mem pf n.subs c hmem e (addCommand_sub pf c e he))) hrest ws hsp.2
        · rw [ht]; simp only [htg]
          exact ih c _ (by simp [uu]) (fun e he => hsub e (addCommands_mem pf n.subs c hmem e (addCommand_sub pf c e he))) hrest ws hsp.2

/-- **dispatch follows the words**: if no two `(function, word)` labels of the script's case table
collide, then after `COMP_WORDS = [prog, w1 … wk]`, where the `wi` spell (by name or visible alias) a
chain of subcommands of any depth, `cmd` holds exactly the function name of the node addressed -/
theorem walk_reaches (root : GNode) (hroot : root.name ≠ []) (hu : Unambiguous (caseTable root))
    (chain : List GNode) (hch : Chain root chain) (ws : List Bytes) (hsp : Spells chain ws) (prog : Bytes) :
    walk root (caseTable root) prog [] (prog :: ws) = fnOf (mangle root.name) chain := by
  have hm : mangle root.name ≠ [] := by
    cases hr : root.name with
    | nil => exact absurd hr hroot
    | cons b r => simp only [mangle, replaceByte, List.flatMap_cons]; split <;> simp [uu]
  simp only [walk, List.isEmpty_nil, Bool.true_and, beq_self_eq_true, ↓reduceIte]
  exact walk_chain root prog root (mangle root.name) hm (caseTable root) hu
    (fun e he => (mem_sortBy _ _ e).2 he) chain hch ws hsp

/-! #### the arm the dispatch lands in lists the addressed level -/

/-- `join("__")` -/
def joinUu : List Bytes → Bytes
  | [] => []
  | [n] => n
  | n :: m :: r => n ++ uu ++ joinUu (m :: r)

/-- `join(" ")` (how `Command::_build_bin_names` forms bin names) -/
def joinSp : List Bytes → Bytes
  | [] => []
  | [n] => n
  | n :: m :: r => n ++ [32] ++ joinSp (m :: r)

theorem splitUu_cons_ne (cur : Bytes) (b : UInt8) (r : Bytes) (hb : b ≠ 95) : splitUu cur (b :: r) = splitUu (cur ++ [b]) r := by
  conv => lhs; unfold splitUu
  split
  · next h => simp at h
  · next h => simp at h; exact absurd h.1 hb
  · next h => simp at h; obtain ⟨rfl, rfl⟩ := h; rfl

theorem splitUu_clean (n : Bytes) (hn : 95 ∉ n) (cur rest : Bytes) : splitUu cur (n ++ rest) = splitUu (cur ++ n) rest := by
  induction n generalizing cur with
  | nil => simp
  | cons b r ih =>
    have hb : b ≠ 95 := fun e => hn (e ▸ List.mem_cons_self)
    have hr : 95 ∉ r := fun hm => hn (List.mem_cons_of_mem _ hm)
    simp only [List.cons_append]
    rw [splitUu_cons_ne cur b _ hb, ih hr]; simp

theorem splitUu_sep (cur rest : Bytes) : splitUu cur (uu ++ rest) = cur :: splitUu [] rest := by
  simp [uu, splitUu]

/-- **`split("__")` undoes `join("__")`** when no segment contains an underscore -/
theorem splitUu_joinUu (names : List Bytes) (hne : names ≠ []) (hc : ∀ n ∈ names, 95 ∉ n) :
    splitUu [] (joinUu names) = names := by
  induction names with
  | nil => exact absurd rfl hne
  | cons n r ih =>
    cases r with
    | nil =>
      simp only [joinUu]
      have := splitUu_clean n (hc n List.mem_cons_self) [] []
      simp only [List.append_nil, List.nil_append] at this
      rw [this]; simp [splitUu]
    | cons m r' =>
      simp only [joinUu]
      rw [List.append_assoc, splitUu_clean n (hc n List.mem_cons_self), splitUu_sep]
      simp only [List.nil_append]
      rw [ih (by simp) (fun x hx => hc x (List.mem_cons_of_mem _ hx))]

theorem replaceByte_append (c : UInt8) (rep a b : Bytes) : replaceByte c rep (a ++ b) = replaceByte c rep a ++ replaceByte c rep b := by
  simp [replaceByte]

theorem replaceByte_clean (c : UInt8) (rep n : Bytes) (hn : c ∉ n) : replaceByte c rep n = n := by
  induction n with
  | nil => rfl
  | cons b r ih =>
    have hb : (b == c) = false := by
      have : b ≠ c := fun e => hn (e ▸ List.mem_cons_self)
      simpa using this
    simp only [replaceByte, List.flatMap_cons, hb, Bool.false_eq_true, ↓reduceIte] 
    have := ih (fun hm => hn (List.mem_cons_of_mem _ hm))
    simp only [replaceByte] at this
    rw [this]; rfl

/-- the bin name with spaces turned into `__` is the `__`-join of the names -/
theorem spaceToUu_joinSp (names : List Bytes) (hc : ∀ n ∈ names, 32 ∉ n) : spaceToUu (joinSp names) = joinUu names := by
  induction names with
  | nil => rfl
  | cons n r ih =>
    cases r with
    | nil => simp only [joinSp, joinUu, spaceToUu]; exact replaceByte_clean _ _ _ (hc n List.mem_cons_self)
    | cons m r' =>
      simp only [joinSp, joinUu, spaceToUu, replaceByte_append]
      rw [replaceByte_clean _ _ _ (hc n List.mem_cons_self)]
      have := ih (fun x hx => hc x (List.mem_cons_of_mem _ hx))
      simp only [spaceToUu] at this
      rw [this]
      simp [replaceByte, uu]

/-- along the chain every node is the FIRST child of its parent that answers to its name -/
def FoundByName : GNode → List GNode → Prop
  | _, [] => True
  | n, c :: rest => (n.subs.find? fun x => x.names.contains c.name) = some c ∧ FoundByName c rest

/-- `find_subcommand_with_path` follows the chain's names to its last node -/
theorem findPath_chain (n : GNode) (chain : List GNode) (h : FoundByName n chain) :
    findPath n (chain.map GNode.name) = some (chain.getLastD n) := by
  induction chain generalizing n with
  | nil => rfl
  | cons c rest ih =>
    simp only [FoundByName] at h
    simp only [List.map_cons, findPath, h.1]
    rw [ih c h.2]
    cases rest <;> rfl

/-- the `case "${cmd}"` arm the generator writes for one bin path; `none` = its path lookup panics -/
def detailFor (root : GNode) (sc : Bytes) : Option Detail :=
  (findPath root ((splitUu [] sc).drop 1)).map fun n =>
    { label := mangle sc, level := (splitUu [] sc).length, words := levelWords n, valueOpts := n.valueOpts }

/-- **the arm written for a chain of subcommands lists exactly that level**: its label is the mangled
`__`-join of the names, its level the depth, its words the options and subcommands of the node - provided
no name on the path contains `_` or a space and each node is found under its own name -/
theorem arm_for_chain (root : GNode) (chain : List GNode) (hne : chain ≠ [])
    (hclean : ∀ n ∈ root.name :: chain.map GNode.name, 95 ∉ n ∧ 32 ∉ n) (hf : FoundByName root chain) :
    detailFor root (spaceToUu (joinSp (root.name :: chain.map GNode.name))) =
      some { label := mangle (joinUu (root.name :: chain.map GNode.name)), level := chain.length + 1,
             words := levelWords (chain.getLastD root), valueOpts := (chain.getLastD root).valueOpts } := by
  unfold detailFor
  rw [spaceToUu_joinSp _ (fun n hn => (hclean n hn).2), splitUu_joinUu _ (by simp) (fun n hn => (hclean n hn).1)]
  simp only [List.drop_succ_cons, List.drop_zero, List.length_cons, List.length_map]
  rw [findPath_chain root chain hf]
  rfl

/-! #### the generated function offers exactly the addressed level -/

theorem mem_dedupAdj (l : List Bytes) (x : Bytes) : x ∈ dedupAdj l ↔ x ∈ l := by
  induction l with
  | nil => simp [dedupAdj]
  | cons a r ih =>
    cases r with
    | nil => simp [dedupAdj]
    | cons b r' =>
      simp only [dedupAdj]
      split
      · next hab =>
        have : a = b := by simpa using hab
        subst this
        rw [ih]; simp
      · simp only [List.mem_cons, ih]

/-- the bin name `_build_bin_names` gives the last node of a chain: parent's bin name, a space, the name -/
def binOf (b : Bytes) : List GNode → Bytes
  | [] => b
  | c :: rest => binOf (b ++ [32] ++ c.name) rest

theorem levelEntries_mem (bin : Bytes) (l : List GNode) (c : GNode) (hc : c ∈ l) :
    (c.name, bin ++ [32] ++ c.name) ∈ levelEntries bin l := by
  induction l with
  | nil => simp at hc
  | cons x xs ih =>
    simp only [levelEntries]
    rcases List.mem_cons.1 hc with rfl | h
    · exact List.mem_append_left _ List.mem_cons_self
    · exact List.mem_append_right _ (ih h)

theorem allSubcommandsList_mem (bin : Bytes) (l : List GNode) (c : GNode) (hc : c ∈ l) (e : Bytes × Bytes)
    (he : e ∈ allSubcommands (bin ++ [32] ++ c.name) c) : e ∈ allSubcommandsList bin l := by
  induction l with
  | nil => simp at hc
  | cons x xs ih =>
    simp only [allSubcommandsList]
    rcases List.mem_cons.1 hc with rfl | h
    · exact List.mem_append_left _ he
    · exact List.mem_append_right _ (ih h)

/-- utils `all_subcommands` lists the bin name of every chain of subcommands -/
theorem allSubcommands_complete (bin : Bytes) (n : GNode) (pre : List GNode) (c : GNode) (hch : Chain n (pre ++ [c])) :
    (c.name, binOf bin (pre ++ [c])) ∈ allSubcommands bin n := by
  induction pre generalizing n bin with
  | nil =>
    cases hch with
    | cons _ _ _ hmem _ =>
      cases n with
      | mk nm al o v subs =>
        simp only [allSubcommands, binOf, List.nil_append]
        exact List.mem_append_left _ (levelEntries_mem bin subs c hmem)
  | cons p ps ih =>
    cases hch with
    | cons _ _ _ hmem hrest =>
      cases n with
      | mk nm al o v subs =>
        simp only [allSubcommands, binOf, List.cons_append]
        exact List.mem_append_right _ (allSubcommandsList_mem bin subs p hmem _ (ih _ p hrest))

theorem binOf_joinSp (b : Bytes) (chain : List GNode) : binOf b chain = joinSp (b :: chain.map GNode.name) := by
  induction chain generalizing b with
  | nil => rfl
  | cons c rest ih =>
    simp only [binOf, List.map_cons]
    rw [ih]
    cases rest with
    | nil => simp [joinSp]
    | cons d r => simp [joinSp, List.append_assoc]

theorem mapM_mem {α β} (f : α → Option β) : ∀ (l : List α) (ds : List β), l.mapM f = some ds →
    ∀ x ∈ l, ∃ d ∈ ds, f x = some d := by
  intro l
  induction l with
  | nil => intro ds _ x hx; simp at hx
  | cons a r ih =>
    intro ds h x hx
    rw [List.mapM_cons] at h
    cases hfa : f a with
    | none => simp [hfa] at h
    | some da =>
      cases hr : r.mapM f with
      | none => simp [hfa, hr] at h
      | some dr =>
        simp [hfa, hr] at h
        subst h
        rcases List.mem_cons.1 hx with rfl | hx'
        · exact ⟨da, List.mem_cons_self, hfa⟩
        · obtain ⟨d, hd, hfd⟩ := ih dr hr x hx'
          exact ⟨d, List.mem_cons_of_mem _ hd, hfd⟩

theorem mangle_append (a b : Bytes) : mangle (a ++ b) = mangle a ++ mangle b := replaceByte_append _ _ _ _

theorem mangle_uu : mangle uu = uu := by decide

/-- the arm label written for a chain is the function name the walk computes for it -/
theorem label_eq_fnOf (b : Bytes) (chain : List GNode) :
    mangle (joinUu (b :: chain.map GNode.name)) = fnOf (mangle b) chain := by
  induction chain generalizing b with
  | nil => rfl
  | cons c rest ih =>
    simp only [List.map_cons, fnOf]
    have := ih (b ++ uu ++ c.name)
    rw [mangle_append, mangle_append, mangle_uu] at this
    rw [← this]
    cases rest with
    | nil => simp [joinUu, mangle_append, mangle_uu]
    | cons d r => simp [joinUu, mangle_append, mangle_uu, List.append_assoc]

/-- no two arms of the `case "${cmd}"` dispatch carry the same label -/
def LabelsDistinct (root : GNode) (ds : List Detail) : Prop :=
  ∀ d1 ∈ ds, ∀ d2 ∈ ds, d1.label = d2.label → d1 = d2

/-- **the script offers exactly the options and subcommands of the level the words address**:
for a tree whose generator run does not panic, whose walk labels and arm labels are unambiguous, and a
chain of subcommands (any depth) spelled by names or visible aliases whose names contain no `_` or space:
with the cursor on the next word, not itself a complete child name, `COMPREPLY` is the level's word list
filtered by the prefix. -/
theorem bash_offers_level (root : GNode) (hroot : root.name ≠ []) (hu : Unambiguous (caseTable root))
    (ds : List Detail) (hds : details root = some ds) (hld : LabelsDistinct root ds)
    (chain : List GNode) (hne : chain ≠ []) (hch : Chain root chain) (ws : List Bytes) (hsp : Spells chain ws)
    (hclean : ∀ n ∈ root.name :: chain.map GNode.name, 95 ∉ n ∧ 32 ∉ n) (hf : FoundByName root chain)
    (hrootlab : ∀ d ∈ ds, d.label ≠ mangle root.name)
    (cur prog : Bytes)
    (hcur : ((caseTable root).find? fun t => t.1 == fnOf (mangle root.name) chain && t.2.1 == cur) = none) :
    complete root (prog :: ws ++ [cur]) (ws.length + 1) =
      some (.words ((levelWords (chain.getLastD root)).filter (startsWith cur))) := by
  -- the walk
  have hw : walk root (caseTable root) prog [] (prog :: ws ++ [cur]) = fnOf (mangle root.name) chain := by
    have h1 := walk_reaches root hroot hu chain hch ws hsp prog
    have hsplit : ∀ (cmd : Bytes) (xs : List Bytes), walk root (caseTable root) prog cmd (xs ++ [cur]) =
        walk root (caseTable root) prog (walk root (caseTable root) prog cmd xs) [cur] := by
      intro cmd xs
      induction xs generalizing cmd with
      | nil => rfl
      | cons x r ih => simp only [List.cons_append, walk]; exact ih _
    rw [show prog :: ws ++ [cur] = (prog :: ws) ++ [cur] by simp, hsplit, h1]
    have hne' : (fnOf (mangle root.name) chain).isEmpty = false := by
      cases chain with
      | nil => exact absurd rfl hne
      | cons c r =>
        have : ∀ (b : Bytes) (l : List GNode), b ≠ [] → fnOf b l ≠ [] := by
          intro b l; induction l generalizing b with
          | nil => intro h; exact h
          | cons x xs ih => intro _; exact ih _ (by simp [uu])
        have := this (mangle root.name ++ uu ++ mangle c.name) r (by simp [uu])
        simp only [fnOf]
        cases hfn : fnOf (mangle root.name ++ uu ++ mangle c.name) r with
        | nil => exact absurd hfn this
        | cons _ _ => rfl
    simp only [walk, hne', Bool.false_and, Bool.false_eq_true, ↓reduceIte, hcur]
  -- the arm
  obtain ⟨pre, c, rfl⟩ : ∃ pre c, chain = pre ++ [c] := ⟨chain.dropLast, chain.getLast hne, (List.dropLast_concat_getLast hne).symm⟩
  have hent := allSubcommands_complete root.name root pre c hch
  have hsc : spaceToUu (binOf root.name (pre ++ [c])) ∈
      dedupAdj (sortBy bytesLt ((allSubcommands root.name root).map fun x => spaceToUu x.2)) := by
    rw [mem_dedupAdj, mem_sortBy]
    exact List.mem_map.2 ⟨_, hent, rfl⟩
  unfold details at hds
  obtain ⟨d, hd, hfd⟩ := mapM_mem _ _ ds hds _ hsc
  have harm := arm_for_chain root (pre ++ [c]) hne hclean hf
  rw [← binOf_joinSp] at harm
  unfold detailFor at harm
  rw [harm] at hfd
  simp only [Option.some.injEq] at hfd
  have hlabel : d.label = fnOf (mangle root.name) (pre ++ [c]) := by rw [← hfd, label_eq_fnOf]
  unfold complete
  rw [show details root = some ds from by unfold details; exact hds]
  have hhd : (prog :: ws ++ [cur]).headD [] = prog := rfl
  simp only [hhd, hw]
  have hfind : ((({ label := mangle root.name, level := 1, words := levelWords root, valueOpts := root.valueOpts } : Detail) :: ds).find?
      fun d' => d'.label == fnOf (mangle root.name) (pre ++ [c])) = some d := by
    rw [List.find?_cons]
    have hr : ((mangle root.name) == fnOf (mangle root.name) (pre ++ [c])) = false := by
      have := hrootlab d hd
      rw [hlabel] at this
      simpa using fun e => this e.symm
    simp only [hr]
    cases hfd' : ds.find? fun d' => d'.label == fnOf (mangle root.name) (pre ++ [c]) with
    | none =>
      have := List.find?_eq_none.1 hfd' d hd
      simp [hlabel] at this
    | some d' =>
      have hm := List.mem_of_find?_eq_some hfd'
      have hk := List.find?_some hfd'
      simp only [beq_iff_eq] at hk
      rw [hld d' hm d hd (by rw [hk, hlabel])]
  rw [hfind]
  have hlev : d.level = ws.length + 1 := by
    rw [← hfd]
    have : ∀ (l : List GNode) (w : List Bytes), Spells l w → l.length = w.length := by
      intro l; induction l with
      | nil => intro w h; cases w <;> simp_all [Spells]
      | cons x xs ih => intro w h; cases w with
        | nil => simp [Spells] at h
        | cons y ys => simp only [Spells] at h; simp [ih ys h.2]
    simp [this _ _ hsp]
  have hcw : (ws.length + 1 == d.level) = true := by simp [hlev]
  have hcurget : (prog :: ws ++ [cur]).getD (ws.length + 1) [] = cur := by
    simp [List.getD, List.getElem?_append_right]
  simp only [hcw, Bool.or_true, ↓reduceIte, hcurget]
  rw [← hfd]

/-- non-vacuity of `bash_offers_level`: a two-level tree (hyphenated name, alias, options at every level)
meets every hypothesis, and the conclusion is what evaluating the model gives -/
def sample2 : GNode :=
  .mk [112] [] [[45, 45, 114]] []
    [.mk [115, 45, 99] [[97, 108]] [[45, 45, 120]] [] [.mk [108] [] [[45, 45, 121], [45, 122]] [] []], .mk [116] [] [] [] []]
example : Unambiguous (caseTable sample2) := by
  intro e1 h1 e2 h2; revert e2 h2; revert e1 h1; decide
example : ∃ ds, details sample2 = some ds ∧ LabelsDistinct sample2 ds ∧ (∀ d ∈ ds, d.label ≠ mangle sample2.name) := by
  refine ⟨_, rfl, ?_, ?_⟩
  · intro d1 h1 d2 h2; revert d2 h2; revert d1 h1; decide
  · decide
example : complete sample2 [[112], [97, 108], [108], [45, 45]] 3 = some (.words [[45, 45, 121]]) := by decide

/-! #### the generator itself never panics on a well-named tree -/

theorem levelEntries_sound (bin : Bytes) (l : List GNode) (e : Bytes × Bytes) (he : e ∈ levelEntries bin l) :
    ∃ c ∈ l, e.1 ∈ c.names ∧ e.2 = bin ++ [32] ++ c.name := by
  induction l with
  | nil => simp [levelEntries] at he
  | cons x xs ih =>
    simp only [levelEntries, List.mem_append, List.mem_cons, List.mem_map] at he
    rcases he with (rfl | ⟨a, ha, rfl⟩) | h
    · exact ⟨x, List.mem_cons_self, by simp [GNode.names], rfl⟩
    · exact ⟨x, List.mem_cons_self, by simp [GNode.names, ha], rfl⟩
    · obtain ⟨c, hc, h1, h2⟩ := ih h
      exact ⟨c, List.mem_cons_of_mem _ hc, h1, h2⟩

theorem allSubcommandsList_sound (bin : Bytes) (l : List GNode) (e : Bytes × Bytes) (he : e ∈ allSubcommandsList bin l) :
    ∃ c ∈ l, e ∈ allSubcommands (bin ++ [32] ++ c.name) c := by
  induction l with
  | nil => simp [allSubcommandsList] at he
  | cons x xs ih =>
    simp only [allSubcommandsList, List.mem_append] at he
    rcases he with h | h
    · exact ⟨x, List.mem_cons_self, h⟩
    · obtain ⟨c, hc, h1⟩ := ih h
      exact ⟨c, List.mem_cons_of_mem _ hc, h1⟩

/-- every entry of utils `all_subcommands` is the bin name of a chain of subcommands -/
theorem allSubcommands_sound : ∀ (k : Nat) (n : GNode), sizeOf n ≤ k → ∀ (bin : Bytes) (e : Bytes × Bytes),
    e ∈ allSubcommands bin n → ∃ pre c, Chain n (pre ++ [c]) ∧ e.2 = binOf bin (pre ++ [c]) := by
  intro k
  induction k with
  | zero =>
    intro n hn
    cases n with
    | mk a b c d subs => simp at hn
  | succ k ih =>
    intro n hn bin e he
    cases n with
    | mk nm al o v subs =>
      simp only [allSubcommands, List.mem_append] at he
      rcases he with h | h
      · obtain ⟨c, hc, _, h2⟩ := levelEntries_sound bin subs e h
        exact ⟨[], c, Chain.cons _ c [] hc (Chain.nil c), by simp [binOf, h2]⟩
      · obtain ⟨c, hc, h1⟩ := allSubcommandsList_sound bin subs e h
        have hsz : sizeOf c ≤ k := by
          have h1 := List.sizeOf_lt_of_mem hc
          simp at hn
          omega
        obtain ⟨pre, c', hch, hb⟩ := ih c hsz _ e h1
        exact ⟨c :: pre, c', Chain.cons _ c (pre ++ [c']) hc hch, by simp [binOf, hb]⟩

theorem mapM_isSome {α β} (f : α → Option β) (l : List α) (h : ∀ x ∈ l, (f x).isSome = true) : (l.mapM f).isSome = true := by
  induction l with
  | nil => simp
  | cons a r ih =>
    rw [List.mapM_cons]
    have ha := h a List.mem_cons_self
    have hr := ih (fun x hx => h x (List.mem_cons_of_mem _ hx))
    cases hfa : f a with
    | none => simp [hfa] at ha
    | some da =>
      cases hmr : r.mapM f with
      | none => simp [hmr] at hr
      | some dr => simp

/-- **writing the script never panics on a well-named tree**: if along every chain of subcommands the
names contain no `_` or space and every node is the first child answering to its name (no name or alias
is shared by two siblings), every path lookup of `subcommand_details` succeeds -/
theorem details_total (root : GNode)
    (hwf : ∀ chain, chain ≠ [] → Chain root chain →
      (∀ n ∈ root.name :: chain.map GNode.name, 95 ∉ n ∧ 32 ∉ n) ∧ FoundByName root chain) :
    (details root).isSome = true := by
  unfold details
  apply mapM_isSome
  intro sc hsc
  rw [mem_dedupAdj, mem_sortBy] at hsc
  obtain ⟨e, he, rfl⟩ := List.mem_map.1 hsc
  obtain ⟨pre, c, hch, hb⟩ := allSubcommands_sound (sizeOf root) root (Nat.le_refl _) root.name e he
  obtain ⟨hclean, hf⟩ := hwf (pre ++ [c]) (by simp) hch
  have := arm_for_chain root (pre ++ [c]) (by simp) hclean hf
  rw [← binOf_joinSp, ← hb] at this
  unfold detailFor at this
  rw [this]; rfl

/-- the hypothesis of `details_total` is met by a two-level tree -/
example : let t : GNode := .mk [112] [] [] [] [.mk [115] [[97]] [] [] [.mk [108] [] [] [] []]]
    ∀ chain, chain ≠ [] → Chain t chain →
      (∀ n ∈ t.name :: chain.map GNode.name, 95 ∉ n ∧ 32 ∉ n) ∧ FoundByName t chain := by
  intro t chain hne hch
  cases hch with
  | nil => exact absurd rfl hne
  | cons _ c rest hc hrest =>
    simp [t, GNode.subs] at hc
    subst hc
    cases hrest with
    | nil => simp [t, GNode.name, FoundByName, GNode.subs, GNode.names]
    | cons _ c2 rest2 hc2 hrest2 =>
      simp [GNode.subs] at hc2
      subst hc2
      cases hrest2 with
      | nil => simp [t, GNode.name, FoundByName, GNode.subs, GNode.names]
      | cons _ c3 _ hc3 _ => simp [GNode.subs] at hc3

/-! #### what goes wrong without that hypothesis (the listed finding) -/

/-- sibling `a-b` next to a nested `a` → `b`: both are mangled to `prog__a__b` … -/
def collide : GNode :=
  .mk [112] [] [] [] [.mk [97, 45, 98] [] [[45, 45, 120]] [] [], .mk [97] [] [] [] [.mk [98] [] [[45, 45, 121]] [] []]]

/-- … so the table is ambiguous in the sense above only through equal targets, yet the two levels share
ONE arm of the `case "${cmd}"` dispatch: after `prog a b` the script offers the options of `a-b` -/
theorem collision_offers_wrong_level :
    complete collide [[112], [97], [98], []] 3 = some (.words [[45, 45, 120]]) := by decide

/-- a name containing `__` makes the generator's own path lookup fail (`find_subcommand(..).unwrap()`) -/
def oddName : GNode := .mk [112] [] [] [] [.mk [97, 95, 95, 98] [] [] [] []]
theorem double_underscore_panics : details oddName = none := by decide

/-- non-vacuity of `walk_reaches`: a two-level tree with an alias -/
def sample : GNode := .mk [112] [] [] [] [.mk [115, 45, 99] [[97, 108]] [] [] [.mk [108] [] [] [] []]]
example : walk sample (caseTable sample) [112] [] [[112], [97, 108], [108]] = [112, 95, 95, 115, 95, 95, 99, 95, 95, 108] := by decide

/-! #### elvish and PowerShell: every level is a case, under every spelling, listing all of its items -/

section CaseGen
open CaseGen Shell

theorem infix_flatMap {α : Type} (l : List α) (f : α → Str) (x : α) (hx : x ∈ l) : f x <:+: l.flatMap f := by
  induction l with
  | nil => simp at hx
  | cons y ys ih =>
    simp only [List.flatMap_cons]
    rcases List.mem_cons.1 hx with rfl | h
    · exact ⟨[], ys.flatMap f, by simp⟩
    · obtain ⟨p, q, hpq⟩ := ih h
      exact ⟨f y ++ p, q, by rw [← hpq]; simp [List.append_assoc]⟩

theorem infix_append_left {a b : Str} (x : Str) (h : x <:+: a) : x <:+: a ++ b := by
  obtain ⟨p, q, hpq⟩ := h; exact ⟨p, q ++ b, by rw [← hpq]; simp [List.append_assoc]⟩

theorem infix_append_right {a b : Str} (x : Str) (h : x <:+: b) : x <:+: a ++ b := by
  obtain ⟨p, q, hpq⟩ := h; exact ⟨a ++ p, q, by rw [← hpq]; simp [List.append_assoc]⟩

/-- a chain of subcommands below a node -/
inductive CChain : CNode → List CNode → Prop
  | nil (n : CNode) : CChain n []
  | cons (n c : CNode) (rest : List CNode) : c ∈ n.subs → CChain c rest → CChain n (c :: rest)

/-- the label of a path spelling: `bin;w1;…;wk` -/
def labelOf (l : Str) : List Str → Str
  | [] => l
  | w :: ws => labelOf (l ++ [';'] ++ w) ws

def CSpells : List CNode → List Str → Prop
  | [], [] => True
  | c :: cs, w :: ws => w ∈ c.names ∧ CSpells cs ws
  | _, _ => False

theorem genSubs_of_mem (sh : Sh2) (labels : List Str) (l : Str) (hl : l ∈ labels) (subs : List CNode) (c : CNode) (hc : c ∈ subs)
    (x : Str) (hx : x <:+: genInner sh [l] c) : x <:+: genSubs sh labels subs := by
  induction subs with
  | nil => simp at hc
  | cons y ys ih =>
    simp only [genSubs]
    rcases List.mem_cons.1 hc with rfl | h
    · exact infix_append_left _ (List.IsInfix.trans hx (infix_flatMap labels (fun l => genInner sh [l] c) l hl))
    · exact infix_append_right _ (ih h)

/-- **every subcommand path, under every spelling, has its case**: the script holds a case labelled
`bin;w1;…;wk` whose body is the candidate list of the node the words address - for every tree, any
depth, names and visible aliases alike (elvish and PowerShell generators) -/
theorem case_for_path (sh : Sh2) (n : CNode) (l : Str) (chain : List CNode) (hne : chain ≠ []) (hch : CChain n chain)
    (ws : List Str) (hsp : CSpells chain ws) (labels : List Str) (hl : l ∈ labels) :
    caseText sh (labelOf l ws) (completions sh (chain.getLast hne)) <:+: genSubs sh labels n.subs := by
  induction chain generalizing n l ws labels with
  | nil => exact absurd rfl hne
  | cons c rest ih =>
    cases ws with
    | nil => simp [CSpells] at hsp
    | cons w ws' =>
      simp only [CSpells] at hsp
      cases hch with
      | cons _ _ _ hmem hrest =>
        apply genSubs_of_mem sh labels l hl n.subs c hmem
        cases c with
        | mk names about opts subs =>
          simp only [genInner, List.flatMap_cons, List.flatMap_nil, List.append_nil]
          have hwl : (l ++ [';'] ++ w) ∈ names.map fun nm => l ++ [';'] ++ nm := List.mem_map.2 ⟨w, hsp.1, rfl⟩
          cases rest with
          | nil =>
            cases ws' with
            | cons _ _ => simp [CSpells] at hsp
            | nil =>
              simp only [labelOf, List.getLast_singleton]
              exact infix_append_left _ (infix_flatMap _ (fun l' => caseText sh l' (completions sh (.mk names about opts subs))) _ hwl)
          | cons c2 rest2 =>
            have := ih (CNode.mk names about opts subs) (l ++ [';'] ++ w) (by simp) hrest ws' hsp.2 _ hwl
            simp only [labelOf]
            rw [List.getLast_cons (by simp)]
            exact infix_append_right _ this

/-- the same for the whole script body, from the root -/
theorem case_for_path_root (sh : Sh2) (bin : Str) (root : CNode) (chain : List CNode) (hne : chain ≠ []) (hch : CChain root chain)
    (ws : List Str) (hsp : CSpells chain ws) :
    caseText sh (labelOf bin ws) (completions sh (chain.getLast hne)) <:+: genRoot sh bin root := by
  unfold genRoot
  exact infix_append_right _ (case_for_path sh root bin chain hne hch ws hsp [bin] (by simp))

/-- **a level's case lists every long spelling of every option and flag** -/
theorem completions_has_long (sh : Sh2) (n : CNode) (o : COpt) (ho : o ∈ n.opts) (l : Str) (hl : l ∈ o.longs) :
    longCand sh l (tooltip sh o.help (o.longs.headD [])) <:+: completions sh n := by
  have h1 : longCand sh l (tooltip sh o.help (o.longs.headD [])) <:+: optCands sh o :=
    infix_append_right _ (infix_flatMap o.longs (fun x => longCand sh x (tooltip sh o.help (o.longs.headD []))) l hl)
  unfold completions
  by_cases ht : o.takes = true
  · exact infix_append_left _ (infix_append_left _ (List.IsInfix.trans h1 (infix_flatMap _ (optCands sh) o (List.mem_filter.2 ⟨ho, ht⟩))))
  · exact infix_append_left _ (infix_append_right _ (List.IsInfix.trans h1 (infix_flatMap _ (optCands sh) o (List.mem_filter.2 ⟨ho, by simpa using ht⟩))))

/-- … every short spelling … -/
theorem completions_has_short (sh : Sh2) (n : CNode) (o : COpt) (ho : o ∈ n.opts) (x : Str) (hx : x ∈ o.shorts) :
    shortCand sh x (tooltip sh o.help (o.shorts.headD [])) <:+: completions sh n := by
  have h1 : shortCand sh x (tooltip sh o.help (o.shorts.headD [])) <:+: optCands sh o :=
    infix_append_left _ (infix_flatMap o.shorts (fun y => shortCand sh y (tooltip sh o.help (o.shorts.headD []))) x hx)
  unfold completions
  by_cases ht : o.takes = true
  · exact infix_append_left _ (infix_append_left _ (List.IsInfix.trans h1 (infix_flatMap _ (optCands sh) o (List.mem_filter.2 ⟨ho, ht⟩))))
  · exact infix_append_left _ (infix_append_right _ (List.IsInfix.trans h1 (infix_flatMap _ (optCands sh) o (List.mem_filter.2 ⟨ho, by simpa using ht⟩))))

/-- … and every subcommand name and visible alias -/
theorem completions_has_sub (sh : Sh2) (n : CNode) (sc : CNode) (hs : sc ∈ n.subs) (nm : Str) (hn : nm ∈ sc.names) :
    subCand sh nm (tooltip sh sc.about nm) <:+: completions sh n := by
  unfold completions
  refine infix_append_right _ (List.IsInfix.trans ?_ (infix_flatMap n.subs (fun sc => sc.names.flatMap fun nm => subCand sh nm (tooltip sh sc.about nm)) sc hs))
  exact infix_flatMap sc.names (fun nm => subCand sh nm (tooltip sh sc.about nm)) nm hn

end CaseGen

end Clap.C16
