/-
C16 — Generated completion scripts cover the whole command tree and work in the shell.

The theorems are about the model of the bash generator and of the bash
fragment its script uses (`ClapModel/BashGen.lean`); the model is compared on
every run with the real generator's script AND with the real bash executing it.
-/
import ClapModel
namespace Clap.C16
open Clap BashGen

/-! #### the case table holds an entry for every node, under every one of its names -/

theorem mem_insertSorted {α} (lt : α → α → Bool) (x y : α) (l : List α) : y ∈ insertSorted lt x l ↔ y = x ∨ y ∈ l := by
  induction l with
  | nil => simp [insertSorted]
  | cons z zs ih =>
    simp only [insertSorted]
    split
    · simp only [List.mem_cons, ih]
      constructor
      · rintro (h | h | h); exact Or.inr (Or.inl h); exact Or.inl h; exact Or.inr (Or.inr h)
      · rintro (h | h | h); exact Or.inr (Or.inl h); exact Or.inl h; exact Or.inr (Or.inr h)
    · simp [List.mem_cons]

theorem mem_sortBy_aux {α} (lt : α → α → Bool) (l acc : List α) (y : α) :
    y ∈ l.foldl (fun acc x => insertSorted lt x acc) acc ↔ y ∈ acc ∨ y ∈ l := by
  induction l generalizing acc with
  | nil => simp
  | cons x xs ih =>
    simp only [List.foldl_cons, ih, mem_insertSorted, List.mem_cons]
    constructor
    · rintro ((h | h) | h); exact Or.inr (Or.inl h); exact Or.inl h; exact Or.inr (Or.inr h)
    · rintro (h | h | h); exact Or.inl (Or.inr h); exact Or.inl (Or.inl h); exact Or.inr h

/-- sorting the table loses and invents nothing -/
theorem mem_sortBy {α} (lt : α → α → Bool) (l : List α) (y : α) : y ∈ sortBy lt l ↔ y ∈ l := by
  unfold sortBy; rw [mem_sortBy_aux]; simp

/-- a chain of nodes below `n`: each one a subcommand of the previous -/
inductive Chain : GNode → List GNode → Prop
  | nil (n : GNode) : Chain n []
  | cons (n c : GNode) (rest : List GNode) : c ∈ n.subs → Chain c rest → Chain n (c :: rest)

/-- the function name the generator gives the node at the end of a chain -/
def fnOf (parentFn : Bytes) : List GNode → Bytes
  | [] => parentFn
  | c :: rest => fnOf (parentFn ++ uu ++ mangle c.name) rest

mutual
theorem addCommand_self (pf : Bytes) (n : GNode) (w : Bytes) (hw : w ∈ n.names) :
    (pf, w, pf ++ uu ++ mangle n.name) ∈ addCommand pf n := by
  cases n with
  | mk name aliases o v subs =>
    simp only [addCommand, GNode.names, GNode.name, GNode.aliases, List.mem_cons] at hw ⊢
    rcases hw with rfl | hw
    · exact List.mem_append_left _ List.mem_cons_self
    · refine List.mem_append_left _ (List.mem_cons_of_mem _ (List.mem_map.2 ⟨w, hw, rfl⟩))
theorem addCommand_sub (pf : Bytes) (n : GNode) (e : Bytes × Bytes × Bytes)
    (he : e ∈ addCommands (pf ++ uu ++ mangle n.name) n.subs) : e ∈ addCommand pf n := by
  cases n with
  | mk name aliases o v subs =>
    simp only [addCommand, GNode.name, GNode.subs] at he ⊢
    exact List.mem_append_right _ he
end

theorem addCommands_mem (pf : Bytes) (l : List GNode) (c : GNode) (hc : c ∈ l) (e : Bytes × Bytes × Bytes)
    (he : e ∈ addCommand pf c) : e ∈ addCommands pf l := by
  induction l with
  | nil => simp at hc
  | cons x xs ih =>
    simp only [addCommands]
    rcases List.mem_cons.1 hc with rfl | h
    · exact List.mem_append_left _ he
    · exact List.mem_append_right _ (ih h)

/-- **the walk table is complete**: for every chain of subcommands below the root (any depth) and every
name or visible alias of its last node, the table sends (function of the parent, that word) to the
function of the node -/
theorem table_complete (pf : Bytes) (n : GNode) (pre : List GNode) (c : GNode) (hch : Chain n (pre ++ [c]))
    (w : Bytes) (hw : w ∈ c.names) :
    (fnOf pf pre, w, fnOf pf (pre ++ [c])) ∈ addCommands pf n.subs := by
  induction pre generalizing n pf with
  | nil =>
    cases hch with
    | cons _ _ _ hmem _ =>
      simp only [fnOf, List.nil_append]
      exact addCommands_mem pf n.subs c hmem _ (addCommand_self pf c w hw)
  | cons p ps ih =>
    cases hch with
    | cons _ _ _ hmem hrest =>
      simp only [fnOf, List.cons_append]
      exact addCommands_mem pf n.subs p hmem _ (addCommand_sub pf p _ (ih (pf ++ uu ++ mangle p.name) p hrest))

/-! #### the walk reaches the addressed level when the mangled names are unambiguous -/

/-- no two table entries with the same `(function, word)` key lead to different functions -/
def Unambiguous (table : List (Bytes × Bytes × Bytes)) : Prop :=
  ∀ e1 ∈ table, ∀ e2 ∈ table, e1.1 = e2.1 → e1.2.1 = e2.2.1 → e1.2.2 = e2.2.2

theorem lookup_of_mem (table : List (Bytes × Bytes × Bytes)) (hu : Unambiguous table) (f w g : Bytes)
    (h : (f, w, g) ∈ table) : (table.find? fun t => t.1 == f && t.2.1 == w) = some (f, w, g) ∨
      ∃ t, (table.find? fun t => t.1 == f && t.2.1 == w) = some t ∧ t.2.2 = g := by
  right
  cases hf : table.find? fun t => t.1 == f && t.2.1 == w with
  | none =>
    have := List.find?_eq_none.1 hf (f, w, g) h
    simp at this
  | some t =>
    refine ⟨t, rfl, ?_⟩
    have ht := List.mem_of_find?_eq_some hf
    have hk := List.find?_some hf
    simp only [Bool.and_eq_true, beq_iff_eq] at hk
    exact hu t ht (f, w, g) h hk.1 hk.2

/-- the words of a chain: one name (or visible alias) per node -/
def Spells : List GNode → List Bytes → Prop
  | [], [] => True
  | c :: cs, w :: ws => w ∈ c.names ∧ Spells cs ws
  | _, _ => False

theorem walk_chain (root : GNode) (cmd0 : Bytes) (n : GNode) (pf : Bytes) (hpf : pf ≠ [])
    (table : List (Bytes × Bytes × Bytes)) (hu : Unambiguous table)
    (hsub : ∀ e, e ∈ addCommands pf n.subs → e ∈ table)
    (chain : List GNode) (hch : Chain n chain) (ws : List Bytes) (hsp : Spells chain ws) :
    walk root table cmd0 pf ws = fnOf pf chain := by
  induction chain generalizing n pf ws with
  | nil =>
    cases ws with
    | nil => rfl
    | cons _ _ => simp [Spells] at hsp
  | cons c cs ih =>
    cases ws with
    | nil => simp [Spells] at hsp
    | cons w ws =>
      simp only [Spells] at hsp
      cases hch with
      | cons _ _ _ hmem hrest =>
        have hent : (pf, w, pf ++ uu ++ mangle c.name) ∈ table :=
          hsub _ (addCommands_mem pf n.subs c hmem _ (addCommand_self pf c w hsp.1))
        have hne : pf.isEmpty = false := by cases pf <;> simp_all
        simp only [walk, hne, Bool.false_and, Bool.false_eq_true, ↓reduceIte, fnOf]
        rcases lookup_of_mem table hu pf w _ hent with h | ⟨t, ht, htg⟩
        · rw [h]
          exact ih c _ (by simp [uu]) (fun e he => hsub e (addCommands_mem pf n.subs c hmem e (addCommand_sub pf c e he))) hrest ws hsp.2
        · rw [ht]; simp only [htg]
          exact ih c _ (by simp [uu]) (fun e he => hsub e (addCommands_mem pf n.subs c hmem e (addCommand_sub pf c e he))) hrest ws hsp.2

/-- **dispatch follows the words**: if no two `(function, word)` labels of the script's case table
collide, then after `COMP_WORDS = [prog, w1 … wk]`, where the `wi` spell (by name or visible alias) a
chain of subcommands of any depth, `cmd` holds exactly the function name of the node addressed -/
theorem walk_reaches (root : GNode) (hroot : root.name ≠ []) (hu : Unambiguous (caseTable root))
    (chain : List GNode) (hch : Chain root chain) (ws : List Bytes) (hsp : Spells chain ws) (prog : Bytes) :
    walk root (caseTable root) prog [] (prog :: ws) = fnOf (mangle root.name) chain := by
  have hm : mangle root.name ≠ [] := by
    cases hr : root.name with
    | nil => exact absurd hr hroot
    | cons b r => simp only [mangle, replaceByte, List.flatMap_cons]; split <;> simp [uu]
  simp only [walk, List.isEmpty_nil, Bool.true_and, beq_self_eq_true, ↓reduceIte]
  exact walk_chain root prog root (mangle root.name) hm (caseTable root) hu
    (fun e he => (mem_sortBy _ _ e).2 he) chain hch ws hsp

/-! #### what goes wrong without that hypothesis (the listed finding) -/

/-- sibling `a-b` next to a nested `a` → `b`: both are mangled to `prog__a__b` … -/
def collide : GNode :=
  .mk [112] [] [] [] [.mk [97, 45, 98] [] [[45, 45, 120]] [] [], .mk [97] [] [] [] [.mk [98] [] [[45, 45, 121]] [] []]]

/-- … so the table is ambiguous in the sense above only through equal targets, yet the two levels share
ONE arm of the `case "${cmd}"` dispatch: after `prog a b` the script offers the options of `a-b` -/
theorem collision_offers_wrong_level :
    complete collide [[112], [97], [98], []] 3 = some (.words [[45, 45, 120]]) := by decide

/-- a name containing `__` makes the generator's own path lookup fail (`find_subcommand(..).unwrap()`) -/
def oddName : GNode := .mk [112] [] [] [] [.mk [97, 95, 95, 98] [] [] [] []]
theorem double_underscore_panics : details oddName = none := by decide

/-- non-vacuity of `walk_reaches`: a two-level tree with an alias -/
def sample : GNode := .mk [112] [] [] [] [.mk [115, 45, 99] [[97, 108]] [] [] [.mk [108] [] [] [] []]]
example : walk sample (caseTable sample) [112] [] [[112], [97, 108], [108]] = [112, 95, 95, 115, 95, 95, 99, 95, 95, 108] := by decide

end Clap.C16
