/-
C19 — Man pages always render, cover every visible item, and keep user text as text.
-/
import ClapModel
namespace Clap.C19
open Clap Roff Man

/-! #### the scan for request lines -/

theorem ccCount_split (st : Bool) (s : Bytes) :
    ccCount st s = (if st && startsWithCc s then 1 else 0) + ccCount false s := by
  cases s with
  | nil => simp [ccCount, startsWithCc]
  | cons b r => simp [ccCount, startsWithCc]

theorem ccCount_append (st : Bool) (a b : Bytes) :
    ccCount st (a ++ b) = ccCount st a + ccCount (endsAtLineStart st a) b := by
  induction a generalizing st with
  | nil => simp [ccCount, endsAtLineStart]
  | cons x xs ih => simp [ccCount, endsAtLineStart, ih, Nat.add_assoc]

theorem endsAtLineStart_append (st : Bool) (a b : Bytes) :
    endsAtLineStart st (a ++ b) = endsAtLineStart (endsAtLineStart st a) b := by
  induction a generalizing st with
  | nil => simp [endsAtLineStart]
  | cons x xs ih => simp [endsAtLineStart, ih]

/-- no newline inside: the scan state at the end is `false` unless the string is empty -/
theorem endsAtLineStart_noNl (st : Bool) (s : Bytes) (h : 10 ∉ s) (hne : s ≠ []) : endsAtLineStart st s = false := by
  induction s generalizing st with
  | nil => exact absurd rfl hne
  | cons x xs ih =>
    simp only [endsAtLineStart]
    have hx : (x == 10) = false := by
      have : x ≠ 10 := fun e => h (e ▸ List.mem_cons_self)
      simpa using this
    rw [hx]
    cases xs with
    | nil => simp [endsAtLineStart]
    | cons y ys => exact ih false (fun hm => h (List.mem_cons_of_mem _ hm)) (by simp)

theorem ccCount_noNl (s : Bytes) (h : 10 ∉ s) : ccCount false s = 0 := by
  induction s with
  | nil => rfl
  | cons x xs ih =>
    have hx : (x == 10) = false := by
      have : x ≠ 10 := fun e => h (e ▸ List.mem_cons_self)
      simpa using this
    simp [ccCount, hx, ih (fun hm => h (List.mem_cons_of_mem _ hm))]

/-! #### escaped text never has a control character after a newline -/

/-- no `\n` is directly followed by `.` or `'` -/
def noNlCc : Bytes → Bool
  | [] => true
  | b :: r => (!(b == 10) || !startsWithCc r) && noNlCc r

theorem ccCount_false_of_noNlCc (s : Bytes) (h : noNlCc s = true) : ccCount false s = 0 := by
  induction s with
  | nil => rfl
  | cons b r ih =>
    simp only [noNlCc, Bool.and_eq_true, Bool.or_eq_true, Bool.not_eq_true'] at h
    rw [ccCount, ccCount_split]
    simp only [Bool.false_and, Bool.false_eq_true, ↓reduceIte, Nat.zero_add, ih h.2, Nat.add_zero]
    rcases h.1 with h1 | h1 <;> simp [h1]

theorem mem_escapeApostrophes (s : Bytes) : (39 : UInt8) ∉ escapeApostrophes s := by
  induction s with
  | nil => simp [escapeApostrophes]
  | cons b r ih =>
    simp only [escapeApostrophes]
    split
    · simp [ih]
    · next h => simp only [List.mem_cons, not_or]; exact ⟨fun e => h (by simp [← e]), ih⟩

theorem mem_escapeNlDot (s : Bytes) (x : UInt8) (hx : x ≠ 10 ∧ x ≠ 92 ∧ x ≠ 38) : x ∈ escapeNlDot s → x ∈ s := by
  induction s with
  | nil => simp [escapeNlDot]
  | cons b r ih =>
    simp only [escapeNlDot]
    split
    · intro h
      simp only [List.mem_cons] at h
      rcases h with h | h | h | h
      · exact absurd h hx.1
      · exact absurd h hx.2.1
      · exact absurd h hx.2.2
      · exact List.mem_cons_of_mem _ (ih h)
    · intro h
      rcases List.mem_cons.1 h with h | h
      · exact h ▸ List.mem_cons_self
      · exact List.mem_cons_of_mem _ (ih h)

theorem escapeNlApos_id (s : Bytes) (h : (39 : UInt8) ∉ s) : escapeNlApos s = s := by
  induction s with
  | nil => rfl
  | cons b r ih =>
    simp only [escapeNlApos]
    have hr : (39 : UInt8) ∉ r := fun hm => h (List.mem_cons_of_mem _ hm)
    have : (r.head? == some 39) = false := by
      cases r with
      | nil => simp
      | cons y ys =>
        have : y ≠ 39 := fun e => hr (e ▸ List.mem_cons_self)
        simp [this]
    simp [this, ih hr]

theorem head_escapeNlDot (s : Bytes) : (escapeNlDot s).head? = s.head? := by
  cases s with
  | nil => rfl
  | cons b r =>
    simp only [escapeNlDot]
    split
    · next h => simp at h; simp [h.1]
    · rfl

theorem noNlCc_escapeNlDot (s : Bytes) (h : (39 : UInt8) ∉ s) : noNlCc (escapeNlDot s) = true := by
  induction s with
  | nil => rfl
  | cons b r ih =>
    have hr : (39 : UInt8) ∉ r := fun hm => h (List.mem_cons_of_mem _ hm)
    simp only [escapeNlDot]
    split
    · -- "\n." becomes "\n\&." : the newline is followed by a backslash
      simp [noNlCc, startsWithCc, isCc, ih hr]
    · next hnm =>
      simp only [noNlCc, ih hr, Bool.and_true, Bool.or_eq_true, Bool.not_eq_true']
      by_cases hb : b = 10
      · right
        subst hb
        -- the next byte of the output is the next byte of the input, which is neither `.` nor `'`
        have hh := head_escapeNlDot r
        cases hr' : r with
        | nil => simp [escapeNlDot, startsWithCc]
        | cons y ys =>
          rw [hr'] at hh hnm hr
          have hy46 : y ≠ 46 := by intro e; simp [e] at hnm
          have hy39 : y ≠ 39 := fun e => hr (e ▸ List.mem_cons_self)
          cases ho : escapeNlDot (y :: ys) with
          | nil => simp [startsWithCc]
          | cons z zs =>
            rw [ho] at hh
            simp at hh
            simp [startsWithCc, isCc, hh, hy46, hy39]
      · left; simpa using hb

/-- **escaped inline text never puts `.` or `'` right after a newline** (for every input text) -/
theorem escText_noNlCc (t : Bytes) : noNlCc (escText t) = true := by
  unfold escText
  have h39 := mem_escapeApostrophes (escapeInline t)
  have h39' : (39 : UInt8) ∉ escapeNlDot (escapeApostrophes (escapeInline t)) :=
    fun hm => h39 (mem_escapeNlDot _ 39 (by decide) hm)
  rw [escapeNlApos_id _ h39']
  exact noNlCc_escapeNlDot _ h39

theorem ccCount_escText (st : Bool) (t : Bytes) :
    ccCount st (escText t) = if st && startsWithCc (escText t) then 1 else 0 := by
  rw [ccCount_split, ccCount_false_of_noNlCc _ (escText_noNlCc t)]; simp

/-! #### one text line -/

def breaks : List Inline → Nat
  | [] => 0
  | .lineBreak :: r => 1 + breaks r
  | _ :: r => breaks r

def endsNl (s : Bytes) : Bool := s.getLast? == some 10

/-- what the previous inline guarantees about the physical position: bold/italic end with `\fR`,
a roman inline with non-empty text that does not end in a newline leaves the line open -/
def offLineStart : Option Inline → Bool
  | some (.bold _) => true
  | some (.italic _) => true
  | some (.roman t) => !(escText t).isEmpty && !endsNl (escText t)
  | _ => false

/-- a roman inline that is not the first of its line and starts with `.`/`'` must follow an inline that
leaves the line open -/
def shapeFrom : Option Inline → List Inline → Bool
  | _, [] => true
  | prev, .roman t :: r => (!startsWithCc (escText t) || offLineStart prev) && shapeFrom (some (.roman t)) r
  | _, x :: r => shapeFrom (some x) r

/-- the first inline is guarded by `at_line_start`; the rest must have the shape -/
def Shape : List Inline → Bool
  | [] => true
  | x :: r => shapeFrom (some x) r

theorem endsAtLineStart_nonempty (st : Bool) (s : Bytes) (h : s ≠ []) : endsAtLineStart st s = endsNl s := by
  induction s generalizing st with
  | nil => exact absurd rfl h
  | cons x xs ih =>
    cases xs with
    | nil => simp [endsAtLineStart, endsNl]
    | cons y ys => rw [endsAtLineStart, ih _ (by simp)]; simp [endsNl, List.getLast?_cons_cons]

theorem endsAt_styled (st : Bool) (pre t : Bytes) :
    endsAtLineStart st (pre ++ escText t ++ [92, 102, 82]) = false := by
  rw [endsAtLineStart_append]
  simp [endsAtLineStart]

/-- the tail of a line (flag `at_line_start = false`), from ANY physical state allowed by the shape -/
theorem tail_cc (prev : Option Inline) (inl : List Inline) (st : Bool) (hs : shapeFrom prev inl = true)
    (hst : offLineStart prev = true → st = false) :
    ccCount st (renderInlines false inl ++ [10]) = breaks inl := by
  induction inl generalizing prev st with
  | nil => simp [renderInlines, ccCount, breaks, isCc]
  | cons x r ih =>
    cases x with
    | lineBreak =>
      simp only [shapeFrom] at hs
      simp only [renderInlines, Bool.false_eq_true, ↓reduceIte, breaks, List.append_assoc]
      rw [ccCount_append]
      have h1 : ccCount st [10, 46, 98, 114, 10] = 1 := by cases st <;> decide
      have h2 : endsAtLineStart st [10, 46, 98, 114, 10] = true := by cases st <;> decide
      rw [h1, h2, ih (some .lineBreak) true hs (by simp [offLineStart])]
    | roman t =>
      simp only [shapeFrom, Bool.and_eq_true, Bool.or_eq_true, Bool.not_eq_true'] at hs
      simp only [renderInlines, Bool.false_and, Bool.false_eq_true, ↓reduceIte, List.nil_append, breaks, List.append_assoc]
      rw [ccCount_append, ccCount_escText]
      have h0 : (st && startsWithCc (escText t)) = false := by
        rcases hs.1 with h | h
        · simp [h]
        · simp [hst h]
      rw [h0]
      simp only [Bool.false_eq_true, ↓reduceIte, Nat.zero_add]
      refine ih (some (.roman t)) _ hs.2 ?_
      intro ho
      simp only [offLineStart, Bool.and_eq_true, Bool.not_eq_true', List.isEmpty_eq_false_iff] at ho
      rw [endsAtLineStart_nonempty _ _ ho.1]; exact ho.2
    | bold t =>
      simp only [shapeFrom] at hs
      simp only [renderInlines, breaks, List.append_assoc]
      rw [show ([92, 102, 66] ++ (escText t ++ ([92, 102, 82] ++ (renderInlines false r ++ [10])))) =
        ([92, 102, 66] ++ escText t ++ [92, 102, 82]) ++ (renderInlines false r ++ [10]) by simp]
      rw [ccCount_append, endsAt_styled]
      have : ccCount st ([92, 102, 66] ++ escText t ++ [92, 102, 82]) = 0 := by
        rw [List.append_assoc, ccCount_append, ccCount_append, ccCount_escText]
        cases st <;> simp [ccCount, isCc, endsAtLineStart]
      rw [this, Nat.zero_add]
      exact ih (some (.bold t)) false hs (by simp)
    | italic t =>
      simp only [shapeFrom] at hs
      simp only [renderInlines, breaks, List.append_assoc]
      rw [show ([92, 102, 73] ++ (escText t ++ ([92, 102, 82] ++ (renderInlines false r ++ [10])))) =
        ([92, 102, 73] ++ escText t ++ [92, 102, 82]) ++ (renderInlines false r ++ [10]) by simp]
      rw [ccCount_append, endsAt_styled]
      have : ccCount st ([92, 102, 73] ++ escText t ++ [92, 102, 82]) = 0 := by
        rw [List.append_assoc, ccCount_append, ccCount_append, ccCount_escText]
        cases st <;> simp [ccCount, isCc, endsAtLineStart]
      rw [this, Nat.zero_add]
      exact ih (some (.italic t)) false hs (by simp)

/-- **a text line contributes exactly its `.br` requests**: whatever the texts of its inlines are,
the lines of its rendering that start with `.` or `'` are the generator's own line breaks -/
theorem text_line_cc (inl : List Inline) (hs : Shape inl = true) :
    ccCount true (renderLine (.text inl)) = breaks inl := by
  unfold renderLine
  cases inl with
  | nil => simp [renderInlines, ccCount, breaks, isCc]
  | cons x r =>
    simp only [Shape] at hs
    cases x with
    | lineBreak =>
      simp only [renderInlines, ↓reduceIte, breaks, List.append_assoc]
      rw [ccCount_append]
      have h1 : ccCount true [46, 98, 114, 10] = 1 := by decide
      have h2 : endsAtLineStart true [46, 98, 114, 10] = true := by decide
      rw [h1, h2, tail_cc (some .lineBreak) r true hs (by simp [offLineStart])]
    | roman t =>
      simp only [renderInlines, Bool.true_and, breaks, List.append_assoc]
      rw [ccCount_append]
      have hguard : ccCount true (if startsWithCc (escText t) = true then [92, 38] else []) = 0 := by
        split <;> simp [ccCount, isCc]
      rw [hguard, Nat.zero_add, ccCount_append, ccCount_escText]
      have h0 : (endsAtLineStart true (if startsWithCc (escText t) = true then [92, 38] else []) && startsWithCc (escText t)) = false := by
        by_cases h : startsWithCc (escText t) = true
        · simp [h, endsAtLineStart]
        · simp [h]
      rw [h0]
      simp only [Bool.false_eq_true, ↓reduceIte, Nat.zero_add]
      refine tail_cc (some (.roman t)) r _ hs ?_
      intro ho
      simp only [offLineStart, Bool.and_eq_true, Bool.not_eq_true', List.isEmpty_eq_false_iff] at ho
      rw [endsAtLineStart_nonempty _ _ ho.1]; exact ho.2
    | bold t =>
      simp only [renderInlines, breaks, List.append_assoc]
      rw [show ([92, 102, 66] ++ (escText t ++ ([92, 102, 82] ++ (renderInlines false r ++ [10])))) =
        ([92, 102, 66] ++ escText t ++ [92, 102, 82]) ++ (renderInlines false r ++ [10]) by simp]
      rw [ccCount_append, endsAt_styled]
      have : ccCount true ([92, 102, 66] ++ escText t ++ [92, 102, 82]) = 0 := by
        rw [List.append_assoc, ccCount_append, ccCount_append, ccCount_escText]
        simp [ccCount, isCc, endsAtLineStart]
      rw [this, Nat.zero_add]
      exact tail_cc (some (.bold t)) r false hs (by simp)
    | italic t =>
      simp only [renderInlines, breaks, List.append_assoc]
      rw [show ([92, 102, 73] ++ (escText t ++ ([92, 102, 82] ++ (renderInlines false r ++ [10])))) =
        ([92, 102, 73] ++ escText t ++ [92, 102, 82]) ++ (renderInlines false r ++ [10]) by simp]
      rw [ccCount_append, endsAt_styled]
      have : ccCount true ([92, 102, 73] ++ escText t ++ [92, 102, 82]) = 0 := by
        rw [List.append_assoc, ccCount_append, ccCount_append, ccCount_escText]
        simp [ccCount, isCc, endsAtLineStart]
      rw [this, Nat.zero_add]
      exact tail_cc (some (.italic t)) r false hs (by simp)

theorem renderLine_endsAtLineStart (st : Bool) (l : Line) : endsAtLineStart st (renderLine l) = true := by
  cases l with
  | control n a =>
    simp only [renderLine]
    rw [show (46 :: n ++ renderControlArgs a ++ [10]) = (46 :: n ++ renderControlArgs a) ++ [10] by simp, endsAtLineStart_append]
    simp [endsAtLineStart]
  | text inl =>
    simp only [renderLine]
    rw [endsAtLineStart_append]; simp [endsAtLineStart]

/-! #### one control line -/

theorem mem_escapeSpaces (a : Bytes) (h : 10 ∉ a) : 10 ∉ escapeSpaces a := by
  unfold escapeSpaces; split <;> simp [h]

theorem mem_renderControlArgs (args : List Bytes) (h : ∀ a ∈ args, 10 ∉ a) : 10 ∉ renderControlArgs args := by
  induction args with
  | nil => simp [renderControlArgs]
  | cons a r ih =>
    simp only [renderControlArgs]
    intro hm
    rcases List.mem_cons.1 hm with h1 | h1
    · exact absurd h1 (by decide)
    · rcases List.mem_append.1 h1 with h2 | h2
      · exact mem_escapeSpaces a (h a List.mem_cons_self) h2
      · exact ih (fun x hx => h x (List.mem_cons_of_mem _ hx)) h2

def cleanControl (name : Bytes) (args : List Bytes) : Prop := 10 ∉ name ∧ ∀ a ∈ args, 10 ∉ a

/-- **a request whose name and arguments hold no newline is exactly one request line** -/
theorem control_line_cc (name : Bytes) (args : List Bytes) (h : cleanControl name args) :
    ccCount true (renderLine (.control name args)) = 1 := by
  simp only [renderLine]
  have hnl : 10 ∉ name ++ renderControlArgs args := by
    simp only [List.mem_append, not_or]; exact ⟨h.1, mem_renderControlArgs args h.2⟩
  rw [show (46 :: name ++ renderControlArgs args ++ [10]) = 46 :: ((name ++ renderControlArgs args) ++ [10]) by simp]
  have h1 : ∀ X : Bytes, ccCount true (46 :: X) = 1 + ccCount false X := by intro X; simp [ccCount, isCc]
  rw [h1, ccCount_append, ccCount_noNl _ hnl]
  simp [ccCount, isCc]

/-! #### a whole page -/

def GoodLine : Line → Prop
  | .control n a => cleanControl n a
  | .text inl => Shape inl = true

def requests : List Line → Nat
  | [] => 0
  | .control _ _ :: r => 1 + requests r
  | .text inl :: r => breaks inl + requests r

theorem renderLines_cc (ls : List Line) (h : ∀ l ∈ ls, GoodLine l) : ccCount true (renderLines ls) = requests ls := by
  induction ls with
  | nil => rfl
  | cons l r ih =>
    simp only [renderLines]
    rw [ccCount_append, renderLine_endsAtLineStart, ih (fun x hx => h x (List.mem_cons_of_mem _ hx))]
    have hl := h l List.mem_cons_self
    cases l with
    | control n a => simp only [requests]; rw [control_line_cc n a hl]
    | text inl => simp only [requests]; rw [text_line_cc inl hl]

/-- **the request lines of a rendered document are exactly the generator's own**: the two preamble
lines, one per `control` element and one per `LineBreak` - for every choice of texts, provided the
lines have the shape and no request argument holds a newline -/
theorem render_cc (ls : List Line) (h : ∀ l ∈ ls, GoodLine l) : ccCount true (render ls) = 2 + requests ls := by
  unfold render
  have h1 : endsAtLineStart true preamble = true := by decide
  have h2 : ccCount true preamble = 2 := by decide
  rw [ccCount_append, h1, h2, renderLines_cc ls h]

/-! #### `clap_mangen`'s lines have the shape, and its request arguments hold no newline -/

theorem head_escapeNlApos (s : Bytes) : (escapeNlApos s).head? = s.head? := by
  cases s with
  | nil => rfl
  | cons b r =>
    simp only [escapeNlApos]
    split
    · next h => simp at h; simp [h.1]
    · rfl

/-- escaped text starts with a control character only if the text itself starts with `.` -/
theorem startsWithCc_escText (t : Bytes) (h : t.head? ≠ some 46) : startsWithCc (escText t) = false := by
  have hh : (escText t).head? = (escapeApostrophes (escapeInline t)).head? := by
    unfold escText; rw [head_escapeNlApos, head_escapeNlDot]
  cases t with
  | nil => simp [escText, escapeInline, escapeApostrophes, escapeNlDot, escapeNlApos, startsWithCc]
  | cons b r =>
    have hb : b ≠ 46 := by intro e; simp [e] at h
    have h2 : (escapeApostrophes (escapeInline (b :: r))).head? = some (if b == 92 || b == 45 || b == 39 then 92 else b) := by
      simp only [escapeInline]
      by_cases h92 : b = 92
      · simp [h92, escapeApostrophes]
      · by_cases h45 : b = 45
        · simp [h45, escapeApostrophes]
        · by_cases h39 : b = 39
          · simp [h39, escapeApostrophes]
          · simp [h92, h45, h39, escapeApostrophes]
    rw [h2] at hh
    cases he : escText (b :: r) with
    | nil => simp [startsWithCc]
    | cons z zs =>
      rw [he] at hh
      simp only [List.head?_cons, Option.some.injEq] at hh
      simp only [startsWithCc, isCc]
      subst hh
      by_cases h92 : b = 92
      · simp [h92]
      · by_cases h45 : b = 45
        · simp [h45]
        · by_cases h39 : b = 39
          · simp [h39]
          · simp [h92, h45, h39, hb]

def safeInline : Inline → Bool
  | .roman t => t.head? != some 46
  | _ => true

theorem shapeFrom_of_safe (prev : Option Inline) (xs : List Inline) (h : xs.all safeInline = true) : shapeFrom prev xs = true := by
  induction xs generalizing prev with
  | nil => rfl
  | cons x r ih =>
    simp only [List.all_cons, Bool.and_eq_true] at h
    cases x with
    | roman t =>
      simp only [shapeFrom, Bool.and_eq_true, Bool.or_eq_true, Bool.not_eq_true']
      exact ⟨Or.inl (startsWithCc_escText t (by simpa [safeInline] using h.1)), ih _ h.2⟩
    | lineBreak => exact ih _ h.2
    | bold t => exact ih _ h.2
    | italic t => exact ih _ h.2

theorem shape_of_safe_tail (x : Inline) (r : List Inline) (h : r.all safeInline = true) : Shape (x :: r) = true :=
  shapeFrom_of_safe _ r h

def GoodLines (ls : List Line) : Prop := ∀ l ∈ ls, GoodLine l

theorem good_nil : GoodLines [] := by intro l h; simp at h
theorem good_cons {l : Line} {ls : List Line} (h1 : GoodLine l) (h2 : GoodLines ls) : GoodLines (l :: ls) := by
  intro x hx; rcases List.mem_cons.1 hx with e | e; exact e ▸ h1; exact h2 x e
theorem good_append {a b : List Line} (h1 : GoodLines a) (h2 : GoodLines b) : GoodLines (a ++ b) := by
  intro x hx; rcases List.mem_append.1 hx with e | e; exact h1 x e; exact h2 x e
theorem good_flatMap {α : Type} (xs : List α) (f : α → List Line) (h : ∀ x ∈ xs, GoodLines (f x)) : GoodLines (xs.flatMap f) := by
  intro l hl; obtain ⟨x, hx, hm⟩ := List.mem_flatMap.1 hl; exact h x hx l hm
theorem good_map {α : Type} (xs : List α) (f : α → Line) (h : ∀ x ∈ xs, GoodLine (f x)) : GoodLines (xs.map f) := by
  intro l hl; obtain ⟨x, hx, rfl⟩ := List.mem_map.1 hl; exact h x hx
theorem good_ite {c : Prop} [Decidable c] {a b : List Line} (h1 : GoodLines a) (h2 : GoodLines b) : GoodLines (if c then a else b) := by
  split <;> assumption

theorem good_fixed (n : Bytes) (hn : 10 ∉ n) : GoodLine (.control n []) := ⟨hn, by simp⟩
theorem single_roman (t : Bytes) : GoodLine (.text [.roman t]) := by simp [GoodLine, Shape, shapeFrom]

theorem mem_controlArg (s : Bytes) : 10 ∉ controlArg s := by
  unfold controlArg
  simp only [List.mem_map, not_exists, not_and]
  intro b _
  split <;> simp_all

theorem markers_safe (r : Bool) : (markers r).1.head? ≠ some 46 ∧ (markers r).2.head? ≠ some 46 := by
  cases r <;> simp [markers]

/-- a run of inlines that is well-shaped after ANY predecessor (its first inline is safe) -/
def AnyPrev (xs : List Inline) : Prop := ∀ p, shapeFrom p xs = true

theorem anyPrev_nil : AnyPrev [] := fun _ => rfl

theorem shapeFrom_append (p : Option Inline) (xs ys : List Inline) (h1 : shapeFrom p xs = true) (h2 : AnyPrev ys) :
    shapeFrom p (xs ++ ys) = true := by
  induction xs generalizing p with
  | nil => exact h2 p
  | cons x r ih =>
    cases x with
    | roman t =>
      simp only [List.cons_append, shapeFrom, Bool.and_eq_true] at h1 ⊢
      exact ⟨h1.1, ih _ h1.2⟩
    | lineBreak => exact ih _ h1
    | bold t => exact ih _ h1
    | italic t => exact ih _ h1

theorem anyPrev_append {xs ys : List Inline} (h1 : AnyPrev xs) (h2 : AnyPrev ys) : AnyPrev (xs ++ ys) :=
  fun p => shapeFrom_append p xs ys (h1 p) h2

theorem anyPrev_flatMap {α : Type} (xs : List α) (f : α → List Inline) (h : ∀ x, AnyPrev (f x)) : AnyPrev (xs.flatMap f) := by
  induction xs with
  | nil => exact anyPrev_nil
  | cons x r ih => simp only [List.flatMap_cons]; exact anyPrev_append (h x) ih

theorem synopsisOpt_anyPrev (a : MArg) : AnyPrev (synopsisOpt a) := by
  intro p
  unfold synopsisOpt
  have e1 : startsWithCc (escText [91]) = false := by decide
  have e2 : startsWithCc (escText [60]) = false := by decide
  have e3 : startsWithCc (escText [93]) = false := by decide
  have e4 : startsWithCc (escText [62]) = false := by decide
  have e5 : startsWithCc (escText [124]) = false := by decide
  have e6 : startsWithCc (escText [32]) = false := by decide
  have o1 : offLineStart (some (.roman [93])) = true := by decide
  have o2 : offLineStart (some (.roman [62])) = true := by decide
  cases hr : a.required <;> cases hs : a.short <;> cases hl : a.long <;> cases hc : a.isCount <;>
    simp [markers, shapeFrom, e1, e2, e3, e4, e5, e6, o1, o2]

theorem synopsisPos_anyPrev (a : MArg) : AnyPrev (synopsisPos a) := by
  intro p
  unfold synopsisPos
  have e1 : startsWithCc (escText [91]) = false := by decide
  have e2 : startsWithCc (escText [60]) = false := by decide
  have e3 : startsWithCc (escText [93]) = false := by decide
  have e4 : startsWithCc (escText [62]) = false := by decide
  have e6 : startsWithCc (escText [32]) = false := by decide
  cases hr : a.required <;> simp [markers, shapeFrom, e1, e2, e3, e4, e6]

theorem synopsis_good (c : MCmd) : GoodLine (synopsisLine c) := by
  unfold synopsisLine
  simp only [GoodLine, List.cons_append, List.nil_append, Shape]
  have e1 : startsWithCc (escText [91]) = false := by decide
  have e2 : startsWithCc (escText [60]) = false := by decide
  have e3 : startsWithCc (escText [93]) = false := by decide
  have e4 : startsWithCc (escText [62]) = false := by decide
  have e6 : startsWithCc (escText [32]) = false := by decide
  simp only [shapeFrom, e6, Bool.not_false, Bool.true_or, Bool.true_and]
  refine shapeFrom_append _ _ _ (shapeFrom_append _ _ _ (anyPrev_flatMap _ _ synopsisOpt_anyPrev _) (anyPrev_flatMap _ _ synopsisPos_anyPrev)) ?_
  intro p
  split
  · cases c.subRequired <;> simp [markers, shapeFrom, e1, e2, e3, e4]
  · rfl

theorem optionEnv_good (a : MArg) : GoodLines (optionEnv a) := by
  unfold optionEnv
  split
  · exact good_nil
  · split
    · refine good_cons (good_fixed _ (by decide)) (good_cons ?_ (good_cons (good_fixed _ (by decide)) good_nil))
      simp [GoodLine, Shape, shapeFrom, offLineStart]
    · exact good_nil

theorem possibleLines_good (a : MArg) (w : Bool) : GoodLines (possibleLines a w) := by
  have e1 : startsWithCc (escText [91]) = false := by decide
  have e3 : startsWithCc (escText [93]) = false := by decide
  unfold possibleLines
  split
  · exact good_nil
  · simp only
    split
    · exact good_nil
    · refine good_append (good_ite (good_cons (by simp [GoodLine, Shape, shapeFrom]) good_nil) good_nil) ?_
      split
      · refine good_cons (by simp [GoodLine, Shape, shapeFrom]) (good_cons ⟨by decide, by decide⟩ ?_)
        refine good_append (good_flatMap _ _ ?_) (good_cons (good_fixed _ (by decide)) good_nil)
        intro p _
        exact good_cons ⟨by decide, by decide⟩ (good_cons (single_roman _) good_nil)
      · refine good_cons ?_ good_nil
        -- `[LineBreak, roman "[", italic "possible values: ", roman (names), roman "]"]`: the names follow an italic
        simp [GoodLine, Shape, shapeFrom, offLineStart, e1, e3]

theorem optionDefaults_safe (a : MArg) (d : Bytes) (h : optionDefaults a = some d) : d.head? ≠ some 46 := by
  unfold optionDefaults at h
  split at h
  · simp at h
  · split at h
    · simp at h; subst h; simp
    · simp at h

theorem optionLines_good (a : MArg) : GoodLines (optionLines a) := by
  unfold optionLines
  simp only
  refine good_cons (good_fixed _ (by decide)) (good_cons ?_ (good_cons ?_
    (good_append (possibleLines_good a _) (optionEnv_good a))))
  · -- the header
    simp only [GoodLine]
    have hsafe : ((if a.takesValues = true then (match a.valNames with | some v => [Inline.roman [61], .italic (joinB [32] v)] | none => []) else []) ++
        (match optionDefaults a with | some d => [Inline.roman [32], .roman d] | none => [])).all safeInline = true := by
      simp only [List.all_append, Bool.and_eq_true]
      constructor
      · split
        · split <;> simp [safeInline]
        · rfl
      · cases hd : optionDefaults a with
        | none => rfl
        | some d => simp [safeInline, optionDefaults_safe a d hd]
    cases hs : a.short <;> cases hl : a.long <;> simp only [List.nil_append, List.cons_append]
    · -- no flags at all: the header starts with whatever comes next
      generalize hX : ((if a.takesValues = true then (match a.valNames with | some v => [Inline.roman [61], .italic (joinB [32] v)] | none => []) else []) ++
        (match optionDefaults a with | some d => [Inline.roman [32], .roman d] | none => [])) = X at hsafe
      cases X with
      | nil => rfl
      | cons x r => simp only [List.all_cons, Bool.and_eq_true] at hsafe; exact shape_of_safe_tail x r hsafe.2
    · exact shape_of_safe_tail _ _ hsafe
    · exact shape_of_safe_tail _ _ hsafe
    · apply shape_of_safe_tail
      simp only [List.all_cons, Bool.and_eq_true]
      exact ⟨by simp [safeInline], by simp [safeInline], hsafe⟩
  · cases optionHelp a with
    | none => simp [GoodLine, Shape]
    | some h => exact single_roman h

theorem positionalLines_good (a : MArg) : GoodLines (positionalLines a) := by
  unfold positionalLines
  simp only
  refine good_cons (good_fixed _ (by decide)) (good_cons ?_ (good_cons ?_
    (good_append (optionEnv_good a) (possibleLines_good a _))))
  · simp only [GoodLine, List.cons_append, List.nil_append]
    apply shape_of_safe_tail
    have hm := markers_safe a.required
    cases hd : optionDefaults a with
    | none => simp [safeInline, hm.2]
    | some d => simp [safeInline, hm.2]
  · cases optionHelp a with
    | none => simp [GoodLine, Shape]
    | some h => exact single_roman h

theorem optionsLines_good (items : List MArg) : GoodLines (optionsLines items) :=
  good_append (good_flatMap _ _ fun a _ => optionLines_good a) (good_flatMap _ _ fun a _ => positionalLines_good a)

theorem lines_map_good (s : Bytes) : GoodLines ((lines s).map fun l => Line.text [.roman l]) :=
  good_map _ _ fun l _ => single_roman l

/-- **every line `clap_mangen` emits is well-shaped** and every request argument is newline-free,
for every command (all text slots arbitrary) -/
theorem manLines_good (c : MCmd) (ls : List Line) (h : manLines c = some ls) : GoodLines ls := by
  unfold manLines at h
  simp only at h
  cases hv : versionSection c with
  | none => simp [hv] at h
  | some ver =>
    simp only [hv, Option.some.injEq] at h
    subst h
    have hver : GoodLines ver := by
      unfold versionSection at hv
      split at hv
      · split at hv
        · simp at hv; subst hv
          exact good_cons ⟨by decide, by decide⟩ (good_cons (single_roman _) good_nil)
        · simp at hv
      · simp at hv; subst hv; exact good_nil
    refine good_append (good_append (good_append (good_append (good_append (good_append (good_append ?_ ?_) ?_) ?_) ?_) ?_) hver) ?_
    · -- .TH, .SH NAME, the NAME line
      refine good_cons ⟨by decide, ?_⟩ (good_cons ⟨by decide, by decide⟩ (good_cons (single_roman _) good_nil))
      intro a ha
      simp only [List.mem_cons, List.mem_nil_iff, or_false] at ha
      rcases ha with rfl | rfl | rfl | rfl | rfl <;> exact mem_controlArg _
    · exact good_cons ⟨by decide, by decide⟩ (good_cons (synopsis_good c) (good_cons ⟨by decide, by decide⟩ good_nil))
    · unfold descriptionLines
      split
      · exact good_map _ _ fun l _ => by split; exact good_fixed _ (by decide); exact single_roman l
      · exact good_nil
    · refine good_ite ?_ good_nil
      unfold optionsSection
      simp only
      refine good_append (good_ite good_nil (good_cons ⟨by decide, by decide⟩ (optionsLines_good _))) (good_flatMap _ _ ?_)
      intro hd _
      exact good_cons ⟨by decide, by intro a ha; simp at ha; subst ha; exact mem_controlArg _⟩ (optionsLines_good _)
    · refine good_ite ?_ good_nil
      unfold subcommandsSection
      refine good_cons ⟨by decide, by intro a ha; simp at ha; subst ha; exact mem_controlArg _⟩ (good_flatMap _ _ ?_)
      intro s _
      refine good_append (good_cons (good_fixed _ (by decide)) (good_cons (single_roman _) good_nil)) ?_
      cases s.about with
      | none => exact good_nil
      | some a => exact lines_map_good a
    · unfold extraSection
      split
      · exact good_cons ⟨by decide, by decide⟩ (lines_map_good _)
      · exact good_nil
    · unfold authorsSection
      split
      · exact good_cons ⟨by decide, by decide⟩ (good_cons (single_roman _) good_nil)
      · exact good_nil

/-- **rendering never panics**: the `unwrap` in `render::version` is reached only under `app_has_version` -/
theorem render_total (c : MCmd) : (manPage c).isSome = true := by
  unfold manPage manLines versionSection
  cases h1 : c.version <;> cases h2 : c.longVersion <;> simp [Option.or]

/-- **user text is only ever text**: in the rendered man page of ANY command - every text slot
(name, about, help, after-help, author, version, value names, possible values, headings …) holding
arbitrary bytes - the lines that roff reads as requests are exactly the two preamble lines, the
generator's own `control` elements and its own line breaks. -/
theorem man_page_requests (c : MCmd) (ls : List Line) (h : manLines c = some ls) :
    ccCount true (Roff.render ls) = 2 + requests ls :=
  render_cc ls (manLines_good c ls h)

/-! #### hidden items contribute nothing; visible ones are named -/

/-- **hidden args are invisible to the generator**: deleting every `hide(true)` arg from the command
leaves the page unchanged - so nothing on the page can derive from a hidden arg -/
theorem hidden_args_invisible (c : MCmd) : manLines { c with args := c.args.filter (!·.hide) } = manLines c := by
  have h1 : (c.args.filter (!·.hide)).filter (!·.hide) = c.args.filter (!·.hide) := by
    simp [List.filter_filter]
  have h2 : ((c.args.filter (!·.hide)).filter (·.isPositional)).filter (!·.hide) = (c.args.filter (·.isPositional)).filter (!·.hide) := by
    simp only [List.filter_filter]
    apply List.filter_congr
    intro a _
    cases a.hide <;> cases a.isPositional <;> rfl
  have h3 : (c.args.filter (!·.hide)).any (!·.hide) = c.args.any (!·.hide) := by
    induction c.args with
    | nil => rfl
    | cons a r ih =>
      simp only [List.filter_cons]
      cases ha : a.hide <;> simp [ha, ih]
  unfold manLines
  simp only [versionSection, dn, synopsisLine, optionsSection, subcommandsSection, subcommandHeading, aboutLines,
    descriptionLines, extraSection, authorsSection, h1, h2, h3]

/-- hidden subcommands are skipped by the SUBCOMMANDS section -/
theorem hidden_subs_unlisted (c : MCmd) (n : Bytes) :
    subcommandsSection { c with subs := c.subs.filter (!·.hide) } n = subcommandsSection c n := by
  simp [subcommandsSection, subcommandHeading, dn, List.filter_filter]

theorem mem_headings_fold (hs : List Bytes) (h : Bytes) : ∀ acc : List Bytes,
    h ∈ hs.foldl (fun acc h => if acc.contains h then acc else acc ++ [h]) acc ↔ h ∈ acc ∨ h ∈ hs := by
  induction hs with
  | nil => simp
  | cons x xs ih =>
    intro acc
    simp only [List.foldl_cons, ih, List.mem_cons]
    split
    · next hc =>
      have : x ∈ acc := by simpa using hc
      constructor
      · rintro (h1 | h1); exact Or.inl h1; exact Or.inr (Or.inr h1)
      · rintro (h1 | h1 | h1); exact Or.inl h1; exact Or.inl (h1 ▸ this); exact Or.inr h1
    · simp only [List.mem_append, List.mem_singleton]
      constructor
      · rintro ((h1 | h1) | h1); exact Or.inl h1; exact Or.inr (Or.inl h1); exact Or.inr (Or.inr h1)
      · rintro (h1 | h1 | h1); exact Or.inl (Or.inl h1); exact Or.inl (Or.inr h1); exact Or.inr h1

/-- every line written for a visible arg is on the page -/
theorem visible_arg_lines_on_page (c : MCmd) (ls : List Line) (h : manLines c = some ls) (a : MArg) (ha : a ∈ c.args)
    (hv : a.hide = false) :
    ∀ l ∈ (if a.isPositional then positionalLines a else optionLines a), l ∈ ls := by
  intro l hl
  have hany : c.args.any (!·.hide) = true := List.any_eq_true.2 ⟨a, ha, by simp [hv]⟩
  have hsec : l ∈ optionsSection c := by
    unfold optionsSection
    simp only
    have hvis : a ∈ c.args.filter (!·.hide) := List.mem_filter.2 ⟨ha, by simp [hv]⟩
    have hin : ∀ items : List MArg, a ∈ items → l ∈ optionsLines items := by
      intro items hi
      unfold optionsLines
      by_cases hp : a.isPositional = true
      · simp only [hp, ↓reduceIte] at hl
        exact List.mem_append_right _ (List.mem_flatMap.2 ⟨a, List.mem_filter.2 ⟨hi, hp⟩, hl⟩)
      · simp only [hp] at hl
        exact List.mem_append_left _ (List.mem_flatMap.2 ⟨a, List.mem_filter.2 ⟨hi, by simpa using hp⟩, hl⟩)
    cases hh : a.heading with
    | none =>
      apply List.mem_append_left
      have hpl : a ∈ (c.args.filter (!·.hide)).filter (·.heading.isNone) := List.mem_filter.2 ⟨hvis, by simp [hh]⟩
      have hne : ((c.args.filter (!·.hide)).filter (·.heading.isNone)).isEmpty = false := by
        cases hx : (c.args.filter (!·.hide)).filter (·.heading.isNone) with
        | nil => rw [hx] at hpl; simp at hpl
        | cons _ _ => rfl
      simp only [hne, Bool.false_eq_true, ↓reduceIte]
      exact List.mem_cons_of_mem _ (hin _ hpl)
    | some hd =>
      apply List.mem_append_right
      refine List.mem_flatMap.2 ⟨hd, ?_, List.mem_cons_of_mem _ (hin _ (List.mem_filter.2 ⟨hvis, by simp [hh]⟩))⟩
      unfold headings
      rw [mem_headings_fold]
      right
      exact List.mem_filterMap.2 ⟨a, hvis, hh⟩
  unfold manLines at h
  simp only at h
  cases hver : versionSection c with
  | none => simp [hver] at h
  | some ver =>
    simp only [hver, Option.some.injEq, hany, ↓reduceIte] at h
    subst h
    simp only [List.mem_append]
    left; left; left; left; right
    exact hsec

/-- **a visible option is named by its long flag** (in bold, in the header line of its entry) -/
theorem visible_long_named (c : MCmd) (ls : List Line) (h : manLines c = some ls) (a : MArg) (ha : a ∈ c.args)
    (hv : a.hide = false) (l : Bytes) (hl : a.long = some l) :
    ∃ inl, Line.text inl ∈ ls ∧ Inline.bold ([45, 45] ++ l) ∈ inl := by
  have hp : a.isPositional = false := by simp [MArg.isPositional, hl]
  have := visible_arg_lines_on_page c ls h a ha hv
  simp only [hp, Bool.false_eq_true, ↓reduceIte] at this
  unfold optionLines at this
  simp only at this
  refine ⟨_, this _ (List.mem_cons_of_mem _ List.mem_cons_self), ?_⟩
  cases hs : a.short <;> simp [hl]

/-- **a visible option without a long flag is named by its short flag** -/
theorem visible_short_named (c : MCmd) (ls : List Line) (h : manLines c = some ls) (a : MArg) (ha : a ∈ c.args)
    (hv : a.hide = false) (sh : Bytes) (hs : a.short = some sh) :
    ∃ inl, Line.text inl ∈ ls ∧ Inline.bold (45 :: sh) ∈ inl := by
  have hp : a.isPositional = false := by simp [MArg.isPositional, hs]
  have := visible_arg_lines_on_page c ls h a ha hv
  simp only [hp, Bool.false_eq_true, ↓reduceIte] at this
  unfold optionLines at this
  simp only at this
  refine ⟨_, this _ (List.mem_cons_of_mem _ List.mem_cons_self), ?_⟩
  cases hl : a.long <;> simp [hs]

/-- **a visible positional is named by its value names (or its id)** -/
theorem visible_positional_named (c : MCmd) (ls : List Line) (h : manLines c = some ls) (a : MArg) (ha : a ∈ c.args)
    (hv : a.hide = false) (hp : a.isPositional = true) :
    ∃ inl, Line.text inl ∈ ls ∧ Inline.italic (valueLabel a) ∈ inl := by
  have := visible_arg_lines_on_page c ls h a ha hv
  simp only [hp, ↓reduceIte] at this
  unfold positionalLines at this
  simp only at this
  exact ⟨_, this _ (List.mem_cons_of_mem _ List.mem_cons_self), by simp⟩

/-- **a visible subcommand is named** (`<name>-<sub>(<section>)`) -/
theorem visible_sub_named (c : MCmd) (ls : List Line) (h : manLines c = some ls) (s : MSub) (hs : s ∈ c.subs)
    (hv : s.hide = false) :
    Line.text [.roman (dn c ++ [45] ++ s.name ++ [40] ++ c.ovSection.getD [49] ++ [41])] ∈ ls := by
  have hany : c.subs.any (!·.hide) = true := List.any_eq_true.2 ⟨s, hs, by simp [hv]⟩
  unfold manLines at h
  simp only at h
  cases hver : versionSection c with
  | none => simp [hver] at h
  | some ver =>
    simp only [hver, Option.some.injEq, hany, ↓reduceIte] at h
    subst h
    simp only [List.mem_append]
    left; left; left; right
    unfold subcommandsSection
    refine List.mem_cons_of_mem _ (List.mem_flatMap.2 ⟨s, List.mem_filter.2 ⟨hs, by simp [hv]⟩, ?_⟩)
    simp

/-! #### non-vacuity: a page with adversarial text in a text slot -/

def sampleCmd : MCmd := { name := [112], about := some [46, 83, 72, 32, 88, 10, 46, 115, 111] }  -- about = ".SH X\n.so"
example : ∃ ls, manLines sampleCmd = some ls ∧ ccCount true (Roff.render ls) = 2 + requests ls ∧ requests ls = 4 :=
  ⟨_, rfl, by decide +kernel, by decide +kernel⟩

end Clap.C19
