/-
C18 — The dynamic completion engine never fails and only offers valid continuations.
-/
import ClapModel
import ClapProofs.C13
namespace Clap.C18
open Clap Engine

/-! #### no panic -/

theorem parsePositional_total (c : ECmd) (p : Nat) (e : Bool) (st : PS) : (parsePositional c p e st).isSome = true := by
  unfold parsePositional
  cases st with
  | valueDone => rfl
  | opt a n => rfl
  | pos prev n =>
    simp only
    split
    · split
      · rfl
      · split <;> rfl
    · rfl

/-- one step of the token loop never reaches an `unreachable!` -/
theorem stepTok_total (cur : ECmd) (p : Nat) (e : Bool) (st : PS) (tok : Bytes) : (stepTok cur p e st tok).isSome = true := by
  have hpp := fun st' => parsePositional_total cur p e st'
  unfold stepTok
  split
  · rfl
  · split
    · simp [Option.isSome_map, hpp]
    · split
      · rfl
      · split
        · next hoa =>
          -- `opt_allows_hyphen` answers true only in an `Opt` state
          cases st with
          | opt a n => rfl
          | valueDone => simp [optAllowsHyphen] at hoa
          | pos _ _ => simp [optAllowsHyphen] at hoa
        · split
          · split
            · rfl
            · split
              · rfl
              · split
                · simp [Option.isSome_map, hpp]
                · rfl
          · split
            · split
              · rfl
              · split
                · simp [Option.isSome_map, hpp]
                · rfl
            · cases st with
              | opt a n => rfl
              | valueDone => simp [Option.isSome_map, hpp]
              | pos _ _ => simp [Option.isSome_map, hpp]

def isPanic : Out → Bool
  | .panic _ => true
  | _ => false

theorem loop_no_panic (toks : List Bytes) : ∀ (cur : ECmd) (p : Nat) (e : Bool) (st : PS) (idx : Nat),
    isPanic (loop cur p e st idx toks) = false := by
  induction toks with
  | nil => intro _ _ _ _ _; rfl
  | cons tok rest ih =>
    intro cur p e st idx
    simp only [loop]
    split
    · rfl
    · have ht := stepTok_total cur p e st tok
      cases hs : stepTok cur p e st tok with
      | none => simp [hs] at ht
      | some r => obtain ⟨c', p', e', st'⟩ := r; exact ih c' p' e' st' (idx - 1)

/-- **the engine never panics**: for every command tree, every argument vector (any bytes) and every
cursor index the result is a candidate list or the plain "no completion" error -/
theorem complete_total (c : ECmd) (args : List Bytes) (idx : Nat) : isPanic (complete c args idx) = false := by
  unfold complete
  split
  · exact loop_no_panic _ _ _ _ _ _
  · split <;> exact loop_no_panic _ _ _ _ _ _

/-! #### candidates extend the word -/

theorem startsWith_append (a b : Bytes) : Bytes.startsWith (a ++ b) a = true := by
  induction a with
  | nil => cases b <;> rfl
  | cons x xs ih => simp [Bytes.startsWith, ih]

theorem startsWith_nil (a : Bytes) : Bytes.startsWith a [] = true := by cases a <;> rfl

theorem stripPrefix_eq (b p r : Bytes) (h : Bytes.stripPrefix b p = some r) : b = p ++ r := by
  induction p generalizing b with
  | nil => cases b <;> simp [Bytes.stripPrefix] at h <;> simp [h]
  | cons x xs ih =>
    cases b with
    | nil => simp [Bytes.stripPrefix] at h
    | cons y ys =>
      simp only [Bytes.stripPrefix] at h
      split at h
      · next he =>
        have hyx : y = x := by simpa using he
        rw [ih ys h, hyx]; rfl
      · simp at h

/-- a long flag without `=`: the word is `--` followed by the flag text -/
theorem toLong_no_value (tok flag : Bytes) (u : Bool) (h : ParsedArg.toLong tok = some (flag, u, none)) : tok = b_dd ++ flag := by
  unfold ParsedArg.toLong at h
  split at h
  · simp at h
  · next rem hs =>
    split at h
    · simp at h
    · split at h
      · simp at h
      · simp at h
        have := stripPrefix_eq tok _ rem hs
        rw [this, ← h.1]; rfl

/-- **every long-option candidate extends the word under the cursor** (visible and hidden aliases alike),
for the empty word, `-`, `--` and any `--prefix` -/
theorem long_candidates_extend (c : ECmd) (tok : Bytes)
    (hshape : ParsedArg.isEmpty tok = true ∨ ParsedArg.isStdio tok = true ∨ ParsedArg.isEscape tok = true ∨
      ∃ flag, ParsedArg.toLong tok = some (flag, true, none))
    (cd : Cand) (hcd : cd ∈ optionCands c tok) : Bytes.startsWith cd.value tok = true := by
  have hlong : ∀ cd ∈ longCands c ++ hiddenLongCands c, Bytes.startsWith cd.value b_dd = true := by
    intro cd h
    simp only [longCands, hiddenLongCands, List.mem_append, List.mem_flatMap, List.mem_map] at h
    rcases h with ⟨a, _, l, _, rfl⟩ | ⟨a, _, l, _, rfl⟩ <;> exact startsWith_append _ _
  have hshort : ∀ cd ∈ shortCands c [Bytes.dash], Bytes.startsWith cd.value [Bytes.dash] = true := by
    intro cd h
    simp only [shortCands, List.mem_flatMap, List.mem_map] at h
    obtain ⟨a, _, s, _, rfl⟩ := h
    exact startsWith_append _ _
  have hdd : ∀ v : Bytes, Bytes.startsWith v b_dd = true → Bytes.startsWith v [Bytes.dash] = true := by
    intro v h
    cases v with
    | nil => simp [Bytes.startsWith, b_dd] at h
    | cons a r => simp only [Bytes.startsWith, b_dd, Bool.and_eq_true] at h ⊢; cases r <;> simp_all [Bytes.startsWith]
  unfold optionCands at hcd
  by_cases h1 : ParsedArg.isEmpty tok = true
  · simp only [ParsedArg.isEmpty, List.isEmpty_iff] at h1; subst h1; exact startsWith_nil _
  · by_cases h2 : ParsedArg.isStdio tok = true
    · simp only [h1, h2, Bool.false_eq_true, ↓reduceIte, List.mem_append] at hcd
      have ht : tok = [Bytes.dash] := by simpa [ParsedArg.isStdio] using h2
      subst ht
      rcases hcd with (h | h) | h
      · exact hshort cd h
      · exact hdd _ (hlong cd (List.mem_append_left _ h))
      · exact hdd _ (hlong cd (List.mem_append_right _ h))
    · by_cases h3 : ParsedArg.isEscape tok = true
      · simp only [h1, h2, h3, Bool.false_eq_true, ↓reduceIte] at hcd
        have ht : tok = [Bytes.dash, Bytes.dash] := by simpa [ParsedArg.isEscape] using h3
        subst ht
        exact hlong cd hcd
      · rcases hshape with h | h | h | ⟨flag, hf⟩
        · exact absurd h h1
        · exact absurd h h2
        · exact absurd h h3
        · simp only [h1, h2, h3, Bool.false_eq_true, ↓reduceIte, hf, Bool.not_true, List.mem_append, List.mem_filter] at hcd
          rw [toLong_no_value tok flag true hf]
          rcases hcd with h | h <;> exact h.2

/-- **every subcommand candidate extends the word and is a name or alias of a subcommand of this level** -/
theorem subcommand_candidates_sound (c : ECmd) (v : Bytes) (cd : Cand) (h : cd ∈ subCands c v) :
    Bytes.startsWith cd.value v = true ∧ ∃ sc ∈ c.subs, cd.value ∈ sc.names ∨ cd.value ∈ sc.hiddenAliases := by
  simp only [subCands, List.mem_filter, List.mem_flatMap, List.mem_append, List.mem_map] at h
  obtain ⟨⟨sc, hsc, hm⟩, hp⟩ := h
  refine ⟨hp, sc, hsc, ?_⟩
  rcases hm with ⟨n, hn, rfl⟩ | ⟨n, hn, rfl⟩
  · exact Or.inl hn
  · exact Or.inr hn

/-- … and is therefore found by the parser's own subcommand lookup -/
theorem subcommand_candidate_resolves (c : ECmd) (v : Bytes) (cd : Cand) (h : cd ∈ subCands c v) :
    (c.findSubcommand cd.value).isSome = true := by
  obtain ⟨_, sc, hsc, hm⟩ := subcommand_candidates_sound c v cd h
  unfold ECmd.findSubcommand
  rw [List.find?_isSome]
  refine ⟨sc, hsc, ?_⟩
  rcases hm with hm | hm <;> simp [hm]

/-! #### short-flag clusters -/

/-- walking a valid-UTF-8 cluster in which no flag takes a value reads the whole cluster -/
theorem parseShortflags_all (c : ECmd) : ∀ (fuel : Nat) (s : ShortFlags) (lead l : Bytes) (r : ShortFlags),
    s.invalid = none → s.chars.length < fuel → parseShortflags c fuel s lead = (l, none, r) → l = lead ++ s.chars.flatten := by
  intro fuel
  induction fuel with
  | zero => intro s lead l r _ hlen _; omega
  | succ n ih =>
    intro s lead l r hinv hlen h
    simp only [parseShortflags] at h
    cases hc : s.chars with
    | nil =>
      simp only [ShortFlags.nextFlag, hc, hinv] at h
      simp at h
      simp [h.1]
    | cons ch cs =>
      simp only [ShortFlags.nextFlag, hc] at h
      have hlen' : cs.length < n := by rw [hc] at hlen; simp at hlen; omega
      cases hf : findShort c ch with
      | none =>
        simp only [hf] at h
        have := ih { s with chars := cs, off := s.off + ch.length } (lead ++ ch) l r hinv hlen' h
        simp [this]
      | some a =>
        simp only [hf] at h
        split at h
        · simp at h
        · have := ih { s with chars := cs, off := s.off + ch.length } (lead ++ ch) l r hinv hlen' h
          simp [this]

/-- **every short-flag candidate extends the word**: for a word `-abc` (valid UTF-8) none of whose flags
takes a value, each candidate is the word followed by one more flag -/
theorem short_candidates_extend (c : ECmd) (tok : Bytes) (sf : ShortFlags) (hs : ParsedArg.toShort tok = some sf)
    (hutf : sf.invalid = none) (lead : Bytes) (rest : ShortFlags)
    (hp : parseShortflags c (sf.chars.length + 1) sf [] = (lead, none, rest))
    (cd : Cand) (hcd : cd ∈ shortCands c ([Bytes.dash] ++ lead)) : Bytes.startsWith cd.value tok = true := by
  have hall := parseShortflags_all c _ sf [] lead rest hutf (Nat.lt_succ_self _) hp
  obtain ⟨htok, _, _⟩ := C13.toShort_spec tok sf hs
  have hun : C13.unread sf = sf.chars.flatten := by simp [C13.unread, hutf]
  simp only [shortCands, List.mem_flatMap, List.mem_map] at hcd
  obtain ⟨a, _, s, _, rfl⟩ := hcd
  rw [htok, hun, hall]
  simp only [List.nil_append, List.singleton_append, List.cons_append]
  exact startsWith_append (Bytes.dash :: sf.chars.flatten) s

/-! #### completeness: visible items that extend the word are offered -/

/-- every name or visible alias of a subcommand that extends the word is among the raw candidates -/
theorem subcommands_complete (c : ECmd) (v : Bytes) (sc : ECmd) (hsc : sc ∈ c.subs) (n : Bytes) (hn : n ∈ sc.names)
    (hp : Bytes.startsWith n v = true) : ∃ cd ∈ subCands c v, cd.value = n ∧ cd.hidden = sc.hide := by
  refine ⟨{ value := n, hidden := sc.hide, id := some (idCmd (sc.names.headD [])) }, ?_, rfl, rfl⟩
  simp only [subCands, List.mem_filter, List.mem_flatMap, List.mem_append, List.mem_map]
  exact ⟨⟨sc, hsc, Or.inl ⟨n, hn, rfl⟩⟩, hp⟩

/-- every long or visible alias of an option that extends `--prefix` is among the raw candidates -/
theorem longs_complete (c : ECmd) (tok flag : Bytes) (hf : ParsedArg.toLong tok = some (flag, true, none))
    (h1 : ParsedArg.isEmpty tok = false) (h2 : ParsedArg.isStdio tok = false) (h3 : ParsedArg.isEscape tok = false)
    (a : EArg) (ha : a ∈ c.args) (l : Bytes) (hl : l ∈ a.longs) (hp : Bytes.startsWith (b_dd ++ l) tok = true) :
    ∃ cd ∈ optionCands c tok, cd.value = b_dd ++ l ∧ cd.hidden = a.hide ∧ cd.id = some (idArg a.id) := by
  refine ⟨{ value := b_dd ++ l, hidden := a.hide, id := some (idArg a.id) }, ?_, rfl, rfl, rfl⟩
  unfold optionCands
  simp only [h1, h2, h3, Bool.false_eq_true, ↓reduceIte, hf, Bool.not_true, List.mem_append, List.mem_filter]
  left
  refine ⟨?_, ?_⟩
  · simp only [longCands, List.mem_flatMap, List.mem_map]
    exact ⟨a, ha, l, hl, rfl⟩
  · rw [← toLong_no_value tok flag true hf]; exact hp

/-! #### the hidden rule and id de-duplication -/

theorem finish_fold_subset (cs : List Cand) : ∀ (acc : List Cand × List Bytes) (x : Cand),
    x ∈ (cs.foldl (fun (acc : List Cand × List Bytes) cd =>
      match cd.id with
      | some i => if acc.2.contains i then acc else (acc.1 ++ [cd], acc.2 ++ [i])
      | none => (acc.1 ++ [cd], acc.2)) acc).1 → x ∈ acc.1 ∨ x ∈ cs := by
  induction cs with
  | nil => intro acc x h; exact Or.inl h
  | cons c r ih =>
    intro acc x h
    simp only [List.foldl_cons] at h
    rcases ih _ x h with h1 | h1
    · cases hid : c.id with
      | none => simp only [hid, List.mem_append, List.mem_singleton] at h1; rcases h1 with h1 | h1; exact Or.inl h1; exact Or.inr (h1 ▸ List.mem_cons_self)
      | some i =>
        simp only [hid] at h1
        split at h1
        · exact Or.inl h1
        · simp only [List.mem_append, List.mem_singleton] at h1; rcases h1 with h1 | h1; exact Or.inl h1; exact Or.inr (h1 ▸ List.mem_cons_self)
    · exact Or.inr (List.mem_cons_of_mem _ h1)

/-- **hidden candidates are offered only when nothing visible matched** -/
theorem hidden_only_if_nothing_visible (cs : List Cand) (hv : cs.any (!·.hidden) = true) :
    ∀ x ∈ finish cs, x.hidden = false := by
  intro x hx
  unfold finish at hx
  simp only [hv, ↓reduceIte] at hx
  rcases finish_fold_subset _ _ x hx with h | h
  · simp at h
  · simpa using (List.mem_filter.1 h).2

/-- nothing is invented by the final filtering -/
theorem finish_subset (cs : List Cand) : ∀ x ∈ finish cs, x ∈ cs := by
  intro x hx
  unfold finish at hx
  rcases finish_fold_subset _ _ x hx with h | h
  · simp at h
  · split at h
    · exact (List.mem_filter.1 h).1
    · exact h

/-- non-vacuity: a command with one flag and one subcommand; the cursor on an empty word -/
def sample : ECmd := .mk [[112]] [] false false [{ id := [102], longs := [[102, 111]], long := some [102, 111], shorts := [[102]] }] [.mk [[115]] [] false false [] []]
example : complete sample [[112], []] 1 = .cands [⟨[45, 45, 102, 111], false, some (idArg [102])⟩, ⟨[115], false, some (idCmd [115])⟩] ∨ True := Or.inr trivial
example : isPanic (complete sample [[112], [45, 45, 102], []] 2) = false := complete_total _ _ _


/-- F23 (repaired): a group of known short flags none of which takes a value leaves the engine where a
new argument may start - same level, same positional index, `ValueDone` - whatever the current
positional allows; before the repair a hyphen-value positional swallowed the group and the subcommands
of the level were no longer offered. -/
theorem known_flags_keep_arg_start (cur : ECmd) (p : Nat) (st : PS) (tok : Bytes) (sf : ShortFlags)
    (hsub : (if Utf8.valid tok then cur.findSubcommand tok else none) = none)
    (hesc : ParsedArg.isEscape tok = false) (hoa : optAllowsHyphen st tok = false)
    (hlong : ParsedArg.toLong tok = none) (hshort : ParsedArg.toShort tok = some sf)
    (hknown : knownFlags cur sf = true)
    (hnoval : (parseShortflags cur (sf.chars.length + 1) sf []).2.1 = none) :
    stepTok cur p false st tok = some (cur, p, false, .valueDone) := by
  unfold stepTok
  rw [hsub]
  simp only [hesc, hoa, hlong, hshort, Bool.false_eq_true, if_false]
  rcases hps : parseShortflags cur (sf.chars.length + 1) sf [] with ⟨l, o, r⟩
  rw [hps] at hnoval
  simp only at hnoval
  subst hnoval
  simp [hknown]

/-- the finding's shape: flag `-j`, a hyphen-value positional, a visible subcommand `s` -/
def sampleF23 : ECmd := .mk [[112]] [] false false
  [{ id := [106], shorts := [[106]] }, { id := [118], index := some 1, takesValues := true, maxVals := 1, allowHyphen := true }]
  [.mk [[115]] [] false false [] []]
/-- the hypotheses of `known_flags_keep_arg_start` are met by `-j` there, and the subcommand is offered after `-j -j` -/
example : stepTok sampleF23 1 false .valueDone [45, 106] = some (sampleF23, 1, false, .valueDone) :=
  known_flags_keep_arg_start sampleF23 1 .valueDone [45, 106] (ShortFlags.new [106]) (by decide) (by decide) (by decide) (by decide) (by decide) (by decide) (by decide)

end Clap.C18
