/-
C01 — the token loop of `Parser::parse` never panics (the staged "full token-loop invariant").
-/
import ClapProofs.C01
namespace Clap.C01
open Clap Parser

/-! #### `flag_subcmd_skip` is only touched by `parse_short_arg` -/

theorem pushArgValues_fss (a : Arg) : ∀ (vals : List Bytes) (p : P), (pushArgValues a vals p).1.flagSubSkip = p.flagSubSkip
  | [], p => by simp [pushArgValues]
  | raw :: rest, p => by
    unfold pushArgValues
    simp only
    split
    · rfl
    · split
      · rfl
      · rw [pushArgValues_fss a rest]

theorem startCustomArg_fss (c : Cmd) (a : Arg) (s : Source) (p : P) : (startCustomArg c a s p).1.flagSubSkip = p.flagSubSkip := by
  unfold startCustomArg
  simp only
  split
  · rfl
  · split <;> split <;> rfl

theorem reactFinish_fss (c : Cmd) (a : Arg) (s : Source) (p : P) (vs : List Bytes) :
    (reactFinish c a s p vs).1.flagSubSkip = p.flagSubSkip := by
  unfold reactFinish
  have h1 := startCustomArg_fss c a s p
  cases hs : startCustomArg c a s p with
  | mk p1 r =>
    rw [hs] at h1
    cases r with
    | error e => exact h1
    | ok u =>
      simp only
      have h2 := pushArgValues_fss a vs p1
      cases hp : pushArgValues a vs p1 with
      | mk p2 r2 =>
        rw [hp] at h2
        cases r2 <;> simp only <;> rw [h2, h1]

theorem reactCore_fss (c : Cmd) (ident : Option Ident) (source : Source) (a : Arg) (vals : List Bytes)
    (t : Option Nat) (p : P) : (reactCore c ident source a vals t p).1.flagSubSkip = p.flagSubSkip := by
  have rep : ∀ p vs, (reactReplace c a source p vs).1.flagSubSkip = p.flagSubSkip := by
    intro p vs
    unfold reactReplace
    simp only
    split
    · rfl
    · rw [reactFinish_fss]
  have bump : ∀ p, (bumpIdx source ident p).flagSubSkip = p.flagSubSkip := by
    intro p; unfold bumpIdx; split <;> rfl
  unfold reactCore
  split
  · rfl
  · simp only
    split
    · rw [rep, bump]
    · rw [reactFinish_fss, bump]
    · rw [rep]
    · rw [rep]
    · rw [reactFinish_fss]
    all_goals rfl

theorem resolvePending_fss (c : Cmd) (p : P) : (resolvePending c p).1.flagSubSkip = p.flagSubSkip := by
  unfold resolvePending
  split
  · rfl
  · simp only
    split
    · rfl
    · next a _ =>
      simp only
      rw [reactCore_fss]

theorem react_fss (c : Cmd) (ident : Option Ident) (source : Source) (a : Arg) (vals : List Bytes)
    (t : Option Nat) (p : P) : (react c ident source a vals t p).1.flagSubSkip = p.flagSubSkip := by
  unfold react
  have h := resolvePending_fss c p
  cases hr : resolvePending c p with
  | mk p1 r =>
    rw [hr] at h
    cases r with
    | error e => exact h
    | ok u => simp only; rw [reactCore_fss, h]

/-- after `react` nothing is pending -/
theorem react_pending (c : Cmd) (ident : Option Ident) (source : Source) (a : Arg) (vals : List Bytes)
    (t : Option Nat) (p : P) (hp : PendingOk c p) : (react c ident source a vals t p).1.pending = none := by
  unfold react
  obtain ⟨h, _⟩ := resolvePending_spec c p hp
  cases hr : resolvePending c p with
  | mk p1 r =>
    rw [hr] at h
    cases r with
    | error e => exact h
    | ok u => simp only; rw [reactCore_pending]; exact h

/-! #### the invariant of the token loop -/

/-- what clap's own `debug_assert`s demand of a command level: unique arg ids, and a positional has no long name or alias -/
structure WF (c : Cmd) : Prop where
  nodup : (c.args.map (·.id)).Nodup
  posNoLong : ∀ a ∈ c.args, a.index.isSome = true → a.long = none ∧ a.aliases = []

theorem find_of_mem_aux : ∀ (l : List Arg) (a : Arg), (l.map (·.id)).Nodup → a ∈ l → l.find? (fun x => x.id == a.id) = some a
  | [], a, _, h => by simp at h
  | x :: xs, a, hnd, h => by
    simp only [List.map_cons, List.nodup_cons] at hnd
    rcases List.mem_cons.1 h with rfl | h'
    · simp
    · have hne : (x.id == a.id) = false := by
        apply Bool.eq_false_iff.2
        intro heq
        have : x.id = a.id := by simpa using heq
        exact hnd.1 (this ▸ List.mem_map_of_mem h')
      rw [List.find?_cons, hne]
      exact find_of_mem_aux xs a hnd.2 h'

theorem find_of_mem {c : Cmd} (wf : WF c) {a : Arg} (h : a ∈ c.args) : c.find a.id = some a :=
  find_of_mem_aux c.args a wf.nodup h

theorem getKey_mem {c : Cmd} {k : Key} {a : Arg} (h : c.getKey k = some a) : a ∈ c.args ∧ k ∈ a.keys := by
  unfold Cmd.getKey at h
  have h1 := List.mem_of_find?_eq_some h
  have h2 := List.find?_some h
  exact ⟨h1, by simpa using h2⟩

theorem keys_long_index {a : Arg} {l : Bytes} (h : Key.long l ∈ a.keys) : a.index = none := by
  unfold Arg.keys at h
  split at h
  · simp at h
  · assumption

theorem keys_short_index {a : Arg} {l : Bytes} (h : Key.short l ∈ a.keys) : a.index = none := by
  unfold Arg.keys at h
  split at h
  · simp at h
  · assumption

theorem keys_pos_index {a : Arg} {n : Nat} (h : Key.pos n ∈ a.keys) : a.index = some n := by
  unfold Arg.keys at h
  split at h
  · next i hi => simp at h; rw [hi, h]
  · simp at h

/-- the loop's state: no flag-subcommand revisit is in progress at this level, and the pending arg is an arg of
the command, positional exactly when it was started by index -/
def PendInv (c : Cmd) (p : P) : Prop :=
  ∀ pd, p.pending = some pd → ∃ a, c.find pd.id = some a ∧ (pd.ident = some .index ∨ a.index = none)

def PInv (c : Cmd) (p : P) : Prop := p.flagSubSkip = 0 ∧ PendInv c p

theorem PInv.pendingOk {c : Cmd} {p : P} (h : PInv c p) : PendingOk c p := by
  intro pd hpd
  obtain ⟨a, ha, _⟩ := h.2 pd hpd
  simp [ha]

theorem PInv.of_none {c : Cmd} {p : P} (h0 : p.flagSubSkip = 0) (hn : p.pending = none) : PInv c p :=
  ⟨h0, by intro pd h; rw [hn] at h; cases h⟩

theorem PInv.react {c : Cmd} {p : P} (h : PInv c p) (ident : Option Ident) (source : Source) (a : Arg)
    (vals : List Bytes) (t : Option Nat) : PInv c (react c ident source a vals t p).1 :=
  PInv.of_none (by rw [react_fss]; exact h.1) (react_pending _ _ _ _ _ _ _ h.pendingOk)

theorem PInv.resolve {c : Cmd} {p : P} (h : PInv c p) : PInv c (resolvePending c p).1 :=
  PInv.of_none (by rw [resolvePending_fss]; exact h.1) (resolvePending_spec c p h.pendingOk).1

/-- `parse_opt_value` keeps the invariant; when it answers `Opt(id)` that id is the arg's and the arg is pending -/
theorem parseOptValue_inv (c : Cmd) (ident : Ident) (attached : Option Bytes) (a : Arg) (hasEq : Bool) (p : P)
    (hp : PInv c p) (hfind : c.find a.id = some a) (hidx : a.index = none) :
    PInv c (parseOptValue c ident attached a hasEq p).1 ∧
    ∀ id, (parseOptValue c ident attached a hasEq p).2 = .ok (.opt id) →
      id = a.id ∧ ∃ pd, (parseOptValue c ident attached a hasEq p).1.pending = some pd ∧ pd.id = a.id := by
  unfold parseOptValue
  split
  · split
    · have h1 := hp.react (some ident) .cmdline a [] none
      cases hr : Parser.react c (some ident) .cmdline a [] none p with
      | mk p1 r =>
        rw [hr] at h1
        cases r with
        | error e => exact ⟨h1, by intro id h; simp at h⟩
        | ok r' =>
          simp only
          split
          · exact ⟨h1, by intro id h; simp at h⟩
          · refine ⟨h1, ?_⟩
            intro id h
            split at h <;> simp at h
    · exact ⟨hp, by intro id h; simp at h⟩
  · split
    · next v =>
      have h1 := hp.react (some ident) .cmdline a [v] none
      cases hr : Parser.react c (some ident) .cmdline a [v] none p with
      | mk p1 r =>
        rw [hr] at h1
        cases r with
        | error e => exact ⟨h1, by intro id h; simp at h⟩
        | ok r' =>
          simp only
          split
          · exact ⟨h1, by intro id h; simp at h⟩
          · exact ⟨h1, by intro id h; simp at h⟩
    · have h1 := hp.resolve
      cases hr : resolvePending c p with
      | mk p1 r =>
        rw [hr] at h1
        cases r with
        | error e => exact ⟨h1, by intro id h; simp at h⟩
        | ok u =>
          simp only
          have hn : p1.pending = none := by
            have := (resolvePending_spec c p hp.pendingOk).1
            rw [hr] at this; exact this
          unfold pendingPush
          simp only [hn, Option.getD_none, bne_self_eq_false, Bool.false_eq_true, ↓reduceIte, Option.isSome_some,
            Bool.true_and]
          refine ⟨⟨h1.1, ?_⟩, ?_⟩
          · intro pd hpd
            simp at hpd
            subst hpd
            exact ⟨a, hfind, Or.inr hidx⟩
          · intro id h
            simp at h
            exact ⟨h.symm, _, rfl, rfl⟩

/-- the answers `parse_opt_value` can give, and that nothing is pending after the ones that stored values -/
theorem parseOptValue_shape (c : Cmd) (ident : Ident) (attached : Option Bytes) (a : Arg) (hasEq : Bool) (p : P)
    (hp : PendingOk c p) :
    ∀ r, (parseOptValue c ident attached a hasEq p).2 = .ok r →
      r = .opt a.id ∨ r = .equalsNotProvided ∨
      ((r = .valuesDone ∨ r = .attachedValueNotConsumed) ∧ (parseOptValue c ident attached a hasEq p).1.pending = none) := by
  unfold parseOptValue
  split
  · split
    · have h1 := react_pending c (some ident) .cmdline a [] none p hp
      cases hr : Parser.react c (some ident) .cmdline a [] none p with
      | mk p1 r =>
        rw [hr] at h1
        cases r with
        | error e => intro r h; simp at h
        | ok r' =>
          simp only
          split
          · intro r h; simp at h
          · intro r h
            right; right
            refine ⟨?_, h1⟩
            split at h <;> simp at h <;> simp [← h]
    · intro r h; simp at h; right; left; exact h.symm
  · split
    · next v =>
      have h1 := react_pending c (some ident) .cmdline a [v] none p hp
      cases hr : Parser.react c (some ident) .cmdline a [v] none p with
      | mk p1 r =>
        rw [hr] at h1
        cases r with
        | error e => intro r h; simp at h
        | ok r' =>
          simp only
          split
          · intro r h; simp at h
          · intro r h; simp at h; right; right; exact ⟨Or.inl h.symm, h1⟩
    · cases hr : resolvePending c p with
      | mk p1 r =>
        cases r with
        | error e => intro r h; simp at h
        | ok u =>
          simp only
          have hn : p1.pending = none := by
            have := (resolvePending_spec c p hp).1
            rw [hr] at this; exact this
          unfold pendingPush
          simp only [hn, Option.getD_none, bne_self_eq_false, Bool.false_eq_true, ↓reduceIte, Option.isSome_some,
            Bool.true_and]
          intro r h
          simp at h
          left; exact h.symm

theorem findLong_spec {c : Cmd} (wf : WF c) {l : Bytes} {a : Arg} (h : findLong c l = some a) :
    c.find a.id = some a ∧ a.index = none := by
  unfold findLong at h
  split at h
  · next a' hg =>
    simp at h; subst h
    obtain ⟨hm, hk⟩ := getKey_mem hg
    exact ⟨find_of_mem wf hm, keys_long_index hk⟩
  · split at h
    · split at h
      · next a' hf =>
        simp at h; subst h
        have hm : a' ∈ c.args.filter fun a => prefixMatches a l := by rw [hf]; simp
        obtain ⟨hm1, hm2⟩ := List.mem_filter.1 hm
        refine ⟨find_of_mem wf hm1, ?_⟩
        cases hi : a'.index with
        | none => rfl
        | some i =>
          obtain ⟨h1, h2⟩ := wf.posNoLong a' hm1 (by simp [hi])
          simp [prefixMatches, h1, h2] at hm2
      · simp at h
    · simp at h

theorem toLong_nonempty {b l : Bytes} {u : Bool} {v : Option Bytes} (h : ParsedArg.toLong b = some (l, u, v)) :
    (l.isEmpty && v.isNone) = false := by
  unfold ParsedArg.toLong at h
  split at h
  · simp at h
  · split at h
    · simp at h
    · next rem _ hne =>
      split at h
      · simp at h; obtain ⟨_, _, rfl⟩ := h; simp
      · simp at h; obtain ⟨rfl, _, rfl⟩ := h; simpa using hne

/-- what a result handed back to the token loop must satisfy for the loop's own `expect`s and `unreachable!`s to be dead -/
def ResOk (c : Cmd) (p : P) (r : ParseResult) : Prop :=
  r ≠ .attachedValueNotConsumed ∧
  ∀ id, r = .opt id → (∃ a, c.find id = some a ∧ a.index = none) ∧ ∃ pd, p.pending = some pd ∧ pd.id = id

/-- **`parse_long_arg`**: keeps the invariant, never panics, never answers `NoArg` or `AttachedValueNotConsumed` -/
theorem parseLongArg_spec (c : Cmd) (wf : WF c) (longArg : Bytes) (u : Bool) (longValue : Option Bytes) (st : ParseState)
    (pc : Nat) (vaf : Bool) (p : P) (hp : PInv c p) (hst : stateArg c st ≠ none)
    (hne : (longArg.isEmpty && longValue.isNone) = false) :
    PInv c (parseLongArg c longArg u longValue st pc vaf p).1 ∧
    (∀ e, (parseLongArg c longArg u longValue st pc vaf p).2 = .error e → isPanic e = false) ∧
    (∀ r v, (parseLongArg c longArg u longValue st pc vaf p).2 = .ok (r, v) →
      r ≠ .noArg ∧ ResOk c (parseLongArg c longArg u longValue st pc vaf p).1 r) := by
  unfold parseLongArg
  split
  · next h => exact absurd h hst
  · split
    · exact ⟨hp, by simp, by intro r v h; simp at h; obtain ⟨rfl, _⟩ := h; exact ⟨by simp, by simp, by simp⟩⟩
    · split
      · exact ⟨hp, by simp, by intro r v h; simp at h; obtain ⟨rfl, _⟩ := h; exact ⟨by simp, by simp, by simp⟩⟩
      · simp only [hne, Bool.false_eq_true, ↓reduceIte]
        split
        · next a hf =>
          obtain ⟨hfind, hidx⟩ := findLong_spec wf hf
          split
          · obtain ⟨hnp, hnot, hnoarg, _⟩ := parseOptValue_spec c .long longValue a longValue.isSome p hp.pendingOk
            obtain ⟨hinv, hopt⟩ := parseOptValue_inv c .long longValue a longValue.isSome p hp hfind hidx
            cases hr : parseOptValue c .long longValue a longValue.isSome p with
            | mk p1 r =>
              rw [hr] at hnp hnot hnoarg hinv hopt
              cases r with
              | error e => exact ⟨hinv, by intro e' h; simp at h; subst h; exact hnp e rfl, by simp⟩
              | ok r' =>
                refine ⟨hinv, by simp, ?_⟩
                intro r v h
                simp at h
                obtain ⟨rfl, _⟩ := h
                refine ⟨by intro h; exact hnoarg (by rw [h]), by intro h; exact hnot rfl (by rw [h]), ?_⟩
                intro id hid
                obtain ⟨h1, h2⟩ := hopt id (by rw [hid])
                subst h1
                exact ⟨⟨a, hfind, hidx⟩, h2⟩
          · split
            · exact ⟨hp, by simp, by intro r v h; simp at h; obtain ⟨rfl, _⟩ := h; exact ⟨by simp, by simp, by simp⟩⟩
            · have h1 := hp.react (some .long) .cmdline a [] none
              have hnp := react_no_panic c (some .long) .cmdline a [] none p hp.pendingOk
              have hres := react_result c (some .long) .cmdline a [] none p
              cases hr : Parser.react c (some .long) .cmdline a [] none p with
              | mk p1 r =>
                rw [hr] at h1 hnp hres
                cases r with
                | error e => exact ⟨h1, by intro e' h; simp at h; subst h; exact hnp e rfl, by simp⟩
                | ok r' =>
                  have := hres r' rfl
                  subst this
                  exact ⟨h1, by simp, by intro r v h; simp at h; obtain ⟨rfl, _⟩ := h; exact ⟨by simp, by simp, by simp⟩⟩
        · split
          · exact ⟨hp, by simp, by intro r v h; simp at h; obtain ⟨rfl, _⟩ := h; exact ⟨by simp, by simp, by simp⟩⟩
          · split
            · exact ⟨hp, by simp, by intro r v h; simp at h; obtain ⟨rfl, _⟩ := h; exact ⟨by simp, by simp, by simp⟩⟩
            · exact ⟨hp, by simp, by intro r v h; simp at h; obtain ⟨rfl, _⟩ := h; exact ⟨by simp, by simp, by simp⟩⟩

theorem getShort_spec {c : Cmd} (wf : WF c) {ch : Bytes} {a : Arg} (h : c.getShort ch = some a) :
    c.find a.id = some a ∧ a.index = none := by
  obtain ⟨hm, hk⟩ := getKey_mem h
  exact ⟨find_of_mem wf hm, keys_short_index hk⟩

/-- **the flag loop of `parse_short_arg`**: keeps the invariant, never panics, and what it hands back is never
`UnneededAttachedValue` or `AttachedValueNotConsumed` -/
theorem shortLoop_spec (c : Cmd) (wf : WF c) : ∀ (fuel : Nat) (sf : ShortFlags) (consumed : Nat) (ret : ParseResult)
    (vaf : Bool) (p : P), PInv c p → (ret = .noArg ∨ ret = .valuesDone) →
    PInv c (shortLoop c sf fuel consumed ret vaf p).1 ∧
    (∀ e, (shortLoop c sf fuel consumed ret vaf p).2 = .error e → isPanic e = false) ∧
    (∀ r v, (shortLoop c sf fuel consumed ret vaf p).2 = .ok (r, v) →
      r ≠ .unneededAttachedValue ∧ ResOk c (shortLoop c sf fuel consumed ret vaf p).1 r) := by
  intro fuel
  induction fuel with
  | zero =>
    intro sf consumed ret vaf p hp hret
    unfold shortLoop
    refine ⟨hp, by simp, ?_⟩
    intro r v h
    simp at h
    obtain ⟨rfl, _⟩ := h
    rcases hret with rfl | rfl <;> exact ⟨by simp, by simp, by simp⟩
  | succ fuel ih =>
    intro sf consumed ret vaf p hp hret
    have lit : ∀ (r0 : ParseResult) (v0 : Bool), (r0 = .noArg ∨ r0 = .valuesDone ∨ r0 = .noMatchingArg) →
        PInv c ((p, (Except.ok (r0, v0) : Except EK (ParseResult × Bool))) : R (ParseResult × Bool)).1 ∧
        (∀ e, ((p, (Except.ok (r0, v0) : Except EK (ParseResult × Bool))) : R (ParseResult × Bool)).2 = .error e → isPanic e = false) ∧
        (∀ r v, ((p, (Except.ok (r0, v0) : Except EK (ParseResult × Bool))) : R (ParseResult × Bool)).2 = .ok (r, v) →
          r ≠ .unneededAttachedValue ∧ ResOk c p r) := by
      intro r0 v0 h0
      refine ⟨hp, by simp, ?_⟩
      intro r v h
      simp at h
      obtain ⟨rfl, _⟩ := h
      rcases h0 with rfl | rfl | rfl <;> exact ⟨by simp, by simp, by simp⟩
    unfold shortLoop
    simp only
    split
    · exact lit ret vaf (by rcases hret with h | h <;> simp [h])
    · exact lit .noMatchingArg vaf (by simp)
    · next sf1 ch _ =>
      split
      · next a hg =>
        obtain ⟨hfind, hidx⟩ := getShort_spec wf hg
        split
        · have h1 := hp.react (some .short) .cmdline a [] none
          have hnp := react_no_panic c (some .short) .cmdline a [] none p hp.pendingOk
          have hres := react_result c (some .short) .cmdline a [] none p
          cases hr : Parser.react c (some .short) .cmdline a [] none p with
          | mk p1 r =>
            rw [hr] at h1 hnp hres
            cases r with
            | error e => exact ⟨h1, by intro e' h; simp at h; subst h; exact hnp e rfl, by simp⟩
            | ok r' =>
              have := hres r' rfl
              subst this
              exact ih sf1 (consumed + 1) .valuesDone true p1 h1 (Or.inr rfl)
        · generalize shortAttached sf1 = vh
          obtain ⟨val, hasEq⟩ := vh
          simp only
          obtain ⟨hnp, _, hnoarg, hunn⟩ := parseOptValue_spec c .short val a hasEq p hp.pendingOk
          obtain ⟨hinv, hopt⟩ := parseOptValue_inv c .short val a hasEq p hp hfind hidx
          cases hr : parseOptValue c .short val a hasEq p with
          | mk p1 r =>
            rw [hr] at hnp hnoarg hunn hinv hopt
            cases r with
            | error e => exact ⟨hinv, by intro e' h; simp at h; subst h; exact hnp e rfl, by simp⟩
            | ok r' =>
              cases r' with
              | attachedValueNotConsumed => exact ih sf1 (consumed + 1) ret true p1 hinv hret
              | _ =>
                refine ⟨hinv, by simp, ?_⟩
                intro r v h
                simp at h
                obtain ⟨rfl, _⟩ := h
                refine ⟨(by intro h; first | exact hunn rfl | cases h), (by simp), ?_⟩
                intro id hid
                first
                | (injection hid with hid'; subst hid'; obtain ⟨h1, h2⟩ := hopt _ rfl; subst h1; exact ⟨⟨a, hfind, hidx⟩, h2⟩)
                | cases hid
      · split
        · next name _ =>
          have h1 := hp.resolve
          obtain ⟨hnone, hnp⟩ := resolvePending_spec c p hp.pendingOk
          cases hr : resolvePending c p with
          | mk p1 r =>
            rw [hr] at h1 hnone hnp
            cases r with
            | error e => exact ⟨h1, by intro e' h; simp at h; subst h; exact hnp e rfl, by simp⟩
            | ok u =>
              simp only
              refine ⟨PInv.of_none h1.1 hnone, by simp, ?_⟩
              intro r v h
              simp at h
              obtain ⟨rfl, _⟩ := h
              exact ⟨by simp, by simp, by simp⟩
        · exact lit .noMatchingArg vaf (by simp)

theorem advanceBy_spec : ∀ (n i : Nat) (sf : ShortFlags), n ≤ sf.chars.length →
    ∃ sf1, ShortFlags.advanceBy n i sf = (sf1, none) ∧ n + sf1.chars.length = sf.chars.length
  | 0, i, sf, _ => ⟨sf, rfl, by simp⟩
  | n+1, i, sf, h => by
    cases hc : sf.chars with
    | nil => rw [hc] at h; simp at h
    | cons ch cs =>
      have hnf : sf.nextFlag = ({ sf with chars := cs, off := sf.off + ch.length }, .ch ch) := by
        unfold ShortFlags.nextFlag; rw [hc]
      obtain ⟨sf1, h1, h2⟩ := advanceBy_spec n (i+1) { sf with chars := cs, off := sf.off + ch.length }
        (by rw [hc] at h; simpa using h)
      refine ⟨sf1, ?_, ?_⟩
      · unfold ShortFlags.advanceBy; rw [hnf]; exact h1
      · simp at h2 ⊢; omega

/-- **`parse_short_arg`**, also when it revisits a cluster after a flag subcommand (`flag_subcmd_skip` within the
cluster): afterwards no revisit is in progress, the invariant holds, it never panics, and it never answers
`UnneededAttachedValue` or `AttachedValueNotConsumed` -/
theorem parseShortArg_spec (c : Cmd) (wf : WF c) (sf : ShortFlags) (st : ParseState) (pc : Nat) (vaf : Bool) (p : P)
    (hpend : PendInv c p) (hf : p.flagSubSkip ≤ sf.chars.length) (hst : stateArg c st ≠ none) :
    PInv c (parseShortArg c sf st pc vaf p).1 ∧
    (∀ e, (parseShortArg c sf st pc vaf p).2 = .error e → isPanic e = false) ∧
    (∀ r v, (parseShortArg c sf st pc vaf p).2 = .ok (r, v) →
      r ≠ .unneededAttachedValue ∧ ResOk c (parseShortArg c sf st pc vaf p).1 r) := by
  have lit : ∀ (v0 : Bool), p.flagSubSkip = 0 →
      PInv c ((p, (Except.ok (.maybeHyphenValue, v0) : Except EK (ParseResult × Bool))) : R (ParseResult × Bool)).1 ∧
      (∀ e, ((p, (Except.ok (.maybeHyphenValue, v0) : Except EK (ParseResult × Bool))) : R (ParseResult × Bool)).2 = .error e → isPanic e = false) ∧
      (∀ r v, ((p, (Except.ok (.maybeHyphenValue, v0) : Except EK (ParseResult × Bool))) : R (ParseResult × Bool)).2 = .ok (r, v) →
        r ≠ .unneededAttachedValue ∧ ResOk c p r) := by
    intro v0 h0
    refine ⟨⟨h0, hpend⟩, by simp, ?_⟩
    intro r v h
    simp at h
    obtain ⟨rfl, _⟩ := h
    exact ⟨by simp, by simp, by simp⟩
  unfold parseShortArg
  split
  · next h => exact absurd h hst
  · simp only
    split
    · next hc => exact lit vaf (by simp at hc; exact hc.1)
    · split
      · next hc => exact lit vaf (by simp at hc; exact hc.1.1)
      · split
        · next hc => exact lit vaf (by simp at hc; exact hc.1.1)
        · obtain ⟨sf1, hadv, _⟩ := advanceBy_spec p.flagSubSkip 0 sf hf
          rw [hadv]
          simp only
          have hp0 : PInv c { p with flagSubSkip := 0 } := ⟨rfl, hpend⟩
          exact shortLoop_spec c wf _ sf1 _ .noArg vaf _ hp0 (Or.inl rfl)

theorem PendingOk.of_none {c : Cmd} {p : P} (h : p.pending = none) : PendingOk c p := by
  intro pd hpd; rw [h] at hpd; cases hpd

/-- when `parse_long_arg` answers `MaybeHyphenValue` (or `NoArg`) it has not touched the state -/
theorem parseLongArg_keep (c : Cmd) (longArg : Bytes) (u : Bool) (longValue : Option Bytes) (st : ParseState)
    (pc : Nat) (vaf : Bool) (p : P) (hp : PendingOk c p) :
    ∀ r v, (parseLongArg c longArg u longValue st pc vaf p).2 = .ok (r, v) → (r = .noArg ∨ r = .maybeHyphenValue) →
      (parseLongArg c longArg u longValue st pc vaf p).1 = p := by
  unfold parseLongArg
  split
  · intro r v h; simp at h
  · split
    · intro _ _ _ _; rfl
    · split
      · intro _ _ _ _; rfl
      · split
        · intro r v h; simp at h
        · split
          · next a hf =>
            split
            · have hsh := parseOptValue_shape c .long longValue a longValue.isSome p hp
              cases hr : parseOptValue c .long longValue a longValue.isSome p with
              | mk p1 r1 =>
                rw [hr] at hsh
                cases r1 with
                | error e => intro r v h; simp at h
                | ok r' =>
                  intro r v h hr2
                  simp at h
                  obtain ⟨rfl, _⟩ := h
                  rcases hsh r' rfl with h1 | h1 | ⟨h1 | h1, _⟩ <;> rcases hr2 with h2 | h2 <;> rw [h1] at h2 <;> cases h2
            · split
              · intro r v h hr2; simp at h; obtain ⟨rfl, _⟩ := h; rcases hr2 with h2 | h2 <;> cases h2
              · have hres := react_result c (some .long) .cmdline a [] none p
                cases hr : Parser.react c (some .long) .cmdline a [] none p with
                | mk p1 r1 =>
                  rw [hr] at hres
                  cases r1 with
                  | error e => intro r v h; simp at h
                  | ok r' =>
                    have := hres r' rfl
                    subst this
                    intro r v h hr2; simp at h; obtain ⟨rfl, _⟩ := h; rcases hr2 with h2 | h2 <;> cases h2
          · split
            · intro _ _ _ _; rfl
            · split <;> intro _ _ _ _ <;> rfl

/-- when the flag loop answers `NoArg` (or `MaybeHyphenValue`) whatever is still pending was pending before -/
theorem shortLoop_keep (c : Cmd) : ∀ (fuel : Nat) (sf : ShortFlags) (consumed : Nat) (ret : ParseResult)
    (vaf : Bool) (p : P), PendingOk c p →
    ∀ r v, (shortLoop c sf fuel consumed ret vaf p).2 = .ok (r, v) → (r = .noArg ∨ r = .maybeHyphenValue) →
      (shortLoop c sf fuel consumed ret vaf p).1.pending = none ∨ (shortLoop c sf fuel consumed ret vaf p).1.pending = p.pending := by
  intro fuel
  induction fuel with
  | zero => intro sf consumed ret vaf p _ r v _ _; unfold shortLoop; exact Or.inr rfl
  | succ fuel ih =>
    intro sf consumed ret vaf p hp
    unfold shortLoop
    simp only
    split
    · intro _ _ _ _; exact Or.inr rfl
    · intro _ _ _ _; exact Or.inr rfl
    · next sf1 ch _ =>
      split
      · next a hg =>
        split
        · have h1 := react_pending c (some .short) .cmdline a [] none p hp
          cases hr : Parser.react c (some .short) .cmdline a [] none p with
          | mk p1 r1 =>
            rw [hr] at h1
            cases r1 with
            | error e => intro r v h; simp at h
            | ok r' =>
              intro r v h hr2
              rcases ih sf1 (consumed + 1) r' true p1 (PendingOk.of_none h1) r v h hr2 with h3 | h3
              · exact Or.inl h3
              · left; rw [h3]; exact h1
        · generalize shortAttached sf1 = vh
          obtain ⟨val, hasEq⟩ := vh
          simp only
          have hsh := parseOptValue_shape c .short val a hasEq p hp
          cases hr : parseOptValue c .short val a hasEq p with
          | mk p1 r1 =>
            rw [hr] at hsh
            cases r1 with
            | error e => intro r v h; simp at h
            | ok r' =>
              cases r' with
              | attachedValueNotConsumed =>
                have hn : p1.pending = none := by
                  rcases hsh _ rfl with h1 | h1 | ⟨_, h1⟩
                  · cases h1
                  · cases h1
                  · exact h1
                intro r v h hr2
                rcases ih sf1 (consumed + 1) ret true p1 (PendingOk.of_none hn) r v h hr2 with h3 | h3
                · exact Or.inl h3
                · left; rw [h3]; exact hn
              | _ =>
                intro r v h hr2
                simp at h
                obtain ⟨rfl, _⟩ := h
                rcases hr2 with h2 | h2 <;> first | (cases h2; done) | (rcases hsh _ rfl with h1 | h1 | ⟨h1 | h1, _⟩ <;> cases h1)
      · split
        · cases hr : resolvePending c p with
          | mk p1 r1 =>
            cases r1 with
            | error e => intro r v h; simp at h
            | ok u => intro r v h hr2; simp at h; obtain ⟨rfl, _⟩ := h; rcases hr2 with h2 | h2 <;> cases h2
        · intro _ _ _ _; exact Or.inr rfl

theorem parseShortArg_keep (c : Cmd) (sf : ShortFlags) (st : ParseState) (pc : Nat) (vaf : Bool) (p : P)
    (hp : PendingOk c p) :
    ∀ r v, (parseShortArg c sf st pc vaf p).2 = .ok (r, v) → (r = .noArg ∨ r = .maybeHyphenValue) →
      (parseShortArg c sf st pc vaf p).1.pending = none ∨ (parseShortArg c sf st pc vaf p).1.pending = p.pending := by
  unfold parseShortArg
  split
  · intro r v h; simp at h
  · simp only
    split
    · intro _ _ _ _; exact Or.inr rfl
    · split
      · intro _ _ _ _; exact Or.inr rfl
      · split
        · intro _ _ _ _; exact Or.inr rfl
        · split
          · intro r v h; simp at h
          · next sf1 _ =>
            exact shortLoop_keep c _ sf1 _ .noArg vaf { p with flagSubSkip := 0 } hp

/-- the loop's parse state names an arg of the command, and while an option collects values it is the pending arg -/
def SInv (c : Cmd) (ls : LoopSt) (p : P) : Prop :=
  stateArg c ls.st ≠ none ∧
  ∀ id, ls.st = .opt id → (∃ a, c.find id = some a ∧ a.index = none) ∧ ∀ pd, p.pending = some pd → pd.id = id

/-- the rest of the loop never panics from a state meeting the invariant -/
def KOk (c : Cmd) (k : LoopSt → P → R LoopEnd) : Prop :=
  ∀ ls p, PInv c p → SInv c ls p → ∀ e, (k ls p).2 = .error e → isPanic e = false

theorem matchArgError_not_panic (c : Cmd) (similar : Bytes → Bytes → Bool) (tok : Bytes) (ls : LoopSt) :
    isPanic (matchArgError c similar tok ls) = false := by
  unfold matchArgError
  repeat' split
  all_goals rfl

theorem getPos_spec {c : Cmd} (wf : WF c) {n : Nat} {a : Arg} (h : c.getPos n = some a) :
    c.find a.id = some a ∧ a.index = some n := by
  obtain ⟨hm, hk⟩ := getKey_mem h
  exact ⟨find_of_mem wf hm, keys_pos_index hk⟩

theorem pendingPush_index (p1 : P) (id : Id) (tr : Bool) (tok : Bytes)
    (h : p1.pending = none ∨ ∃ pd, p1.pending = some pd ∧ pd.id = id ∧ pd.ident = some .index) :
    ∃ pend, pendingPush p1 id (some .index) tr (some tok) = ({ p1 with pending := some pend }, .ok ()) ∧
      pend.id = id ∧ pend.ident = some .index := by
  unfold pendingPush
  rcases h with h | ⟨pd, h, hid, hident⟩
  · simp only [h, Option.getD_none, bne_self_eq_false, Bool.false_eq_true, ↓reduceIte, Option.isSome_some, Bool.true_and]
    split <;> exact ⟨_, rfl, rfl, rfl⟩
  · simp only [h, Option.getD_some, hid, bne_self_eq_false, Bool.false_eq_true, ↓reduceIte, Option.isSome_some, Bool.true_and,
      hident]
    split <;> first | exact ⟨_, rfl, hid, hident⟩ | exact ⟨_, rfl, rfl, rfl⟩

theorem positionalPart_no_panic (c : Cmd) (wf : WF c) (similar : Bytes → Bytes → Bool) (tok : Bytes) (rest : List Bytes)
    (k : LoopSt → P → R LoopEnd) (hk : KOk c k) (ls : LoopSt) (p : P) (hp : PInv c p) :
    ∀ e, (positionalPart c similar tok rest k ls p).2 = .error e → isPanic e = false := by
  intro e h
  unfold positionalPart at h
  simp only at h
  split at h
  · next a hg =>
    obtain ⟨hfind, hidx⟩ := getPos_spec wf hg
    split at h
    · simp at h; subst h; rfl
    · -- the state after the conditional `resolve_pending`
      have hr1 : ∀ (r1 : R Unit), r1 = (if (p.pending.map (·.id) != some a.id || !a.isMultipleValues) = true
            then resolvePending c p else (p, .ok ())) →
          (∀ e, r1.2 = .error e → isPanic e = false) ∧ PInv c r1.1 ∧
          (r1.1.pending = none ∨ ∃ pd, r1.1.pending = some pd ∧ pd.id = a.id ∧ pd.ident = some .index) := by
        intro r1 hr
        split at hr
        · subst hr
          obtain ⟨hnone, hnp⟩ := resolvePending_spec c p hp.pendingOk
          exact ⟨hnp, hp.resolve, Or.inl hnone⟩
        · next hcond =>
          subst hr
          refine ⟨by simp, hp, ?_⟩
          cases hpd : p.pending with
          | none => exact Or.inl rfl
          | some pd =>
            right
            simp [hpd] at hcond
            obtain ⟨a', ha', hor⟩ := hp.2 pd hpd
            rw [hcond.1, hfind] at ha'
            simp at ha'; subst ha'
            refine ⟨pd, rfl, hcond.1, ?_⟩
            rcases hor with h1 | h1
            · exact h1
            · rw [hidx] at h1; cases h1
      generalize hgen : (if (p.pending.map (·.id) != some a.id || !a.isMultipleValues) = true
            then resolvePending c p else (p, .ok ())) = r1 at h
      obtain ⟨hnp1, hinv1, hpend1⟩ := hr1 r1 hgen.symm
      obtain ⟨p1, res1⟩ := r1
      cases res1 with
      | error e1 => simp at h; subst h; exact hnp1 e1 rfl
      | ok u =>
        simp only at h hinv1 hpend1
        have hsv : ∀ (ls' : LoopSt) (p' : P), ls'.st = .valuesDone → SInv c ls' p' := by
          intro ls' p' hst
          exact ⟨by rw [hst]; simp [stateArg], by intro id hid; rw [hst] at hid; cases hid⟩
        split at h
        · exact hk _ _ hinv1 (hsv _ _ rfl) e h
        · obtain ⟨pend, hpush, hpid, hpident⟩ := pendingPush_index p1 a.id (ls.trailing || a.trailingVarArg) tok hpend1
          rw [hpush] at h
          simp only at h
          have hinv2 : PInv c { p1 with pending := some pend } := by
            refine ⟨hinv1.1, ?_⟩
            intro pd hpd
            simp at hpd; subst hpd
            exact ⟨a, by rw [hpid]; exact hfind, Or.inl hpident⟩
          split at h
          · exact hk _ _ hinv2 (hsv _ _ rfl) e h
          · refine hk _ _ hinv2 ⟨?_, ?_⟩ e h
            · simp [stateArg, hfind]
            · intro id hid; cases hid
  · split at h
    · split at h
      · simp at h; subst h; rfl
      · simp at h
    · simp at h; subst h; exact matchArgError_not_panic _ _ _ _

theorem find_id {c : Cmd} {id : Id} {a : Arg} (h : c.find id = some a) : a.id = id := by
  unfold Cmd.find at h
  simpa using List.find?_some h

theorem pendingPush_opt (p : P) (id : Id) (tok : Bytes) (h : ∀ pd, p.pending = some pd → pd.id = id) :
    ∃ pend, pendingPush p id none false (some tok) = ({ p with pending := some pend }, .ok ()) ∧ pend.id = id := by
  unfold pendingPush
  cases hpd : p.pending with
  | none => simp
  | some pd => simp [h pd hpd]

theorem optValuePart_no_panic (c : Cmd) (wf : WF c) (similar : Bytes → Bytes → Bool) (tok : Bytes) (rest : List Bytes)
    (k : LoopSt → P → R LoopEnd) (hk : KOk c k) (ls : LoopSt) (p : P) (hp : PInv c p) (hs : SInv c ls p) :
    ∀ e, (optValuePart c similar tok rest k ls p).2 = .error e → isPanic e = false := by
  intro e h
  unfold optValuePart at h
  split at h
  · next id hst =>
    obtain ⟨hsa, hpend⟩ := hs
    obtain ⟨⟨a0, ha0, hidx0⟩, hpend⟩ := hpend id hst
    have hsv : ∀ (ls' : LoopSt) (p' : P), ls'.st = .valuesDone → SInv c ls' p' := by
      intro ls' p' hst
      exact ⟨by rw [hst]; simp [stateArg], by intro id hid; rw [hst] at hid; cases hid⟩
    rw [ha0] at h
    simp only at h
    have haid := find_id ha0
    split at h
    · exact hk _ _ hp (hsv _ _ rfl) e h
    · obtain ⟨pend, hpush, hpid⟩ := pendingPush_opt p id tok hpend
      rw [hpush] at h
      simp only at h
      have hinv : PInv c { p with pending := some pend } := by
        refine ⟨hp.1, ?_⟩
        intro pd' hpd'
        simp at hpd'; subst hpd'
        exact ⟨a0, by rw [hpid]; exact ha0, Or.inr hidx0⟩
      split at h
      · refine hk _ _ hinv ⟨?_, ?_⟩ e h
        · simp [stateArg, haid, ha0]
        · intro id' hid'
          simp at hid'
          refine ⟨⟨a0, by rw [← hid', haid]; exact ha0, hidx0⟩, ?_⟩
          intro pd' hpd'
          simp at hpd'; subst hpd'
          rw [hpid, ← hid', haid]
      · exact hk _ _ hinv (hsv _ _ rfl) e h
  · exact positionalPart_no_panic c wf similar tok rest k hk ls p hp e h

theorem helpWalk_not_panic : ∀ (toks : List Bytes) (c : Cmd), isPanic (helpWalk c toks) = false
  | [], _ => rfl
  | t :: ts, c => by
    unfold helpWalk
    split
    · exact helpWalk_not_panic ts _
    · rfl

theorem startTrailing_pending (p : P) :
    (startTrailing p).flagSubSkip = p.flagSubSkip ∧
    (p.pending = none → (startTrailing p).pending = none) ∧
    ∀ pd, p.pending = some pd → ∃ pd', (startTrailing p).pending = some pd' ∧ pd'.id = pd.id ∧ pd'.ident = pd.ident := by
  unfold startTrailing
  cases hpd : p.pending with
  | none => simp [hpd]
  | some pd0 => simp

theorem startTrailing_inv {c : Cmd} {ls : LoopSt} {p : P} (hp : PInv c p) (hs : SInv c ls p) (ls' : LoopSt)
    (hst : ls'.st = ls.st) : PInv c (startTrailing p) ∧ SInv c ls' (startTrailing p) := by
  obtain ⟨hf, hn, hsome⟩ := startTrailing_pending p
  have key : ∀ pd', (startTrailing p).pending = some pd' → ∃ pd, p.pending = some pd ∧ pd'.id = pd.id ∧ pd'.ident = pd.ident := by
    intro pd' h'
    cases hpd : p.pending with
    | none => rw [hn hpd] at h'; cases h'
    | some pd =>
      obtain ⟨pd'', h1, h2, h3⟩ := hsome pd hpd
      rw [h1] at h'; cases h'
      exact ⟨pd, rfl, h2, h3⟩
  refine ⟨⟨by rw [hf]; exact hp.1, ?_⟩, ⟨by rw [hst]; exact hs.1, ?_⟩⟩
  · intro pd' h'
    obtain ⟨pd, hpd, h2, h3⟩ := key pd' h'
    obtain ⟨a, ha, hor⟩ := hp.2 pd hpd
    exact ⟨a, by rw [h2]; exact ha, by rw [h3]; exact hor⟩
  · intro id hid
    rw [hst] at hid
    obtain ⟨hex, hall⟩ := hs.2 id hid
    refine ⟨hex, ?_⟩
    intro pd' h'
    obtain ⟨pd, hpd, h2, _⟩ := key pd' h'
    rw [h2]; exact hall pd hpd

/-- the state after a `MaybeHyphenValue` / `NoArg` answer still meets the state invariant -/
theorem SInv.keep {c : Cmd} {ls ls' : LoopSt} {p p1 : P} (hs : SInv c ls p) (hst : ls'.st = ls.st)
    (hk : p1.pending = none ∨ p1.pending = p.pending) : SInv c ls' p1 := by
  refine ⟨by rw [hst]; exact hs.1, ?_⟩
  intro id hid
  rw [hst] at hid
  obtain ⟨hex, hall⟩ := hs.2 id hid
  refine ⟨hex, ?_⟩
  intro pd hpd
  rcases hk with h | h
  · rw [h] at hpd; cases hpd
  · rw [h] at hpd; exact hall pd hpd

/-- **the token loop of `Parser::parse` never panics**: for every command level meeting clap's own build
assertions (`WF`), every argv tail of any length and content, from every state meeting the invariant - none of the
`expect`s, `unreachable!`s and `debug_assert`s on the way (`cmd[id]`, `pending_values_mut`, `resolve_pending`,
`add_val_to`, the dead `ParseResult` arms, `--` reaching `parse_long_arg`) can fire. -/
theorem loop_no_panic (c : Cmd) (wf : WF c) (similar : Bytes → Bytes → Bool) :
    ∀ (toks : List Bytes) (ls : LoopSt) (p : P), PInv c p → SInv c ls p →
      ∀ e, (loop c similar ls toks p).2 = .error e → isPanic e = false := by
  intro toks
  induction toks with
  | nil => intro ls p _ _ e h; simp [loop] at h
  | cons tok rest ih =>
    intro ls p hp hs e h
    have hk : KOk c (fun ls p => loop c similar ls rest p) := fun ls p hp hs e h => ih ls p hp hs e h
    rw [loop] at h
    generalize (fun ls p => loop c similar ls rest p) = k at h hk
    have hsv : ∀ (ls' : LoopSt) (p' : P), ls'.st = .valuesDone → SInv c ls' p' := by
      intro ls' p' hst
      exact ⟨by rw [hst]; simp [stateArg], by intro id hid; rw [hst] at hid; cases hid⟩
    have hopt : ∀ (ls' : LoopSt) (p' : P) (id : Id), ls'.st = .opt id → ResOk c p' (.opt id) → SInv c ls' p' := by
      intro ls' p' id hst hres
      obtain ⟨⟨a, ha, hidx⟩, pd, hpd, hpid⟩ := hres.2 id rfl
      refine ⟨by rw [hst]; simp [stateArg, ha], ?_⟩
      intro id' hid'
      rw [hst] at hid'
      cases hid'
      exact ⟨⟨a, ha, hidx⟩, by intro pd' hpd'; rw [hpd] at hpd'; cases hpd'; exact hpid⟩
    split at h
    · exact positionalPart_no_panic c wf similar tok rest k hk ls p hp e h
    · simp only at h
      split at h
      · split at h
        · simp at h; subst h; exact helpWalk_not_panic _ _
        · simp at h
      · split at h
        · split at h
          · next hsa => exact absurd hsa hs.1
          · split at h
            · exact optValuePart_no_panic c wf similar tok rest k hk ls p hp hs e h
            · obtain ⟨h1, h2⟩ := startTrailing_inv hp hs { ls with trailing := true } rfl
              exact hk _ _ h1 h2 e h
        · split at h
          · next longArg isUtf8 longValue hl =>
            obtain ⟨hinv, hnp, hres⟩ := parseLongArg_spec c wf longArg isUtf8 longValue ls.st ls.posCounter
              ls.validArgFound p hp hs.1 (toLong_nonempty hl)
            have hkeep := parseLongArg_keep c longArg isUtf8 longValue ls.st ls.posCounter ls.validArgFound p hp.pendingOk
            split at h
            · next p1 e1 heq => rw [heq] at hnp; simp at h; subst h; exact hnp e1 rfl
            · next p1 r vaf heq =>
              rw [heq] at hinv hres hkeep
              obtain ⟨hnoarg, hresok⟩ := hres r vaf rfl
              simp only at h hinv
              split at h
              · exact absurd rfl hnoarg
              · exact hk _ _ hinv (hsv _ _ rfl) e h
              · next id => exact hk _ _ hinv (hopt _ _ id rfl hresok) e h
              · simp at h
              · simp at h; subst h; rfl
              · simp at h; subst h; rfl
              · simp at h; subst h; rfl
              · have hp1 : p1 = p := hkeep _ vaf rfl (Or.inr rfl)
                exact optValuePart_no_panic c wf similar tok rest k hk { ls with validArgFound := vaf } p1 hinv
                  (hs.keep (ls' := { ls with validArgFound := vaf }) rfl (Or.inr (by rw [hp1]))) e h
              · exact absurd rfl hresok.1
          · split at h
            · next sf _ =>
              obtain ⟨hinv, hnp, hres⟩ := parseShortArg_spec c wf sf ls.st ls.posCounter ls.validArgFound p hp.2
                (by rw [hp.1]; exact Nat.zero_le _) hs.1
              have hkeep := parseShortArg_keep c sf ls.st ls.posCounter ls.validArgFound p hp.pendingOk
              split at h
              · next p1 e1 heq => rw [heq] at hnp; simp at h; subst h; exact hnp e1 rfl
              · next p1 r vaf heq =>
                rw [heq] at hinv hres hkeep
                obtain ⟨hunn, hresok⟩ := hres r vaf rfl
                simp only at h hinv
                split at h
                · exact optValuePart_no_panic c wf similar tok rest k hk { ls with validArgFound := vaf } p1 hinv
                    (hs.keep (ls' := { ls with validArgFound := vaf }) rfl (hkeep _ vaf rfl (Or.inl rfl))) e h
                · exact hk _ _ hinv (hsv _ _ rfl) e h
                · next id => exact hk _ _ hinv (hopt _ _ id rfl hresok) e h
                · split at h <;> simp at h
                · simp at h; subst h; rfl
                · simp at h; subst h; rfl
                · exact optValuePart_no_panic c wf similar tok rest k hk { ls with validArgFound := vaf } p1 hinv
                    (hs.keep (ls' := { ls with validArgFound := vaf }) rfl (hkeep _ vaf rfl (Or.inr rfl))) e h
                · exact absurd rfl hunn
                · exact absurd rfl hresok.1
            · exact optValuePart_no_panic c wf similar tok rest k hk ls p hp hs e h

end Clap.C01
