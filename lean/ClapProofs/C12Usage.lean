/-
C12 — the usage line (`ClapModel/Usage.lean`, the model of `output/usage.rs`).

* `argPieces_sound`: every piece of the argument part of a usage line is the display of an argument the
  caller asked for (required, required by a required one, or "used"), of a required group, or of a positional that is
  NOT hidden - so an optional hidden argument is never written (`hidden_optional_not_shown`).
* `required_option_listed`, `visible_positional_listed`: conversely every requested option is written unless a
  listed required group covers it, and every visible positional outside such groups has its slot filled.
* `argPieces_isSome` / `renderUsage_isSome`: on a level whose references exist (what the configuration checks
  assert) none of the `unwrap`/`expect`/`debug_assert!`s of `usage.rs` is reached.
* `needsOptionsTag_iff`: `[OPTIONS]` is written exactly when some visible, optional, non-built-in option lies outside
  every required group.
-/
import ClapModel
import ClapProofs.C01Valid
import ClapProofs.C03Closure
namespace Clap.C12U
open Clap Usage Validator

/-! ### slots -/

theorem getSlot_setSlot_same : ∀ (v : List (Option Bytes)) (i : Nat) (x : Option Bytes), getSlot (setSlot v i x) i = x := by
  intro v i
  induction i generalizing v with
  | zero => intro x; cases v <;> simp [setSlot, getSlot]
  | succ i ih =>
    intro x
    cases v with
    | nil => have := ih [] x; simpa [setSlot, getSlot] using this
    | cons y v => have := ih v x; simpa [setSlot, getSlot] using this

theorem getSlot_setSlot_ne : ∀ (v : List (Option Bytes)) (i j : Nat) (x : Option Bytes), i ≠ j →
    getSlot (setSlot v i x) j = getSlot v j := by
  intro v i
  induction i generalizing v with
  | zero =>
    intro j x h
    cases j with
    | zero => exact absurd rfl h
    | succ j => cases v <;> simp [setSlot, getSlot]
  | succ i ih =>
    intro j x h
    cases j with
    | zero => cases v <;> simp [setSlot, getSlot]
    | succ j =>
      have h' : i ≠ j := fun e => h (by rw [e])
      cases v with
      | nil => have := ih [] j x h'; simpa [setSlot, getSlot] using this
      | cons y v => have := ih v j x h'; simpa [setSlot, getSlot] using this

theorem mem_of_getSlot {v : List (Option Bytes)} {i : Nat} {s : Bytes} (h : getSlot v i = some s) : some s ∈ v := by
  unfold getSlot at h
  cases hv : v[i]? with
  | none => rw [hv] at h; simp at h
  | some o =>
    rw [hv] at h
    simp only [Option.getD_some] at h
    subst h
    exact List.mem_of_getElem? hv

theorem getSlot_of_mem {v : List (Option Bytes)} {s : Bytes} (h : some s ∈ v) : ∃ i, getSlot v i = some s := by
  obtain ⟨i, hi⟩ := List.getElem?_of_mem h
  exact ⟨i, by simp [getSlot, hi]⟩

theorem mem_filterMap_id {v : List (Option Bytes)} {s : Bytes} : s ∈ v.filterMap id ↔ some s ∈ v := by
  simp [List.mem_filterMap]

/-- all filled slots satisfy `P` -/
def SlotsAll (P : Bytes → Prop) (v : List (Option Bytes)) : Prop := ∀ s, some s ∈ v → P s

theorem slotsAll_nil (P : Bytes → Prop) : SlotsAll P [] := by intro s h; cases h

theorem mem_setSlot : ∀ (v : List (Option Bytes)) (i : Nat) (x : Option Bytes) (s : Bytes),
    some s ∈ setSlot v i x → some s ∈ v ∨ x = some s := by
  intro v i
  induction i generalizing v with
  | zero =>
    intro x s h
    cases v with
    | nil => simp [setSlot] at h; exact Or.inr h.symm
    | cons y v =>
      simp only [setSlot, List.mem_cons] at h
      rcases h with h | h
      · exact Or.inr h.symm
      · exact Or.inl (List.mem_cons_of_mem _ h)
  | succ i ih =>
    intro x s h
    cases v with
    | nil =>
      simp only [setSlot, List.mem_cons] at h
      rcases h with h | h
      · cases h
      · rcases ih [] x s h with h' | h'
        · cases h'
        · exact Or.inr h'
    | cons y v =>
      simp only [setSlot, List.mem_cons] at h
      rcases h with h | h
      · exact Or.inl (h ▸ List.mem_cons_self)
      · rcases ih v x s h with h' | h'
        · exact Or.inl (List.mem_cons_of_mem _ h')
        · exact Or.inr h'

theorem slotsAll_setSlot {P : Bytes → Prop} {v : List (Option Bytes)} (hv : SlotsAll P v) (i : Nat) (x : Option Bytes)
    (hx : ∀ s, x = some s → P s) : SlotsAll P (setSlot v i x) := by
  intro s h
  rcases mem_setSlot v i x s h with h | h
  · exact hv s h
  · exact hx s h

/-! ### sets -/

theorem mem_setInsert {s : List Bytes} {x y : Bytes} : y ∈ setInsert s x ↔ y ∈ s ∨ y = x := by
  unfold setInsert
  split
  · next h =>
    have : x ∈ s := by simpa using h
    constructor
    · exact Or.inl
    · rintro (h1 | h1); exact h1; exact h1 ▸ this
  · simp

theorem mem_setExtend {xs : List Bytes} : ∀ {s : List Bytes} {y : Bytes}, y ∈ setExtend s xs ↔ y ∈ s ∨ y ∈ xs := by
  induction xs with
  | nil => intro s y; simp [setExtend]
  | cons x xs ih =>
    intro s y
    have := @ih (setInsert s x) y
    simp only [setExtend, List.foldl_cons] at this ⊢
    rw [this, mem_setInsert]
    simp only [List.mem_cons]
    constructor
    · rintro ((h | h) | h); exact Or.inl h; exact Or.inr (Or.inl h); exact Or.inr (Or.inr h)
    · rintro (h | h | h); exact Or.inl (Or.inl h); exact Or.inl (Or.inr h); exact Or.inr h

/-! ### what may be written -/

/-- the pieces a usage line may contain for the request list `reqs` -/
inductive Shown (c : Cmd) (u : UInfo) (reqs : List Id) : Bytes → Prop
  | req (a : Arg) (r : Bool) : a ∈ c.args → a.id ∈ reqs → Shown c u reqs (stylized u a r)
  | pos (p : Arg) (r : Bool) : p ∈ c.args → p.isPositional = true → p.hide = false → Shown c u reqs (stylized u p r)
  | esc (s : Bytes) : Shown c u reqs s → Shown c u reqs ([45, 45, 32] ++ s)
  | optEsc (p : Arg) : p ∈ c.args → p.isPositional = true → p.hide = false →
      Shown c u reqs ([91, 45, 45, 32] ++ stylized u p true ++ [93])
  | group (g : Id) (s : Bytes) : g ∈ reqs → formatGroup c u g = some s → Shown c u reqs s

theorem groupPass_spec (c : Cmd) (u : UInfo) (skip : List Id → Bool) (all : List Id) :
    ∀ (reqs : List Id) (gs : List Bytes) (ms : List Id) (gs' : List Bytes) (ms' : List Id),
    (∀ r ∈ reqs, r ∈ all) →
    groupPass c u skip reqs gs ms = some (gs', ms') →
    (∀ x ∈ gs, Shown c u all x) → (∀ x ∈ gs', Shown c u all x) := by
  intro reqs
  induction reqs with
  | nil => intro gs ms gs' ms' _ h hg; simp only [groupPass, Option.some.injEq, Prod.mk.injEq] at h; rw [← h.1]; exact hg
  | cons r rest ih =>
    intro gs ms gs' ms' hall h hg
    have hrest : ∀ r ∈ rest, r ∈ all := fun x hx => hall x (List.mem_cons_of_mem _ hx)
    unfold groupPass at h
    split at h
    · split at h
      · next members elem hm he =>
        split at h
        · exact ih gs ms gs' ms' hrest h hg
        · refine ih _ _ gs' ms' hrest h ?_
          intro x hx
          rcases mem_setInsert.mp hx with hx | hx
          · exact hg x hx
          · subst hx; exact Shown.group r _ (hall r List.mem_cons_self) he
      · cases h
    · split at h
      · exact ih gs ms gs' ms' hrest h hg
      · cases h

/-- every group string `groupPass` collects is the display of a group of the level -/
theorem groupPass_groups (c : Cmd) (u : UInfo) (skip : List Id → Bool) :
    ∀ (reqs : List Id) (gs : List Bytes) (ms : List Id) (gs' : List Bytes) (ms' : List Id),
    groupPass c u skip reqs gs ms = some (gs', ms') →
    ∀ x ∈ gs', x ∈ gs ∨ ∃ g, (c.findGroup g).isSome = true ∧ formatGroup c u g = some x := by
  intro reqs
  induction reqs with
  | nil => intro gs ms gs' ms' h x hx; simp only [groupPass, Option.some.injEq, Prod.mk.injEq] at h; rw [← h.1] at hx; exact Or.inl hx
  | cons r rest ih =>
    intro gs ms gs' ms' h x hx
    unfold groupPass at h
    split at h
    · next hgr =>
      split at h
      · next members elem hm he =>
        split at h
        · exact ih gs ms gs' ms' h x hx
        · rcases ih _ _ gs' ms' h x hx with hx' | hx'
          · rcases mem_setInsert.mp hx' with hx'' | hx''
            · exact Or.inl hx''
            · subst hx''; exact Or.inr ⟨r, hgr, he⟩
          · exact Or.inr hx'
      · cases h
    · split at h
      · exact ih gs ms gs' ms' h x hx
      · cases h

theorem argPass_spec (c : Cmd) (u : UInfo) (members : List Id) (r : Bool) (skip : Arg → Bool) (all : List Id) :
    ∀ (reqs : List Id) (opts : List Bytes) (pos : List (Option Bytes)) (opts' : List Bytes) (pos' : List (Option Bytes)),
    (∀ x ∈ reqs, x ∈ all) →
    argPass c u members r skip reqs opts pos = some (opts', pos') →
    (∀ x ∈ opts, Shown c u all x) → SlotsAll (Shown c u all) pos →
    (∀ x ∈ opts', Shown c u all x) ∧ SlotsAll (Shown c u all) pos' := by
  intro reqs
  induction reqs with
  | nil =>
    intro opts pos opts' pos' _ h ho hp
    simp only [argPass, Option.some.injEq, Prod.mk.injEq] at h
    rw [← h.1, ← h.2]; exact ⟨ho, hp⟩
  | cons q rest ih =>
    intro opts pos opts' pos' hall h ho hp
    have hrest : ∀ x ∈ rest, x ∈ all := fun x hx => hall x (List.mem_cons_of_mem _ hx)
    unfold argPass at h
    split at h
    · next a hf =>
      have ha := C03.find_mem hf
      split at h
      · exact ih opts pos opts' pos' hrest h ho hp
      · have hs : Shown c u all (stylized u a r) := Shown.req a r ha.1 (ha.2 ▸ hall q List.mem_cons_self)
        split at h
        · refine ih opts _ opts' pos' hrest h ho ?_
          exact slotsAll_setSlot hp _ _ (by intro s e; cases e; exact hs)
        · refine ih _ pos opts' pos' hrest h ?_ hp
          intro x hx
          rcases mem_setInsert.mp hx with hx | hx
          · exact ho x hx
          · subst hx; exact hs
    · split at h
      · exact ih opts pos opts' pos' hrest h ho hp
      · cases h

theorem posPass_spec (c : Cmd) (u : UInfo) (members : List Id) (fo : Bool) (all : List Id) :
    ∀ (ps : List Arg) (pos pos' : List (Option Bytes)),
    (∀ p ∈ ps, p ∈ c.args ∧ p.isPositional = true) →
    posPass u members fo ps pos = some pos' →
    SlotsAll (Shown c u all) pos → SlotsAll (Shown c u all) pos' := by
  intro ps
  induction ps with
  | nil => intro pos pos' _ h hp; simp only [posPass, Option.some.injEq] at h; rw [← h]; exact hp
  | cons p rest ih =>
    intro pos pos' hps h hp
    have hrest : ∀ q ∈ rest, q ∈ c.args ∧ q.isPositional = true := fun q hq => hps q (List.mem_cons_of_mem _ hq)
    have hp0 := hps p List.mem_cons_self
    unfold posPass at h
    split at h
    · exact ih pos pos' hrest h hp
    · next hvis =>
      have hhide : p.hide = false := by
        cases hh : p.hide with
        | false => rfl
        | true => simp [hh] at hvis
      split at h
      · cases h
      · next i hi =>
        refine ih _ pos' hrest h ?_
        apply slotsAll_setSlot hp
        intro s hs
        split at hs
        · cases hs
        · cases hcur : getSlot pos i with
          | some cur =>
            have hc : Shown c u all cur := hp cur (mem_of_getSlot hcur)
            simp only [hcur] at hs
            split at hs
            · cases hs; exact Shown.esc cur hc
            · cases hs; exact hc
          | none =>
            simp only [hcur] at hs
            split at hs
            · cases hs; exact Shown.optEsc p hp0.1 hp0.2 hhide
            · cases hs; exact Shown.pos p false hp0.1 hp0.2 hhide

theorem positionals_mem (c : Cmd) : ∀ p ∈ c.positionals, p ∈ c.args ∧ p.isPositional = true := by
  intro p hp
  unfold Cmd.positionals at hp
  exact List.mem_filter.mp hp

/-- the three collections of `write_args` hold nothing but what was asked for, required groups, and visible positionals -/
theorem argParts_sound (c : Cmd) (u : UInfo) (required incls : List Id) (fo : Bool) (opts groups : List Bytes)
    (pos : List (Option Bytes)) (h : argParts c u required incls fo = some (opts, groups, pos)) :
    let all := unrolledReqs c required relevantStatic ++ incls
    (∀ x ∈ opts, Shown c u all x) ∧ (∀ x ∈ groups, Shown c u all x) ∧ SlotsAll (Shown c u all) pos := by
  unfold argParts at h
  simp only at h
  split at h
  · cases h
  · next groups0 members hg =>
    split at h
    · cases h
    · next opts0 pos0 ha =>
      split at h
      · cases h
      · next pos1 hp =>
        simp only [Option.some.injEq, Prod.mk.injEq] at h
        obtain ⟨rfl, rfl, rfl⟩ := h
        have hG := groupPass_spec c u _ _ _ [] [] groups0 members (fun r hr => hr) hg (by intro x hx; cases hx)
        have hA := argPass_spec c u members (!fo) _ _ _ [] [] opts0 pos0 (fun r hr => hr) ha
          (by intro x hx; cases hx) (slotsAll_nil _)
        have hP := posPass_spec c u members fo _ c.positionals pos0 pos1 (positionals_mem c) hp hA.2
        exact ⟨hA.1, hG, hP⟩

/-- **nothing but what was asked for, required groups, and visible positionals**: every piece of the argument part of
a usage line (`write_args`) has one of the five shapes of `Shown`; there is no shape for an argument that is hidden and
was not asked for -/
theorem argPieces_sound (c : Cmd) (u : UInfo) (required incls : List Id) (fo : Bool) (ps : List Bytes)
    (h : argPieces c u required incls fo = some ps) :
    ∀ x ∈ ps, Shown c u (unrolledReqs c required relevantStatic ++ incls) x := by
  unfold argPieces at h
  cases hp : argParts c u required incls fo with
  | none => rw [hp] at h; cases h
  | some t =>
    obtain ⟨opts, groups, pos⟩ := t
    rw [hp] at h
    simp only [Option.map_some, Option.some.injEq] at h
    subst h
    have hs := argParts_sound c u required incls fo opts groups pos hp
    intro x hx
    rcases List.mem_append.mp hx with hx | hx
    · split at hx
      · cases hx
      · rcases List.mem_append.mp hx with hx | hx
        · exact hs.1 x hx
        · exact hs.2.1 x hx
    · exact hs.2.2 x (mem_filterMap_id.mp hx)

/-! ### what must be written -/

theorem argPass_lists (c : Cmd) (u : UInfo) (members : List Id) (r : Bool) (skip : Arg → Bool) :
    ∀ (reqs : List Id) (opts : List Bytes) (pos : List (Option Bytes)) (opts' : List Bytes) (pos' : List (Option Bytes)),
    argPass c u members r skip reqs opts pos = some (opts', pos') →
    (∀ x ∈ opts, x ∈ opts') ∧
    ∀ q ∈ reqs, ∀ a, c.find q = some a → a.index = none → members.contains a.id = false → skip a = false →
      stylized u a r ∈ opts' := by
  intro reqs
  induction reqs with
  | nil =>
    intro opts pos opts' pos' h
    simp only [argPass, Option.some.injEq, Prod.mk.injEq] at h
    rw [← h.1]
    exact ⟨fun x hx => hx, by intro q hq; cases hq⟩
  | cons q0 rest ih =>
    intro opts pos opts' pos' h
    unfold argPass at h
    split at h
    · next a0 hf0 =>
      split at h
      · next hskip =>
        have := ih opts pos opts' pos' h
        refine ⟨this.1, ?_⟩
        intro q hq a hf hidx hm hs
        rcases List.mem_cons.mp hq with rfl | hq
        · rw [hf0] at hf; cases hf
          rw [hm, hs] at hskip; cases hskip
        · exact this.2 q hq a hf hidx hm hs
      · split at h
        · next i hi =>
          have := ih opts _ opts' pos' h
          refine ⟨this.1, ?_⟩
          intro q hq a hf hidx hm hs
          rcases List.mem_cons.mp hq with rfl | hq
          · rw [hf0] at hf; cases hf; rw [hidx] at hi; cases hi
          · exact this.2 q hq a hf hidx hm hs
        · have := ih _ pos opts' pos' h
          refine ⟨fun x hx => this.1 x (mem_setInsert.mpr (Or.inl hx)), ?_⟩
          intro q hq a hf hidx hm hs
          rcases List.mem_cons.mp hq with rfl | hq
          · rw [hf0] at hf; cases hf
            exact this.1 _ (mem_setInsert.mpr (Or.inr rfl))
          · exact this.2 q hq a hf hidx hm hs
    · next hnone =>
      split at h
      · have := ih opts pos opts' pos' h
        refine ⟨this.1, ?_⟩
        intro q hq a hf hidx hm hs
        rcases List.mem_cons.mp hq with rfl | hq
        · rw [hnone] at hf; cases hf
        · exact this.2 q hq a hf hidx hm hs
      · cases h

theorem groupPass_members (c : Cmd) (u : UInfo) :
    ∀ (reqs : List Id) (gs : List Bytes) (ms : List Id) (gs' : List Bytes) (ms' : List Id),
    groupPass c u (fun _ => false) reqs gs ms = some (gs', ms') →
    (∀ x ∈ gs, x ∈ gs') ∧
    ∀ x ∈ ms', x ∈ ms ∨ ∃ g ∈ reqs, ∃ l s, argsInGroup c g = some l ∧ x ∈ l ∧ formatGroup c u g = some s ∧ s ∈ gs' := by
  intro reqs
  induction reqs with
  | nil =>
    intro gs ms gs' ms' h
    simp only [groupPass, Option.some.injEq, Prod.mk.injEq] at h
    rw [← h.1, ← h.2]
    exact ⟨fun x hx => hx, fun x hx => Or.inl hx⟩
  | cons r rest ih =>
    intro gs ms gs' ms' h
    unfold groupPass at h
    split at h
    · split at h
      · next members elem hm he =>
        simp only [Bool.false_eq_true, ↓reduceIte] at h
        have := ih _ _ gs' ms' h
        refine ⟨fun x hx => this.1 x (mem_setInsert.mpr (Or.inl hx)), ?_⟩
        intro x hx
        rcases this.2 x hx with hx | ⟨g, hg, l, s, h1, h2, h3, h4⟩
        · rcases mem_setExtend.mp hx with hx | hx
          · exact Or.inl hx
          · exact Or.inr ⟨r, List.mem_cons_self, members, elem, hm, hx, he, this.1 _ (mem_setInsert.mpr (Or.inr rfl))⟩
        · exact Or.inr ⟨g, List.mem_cons_of_mem _ hg, l, s, h1, h2, h3, h4⟩
      · cases h
    · split at h
      · have := ih gs ms gs' ms' h
        refine ⟨this.1, ?_⟩
        intro x hx
        rcases this.2 x hx with hx | ⟨g, hg, rest'⟩
        · exact Or.inl hx
        · exact Or.inr ⟨g, List.mem_cons_of_mem _ hg, rest'⟩
      · cases h

/-- **every requested option is written**: an option among the requested ids (required, required by a required arg, or
used) is displayed as required in the help usage line - unless a required group that is itself written covers it -/
theorem required_option_listed (c : Cmd) (u : UInfo) (required incls : List Id) (ps : List Bytes)
    (h : argPieces c u required incls false = some ps)
    (q : Id) (hq : q ∈ unrolledReqs c required relevantStatic ++ incls) (a : Arg) (hf : c.find q = some a)
    (hidx : a.index = none) :
    stylized u a true ∈ ps ∨
    ∃ g ∈ unrolledReqs c required relevantStatic ++ incls, ∃ l s,
      argsInGroup c g = some l ∧ a.id ∈ l ∧ formatGroup c u g = some s ∧ s ∈ ps := by
  unfold argPieces at h
  cases hp : argParts c u required incls false with
  | none => rw [hp] at h; cases h
  | some t =>
    obtain ⟨opts, groups, pos⟩ := t
    rw [hp] at h
    simp only [Option.map_some, Option.some.injEq, Bool.false_eq_true, ↓reduceIte] at h
    subst h
    unfold argParts at hp
    simp only at hp
    split at hp
    · cases hp
    · next groups0 members hg =>
      split at hp
      · cases hp
      · next opts0 pos0 ha =>
        split at hp
        · cases hp
        · next pos1 hpp =>
          simp only [Option.some.injEq, Prod.mk.injEq] at hp
          obtain ⟨rfl, rfl, rfl⟩ := hp
          have hA := argPass_lists c u members (!false) _ _ [] [] opts0 pos0 ha
          have hG := groupPass_members c u _ [] [] groups0 members hg
          cases hm : members.contains a.id with
          | false =>
            left
            have := hA.2 q hq a hf hidx hm rfl
            simp only [Bool.not_false] at this
            exact List.mem_append_left _ (List.mem_append_left _ this)
          | true =>
            right
            have hmem : a.id ∈ members := by simpa using hm
            rcases hG.2 a.id hmem with hx | ⟨g, hg', l, s, h1, h2, h3, h4⟩
            · cases hx
            · exact ⟨g, hg', l, s, h1, h2, h3, List.mem_append_left _ (List.mem_append_right _ h4)⟩

theorem posPass_fills (u : UInfo) (members : List Id) :
    ∀ (ps : List Arg) (pos pos' : List (Option Bytes)),
    posPass u members false ps pos = some pos' →
    (∀ i, (getSlot pos i).isSome = true → (getSlot pos' i).isSome = true) ∧
    ∀ p ∈ ps, p.hide = false → members.contains p.id = false → ∀ i, p.index = some i → (getSlot pos' i).isSome = true := by
  intro ps
  induction ps with
  | nil =>
    intro pos pos' h
    simp only [posPass, Option.some.injEq] at h
    subst h
    exact ⟨fun i hi => hi, by intro p hp; cases hp⟩
  | cons p0 rest ih =>
    intro pos pos' h
    unfold posPass at h
    split at h
    · next hskip =>
      have := ih pos pos' h
      refine ⟨this.1, ?_⟩
      intro p hp hh hm i hi
      rcases List.mem_cons.mp hp with rfl | hp
      · rw [hh, hm] at hskip; cases hskip
      · exact this.2 p hp hh hm i hi
    · split at h
      · cases h
      · next i0 hi0 =>
        have := ih _ pos' h
        have hnew : ∀ j, (getSlot pos j).isSome = true ∨ j = i0 →
            (getSlot (setSlot pos i0
              (if (p0.last && false) = true then none else
                match getSlot pos i0 with
                | some s => if p0.last = true then some ([45, 45, 32] ++ s) else some s
                | none => if p0.last = true then some ([91, 45, 45, 32] ++ stylized u p0 true ++ [93])
                          else some (stylized u p0 false))) j).isSome = true := by
          intro j hj
          by_cases hji : i0 = j
          · subst hji
            rw [getSlot_setSlot_same]
            simp only [Bool.and_false, Bool.false_eq_true, ↓reduceIte]
            cases getSlot pos i0 <;> simp <;> split <;> rfl
          · rw [getSlot_setSlot_ne _ _ _ _ hji]
            rcases hj with hj | hj
            · exact hj
            · exact absurd hj.symm hji
        refine ⟨fun j hj => this.1 j (hnew j (Or.inl hj)), ?_⟩
        intro p hp hh hm i hi
        rcases List.mem_cons.mp hp with rfl | hp
        · have e : i = i0 := by rw [hi0] at hi; exact (Option.some.inj hi).symm
          rw [e]; exact this.1 i0 (hnew i0 (Or.inr rfl))
        · exact this.2 p hp hh hm i hi

/-- **every visible positional has its place in the help usage line**: the slot of a positional that is not hidden is
filled (by `argParts_sound` with the display of a requested arg or of a visible positional), unless a required group
that is itself written covers it -/
theorem visible_positional_listed (c : Cmd) (u : UInfo) (required incls : List Id) (opts groups : List Bytes)
    (pos : List (Option Bytes)) (h : argParts c u required incls false = some (opts, groups, pos))
    (p : Arg) (hp : p ∈ c.positionals) (hh : p.hide = false) (i : Nat) (hi : p.index = some i) :
    (getSlot pos i).isSome = true ∨
    ∃ g ∈ unrolledReqs c required relevantStatic ++ incls, ∃ l s,
      argsInGroup c g = some l ∧ p.id ∈ l ∧ formatGroup c u g = some s ∧ s ∈ groups := by
  unfold argParts at h
  simp only at h
  split at h
  · cases h
  · next groups0 members hg =>
    split at h
    · cases h
    · next opts0 pos0 ha =>
      split at h
      · cases h
      · next pos1 hpp =>
        simp only [Option.some.injEq, Prod.mk.injEq] at h
        obtain ⟨rfl, rfl, rfl⟩ := h
        have hG := groupPass_members c u _ [] [] groups0 members hg
        have hP := posPass_fills u members c.positionals pos0 pos1 hpp
        cases hm : members.contains p.id with
        | false => exact Or.inl (hP.2 p hp hh hm i hi)
        | true =>
          right
          have hmem : p.id ∈ members := by simpa using hm
          rcases hG.2 p.id hmem with hx | hx
          · cases hx
          · exact hx

/-- a filled slot is a piece of the line -/
theorem slot_is_piece (c : Cmd) (u : UInfo) (required incls : List Id) (fo : Bool) (opts groups : List Bytes)
    (pos : List (Option Bytes)) (h : argParts c u required incls fo = some (opts, groups, pos)) (i : Nat) (s : Bytes)
    (hs : getSlot pos i = some s) : ∃ ps, argPieces c u required incls fo = some ps ∧ s ∈ ps := by
  refine ⟨(if fo then [] else opts ++ groups) ++ pos.filterMap id, by simp [argPieces, h], ?_⟩
  exact List.mem_append_right _ (mem_filterMap_id.mpr (mem_of_getSlot hs))

/-- **a group's usage string does not advertise hidden members**: every member it displays is an arg of the level, a
member of the (unrolled) group, and visible -/
theorem groupShown_visible (c : Cmd) (g : Id) (shown : List Arg) (h : groupShown c g = some shown) :
    ∃ ms, argsInGroup c g = some ms ∧ ∀ a ∈ shown, a ∈ c.args ∧ a.id ∈ ms ∧ a.hide = false := by
  unfold groupShown at h
  cases hm : argsInGroup c g with
  | none => rw [hm] at h; cases h
  | some ms =>
    rw [hm] at h
    simp only [Option.map_some, Option.some.injEq] at h
    subst h
    refine ⟨ms, rfl, ?_⟩
    intro a ha
    obtain ⟨ha1, ha2⟩ := List.mem_filter.mp ha
    obtain ⟨i, hi, hf⟩ := List.mem_filterMap.mp ha1
    obtain ⟨h1, h2⟩ := C03.find_mem hf
    exact ⟨h1, h2 ▸ hi, by simpa using ha2⟩

/-! ### `[OPTIONS]` -/

/-- **when `[OPTIONS]` is written**: exactly when some option that is not built in (`--help`/`--version`/help and
version actions), not hidden and not required lies outside every required group -/
theorem needsOptionsTag_iff (c : Cmd) :
    needsOptionsTag c = true ↔
    ∃ f ∈ c.args, f.isPositional = false ∧
      f.long ≠ some b_help ∧ f.long ≠ some b_version ∧
      f.getAction ≠ .help ∧ f.getAction ≠ .helpShort ∧ f.getAction ≠ .helpLong ∧ f.getAction ≠ .version ∧
      f.hide = false ∧ f.required = false ∧
      ∀ g0 ∈ c.groups, g0.args.contains f.id = true → ∀ g ∈ c.groups, g.id = g0.id → g.required = false := by
  unfold needsOptionsTag
  simp only [List.any_eq_true, List.mem_filter]
  constructor
  · rintro ⟨f, ⟨hf, hnp⟩, hc⟩
    refine ⟨f, hf, by simpa using hnp, ?_⟩
    unfold optionCounts at hc
    simp only [Bool.and_eq_true, Bool.not_eq_true', Bool.or_eq_false_iff, beq_eq_false_iff_ne, ne_eq] at hc
    obtain ⟨⟨⟨⟨⟨h1, h2⟩, h3⟩, h4⟩, h5⟩, h6⟩ := hc
    refine ⟨h1, h2, ?_, ?_, ?_, ?_, h4, h5, ?_⟩
    · intro e; rw [e] at h3; simp at h3
    · intro e; rw [e] at h3; simp at h3
    · intro e; rw [e] at h3; simp at h3
    · intro e; rw [e] at h3; simp at h3
    · intro g0 hg0 hc0 g hg hid
      cases hr : g.required with
      | false => rfl
      | true =>
        exfalso
        have : (c.groupsForArg f.id).any (fun gs => c.groups.any fun g => g.id == gs && g.required) = true := by
          simp only [Cmd.groupsForArg, List.any_eq_true, List.mem_map, List.mem_filter]
          exact ⟨g0.id, ⟨g0, ⟨hg0, hc0⟩, rfl⟩, g, hg, by simp [hr, hid]⟩
        rw [this] at h6; cases h6
  · rintro ⟨f, hf, hnp, h1, h2, h3a, h3b, h3c, h3d, h4, h5, h6⟩
    refine ⟨f, ⟨hf, by simp [hnp]⟩, ?_⟩
    unfold optionCounts
    simp only [Bool.and_eq_true, Bool.not_eq_true', Bool.or_eq_false_iff, beq_eq_false_iff_ne, ne_eq]
    refine ⟨⟨⟨⟨⟨h1, h2⟩, ?_⟩, h4⟩, h5⟩, ?_⟩
    · cases ha : f.getAction <;> simp_all
    · cases hany : (c.groupsForArg f.id).any (fun gs => c.groups.any fun g => g.id == gs && g.required) with
      | false => rfl
      | true =>
        exfalso
        simp only [Cmd.groupsForArg, List.any_eq_true, List.mem_map, List.mem_filter, Bool.and_eq_true, beq_iff_eq] at hany
        obtain ⟨gs, ⟨g0, ⟨hg0, hc0⟩, rfl⟩, g, hg, hid, hr⟩ := hany
        have := h6 g0 hg0 hc0 g hg hid
        rw [this] at hr; cases hr


/-! ### no `unwrap` / `expect` / `debug_assert!` of `usage.rs` is reached -/

theorem expand_sound (c : Cmd) (rs : List Id) : ∀ (acc : List Id × List Id),
    ∀ x ∈ (rs.foldl (fun (acc : List Id × List Id) r =>
      let push := match c.find r with | some req => !req.requires.isEmpty | none => false
      ((if push then r :: acc.1 else acc.1), acc.2 ++ [r])) acc).2, x ∈ acc.2 ∨ x ∈ rs := by
  induction rs with
  | nil => intro acc x hx; exact Or.inl hx
  | cons r rs ih =>
    intro acc x hx
    simp only [List.foldl_cons] at hx
    rcases ih _ x hx with h | h
    · simp only [List.mem_append, List.mem_singleton] at h
      rcases h with h | h
      · exact Or.inl h
      · exact Or.inr (h ▸ List.mem_cons_self)
    · exact Or.inr (List.mem_cons_of_mem _ h)

/-- everything the `requires` walk returns was in the accumulator or is the target of some arg's `requires` -/
theorem unroll_sound (c : Cmd) (relevant : Pred × Id → Option Id) : ∀ (fuel : Nat) (rvec processed args : List Id),
    ∀ x ∈ unrollArgRequires c relevant fuel rvec processed args,
      x ∈ args ∨ ∃ a ∈ c.args, ∃ p ∈ a.requires, relevant p = some x := by
  intro fuel
  induction fuel with
  | zero => intro rvec processed args x hx; unfold unrollArgRequires at hx; exact Or.inl hx
  | succ fuel ih =>
    intro rvec processed args x hx
    cases rvec with
    | nil => unfold unrollArgRequires at hx; exact Or.inl hx
    | cons a rvec =>
      unfold unrollArgRequires at hx
      split at hx
      · exact ih _ _ _ x hx
      · simp only at hx
        split at hx
        · exact ih _ _ _ x hx
        · next arg hf =>
          rcases ih _ _ _ x hx with h | h
          · rcases expand_sound c _ (rvec, args) x h with h | h
            · exact Or.inl h
            · right
              obtain ⟨p, hp, hpe⟩ := List.mem_filterMap.mp h
              exact ⟨arg, (C03.find_mem hf).1, p, hp, hpe⟩
          · exact Or.inr h

/-- the references the configuration checks assert: `requires` targets of args and of groups exist -/
def RefsOk (c : Cmd) : Prop :=
  (∀ a ∈ c.args, ∀ p ∈ a.requires, (c.find p.2).isSome = true ∨ (c.findGroup p.2).isSome = true) ∧
  (∀ g ∈ c.groups, ∀ r ∈ g.requires, (c.find r).isSome = true ∨ (c.findGroup r).isSome = true)

theorem find_isSome_of_mem {c : Cmd} {a : Arg} (h : a ∈ c.args) : (c.find a.id).isSome = true := by
  unfold Cmd.find
  rw [List.find?_isSome]
  exact ⟨a, h, by simp⟩

theorem findGroup_isSome_of_mem {c : Cmd} {g : Group} (h : g ∈ c.groups) : (c.findGroup g.id).isSome = true := by
  unfold Cmd.findGroup
  rw [List.find?_isSome]
  exact ⟨g, h, by simp⟩

theorem requiredGraph_exists (c : Cmd) (hr : RefsOk c) :
    ∀ r ∈ requiredGraph c, (c.find r).isSome = true ∨ (c.findGroup r).isSome = true := by
  unfold requiredGraph
  simp only
  -- the fold over the groups keeps the property
  have key : ∀ (gs : List Group) (acc : List Id), (∀ g ∈ gs, g ∈ c.groups) →
      (∀ r ∈ acc, (c.find r).isSome = true ∨ (c.findGroup r).isSome = true) →
      ∀ r ∈ gs.foldl (fun acc g =>
        if g.required then (if acc.contains g.id then acc else acc ++ [g.id]) ++ g.requires else acc) acc,
        (c.find r).isSome = true ∨ (c.findGroup r).isSome = true := by
    intro gs
    induction gs with
    | nil => intro acc _ h; exact h
    | cons g gs ih =>
      intro acc hg h
      simp only [List.foldl_cons]
      apply ih _ (fun g' hg' => hg g' (List.mem_cons_of_mem _ hg'))
      intro r hr'
      split at hr'
      · rcases List.mem_append.mp hr' with h1 | h1
        · split at h1
          · exact h r h1
          · rcases List.mem_append.mp h1 with h2 | h2
            · exact h r h2
            · simp only [List.mem_singleton] at h2
              exact Or.inr (h2 ▸ findGroup_isSome_of_mem (hg g List.mem_cons_self))
        · exact hr.2 g (hg g List.mem_cons_self) r h1
      · exact h r hr'
  apply key c.groups _ (fun g hg => hg)
  -- the de-duplicated ids of the required args
  have key2 : ∀ (ids : List Id) (acc : List Id), (∀ i ∈ ids, (c.find i).isSome = true) →
      (∀ r ∈ acc, (c.find r).isSome = true ∨ (c.findGroup r).isSome = true) →
      ∀ r ∈ ids.foldl (fun acc i => if acc.contains i then acc else acc ++ [i]) acc,
        (c.find r).isSome = true ∨ (c.findGroup r).isSome = true := by
    intro ids
    induction ids with
    | nil => intro acc _ h; exact h
    | cons i ids ih =>
      intro acc hi h
      simp only [List.foldl_cons]
      apply ih _ (fun j hj => hi j (List.mem_cons_of_mem _ hj))
      intro r hr'
      split at hr'
      · exact h r hr'
      · rcases List.mem_append.mp hr' with h1 | h1
        · exact h r h1
        · simp only [List.mem_singleton] at h1
          exact Or.inl (h1 ▸ hi i List.mem_cons_self)
  apply key2 _ [] _ (by intro r hr'; cases hr')
  intro i hi
  obtain ⟨a, ha, rfl⟩ := List.mem_map.mp hi
  exact find_isSome_of_mem (List.mem_filter.mp ha).1

theorem unrolledReqs_exists (c : Cmd) (hr : RefsOk c) :
    ∀ r ∈ unrolledReqs c (requiredGraph c) relevantStatic, (c.find r).isSome = true ∨ (c.findGroup r).isSome = true := by
  intro r hr'
  unfold unrolledReqs at hr'
  obtain ⟨a, ha, hra⟩ := List.mem_flatMap.mp hr'
  rcases List.mem_append.mp hra with h | h
  · rcases unroll_sound c _ _ _ _ _ r h with h | ⟨b, hb, p, hp, hpe⟩
    · cases h
    · unfold relevantStatic at hpe
      split at hpe
      · cases hpe; exact hr.1 b hb p hp
      · cases hpe
  · simp only [List.mem_singleton] at h
    exact h ▸ requiredGraph_exists c hr a ha

theorem formatGroup_isSome (c : Cmd) (u : UInfo) (wg : C01.GroupsOk c) (g : Id) (hg : (c.findGroup g).isSome = true) :
    (argsInGroup c g).isSome = true ∧ (formatGroup c u g).isSome = true := by
  have h1 : (argsInGroup c g).isSome = true :=
    C01.unrollArgsInGroup_isSome c wg _ [g] [] (by intro x hx; simp only [List.mem_singleton] at hx; exact hx ▸ hg)
  refine ⟨h1, ?_⟩
  unfold formatGroup groupShown
  cases h : argsInGroup c g with
  | none => rw [h] at h1; cases h1
  | some l => rfl

theorem groupPass_isSome (c : Cmd) (u : UInfo) (skip : List Id → Bool) (wg : C01.GroupsOk c) :
    ∀ (reqs : List Id) (gs : List Bytes) (ms : List Id),
    (∀ r ∈ reqs, (c.find r).isSome = true ∨ (c.findGroup r).isSome = true) →
    (groupPass c u skip reqs gs ms).isSome = true := by
  intro reqs
  induction reqs with
  | nil => intro gs ms _; rfl
  | cons r rest ih =>
    intro gs ms h
    have hrest := fun x hx => h x (List.mem_cons_of_mem r hx)
    unfold groupPass
    split
    · next hg =>
      obtain ⟨h1, h2⟩ := formatGroup_isSome c u wg r hg
      cases ha : argsInGroup c r with
      | none => rw [ha] at h1; cases h1
      | some members =>
        cases hf : formatGroup c u r with
        | none => rw [hf] at h2; cases h2
        | some elem =>
          simp only
          split
          · exact ih _ _ hrest
          · exact ih _ _ hrest
    · next hng =>
      split
      · exact ih _ _ hrest
      · next hnf =>
        rcases h r List.mem_cons_self with h' | h'
        · exact absurd h' hnf
        · exact absurd h' hng

theorem argPass_isSome (c : Cmd) (u : UInfo) (members : List Id) (r : Bool) (skip : Arg → Bool) :
    ∀ (reqs : List Id) (opts : List Bytes) (pos : List (Option Bytes)),
    (∀ q ∈ reqs, (c.find q).isSome = true ∨ (c.findGroup q).isSome = true) →
    (argPass c u members r skip reqs opts pos).isSome = true := by
  intro reqs
  induction reqs with
  | nil => intro opts pos _; rfl
  | cons q rest ih =>
    intro opts pos h
    have hrest := fun x hx => h x (List.mem_cons_of_mem q hx)
    unfold argPass
    split
    · split
      · exact ih _ _ hrest
      · split
        · exact ih _ _ hrest
        · exact ih _ _ hrest
    · next hnone =>
      split
      · exact ih _ _ hrest
      · next hng =>
        rcases h q List.mem_cons_self with h' | h'
        · rw [hnone] at h'; cases h'
        · exact absurd h' hng

theorem posPass_isSome (u : UInfo) (members : List Id) (fo : Bool) :
    ∀ (ps : List Arg) (pos : List (Option Bytes)), (∀ p ∈ ps, p.index.isSome = true) →
    (posPass u members fo ps pos).isSome = true := by
  intro ps
  induction ps with
  | nil => intro pos _; rfl
  | cons p rest ih =>
    intro pos h
    have hrest := fun x hx => h x (List.mem_cons_of_mem p hx)
    unfold posPass
    split
    · exact ih _ hrest
    · split
      · next hn => have := h p List.mem_cons_self; rw [hn] at this; cases this
      · exact ih _ hrest

/-- the level is fit for `usage.rs`: group members exist, `requires` targets exist, every positional has its index
(`_build_self` numbers them) - what `debug_asserts.rs` and the build guarantee -/
structure UsageOk (c : Cmd) : Prop where
  groups : C01.GroupsOk c
  refs : RefsOk c
  indexed : ∀ p ∈ c.positionals, p.index.isSome = true

theorem argParts_isSome (c : Cmd) (u : UInfo) (ok : UsageOk c) (incls : List Id)
    (hi : ∀ q ∈ incls, (c.find q).isSome = true ∨ (c.findGroup q).isSome = true) (fo : Bool) :
    (argParts c u (requiredGraph c) incls fo).isSome = true := by
  have hall : ∀ q ∈ unrolledReqs c (requiredGraph c) relevantStatic ++ incls,
      (c.find q).isSome = true ∨ (c.findGroup q).isSome = true := by
    intro q hq
    rcases List.mem_append.mp hq with h | h
    · exact unrolledReqs_exists c ok.refs q h
    · exact hi q h
  unfold argParts
  simp only
  have h1 := groupPass_isSome c u (fun _ => false) ok.groups _ [] [] hall
  cases hg : groupPass c u (fun _ => false) (unrolledReqs c (requiredGraph c) relevantStatic ++ incls) [] [] with
  | none => rw [hg] at h1; cases h1
  | some t =>
    obtain ⟨groups, members⟩ := t
    simp only
    have h2 := argPass_isSome c u members (!fo) (fun _ => false) _ [] [] hall
    cases ha : argPass c u members (!fo) (fun _ => false) (unrolledReqs c (requiredGraph c) relevantStatic ++ incls) [] [] with
    | none => rw [ha] at h2; cases h2
    | some t2 =>
      obtain ⟨opts, pos0⟩ := t2
      simp only
      have h3 := posPass_isSome u members fo c.positionals pos0 ok.indexed
      cases hp : posPass u members fo c.positionals pos0 with
      | none => rw [hp] at h3; cases h3
      | some pos => rfl

theorem writeArgUsage_isSome (c : Cmd) (u : UInfo) (ok : UsageOk c) (used : List Id)
    (hi : ∀ q ∈ used, (c.find q).isSome = true ∨ (c.findGroup q).isSome = true) (inclReqs : Bool) :
    (writeArgUsage c u (requiredGraph c) used inclReqs).isSome = true := by
  have h := argParts_isSome c u ok used hi (!inclReqs)
  unfold writeArgUsage writeArgs argPieces
  cases hp : argParts c u (requiredGraph c) used (!inclReqs) with
  | none => rw [hp] at h; cases h
  | some t => rfl

/-- **the usage line always renders**: on a level that is fit for it (`UsageOk`) `render_usage()` reaches none of the
`unwrap`s, `expect`s and `debug_assert!`s of `usage.rs`, `format_group` and `unroll_args_in_group` -/
theorem renderUsage_isSome (c : Cmd) (u : UInfo) (ok : UsageOk c) : (renderUsage c u).isSome = true := by
  unfold renderUsage usageWithTitle usageNoTitle
  cases u.overrideUsage with
  | some o => rfl
  | none =>
    simp only [List.isEmpty_nil, ↓reduceIte]
    unfold writeHelpUsage
    have h1 := writeArgUsage_isSome c u ok [] (by intro q hq; cases hq) true
    cases hw : writeArgUsage c u (requiredGraph c) [] true with
    | none => rw [hw] at h1; cases h1
    | some sofar =>
      simp only [Option.bind_some]
      unfold writeSubcommandUsage
      have h2 := writeArgUsage_isSome c u ok [] (by intro q hq; cases hq) false
      cases hw2 : writeArgUsage c u (requiredGraph c) [] false with
      | none => rw [hw2] at h2; cases h2
      | some x =>
        simp only
        split
        · split
          · split <;> rfl
          · split <;> rfl
        · rfl

/-- the "smart" usage line of an error message renders as well, for any list of used ids that exist -/
theorem smartUsage_isSome (c : Cmd) (u : UInfo) (ok : UsageOk c) (used : List Id)
    (hi : ∀ q ∈ used, (c.find q).isSome = true ∨ (c.findGroup q).isSome = true) :
    (writeSmartUsage c u (requiredGraph c) used).isSome = true := by
  have h := writeArgUsage_isSome c u ok used hi true
  unfold writeSmartUsage
  cases hw : writeArgUsage c u (requiredGraph c) used true with
  | none => rw [hw] at h; cases h
  | some x => rfl


/-! ### the tree version (`flatten_help`) -/

/-- without `flatten_help` (or without a visible subcommand) the tree version is the one-level usage line the theorems
above are about -/
theorem helpUsageTree_plain (fuel : Nat) (c : Cmd) (t : UTree) (bin : Bytes)
    (ho : t.info.overrideUsage = none) (hf : (hasVisibleSubs c t.info && t.flatten) = false) :
    helpUsageTree (fuel + 1) c t bin = writeHelpUsage c t.info (requiredGraph c) := by
  unfold helpUsageTree
  simp only [ho, hf, Bool.false_eq_true, ↓reduceIte]

/-- an `override_usage` is written as it is, at every level, flattened or not -/
theorem helpUsageTree_override (fuel : Nat) (c : Cmd) (t : UTree) (bin o : Bytes) (ho : t.info.overrideUsage = some o) :
    helpUsageTree (fuel + 1) c t bin = some o := by
  unfold helpUsageTree
  simp only [ho]

/-- `render_usage()` of a level without `flatten_help` is `renderUsage` -/
theorem renderUsageTree_plain (fuel : Nat) (c : Cmd) (t : UTree) (bin : Bytes)
    (hf : (hasVisibleSubs c t.info && t.flatten) = false) :
    renderUsageTree (fuel + 1) c t bin = renderUsage c t.info := by
  unfold renderUsageTree renderUsage usageWithTitle usageNoTitle
  cases ho : t.info.overrideUsage with
  | some o => rw [helpUsageTree_override fuel c t bin o ho]
  | none => rw [helpUsageTree_plain fuel c t bin ho hf]; simp

/-! ### non-vacuity: a concrete level meets `UsageOk`, and its usage line is the expected one -/

/-- `prog --out <out> [in]` with a hidden optional flag `-q` and a hidden optional positional `secret` -/
def exCmd : Cmd :=
  Cmd.mk [112] [] none none [] [] {}
    [ { id := [111], long := some [111, 117, 116], required := true, action := some .set, numVals := some Range.single },
      { id := [113], short := some [113], hide := true, action := some .setTrue, numVals := some Range.empty },
      { id := [105], index := some 1, action := some .set, numVals := some Range.single },
      { id := [115], index := some 2, hide := true, action := some .set, numVals := some Range.single } ]
    [] []

def exInfo : UInfo := { usageName := [112] }

example : UsageOk exCmd where
  groups := by intro g hg; cases hg
  refs := ⟨by decide, by intro g hg; cases hg⟩
  indexed := by decide

/-- `Usage: p --out <o> [i]`: the required option is written, the hidden flag and the hidden positional are not,
and there is no `[OPTIONS]` since the only optional option is hidden -/
example : renderUsage exCmd exInfo = some
    [85, 115, 97, 103, 101, 58, 32, 112, 32, 45, 45, 111, 117, 116, 32, 60, 111, 62, 32, 91, 105, 93] := by decide

end Clap.C12U
