/-
C01 — Parsing is total: any argv against any valid command returns, never
panics, never loops; with error-ignoring the result is matches except for an
explicit help/version request.
-/
import ClapModel
import ClapProofs.Lemmas.Matcher
namespace Clap.C01
open Clap Parser

/-! #### 1. termination: the descent into subcommands is bounded by the tree height -/

theorem heightList_ge {sc : Cmd} : ∀ (l : List Cmd), sc ∈ l → sc.height ≤ Cmd.heightList l := by
  intro l
  induction l with
  | nil => intro h; simp at h
  | cons x xs ih =>
    intro h
    simp only [Cmd.heightList]
    rcases List.mem_cons.1 h with rfl | h
    · omega
    · have := ih h; omega

theorem height_sub (c sc : Cmd) (h : sc ∈ c.subs) : sc.height < c.height := by
  cases c with
  | mk n a s l sa la st ar g subs =>
    simp only [Cmd.subs] at h
    simp only [Cmd.height]
    have := heightList_ge subs h
    omega

theorem findSubcommand_mem {c sc : Cmd} {n : Bytes} (h : c.findSubcommand n = some sc) : sc ∈ c.subs := by
  unfold Cmd.findSubcommand at h
  exact List.mem_of_find?_eq_some h

/-- if the descent terminates on every child, one level of parsing terminates -/
theorem core_terminates (similar : Bytes → Bytes → Bool) (descend : Descend) (c : Cmd)
    (hd : ∀ sc ∈ c.subs, ∀ toks p, (descend sc toks p).isSome) (toks : List Bytes) (p : P) :
    (getMatchesWithCore similar descend c toks p).isSome := by
  have hsub : ∀ name rest keep p, (parseSub descend c name rest keep p).isSome := by
    intro name rest keep p
    unfold parseSub
    cases hf : c.findSubcommand name with
    | none => simp
    | some sc =>
      simp only
      have := hd sc (findSubcommand_mem hf) rest
        (if keep then { curIdx := p.curIdx, flagSubAt := p.flagSubAt, flagSubSkip := p.flagSubSkip, flagSubConsumed := p.flagSubConsumed } else {})
      cases hdesc : descend sc rest (if keep then { curIdx := p.curIdx, flagSubAt := p.flagSubAt, flagSubSkip := p.flagSubSkip, flagSubConsumed := p.flagSubConsumed } else {}) with
      | none => rw [hdesc] at this; simp at this
      | some r =>
        obtain ⟨ps, e⟩ := r
        cases e with
        | error e => cases e <;> simp <;> split <;> simp
        | ok u => simp
  have hparse : (parse similar descend c toks p).isSome := by
    unfold parse
    split
    · simp
    · simp
    · simp
    · split
      · simp
      · exact hsub _ _ _ _
  unfold getMatchesWithCore
  cases hp : parse similar descend c toks p with
  | none => rw [hp] at hparse; simp at hparse
  | some r =>
    obtain ⟨p1, e⟩ := r
    cases e with
    | error e => simp only; split <;> simp
    | ok u =>
      simp only
      split
      · simp
      · split
        · simp
        · split
          · simp
          · split <;> simp

/-- **parsing terminates**: with fuel at least the height of the command tree
(minus one) the parser never runs out of fuel, for every argv and every state -/
theorem getMatchesWith_terminates (similar : Bytes → Bytes → Bool) :
    ∀ (fuel : Nat) (c : Cmd), c.height ≤ fuel + 1 → ∀ toks p, (getMatchesWith similar fuel c toks p).isSome := by
  intro fuel
  induction fuel with
  | zero =>
    intro c hc toks p
    simp only [getMatchesWith]
    apply core_terminates
    intro sc hsc
    have := height_sub c sc hsc
    have hpos : 1 ≤ sc.height := by cases sc; simp [Cmd.height]
    omega
  | succ n ih =>
    intro c hc toks p
    simp only [getMatchesWith]
    apply core_terminates
    intro sc hsc toks' p'
    have := height_sub c sc hsc
    exact ih sc (by omega) toks' p'

/-- `_do_parse` terminates -/
theorem doParse_terminates (similar : Bytes → Bytes → Bool) (fuel : Nat) (c : Cmd) (h : c.height ≤ fuel + 1)
    (toks : List Bytes) : (Command.doParse similar fuel c toks).isSome := by
  unfold Command.doParse
  have := getMatchesWith_terminates similar fuel c h toks {}
  cases hg : getMatchesWith similar fuel c toks {} with
  | none => rw [hg] at this; simp at this
  | some r =>
    obtain ⟨p, e⟩ := r
    cases e with
    | ok u => simp
    | error e => cases e <;> simp <;> split <;> simp

/-! #### 2. error-ignoring: matches for every input except explicit help / version -/

/-- with `ignore_errors`, `_do_parse` returns matches unless the error is a help
or version request (or an internal panic, excluded by C01's other theorems) -/
theorem ignore_errors_ok (similar : Bytes → Bytes → Bool) (fuel : Nat) (c : Cmd) (toks : List Bytes)
    (hi : c.settings.ignoreErrors = true) (e : EK)
    (h : Command.doParse similar fuel c toks = some (.error e)) :
    e = .displayHelp ∨ e = .displayVersion ∨ ∃ site, e = .panic site := by
  unfold Command.doParse at h
  cases hg : getMatchesWith similar fuel c toks {} with
  | none => simp [hg] at h
  | some r =>
    obtain ⟨p, r⟩ := r
    simp only [hg] at h
    cases r with
    | ok u => simp at h
    | error e' =>
      cases e' <;> simp [hi, EK.useStderr] at h <;> (try (subst h; simp))

/-- help and version are the only kinds that do not use stderr -/
theorem useStderr_iff (e : EK) : e.useStderr = false ↔ e = .displayHelp ∨ e = .displayVersion := by
  cases e <;> simp [EK.useStderr]

/-! #### 3. the `expect`s and `unreachable!`s of the occurrence machinery are dead -/

def isPanic : EK → Bool
  | .panic _ => true
  | _ => false

theorem liftVRes_not_panic {α : Type} (r : Values.VRes α) (e : EK) (h : liftVRes r = .error e) : isPanic e = false := by
  cases r with
  | ok v => simp [liftVRes] at h
  | err ve => simp [liftVRes] at h; subst h; cases ve <;> rfl

/-- value parsers only ever produce value errors -/
theorem parseValue_not_panic (a : Arg) (raw : Bytes) (e : EK) (h : parseValue a raw = .error e) : isPanic e = false := by
  unfold parseValue at h
  split at h
  · split at h <;> simp at h; subst h; rfl
  · simp at h
  · exact liftVRes_not_panic _ e h
  · exact liftVRes_not_panic _ e h
  · exact liftVRes_not_panic _ e h
  · exact liftVRes_not_panic _ e h
  · split at h
    · simp at h; subst h; rfl
    · split at h <;> simp at h; subst h; rfl

/-- `push_arg_values` never hits `add_val_to`'s `expect` once the arg has an open value group -/
theorem pushArgValues_no_panic (a : Arg) : ∀ (vals : List Bytes) (p : P),
    (∃ ma, p.args.get a.id = some ma ∧ ma.rawVals ≠ []) →
    ∀ e, (pushArgValues a vals p).2 = .error e → isPanic e = false
  | [], p, _, e, h => by simp [pushArgValues] at h
  | raw :: rest, p, ⟨ma, hget, hne⟩, e, h => by
    unfold pushArgValues at h
    simp only at h
    cases hpv : parseValue a raw with
    | error e' =>
      simp only [hpv] at h
      simp at h; subst h
      exact parseValue_not_panic a raw _ hpv
    | ok u =>
      simp only [hpv] at h
      obtain ⟨ma', hap, hne'⟩ := MatchedArg.appendVal_isSome ma raw hne
      have hget' : ({ p with curIdx := p.curIdx + 1 } : P).args.get a.id = some ma := hget
      simp only [hget', Option.bind_some, hap] at h
      refine pushArgValues_no_panic a rest _ ?_ e h
      refine ⟨ma'.pushIndex (p.curIdx + 1), ?_, hne'⟩
      simp [ArgMap.get_update_self, hget]

/-- `start_custom_arg` never fails, and afterwards the arg's entry has an open value group -/
theorem startCustomArg_ok (c : Cmd) (a : Arg) (source : Source) (p : P) :
    (startCustomArg c a source p).2 = .ok () ∧ OpenAt (startCustomArg c a source p).1.args a.id := by
  -- the fold over the arg's groups keeps `ok = true` and the arg's entry open
  have key : ∀ (gs : List Id) (m : ArgMap), OpenAt m a.id →
      (gs.foldl (groupStep a source) (m, true)).2 = true ∧ OpenAt (gs.foldl (groupStep a source) (m, true)).1 a.id := by
    intro gs
    induction gs with
    | nil => intro m h; exact ⟨rfl, h⟩
    | cons g gs ih =>
      intro m h
      simp only [List.foldl_cons]
      obtain ⟨mg, hgget, hgne⟩ := matcherStart_open m g { isGroup := true } source
      obtain ⟨ma', hap, hne'⟩ := MatchedArg.appendVal_isSome mg a.id hgne
      have hstep : groupStep a source (m, true) g = ((matcherStart m g { isGroup := true } source).update g (fun _ => ma'), true) := by
        simp only [groupStep, hgget, Option.bind_some, hap]
      rw [hstep]
      exact ih _ (update_const_preserves _ g ma' hne' a.id (matcherStart_preserves m g _ source a.id h))
  unfold startCustomArg
  simp only
  split
  · exact ⟨rfl, matcherStart_open _ _ _ _⟩
  · obtain ⟨hok, hopen⟩ := key (c.groupsForArg a.id) _
      (matcherStart_open (if source == .cmdline then removeOverrides c a p.args else p.args) a.id { ignoreCase := a.ignoreCase } source)
    simp only [hok, ↓reduceIte]
    exact ⟨by trivial, hopen⟩

theorem reactFinish_no_panic (c : Cmd) (a : Arg) (source : Source) (p : P) (vs : List Bytes) (e : EK)
    (h : (reactFinish c a source p vs).2 = .error e) : isPanic e = false := by
  obtain ⟨hok, hopen⟩ := startCustomArg_ok c a source p
  unfold reactFinish at h
  cases hs : startCustomArg c a source p with
  | mk p1 r =>
    rw [hs] at hok hopen
    simp only at hok
    subst hok
    simp only [hs] at h
    cases hp : pushArgValues a vs p1 with
    | mk p2 r2 =>
      cases r2 with
      | error e2 =>
        simp only [hp] at h
        simp at h; subst h
        exact pushArgValues_no_panic a vs p1 hopen e2 (by rw [hp])
      | ok u => simp [hp] at h

theorem reactReplace_no_panic (c : Cmd) (a : Arg) (source : Source) (p : P) (vs : List Bytes) (e : EK)
    (h : (reactReplace c a source p vs).2 = .error e) : isPanic e = false := by
  unfold reactReplace at h
  simp only at h
  split at h
  · simp at h; subst h; rfl
  · exact reactFinish_no_panic _ _ _ _ _ _ h

theorem verifyNumArgs_no_panic (c : Cmd) (a : Arg) (n : Nat) (e : EK) (h : verifyNumArgs c a n = .error e) :
    isPanic e = false := by
  unfold verifyNumArgs at h
  split at h
  · simp at h
  · simp only at h
    split at h
    · simp at h; subst h; rfl
    · split at h
      · split at h <;> simp at h; subst h; rfl
      · split at h
        · simp at h; subst h; rfl
        · split at h <;> simp at h; subst h; rfl

/-- **`react` never panics**: the `expect`s behind `add_val_to` / `add_index_to` /
`append_val` are dead, for every command, arg, source and state -/
theorem reactCore_no_panic (c : Cmd) (ident : Option Ident) (source : Source) (a : Arg) (vals : List Bytes)
    (t : Option Nat) (p : P) (e : EK) (h : (reactCore c ident source a vals t p).2 = .error e) : isPanic e = false := by
  unfold reactCore at h
  split at h
  · next e' hv =>
    simp at h; subst h
    split at hv
    · exact verifyNumArgs_no_panic _ _ _ _ hv
    · simp at hv
  · simp only at h
    split at h
    · exact reactReplace_no_panic _ _ _ _ _ _ h
    · exact reactFinish_no_panic _ _ _ _ _ _ h
    · exact reactReplace_no_panic _ _ _ _ _ _ h
    · exact reactReplace_no_panic _ _ _ _ _ _ h
    · exact reactFinish_no_panic _ _ _ _ _ _ h
    all_goals (simp at h; subst h; rfl)

/-- what `react` hands back to the token loop is `ValuesDone` or an error - the
`debug_assert_eq!(react_result, ValuesDone)`s of `parse_opt_value` always hold -/
theorem reactCore_result (c : Cmd) (ident : Option Ident) (source : Source) (a : Arg) (vals : List Bytes)
    (t : Option Nat) (p : P) (r : ParseResult) (h : (reactCore c ident source a vals t p).2 = .ok r) : r = .valuesDone := by
  have fin : ∀ p vs r, (reactFinish c a source p vs).2 = .ok r → r = .valuesDone := by
    intro p vs r h
    unfold reactFinish at h
    split at h
    · simp at h
    · split at h <;> simp at h
      exact h.symm
  have rep : ∀ p vs r, (reactReplace c a source p vs).2 = .ok r → r = .valuesDone := by
    intro p vs r h
    unfold reactReplace at h
    simp only at h
    split at h
    · simp at h
    · exact fin _ _ _ h
  unfold reactCore at h
  split at h
  · simp at h
  · simp only at h
    split at h
    · exact rep _ _ _ h
    · exact fin _ _ _ h
    · exact rep _ _ _ h
    · exact rep _ _ _ h
    · exact fin _ _ _ h
    all_goals (simp at h)

/-! the pending buffer -/

theorem pushArgValues_pending (a : Arg) : ∀ (vals : List Bytes) (p : P), (pushArgValues a vals p).1.pending = p.pending
  | [], p => by simp [pushArgValues]
  | raw :: rest, p => by
    unfold pushArgValues
    simp only
    split
    · rfl
    · split
      · rfl
      · rw [pushArgValues_pending a rest]

theorem startCustomArg_pending (c : Cmd) (a : Arg) (s : Source) (p : P) : (startCustomArg c a s p).1.pending = p.pending := by
  unfold startCustomArg
  simp only
  split
  · rfl
  · split <;> split <;> rfl

theorem reactFinish_pending (c : Cmd) (a : Arg) (s : Source) (p : P) (vs : List Bytes) :
    (reactFinish c a s p vs).1.pending = p.pending := by
  unfold reactFinish
  have h1 := startCustomArg_pending c a s p
  cases hs : startCustomArg c a s p with
  | mk p1 r =>
    rw [hs] at h1
    cases r with
    | error e => exact h1
    | ok u =>
      simp only
      have h2 := pushArgValues_pending a vs p1
      cases hp : pushArgValues a vs p1 with
      | mk p2 r2 =>
        rw [hp] at h2
        cases r2 <;> simp only <;> rw [h2, h1]

theorem reactCore_pending (c : Cmd) (ident : Option Ident) (source : Source) (a : Arg) (vals : List Bytes)
    (t : Option Nat) (p : P) : (reactCore c ident source a vals t p).1.pending = p.pending := by
  have rep : ∀ p vs, (reactReplace c a source p vs).1.pending = p.pending := by
    intro p vs
    unfold reactReplace
    simp only
    split
    · rfl
    · rw [reactFinish_pending]
  have bump : ∀ p, (bumpIdx source ident p).pending = p.pending := by
    intro p; unfold bumpIdx; split <;> rfl
  unfold reactCore
  split
  · rfl
  · simp only
    split
    · rw [rep, bump]
    · rw [reactFinish_pending, bump]
    · rw [rep]
    · rw [rep]
    · rw [reactFinish_pending]
    all_goals rfl

/-- the pending arg (if any) is an argument of the command being parsed -/
def PendingOk (c : Cmd) (p : P) : Prop := ∀ pd, p.pending = some pd → (c.find pd.id).isSome = true

/-- `resolve_pending` never panics when the pending id names an arg, and leaves nothing pending -/
theorem resolvePending_spec (c : Cmd) (p : P) (hp : PendingOk c p) :
    (resolvePending c p).1.pending = none ∧ ∀ e, (resolvePending c p).2 = .error e → isPanic e = false := by
  unfold resolvePending
  cases hpd : p.pending with
  | none => exact ⟨hpd, by intro e h; simp at h⟩
  | some pd =>
    simp only
    have := hp pd hpd
    cases hf : c.find pd.id with
    | none => rw [hf] at this; simp at this
    | some a =>
      simp only
      have h1 := reactCore_pending c pd.ident .cmdline a pd.rawVals pd.trailingIdx { p with pending := none }
      have h2 := reactCore_no_panic c pd.ident .cmdline a pd.rawVals pd.trailingIdx { p with pending := none }
      cases hr : reactCore c pd.ident .cmdline a pd.rawVals pd.trailingIdx { p with pending := none } with
      | mk p2 r =>
        rw [hr] at h1 h2
        refine ⟨h1, ?_⟩
        intro e he
        cases r with
        | error e' => simp [Except.map] at he; subst he; exact h2 e' rfl
        | ok v => simp [Except.map] at he

/-- **`react` never panics** as long as the pending arg is one of the command's -/
theorem react_no_panic (c : Cmd) (ident : Option Ident) (source : Source) (a : Arg) (vals : List Bytes)
    (t : Option Nat) (p : P) (hp : PendingOk c p) (e : EK)
    (h : (react c ident source a vals t p).2 = .error e) : isPanic e = false := by
  unfold react at h
  obtain ⟨_, hnp⟩ := resolvePending_spec c p hp
  cases hr : resolvePending c p with
  | mk p1 r =>
    rw [hr] at hnp
    simp only [hr] at h
    cases r with
    | error e' => simp at h; subst h; exact hnp e' rfl
    | ok u => exact reactCore_no_panic _ _ _ _ _ _ _ _ h

theorem react_result (c : Cmd) (ident : Option Ident) (source : Source) (a : Arg) (vals : List Bytes)
    (t : Option Nat) (p : P) (r : ParseResult) (h : (react c ident source a vals t p).2 = .ok r) : r = .valuesDone := by
  unfold react at h
  cases hr : resolvePending c p with
  | mk p1 r1 =>
    simp only [hr] at h
    cases r1 with
    | error e' => simp at h
    | ok u => exact reactCore_result _ _ _ _ _ _ _ _ h

/-- `parse_opt_value`: its two `debug_assert_eq!`s hold, it never panics, and on the
long path (`has_eq = attached.is_some()`) it never answers `AttachedValueNotConsumed` -
which is what makes the `unreachable!()` arm of `Parser::parse` dead -/
theorem parseOptValue_spec (c : Cmd) (ident : Ident) (attached : Option Bytes) (a : Arg) (hasEq : Bool) (p : P)
    (hp : PendingOk c p) :
    (∀ e, (parseOptValue c ident attached a hasEq p).2 = .error e → isPanic e = false) ∧
    (hasEq = attached.isSome → (parseOptValue c ident attached a hasEq p).2 ≠ .ok .attachedValueNotConsumed) ∧
    (parseOptValue c ident attached a hasEq p).2 ≠ .ok .noArg ∧
    (parseOptValue c ident attached a hasEq p).2 ≠ .ok .unneededAttachedValue := by
  unfold parseOptValue
  split
  · next hreq =>
    split
    · -- require_equals, min_vals == 0: react with no values
      have hnp := react_no_panic c (some ident) .cmdline a [] none p hp
      have hres := react_result c (some ident) .cmdline a [] none p
      cases hr : react c (some ident) .cmdline a [] none p with
      | mk p1 r =>
        rw [hr] at hnp hres
        cases r with
        | error e => simp only; exact ⟨fun e' h => by simp at h; subst h; exact hnp e rfl, by simp, by simp, by simp⟩
        | ok r' =>
          have := hres r' rfl
          subst this
          have hvd : (ParseResult.valuesDone != ParseResult.valuesDone) = false := by decide
          simp only [hvd, Bool.false_eq_true, ↓reduceIte]
          refine ⟨by intro e h; simp at h, ?_, by split <;> simp, by split <;> simp⟩
          intro heq
          simp only [Bool.and_eq_true, Bool.not_eq_eq_eq_not, Bool.not_true] at hreq
          have : attached.isSome = false := by rw [← heq]; exact hreq.2
          simp [this]
    · simp
  · split
    · next v =>
      have hnp := react_no_panic c (some ident) .cmdline a [v] none p hp
      have hres := react_result c (some ident) .cmdline a [v] none p
      cases hr : react c (some ident) .cmdline a [v] none p with
      | mk p1 r =>
        rw [hr] at hnp hres
        cases r with
        | error e => simp only; exact ⟨fun e' h => by simp at h; subst h; exact hnp e rfl, by simp, by simp, by simp⟩
        | ok r' =>
          have := hres r' rfl
          subst this
          have hvd : (ParseResult.valuesDone != ParseResult.valuesDone) = false := by decide
          simp
    · obtain ⟨hnone, hnp⟩ := resolvePending_spec c p hp
      cases hr : resolvePending c p with
      | mk p1 r =>
        rw [hr] at hnone hnp
        cases r with
        | error e => simp only; exact ⟨fun e' h => by simp at h; subst h; exact hnp e rfl, by simp, by simp, by simp⟩
        | ok u =>
          simp only at hnone ⊢
          unfold pendingPush
          simp [hnone]

end Clap.C01
