/-
C01 — parsing never panics, end to end: token loop, hand-over to the subcommand (also after a short flag
subcommand in the middle of a cluster), pending values, env and default passes, validator, for every command
tree meeting clap's own build assertions and every argv.
-/
import ClapProofs.C01Loop
import ClapProofs.C09
import ClapProofs.C01Valid
namespace Clap.C01
open Clap Parser

/-! #### every name the loop dispatches to is a subcommand of the level -/

theorem mem_name_resolves (c : Cmd) {l : Option Cmd} {n : Bytes} {q : Cmd → Bool} (hl : l = c.subs.find? q)
    (h : l.map Cmd.name = some n) : (c.findSubcommand n).isSome = true := by
  subst hl
  cases hf : c.subs.find? q with
  | none => simp [hf] at h
  | some sc =>
    simp [hf] at h; subst h
    exact C09.findSubcommand_self c sc (List.mem_of_find?_eq_some hf)

theorem findShortSubcmd_resolves (c : Cmd) (ch n : Bytes) (h : c.findShortSubcmd ch = some n) :
    (c.findSubcommand n).isSome = true :=
  mem_name_resolves c rfl h

theorem possibleLongFlagSubcommand_resolves (c : Cmd) (arg n : Bytes)
    (h : possibleLongFlagSubcommand c arg = some n) : (c.findSubcommand n).isSome = true := by
  unfold possibleLongFlagSubcommand at h
  simp only at h
  split at h
  · next n' hinf =>
    simp at h; subst h
    split at hinf
    · split at hinf
      · next cands x hx =>
        simp at hinf; subst hinf
        have hmem : x ∈ [x] := by simp
        rw [← hx] at hmem
        simp only [List.mem_filterMap] at hmem
        obtain ⟨s, hs, hsx⟩ := hmem
        split at hsx
        · simp at hsx
        · split at hsx
          · simp at hsx; subst hsx; exact C09.findSubcommand_self c s hs
          · split at hsx
            · simp at hsx; subst hsx; exact C09.findSubcommand_self c s hs
            · simp at hsx
      · simp at hinf
    · simp at hinf
  · exact mem_name_resolves c rfl h

theorem parseLongArg_flagsub (c : Cmd) (longArg : Bytes) (u : Bool) (longValue : Option Bytes) (st : ParseState)
    (pc : Nat) (vaf : Bool) (p : P) (hp : PendingOk c p) :
    ∀ n v, (parseLongArg c longArg u longValue st pc vaf p).2 = .ok (.flagSubCommand n, v) →
      (c.findSubcommand n).isSome = true := by
  unfold parseLongArg
  split
  · intro n v h; simp at h
  · split
    · intro n v h; simp at h
    · split
      · intro n v h; simp at h
      · split
        · intro n v h; simp at h
        · split
          · next a hf =>
            split
            · have hsh := parseOptValue_shape c .long longValue a longValue.isSome p hp
              cases hr : parseOptValue c .long longValue a longValue.isSome p with
              | mk p1 r1 =>
                rw [hr] at hsh
                cases r1 with
                | error e => intro n v h; simp at h
                | ok r' =>
                  intro n v h
                  simp at h
                  obtain ⟨rfl, _⟩ := h
                  rcases hsh _ rfl with h1 | h1 | ⟨h1 | h1, _⟩ <;> cases h1
            · split
              · intro n v h; simp at h
              · have hres := react_result c (some .long) .cmdline a [] none p
                cases hr : Parser.react c (some .long) .cmdline a [] none p with
                | mk p1 r1 =>
                  rw [hr] at hres
                  cases r1 with
                  | error e => intro n v h; simp at h
                  | ok r' =>
                    have := hres r' rfl
                    subst this
                    intro n v h; simp at h
          · split
            · next n0 hn0 =>
              intro n v h
              simp at h
              obtain ⟨rfl, _⟩ := h
              exact possibleLongFlagSubcommand_resolves c longArg _ hn0
            · split <;> (intro n v h; simp at h)

/-- the flag loop dispatches only to subcommands of the level, and the count of consumed flags it leaves for the
revisit stays within the cluster -/
theorem shortLoop_flagsub (c : Cmd) (N : Nat) : ∀ (fuel : Nat) (sf : ShortFlags) (consumed : Nat) (ret : ParseResult)
    (vaf : Bool) (p : P), PendingOk c p → (ret = .noArg ∨ ret = .valuesDone) → consumed + sf.chars.length ≤ N →
    ∀ n v, (shortLoop c sf fuel consumed ret vaf p).2 = .ok (.flagSubCommand n, v) →
      (c.findSubcommand n).isSome = true ∧ (shortLoop c sf fuel consumed ret vaf p).1.flagSubConsumed ≤ N := by
  intro fuel
  induction fuel with
  | zero =>
    intro sf consumed ret vaf p _ hret _ n v h
    unfold shortLoop at h
    simp at h
    rcases hret with h1 | h1 <;> rw [h1] at h <;> cases h.1
  | succ fuel ih =>
    intro sf consumed ret vaf p hp hret hN
    unfold shortLoop
    simp only
    split
    · intro n v h; simp at h; rcases hret with h1 | h1 <;> rw [h1] at h <;> cases h.1
    · intro n v h; simp at h
    · next sf1 ch hnf =>
      have hlen : sf.chars.length = sf1.chars.length + 1 := by
        unfold ShortFlags.nextFlag at hnf
        split at hnf
        · next c0 cs hc => simp at hnf; rw [hc, ← hnf.1]; simp
        · split at hnf <;> simp at hnf
      split
      · next a hg =>
        split
        · have h1 := react_pending c (some .short) .cmdline a [] none p hp
          have hres := react_result c (some .short) .cmdline a [] none p
          cases hr : Parser.react c (some .short) .cmdline a [] none p with
          | mk p1 r1 =>
            rw [hr] at h1 hres
            cases r1 with
            | error e => intro n v h; simp at h
            | ok r' =>
              have := hres r' rfl
              subst this
              exact ih sf1 (consumed + 1) .valuesDone true p1 (PendingOk.of_none h1) (Or.inr rfl) (by omega)
        · generalize shortAttached sf1 = vh
          obtain ⟨val, hasEq⟩ := vh
          simp only
          have hsh := parseOptValue_shape c .short val a hasEq p hp
          cases hr : parseOptValue c .short val a hasEq p with
          | mk p1 r1 =>
            rw [hr] at hsh
            cases r1 with
            | error e => intro n v h; simp at h
            | ok r' =>
              cases r' with
              | attachedValueNotConsumed =>
                have hn : p1.pending = none := by
                  rcases hsh _ rfl with h1 | h1 | ⟨_, h1⟩
                  · cases h1
                  · cases h1
                  · exact h1
                exact ih sf1 (consumed + 1) ret true p1 (PendingOk.of_none hn) hret (by omega)
              | flagSubCommand n0 =>
                intro n v h
                rcases hsh _ rfl with h1 | h1 | ⟨h1 | h1, _⟩ <;> cases h1
              | _ => intro n v h; simp at h
      · split
        · next name hname =>
          cases hr : resolvePending c p with
          | mk p1 r1 =>
            cases r1 with
            | error e => intro n v h; simp at h
            | ok u =>
              intro n v h
              simp at h
              obtain ⟨rfl, _⟩ := h
              exact ⟨findShortSubcmd_resolves c ch _ hname, by simp; omega⟩
        · intro n v h; simp at h

theorem parseShortArg_flagsub (c : Cmd) (sf : ShortFlags) (st : ParseState) (pc : Nat) (vaf : Bool) (p : P)
    (hp : PendingOk c p) (hf : p.flagSubSkip ≤ sf.chars.length) :
    ∀ n v, (parseShortArg c sf st pc vaf p).2 = .ok (.flagSubCommand n, v) →
      (c.findSubcommand n).isSome = true ∧ (parseShortArg c sf st pc vaf p).1.flagSubConsumed ≤ sf.chars.length := by
  unfold parseShortArg
  split
  · intro n v h; simp at h
  · simp only
    split
    · intro n v h; simp at h
    · split
      · intro n v h; simp at h
      · split
        · intro n v h; simp at h
        · obtain ⟨sf1, hadv, hlen⟩ := advanceBy_spec p.flagSubSkip 0 sf hf
          rw [hadv]
          simp only
          exact shortLoop_flagsub c sf.chars.length _ sf1 _ .noArg vaf { p with flagSubSkip := 0 } hp (Or.inl rfl) (by omega)

/-! #### how the loop can end -/

/-- the loop's result is fit for the rest of `Parser::parse`: a dispatch names a subcommand of the level, and a
revisit of the current cluster (`keep_state`) skips no more flags than the cluster has -/
def EndOk (c : Cmd) (p' : P) : LoopEnd → Prop
  | .done => True
  | .external _ _ => True
  | .sub name rest keep _ => (c.findSubcommand name).isSome = true ∧
      (keep = true → ∃ tok rest' sf, rest = tok :: rest' ∧ ParsedArg.toShort tok = some sf ∧
        p'.flagSubSkip ≤ sf.chars.length)

def KEnd (c : Cmd) (k : LoopSt → P → R LoopEnd) : Prop :=
  ∀ ls p, PInv c p → SInv c ls p → ∀ p' le, k ls p = (p', .ok le) → PendingOk c p' ∧ EndOk c p' le

theorem condResolve_spec (c : Cmd) (a : Arg) (n : Nat) (p : P) (hp : PInv c p) (hfind : c.find a.id = some a)
    (hidx : a.index = some n) (r1 : R Unit)
    (hr : r1 = (if (p.pending.map (·.id) != some a.id || !a.isMultipleValues) = true
            then resolvePending c p else (p, .ok ()))) :
    (∀ e, r1.2 = .error e → isPanic e = false) ∧ PInv c r1.1 ∧
    (r1.1.pending = none ∨ ∃ pd, r1.1.pending = some pd ∧ pd.id = a.id ∧ pd.ident = some .index) := by
  split at hr
  · subst hr
    obtain ⟨hnone, hnp⟩ := resolvePending_spec c p hp.pendingOk
    exact ⟨hnp, hp.resolve, Or.inl hnone⟩
  · next hcond =>
    subst hr
    refine ⟨by simp, hp, ?_⟩
    cases hpd : p.pending with
    | none => exact Or.inl rfl
    | some pd =>
      right
      simp [hpd] at hcond
      obtain ⟨a', ha', hor⟩ := hp.2 pd hpd
      rw [hcond.1, hfind] at ha'
      simp at ha'; subst ha'
      refine ⟨pd, rfl, hcond.1, ?_⟩
      rcases hor with h1 | h1
      · exact h1
      · rw [hidx] at h1; cases h1

theorem SInv.valuesDone (c : Cmd) (ls' : LoopSt) (p' : P) (hst : ls'.st = .valuesDone) : SInv c ls' p' :=
  ⟨by rw [hst]; simp [stateArg], by intro id hid; rw [hst] at hid; cases hid⟩

theorem positionalPart_end (c : Cmd) (wf : WF c) (similar : Bytes → Bytes → Bool) (tok : Bytes) (rest : List Bytes)
    (k : LoopSt → P → R LoopEnd) (hk : KEnd c k) (ls : LoopSt) (p : P) (hp : PInv c p) :
    ∀ p' le, positionalPart c similar tok rest k ls p = (p', .ok le) → PendingOk c p' ∧ EndOk c p' le := by
  intro p' le h
  unfold positionalPart at h
  simp only at h
  split at h
  · next a hg =>
    obtain ⟨hfind, hidx⟩ := getPos_spec wf hg
    split at h
    · cases h
    · generalize hgen : (if (p.pending.map (·.id) != some a.id || !a.isMultipleValues) = true
            then resolvePending c p else (p, .ok ())) = r1 at h
      obtain ⟨_, hinv1, hpend1⟩ := condResolve_spec c a _ p hp hfind hidx r1 hgen.symm
      obtain ⟨p1, res1⟩ := r1
      cases res1 with
      | error e1 => cases h
      | ok u =>
        simp only at h hinv1 hpend1
        split at h
        · exact hk _ _ hinv1 (SInv.valuesDone c _ _ rfl) p' le h
        · obtain ⟨pend, hpush, hpid, hpident⟩ := pendingPush_index p1 a.id (ls.trailing || a.trailingVarArg) tok hpend1
          rw [hpush] at h
          simp only at h
          have hinv2 : PInv c { p1 with pending := some pend } := by
            refine ⟨hinv1.1, ?_⟩
            intro pd hpd
            simp at hpd; subst hpd
            exact ⟨a, by rw [hpid]; exact hfind, Or.inl hpident⟩
          split at h
          · exact hk _ _ hinv2 (SInv.valuesDone c _ _ rfl) p' le h
          · refine hk _ _ hinv2 ⟨?_, ?_⟩ p' le h
            · simp [stateArg, hfind]
            · intro id hid; cases hid
  · split at h
    · split at h
      · cases h
      · cases h; exact ⟨hp.pendingOk, trivial⟩
    · cases h

theorem optValuePart_end (c : Cmd) (wf : WF c) (similar : Bytes → Bytes → Bool) (tok : Bytes) (rest : List Bytes)
    (k : LoopSt → P → R LoopEnd) (hk : KEnd c k) (ls : LoopSt) (p : P) (hp : PInv c p) (hs : SInv c ls p) :
    ∀ p' le, optValuePart c similar tok rest k ls p = (p', .ok le) → PendingOk c p' ∧ EndOk c p' le := by
  intro p' le h
  unfold optValuePart at h
  split at h
  · next id hst =>
    obtain ⟨hsa, hpend⟩ := hs
    obtain ⟨⟨a0, ha0, hidx0⟩, hpend⟩ := hpend id hst
    rw [ha0] at h
    simp only at h
    have haid := find_id ha0
    split at h
    · exact hk _ _ hp (SInv.valuesDone c _ _ rfl) p' le h
    · obtain ⟨pend, hpush, hpid⟩ := pendingPush_opt p id tok hpend
      rw [hpush] at h
      simp only at h
      have hinv : PInv c { p with pending := some pend } := by
        refine ⟨hp.1, ?_⟩
        intro pd' hpd'
        simp at hpd'; subst hpd'
        exact ⟨a0, by rw [hpid]; exact ha0, Or.inr hidx0⟩
      split at h
      · refine hk _ _ hinv ⟨?_, ?_⟩ p' le h
        · simp [stateArg, haid, ha0]
        · intro id' hid'
          simp at hid'
          refine ⟨⟨a0, by rw [← hid', haid]; exact ha0, hidx0⟩, ?_⟩
          intro pd' hpd'
          simp at hpd'; subst hpd'
          rw [hpid, ← hid', haid]
      · exact hk _ _ hinv (SInv.valuesDone c _ _ rfl) p' le h
  · exact positionalPart_end c wf similar tok rest k hk ls p hp p' le h

/-- **how the token loop ends**: with nothing but a well-formed pending arg, and - when it dispatches - on a
subcommand of this level, any revisit staying within the cluster -/
theorem loop_end (c : Cmd) (wf : WF c) (similar : Bytes → Bytes → Bool) :
    ∀ (toks : List Bytes) (ls : LoopSt) (p : P), PInv c p → SInv c ls p →
      ∀ p' le, loop c similar ls toks p = (p', .ok le) → PendingOk c p' ∧ EndOk c p' le := by
  intro toks
  induction toks with
  | nil => intro ls p hp _ p' le h; simp [loop] at h; obtain ⟨rfl, rfl⟩ := h; exact ⟨hp.pendingOk, trivial⟩
  | cons tok rest ih =>
    intro ls p hp hs p' le h
    have hk : KEnd c (fun ls p => loop c similar ls rest p) := fun ls p hp hs p' le h => ih ls p hp hs p' le h
    rw [loop] at h
    generalize (fun ls p => loop c similar ls rest p) = k at h hk
    have hopt : ∀ (ls' : LoopSt) (p' : P) (id : Id), ls'.st = .opt id → ResOk c p' (.opt id) → SInv c ls' p' := by
      intro ls' p' id hst hres
      obtain ⟨⟨a, ha, hidx⟩, pd, hpd, hpid⟩ := hres.2 id rfl
      refine ⟨by rw [hst]; simp [stateArg, ha], ?_⟩
      intro id' hid'
      rw [hst] at hid'
      cases hid'
      exact ⟨⟨a, ha, hidx⟩, by intro pd' hpd'; rw [hpd] at hpd'; cases hpd'; exact hpid⟩
    split at h
    · exact positionalPart_end c wf similar tok rest k hk ls p hp p' le h
    · simp only at h
      split at h
      · next sc hsc =>
        split at h
        · cases h
        · cases h
          refine ⟨hp.pendingOk, ?_, by intro hk'; cases hk'⟩
          split at hsc
          · exact C09.possibleSubcommand_resolves c tok _ _ hsc
          · cases hsc
      · split at h
        · split at h
          · cases h
          · split at h
            · exact optValuePart_end c wf similar tok rest k hk ls p hp hs p' le h
            · obtain ⟨h1, h2⟩ := startTrailing_inv hp hs { ls with trailing := true } rfl
              exact hk _ _ h1 h2 p' le h
        · split at h
          · next longArg isUtf8 longValue hl =>
            obtain ⟨hinv, hnp, hres⟩ := parseLongArg_spec c wf longArg isUtf8 longValue ls.st ls.posCounter
              ls.validArgFound p hp hs.1 (toLong_nonempty hl)
            have hkeep := parseLongArg_keep c longArg isUtf8 longValue ls.st ls.posCounter ls.validArgFound p hp.pendingOk
            have hfs := parseLongArg_flagsub c longArg isUtf8 longValue ls.st ls.posCounter ls.validArgFound p hp.pendingOk
            split at h
            · cases h
            · next p1 r vaf heq =>
              rw [heq] at hinv hres hkeep hfs
              obtain ⟨hnoarg, hresok⟩ := hres r vaf rfl
              simp only at h hinv
              split at h
              · cases h
              · exact hk _ _ hinv (SInv.valuesDone c _ _ rfl) p' le h
              · next id => exact hk _ _ hinv (hopt _ _ id rfl hresok) p' le h
              · next name =>
                cases h
                exact ⟨hinv.pendingOk, hfs name vaf rfl, by intro hk'; cases hk'⟩
              · cases h
              · cases h
              · cases h
              · have hp1 : p1 = p := hkeep _ vaf rfl (Or.inr rfl)
                exact optValuePart_end c wf similar tok rest k hk { ls with validArgFound := vaf } p1 hinv
                  (hs.keep (ls' := { ls with validArgFound := vaf }) rfl (Or.inr (by rw [hp1]))) p' le h
              · cases h
          · split at h
            · next sf hsf =>
              have hf0 : p.flagSubSkip ≤ sf.chars.length := by rw [hp.1]; exact Nat.zero_le _
              obtain ⟨hinv, hnp, hres⟩ := parseShortArg_spec c wf sf ls.st ls.posCounter ls.validArgFound p hp.2 hf0 hs.1
              have hkeep := parseShortArg_keep c sf ls.st ls.posCounter ls.validArgFound p hp.pendingOk
              have hfs := parseShortArg_flagsub c sf ls.st ls.posCounter ls.validArgFound p hp.pendingOk hf0
              split at h
              · cases h
              · next p1 r vaf heq =>
                rw [heq] at hinv hres hkeep hfs
                obtain ⟨hunn, hresok⟩ := hres r vaf rfl
                simp only at h hinv
                split at h
                · exact optValuePart_end c wf similar tok rest k hk { ls with validArgFound := vaf } p1 hinv
                    (hs.keep (ls' := { ls with validArgFound := vaf }) rfl (hkeep _ vaf rfl (Or.inl rfl))) p' le h
                · exact hk _ _ hinv (SInv.valuesDone c _ _ rfl) p' le h
                · next id => exact hk _ _ hinv (hopt _ _ id rfl hresok) p' le h
                · next name =>
                  obtain ⟨hfind, hcons⟩ := hfs name vaf rfl
                  split at h
                  · cases h
                    refine ⟨?_, hfind, ?_⟩
                    · intro pd hpd; exact hinv.pendingOk pd hpd
                    · intro _; exact ⟨tok, rest, sf, rfl, hsf, hcons⟩
                  · cases h
                    exact ⟨hinv.pendingOk, hfind, by intro hk'; cases hk'⟩
                · cases h
                · cases h
                · exact optValuePart_end c wf similar tok rest k hk { ls with validArgFound := vaf } p1 hinv
                    (hs.keep (ls' := { ls with validArgFound := vaf }) rfl (hkeep _ vaf rfl (Or.inr rfl))) p' le h
                · cases h
                · cases h
            · exact optValuePart_end c wf similar tok rest k hk ls p hp hs p' le h

/-! #### entering a level -/

theorem toShort_not_long {tok : Bytes} {sf : ShortFlags} (h : ParsedArg.toShort tok = some sf) :
    ParsedArg.isEscape tok = false ∧ ParsedArg.toLong tok = none := by
  cases tok with
  | nil => simp [ParsedArg.toShort, Bytes.stripPrefix] at h
  | cons t ts =>
    by_cases ht : t = Bytes.dash
    · subst ht
      have hs : Bytes.stripPrefix (Bytes.dash :: ts) [Bytes.dash] = some ts := by simp [Bytes.stripPrefix]
      unfold ParsedArg.toShort at h
      rw [hs] at h
      simp only at h
      split at h
      · simp at h
      · next hsw =>
        cases ts with
        | nil => simp at h
        | cons r rs =>
          have hr : (r == Bytes.dash) = false := by
            simpa [Bytes.startsWith] using hsw
          constructor
          · unfold ParsedArg.isEscape
            apply Bool.eq_false_iff.2
            intro heq
            have : Bytes.dash :: r :: rs = [Bytes.dash, Bytes.dash] := by simpa using heq
            simp at this
            rw [this.1] at hr
            simp at hr
          · unfold ParsedArg.toLong
            simp [Bytes.stripPrefix, hr]
    · have hs : Bytes.stripPrefix (t :: ts) [Bytes.dash] = none := by simp [Bytes.stripPrefix, ht]
      unfold ParsedArg.toShort at h
      rw [hs] at h
      simp at h

/-- the state in which `Parser::parse` is entered: nothing pending, and either no revisit in progress or the
first token is the cluster being revisited, with a skip count within it -/
def Entry (toks : List Bytes) (p : P) : Prop :=
  p.pending = none ∧
  (p.flagSubSkip = 0 ∨ ∃ tok rest sf, toks = tok :: rest ∧ ParsedArg.toShort tok = some sf ∧ p.flagSubSkip ≤ sf.chars.length)

/-- **the token loop from the entry state**: never panics and ends as `loop_end` says - also when the level is
entered to revisit a cluster after a short flag subcommand -/
theorem loop_entry (c : Cmd) (wf : WF c) (similar : Bytes → Bytes → Bool) (toks : List Bytes) (p : P)
    (he : Entry toks p) :
    (∀ e, (loop c similar {} toks p).2 = .error e → isPanic e = false) ∧
    (∀ p' le, loop c similar {} toks p = (p', .ok le) → PendingOk c p' ∧ EndOk c p' le) := by
  obtain ⟨hnone, hor⟩ := he
  have hpend : PendInv c p := by intro pd hpd; rw [hnone] at hpd; cases hpd
  have hs0 : SInv c {} p := SInv.valuesDone c _ _ rfl
  rcases hor with h0 | ⟨tok, rest, sf, rfl, hsf, hle⟩
  · exact ⟨loop_no_panic c wf similar toks {} p ⟨h0, hpend⟩ hs0, loop_end c wf similar toks {} p ⟨h0, hpend⟩ hs0⟩
  · obtain ⟨hesc, hlong⟩ := toShort_not_long hsf
    have hkp : KOk c (fun ls p => loop c similar ls rest p) := fun ls p hp hs e h => loop_no_panic c wf similar rest ls p hp hs e h
    have hke : KEnd c (fun ls p => loop c similar ls rest p) := fun ls p hp hs p' le h => loop_end c wf similar rest ls p hp hs p' le h
    have hst0 : stateArg c ({} : LoopSt).st ≠ none := by simp [stateArg]
    obtain ⟨hinv, hnp, hres⟩ := parseShortArg_spec c wf sf ({} : LoopSt).st ({} : LoopSt).posCounter false p hpend hle hst0
    have hkeep := parseShortArg_keep c sf ({} : LoopSt).st ({} : LoopSt).posCounter false p (PendingOk.of_none hnone)
    have hfs := parseShortArg_flagsub c sf ({} : LoopSt).st ({} : LoopSt).posCounter false p (PendingOk.of_none hnone) hle
    have hopt : ∀ (ls' : LoopSt) (p' : P) (id : Id), ls'.st = .opt id → ResOk c p' (.opt id) → SInv c ls' p' := by
      intro ls' p' id hst hres
      obtain ⟨⟨a, ha, hidx⟩, pd, hpd, hpid⟩ := hres.2 id rfl
      refine ⟨by rw [hst]; simp [stateArg, ha], ?_⟩
      intro id' hid'
      rw [hst] at hid'
      cases hid'
      exact ⟨⟨a, ha, hidx⟩, by intro pd' hpd'; rw [hpd] at hpd'; cases hpd'; exact hpid⟩
    have hsk : ∀ (vaf : Bool) (p1 : P), (p1.pending = none ∨ p1.pending = p.pending) →
        SInv c { ({} : LoopSt) with validArgFound := vaf } p1 := fun vaf p1 _ => SInv.valuesDone c _ _ rfl
    constructor
    · intro e h
      rw [loop] at h
      generalize (fun ls p => loop c similar ls rest p) = k at h hkp
      simp only [Bool.false_eq_true, ↓reduceIte, hesc, hlong, hsf] at h
      split at h
      · split at h
        · simp at h; subst h; exact helpWalk_not_panic _ _
        · simp at h
      · split at h
        · next p1 e1 heq => rw [heq] at hnp; simp at h; subst h; exact hnp e1 rfl
        · next p1 r vaf heq =>
          rw [heq] at hinv hres hkeep
          obtain ⟨hunn, hresok⟩ := hres r vaf rfl
          simp only at h hinv
          split at h
          · exact optValuePart_no_panic c wf similar tok rest k hkp _ p1 hinv (hsk vaf p1 (hkeep _ vaf rfl (Or.inl rfl))) e h
          · exact hkp _ _ hinv (SInv.valuesDone c _ _ rfl) e h
          · next id => exact hkp _ _ hinv (hopt _ _ id rfl hresok) e h
          · split at h <;> simp at h
          · simp at h; subst h; rfl
          · simp at h; subst h; rfl
          · exact optValuePart_no_panic c wf similar tok rest k hkp _ p1 hinv (hsk vaf p1 (hkeep _ vaf rfl (Or.inr rfl))) e h
          · exact absurd rfl hunn
          · exact absurd rfl hresok.1
    · intro p' le h
      rw [loop] at h
      generalize (fun ls p => loop c similar ls rest p) = k at h hke
      simp only [Bool.false_eq_true, ↓reduceIte, hesc, hlong, hsf] at h
      split at h
      · next sc hsc =>
        split at h
        · cases h
        · cases h
          refine ⟨PendingOk.of_none hnone, ?_, by intro hk'; cases hk'⟩
          split at hsc
          · exact C09.possibleSubcommand_resolves c tok _ _ hsc
          · cases hsc
      · split at h
        · cases h
        · next p1 r vaf heq =>
          rw [heq] at hinv hres hkeep hfs
          obtain ⟨hunn, hresok⟩ := hres r vaf rfl
          simp only at h hinv
          split at h
          · exact optValuePart_end c wf similar tok rest k hke _ p1 hinv (hsk vaf p1 (hkeep _ vaf rfl (Or.inl rfl))) p' le h
          · exact hke _ _ hinv (SInv.valuesDone c _ _ rfl) p' le h
          · next id => exact hke _ _ hinv (hopt _ _ id rfl hresok) p' le h
          · next name =>
            obtain ⟨hfind, hcons⟩ := hfs name vaf rfl
            split at h
            · cases h
              refine ⟨?_, hfind, ?_⟩
              · intro pd hpd; exact hinv.pendingOk pd hpd
              · intro _; exact ⟨tok, rest, sf, rfl, hsf, hcons⟩
            · cases h
              exact ⟨hinv.pendingOk, hfind, by intro hk'; cases hk'⟩
          · cases h
          · cases h
          · exact optValuePart_end c wf similar tok rest k hke _ p1 hinv (hsk vaf p1 (hkeep _ vaf rfl (Or.inr rfl))) p' le h
          · cases h
          · cases h

/-! #### after the loop: env, defaults -/

theorem addEnv_spec (c : Cmd) : ∀ (as : List Arg) (p : P), p.pending = none →
    (addEnv c as p).1.pending = none ∧ ∀ e, (addEnv c as p).2 = .error e → isPanic e = false
  | [], p, h => by simp [addEnv, h]
  | a :: as, p, h => by
    unfold addEnv
    split
    · exact addEnv_spec c as p h
    · split
      · next val _ =>
        have h1 := react_pending c none .env a [val] none p (PendingOk.of_none h)
        have h2 := react_no_panic c none .env a [val] none p (PendingOk.of_none h)
        cases hr : Parser.react c none .env a [val] none p with
        | mk p1 r =>
          rw [hr] at h1 h2
          cases r with
          | error e => exact ⟨h1, by intro e' he; simp at he; subst he; exact h2 e rfl⟩
          | ok u => exact addEnv_spec c as p1 h1
      · exact addEnv_spec c as p h

theorem defaultIfLoop_spec (c : Cmd) (a : Arg) : ∀ (l : List (Id × Pred × Option Bytes)) (p : P), p.pending = none →
    ∀ r, defaultIfLoop c a l p = some r → r.1.pending = none ∧ ∀ e, r.2 = .error e → isPanic e = false
  | [], p, _, r, h => by simp [defaultIfLoop] at h
  | (id, pred, dflt) :: more, p, hn, r, h => by
    unfold defaultIfLoop at h
    split at h
    · split at h
      · next d =>
        have h1 := react_pending c none .default a [d] none p (PendingOk.of_none hn)
        have h2 := react_no_panic c none .default a [d] none p (PendingOk.of_none hn)
        cases hr : Parser.react c none .default a [d] none p with
        | mk p1 r1 =>
          rw [hr] at h1 h2 h
          cases r1 with
          | error e => simp at h; subst h; exact ⟨h1, by intro e' he; simp at he; subst he; exact h2 e rfl⟩
          | ok u => simp at h; subst h; exact ⟨h1, by simp⟩
      · simp at h; subst h; exact ⟨hn, by simp⟩
    · exact defaultIfLoop_spec c a more p hn r h

theorem addDefaultValue_spec (c : Cmd) (a : Arg) (p : P) (hn : p.pending = none) :
    (addDefaultValue c a p).1.pending = none ∧ ∀ e, (addDefaultValue c a p).2 = .error e → isPanic e = false := by
  unfold addDefaultValue
  simp only
  split
  · next r hr =>
    split at hr
    · exact defaultIfLoop_spec c a _ p hn r hr
    · cases hr
  · split
    · have h1 := react_pending c none .default a a.defaultVals none p (PendingOk.of_none hn)
      have h2 := react_no_panic c none .default a a.defaultVals none p (PendingOk.of_none hn)
      cases hr : Parser.react c none .default a a.defaultVals none p with
      | mk p1 r1 =>
        rw [hr] at h1 h2
        cases r1 with
        | error e => exact ⟨h1, by intro e' he; simp at he; subst he; exact h2 e rfl⟩
        | ok u => exact ⟨h1, by simp⟩
    · exact ⟨hn, by simp⟩

theorem addDefaults_spec (c : Cmd) : ∀ (as : List Arg) (p : P), p.pending = none →
    (addDefaults c as p).1.pending = none ∧ ∀ e, (addDefaults c as p).2 = .error e → isPanic e = false
  | [], p, h => by simp [addDefaults, h]
  | a :: as, p, h => by
    unfold addDefaults
    obtain ⟨h1, h2⟩ := addDefaultValue_spec c a p h
    cases hr : addDefaultValue c a p with
    | mk p1 r =>
      rw [hr] at h1 h2
      cases r with
      | error e => exact ⟨h1, by intro e' he; simp at he; subst he; exact h2 e rfl⟩
      | ok u => exact addDefaults_spec c as p1 h1

/-! #### the whole of `get_matches_with`, every level -/

/-- `d` is `c` or one of its (transitive) subcommands -/
inductive Desc : Cmd → Cmd → Prop
  | refl (c : Cmd) : Desc c c
  | step (c sc d : Cmd) : sc ∈ c.subs → Desc sc d → Desc c d

/-- every level of the tree meets clap's build assertions: unique arg ids, positionals without long names,
group members that exist -/
def WFTree (c : Cmd) : Prop := ∀ d, Desc c d → WF d ∧ GroupsOk d

theorem WFTree.sub {c sc : Cmd} (h : WFTree c) (hs : sc ∈ c.subs) : WFTree sc :=
  fun d hd => h d (Desc.step c sc d hs hd)

/-- the state handed to the subcommand's parser -/
def keepP (pl : P) (keep : Bool) : P :=
  if keep then { curIdx := pl.curIdx, flagSubAt := pl.flagSubAt, flagSubSkip := pl.flagSubSkip,
                 flagSubConsumed := pl.flagSubConsumed } else {}

/-- a descent that never panics on the subcommands of `c` -/
def DescOk (c : Cmd) (descend : Descend) : Prop :=
  ∀ sc ∈ c.subs, ∀ toks p, Entry toks p → ∀ p' e, descend sc toks p = some (p', .error e) → isPanic e = false

theorem core_no_panic (similar : Bytes → Bytes → Bool) (descend : Descend) (c : Cmd) (wf : WF c) (wg : GroupsOk c)
    (hd : DescOk c descend) (toks : List Bytes) (p : P) (he : Entry toks p) :
    ∀ p' e, getMatchesWithCore similar descend c toks p = some (p', .error e) → isPanic e = false := by
  obtain ⟨hnp, hend⟩ := loop_entry c wf similar toks p he
  -- `Parser::parse`: never panics, and leaves a pending arg of the command (if any)
  have hparse : ∀ p1 r, parse similar descend c toks p = some (p1, r) →
      (r = .ok () → PendingOk c p1) ∧ ∀ e, r = .error e → isPanic e = false := by
    intro p1 r h
    unfold parse at h
    split at h
    · next pl e hl =>
      simp at h; obtain ⟨rfl, rfl⟩ := h
      exact ⟨(by intro h'; cases h'), by intro e' he'; simp at he'; subst he'; exact hnp e (by rw [hl])⟩
    · next pl hl =>
      simp at h; obtain ⟨rfl, rfl⟩ := h
      exact ⟨fun _ => (hend _ _ hl).1, by simp⟩
    · next pl name rest hl =>
      simp at h; obtain ⟨rfl, rfl⟩ := h
      exact ⟨fun _ pd hpd => (hend _ _ hl).1 pd hpd, by simp⟩
    · next pl name rest keep vaf hl =>
      obtain ⟨hpo, hfind, hkeep⟩ := hend _ _ hl
      split at h
      · simp at h; obtain ⟨rfl, rfl⟩ := h
        exact ⟨fun _ => hpo, by intro e' he'; simp at he'; subst he'; rfl⟩
      · unfold parseSub at h
        cases hf : c.findSubcommand name with
        | none => rw [hf] at hfind; simp at hfind
        | some sc =>
          rw [hf] at h
          simp only at h
          have hsc : sc ∈ c.subs := findSubcommand_mem hf
          have hentry : Entry rest (keepP pl keep) := by
            cases keep with
            | false => exact ⟨rfl, Or.inl rfl⟩
            | true => exact ⟨rfl, Or.inr (hkeep rfl)⟩
          have hdesc := hd sc hsc rest (keepP pl keep) hentry
          split at h
          · cases h
          · next ps e hde =>
            have := hdesc ps e hde
            split at h
            · next s => simp [isPanic] at this
            · split at h
              · simp at h; obtain ⟨rfl, rfl⟩ := h
                exact ⟨fun _ pd hpd => hpo pd hpd, by simp⟩
              · simp at h; obtain ⟨rfl, rfl⟩ := h
                exact ⟨(by intro h'; cases h'), by intro e' he'; simp at he'; subst he'; exact this⟩
          · simp at h; obtain ⟨rfl, rfl⟩ := h
            exact ⟨fun _ pd hpd => hpo pd hpd, by simp⟩
  intro p' e h
  unfold getMatchesWithCore at h
  split at h
  · cases h
  · next p1 e1 hp1 =>
    obtain ⟨_, hne⟩ := hparse _ _ hp1
    split at h <;> (simp at h; obtain ⟨_, rfl⟩ := h; exact hne e1 rfl)
  · next p1 hp1 =>
    obtain ⟨hpo, _⟩ := hparse _ _ hp1
    obtain ⟨hn2, hnp2⟩ := resolvePending_spec c p1 (hpo rfl)
    cases hr : resolvePending c p1 with
    | mk p2 r2 =>
      rw [hr] at hn2 hnp2 h
      cases r2 with
      | error e2 => simp at h; obtain ⟨_, rfl⟩ := h; exact hnp2 e2 rfl
      | ok u =>
        simp only at h hn2
        obtain ⟨hn3, hnp3⟩ := addEnv_spec c c.args p2 hn2
        cases hr3 : addEnv c c.args p2 with
        | mk p3 r3 =>
          rw [hr3] at hn3 hnp3 h
          cases r3 with
          | error e3 => simp at h; obtain ⟨_, rfl⟩ := h; exact hnp3 e3 rfl
          | ok u3 =>
            simp only at h hn3
            obtain ⟨hn4, hnp4⟩ := addDefaults_spec c c.args p3 hn3
            cases hr4 : addDefaults c c.args p3 with
            | mk p4 r4 =>
              rw [hr4] at hn4 hnp4 h
              cases r4 with
              | error e4 => simp at h; obtain ⟨_, rfl⟩ := h; exact hnp4 e4 rfl
              | ok u4 =>
                simp only at h
                split at h
                · next ev hev => simp at h; obtain ⟨_, rfl⟩ := h; exact validate_no_panic c wg p4 _ hev
                · simp at h

/-- **`Parser::get_matches_with` never panics, at any depth**: induction over the descent -/
theorem getMatchesWith_no_panic (similar : Bytes → Bytes → Bool) :
    ∀ (fuel : Nat) (c : Cmd), WFTree c → ∀ toks p, Entry toks p →
      ∀ p' e, getMatchesWith similar fuel c toks p = some (p', .error e) → isPanic e = false := by
  intro fuel
  induction fuel with
  | zero =>
    intro c wt toks p he
    unfold getMatchesWith
    exact core_no_panic similar _ c (wt c (Desc.refl c)).1 (wt c (Desc.refl c)).2
      (fun sc _ toks p _ p' e h => by simp at h) toks p he
  | succ fuel ih =>
    intro c wt toks p he
    unfold getMatchesWith
    exact core_no_panic similar _ c (wt c (Desc.refl c)).1 (wt c (Desc.refl c)).2
      (fun sc hsc toks p he => ih sc (wt.sub hsc) toks p he) toks p he

/-- **parsing is total**: on a built command tree every level of which meets clap's build assertions, `_do_parse`
returns matches or a clap error for EVERY argv - it never runs out of fuel (fuel at least the tree height) and none
of the parser's `expect` / `unwrap` / `unreachable!` / `debug_assert!` sites is reached -/
theorem doParse_total (similar : Bytes → Bytes → Bool) (fuel : Nat) (c : Cmd) (hh : c.height ≤ fuel + 1)
    (wt : WFTree c) (toks : List Bytes) :
    ∃ r, Command.doParse similar fuel c toks = some r ∧ ∀ e, r = .error e → isPanic e = false := by
  have hterm := getMatchesWith_terminates similar fuel c hh toks {}
  have hnp := getMatchesWith_no_panic similar fuel c wt toks {} ⟨rfl, Or.inl rfl⟩
  unfold Command.doParse
  cases hg : getMatchesWith similar fuel c toks {} with
  | none => rw [hg] at hterm; simp at hterm
  | some pr =>
    obtain ⟨p, r⟩ := pr
    rw [hg] at hnp
    simp only
    cases r with
    | ok u => exact ⟨_, rfl, by intro e h; simp at h⟩
    | error e =>
      have := hnp p e rfl
      simp only
      split
      · next s => simp [isPanic] at this
      · split
        · exact ⟨_, rfl, by intro e' h; simp at h⟩
        · exact ⟨_, rfl, by intro e' h; simp at h; subst h; exact this⟩

/-! #### the hypothesis is decidable, and the driver evaluates it on every command the harness generates -/

theorem wfLevelB_sound {c : Cmd} (h : c.wfLevelB = true) : WF c ∧ GroupsOk c := by
  unfold Cmd.wfLevelB at h
  simp only [Bool.and_eq_true, decide_eq_true_eq, List.all_eq_true, Bool.or_eq_true, Bool.not_eq_eq_eq_not, Bool.not_true] at h
  obtain ⟨⟨h1, h2⟩, h3⟩ := h
  refine ⟨⟨h1, ?_⟩, ?_⟩
  · intro a ha hi
    rcases h2 a ha with h4 | h4
    · rw [hi] at h4; cases h4
    · exact ⟨by simpa using h4.1, by simpa using h4.2⟩
  · intro g hg n hn
    exact h3 g hg n hn

theorem wfTreeB_sound : ∀ (fuel : Nat) (c : Cmd), c.wfTreeB fuel = true → WFTree c := by
  intro fuel
  induction fuel with
  | zero =>
    intro c h d hd
    unfold Cmd.wfTreeB at h
    simp only [Bool.and_eq_true, List.isEmpty_iff] at h
    cases hd with
    | refl => exact wfLevelB_sound h.1
    | step _ sc _ hs _ => rw [h.2] at hs; cases hs
  | succ fuel ih =>
    intro c h d hd
    unfold Cmd.wfTreeB at h
    simp only [Bool.and_eq_true, List.all_eq_true] at h
    cases hd with
    | refl => exact wfLevelB_sound h.1
    | step _ sc _ hs hrest => exact ih sc (h.2 sc hs) d hrest

/-- **`try_get_matches_from` is total** on every command whose built tree passes the decidable well-formedness
check (evaluated by the driver on every command the harness generates) -/
theorem tryGetMatchesFrom_total (similar : Bytes → Bytes → Bool) (depth : Nat) (c : Cmd) (argv : List Bytes)
    (hh : (Build.buildAll (depth + 2) c).height ≤ depth + 3)
    (hwf : (Build.buildAll (depth + 2) c).wfTreeB (depth + 3) = true) :
    ∃ r, Command.tryGetMatchesFrom similar depth c argv = some r ∧ ∀ e, r = .error e → isPanic e = false := by
  unfold Command.tryGetMatchesFrom
  exact doParse_total similar (depth + 2) _ hh (wfTreeB_sound _ _ hwf) _

/-- the hypotheses are met by a command with an option, a multi-valued positional and a flag subcommand -/
example :
    let sub : Cmd := .mk [115] [] (some [83]) none [] [] {} [{ id := [120], short := some [120] }] [] []
    let c : Cmd := .mk [112] [] none none [] [] {}
      [{ id := [111], long := some [111] }, { id := [102], index := some 1, numVals := some ⟨1, none⟩ }]
      [{ id := [103], args := [[111]] }] [sub]
    c.wfTreeB 3 = true ∧ c.height ≤ 3 := by
  decide

end Clap.C01
