/-
C15 — Derived parsers are exactly their command plus field extraction, and round-trip.

`try_parse_from = command().try_get_matches_from ∘ from_arg_matches` is the
trait's own definition (derive.rs); the theorems are about the per-shape field
extraction the macro generates, interpreted from rows re-extracted from the
macro source on every run.
-/
import ClapModel
namespace Clap.C15
open Clap Derive Gen

theorem flatten_map_singleton (vs : List Bytes) : (vs.map fun v => [v]).flatten = vs := by
  induction vs with
  | nil => rfl
  | cons x xs ih => simp [ih]

/-- **round trip at the matches level**: for every shape and every value the canonical printer can
express, reading the field back from what the parser stores for that value gives the value -/
theorem roundtrip (v : Val) (hw : WellFormed v = true) (r : DeriveRow) (hr : rowOf (shapeOf v) = some r) :
    extract r (store v) = .ok v := by
  cases v with
  | unit => simp [shapeOf, rowOf, deriveRows] at hr; subst hr; rfl
  | one x => simp [shapeOf, rowOf, deriveRows] at hr; subst hr; rfl
  | opt o => simp [shapeOf, rowOf, deriveRows] at hr; subst hr; cases o <;> rfl
  | optOpt o =>
    simp [shapeOf, rowOf, deriveRows] at hr; subst hr
    cases o with
    | none => rfl
    | some i => cases i <;> rfl
  | vec vs =>
    simp [shapeOf, rowOf, deriveRows] at hr; subst hr
    cases vs with
    | nil => rfl
    | cons x xs => simp [store, extract, removeMany, flatten_map_singleton]
  | optVec o =>
    simp [shapeOf, rowOf, deriveRows] at hr; subst hr
    cases o with
    | none => rfl
    | some vs =>
      cases vs with
      | nil => simp [WellFormed] at hw
      | cons x xs => simp [store, extract, removeMany, flatten_map_singleton]
  | vecVec gs =>
    simp [shapeOf, rowOf, deriveRows] at hr; subst hr
    cases gs with
    | nil => rfl
    | cons g gs => rfl
  | optVecVec o =>
    simp [shapeOf, rowOf, deriveRows] at hr; subst hr
    cases o with
    | none => rfl
    | some gs => rfl

/-- every shape has a row (the table covers `Ty`) -/
theorem rows_cover (t : DTy) : (rowOf t).isSome = true := by cases t <;> decide

/-- **`Option<Option<T>>` by presence and value count** -/
theorem optionOption_presence (r : DeriveRow) (hr : rowOf .optionOption = some r) (v : Bytes) :
    extract r none = .ok (.optOpt none) ∧ extract r (some [[]]) = .ok (.optOpt (some none)) ∧
    extract r (some [[v]]) = .ok (.optOpt (some (some v))) := by
  simp [rowOf, deriveRows] at hr; subst hr
  exact ⟨rfl, rfl, rfl⟩

/-- **`Vec` is empty when absent, `Option<Vec>` is `None` when absent, `Vec<Vec>` keeps occurrences apart** -/
theorem vec_shapes (rv rov rvv : DeriveRow) (h1 : rowOf .vec = some rv) (h2 : rowOf .optionVec = some rov)
    (h3 : rowOf .vecVec = some rvv) (gs : List (List Bytes)) :
    extract rv none = .ok (.vec []) ∧ extract rov none = .ok (.optVec none) ∧
    extract rv (some gs) = .ok (.vec gs.flatten) ∧ extract rvv (some gs) = .ok (.vecVec gs) := by
  simp [rowOf, deriveRows] at h1 h2 h3; subst h1; subst h2; subst h3
  exact ⟨rfl, rfl, rfl, rfl⟩

/-- a required field (`T`) reports `MissingRequiredArgument` exactly when the matches hold no value for it -/
theorem required_missing (r : DeriveRow) (hr : rowOf .other = some r) (e : Entry) :
    (extract r e = .error .missingRequired) ↔ removeOne e = none := by
  simp [rowOf, deriveRows] at hr; subst hr
  simp only [extract]
  cases h : removeOne e <;> simp

/-- **update changes a field only if its id is in the matches** -/
theorem update_frame (r : DeriveRow) (old : Val) : update r old none = .ok old := by
  simp [update, updateGuardedByContainsId]

/-- … and when it is, the field becomes what a fresh parse would give -/
theorem update_assigns (r : DeriveRow) (old : Val) (e : Entry) (h : e.isSome = true) : update r old e = extract r e := by
  simp [update, updateGuardedByContainsId, h]

/-! #### value enums -/

/-- no name or alias is declared by two different variants -/
def NamesDistinct (vs : List Variant) : Prop :=
  ∀ w1 ∈ vs, ∀ w2 ∈ vs, ∀ n, n ∈ w1.names → n ∈ w2.names → w1.id = w2.id

/-- **every name and alias maps back to its variant** -/
theorem value_enum_roundtrip (vs : List Variant) (hd : NamesDistinct vs) (v : Variant) (hv : v ∈ vs) (n : Bytes)
    (hn : n ∈ v.names) : fromStr vs n false = some v.id := by
  unfold fromStr
  cases hf : vs.find? fun w => vmatches w n false with
  | none =>
    have := List.find?_eq_none.1 hf v hv
    simp [vmatches, hn] at this
  | some w =>
    have hw := List.mem_of_find?_eq_some hf
    have hm := List.find?_some hf
    simp only [vmatches, Bool.false_eq_true, ↓reduceIte, List.contains_iff_mem] at hm
    simp [hd w hw v hv n hm hn]

/-- without distinctness the first declaring variant wins (why the hypothesis is needed) -/
example : fromStr [⟨0, [[97]]⟩, ⟨1, [[98], [97]]⟩] [97] false = some 0 := by decide

/-- non-vacuity of `roundtrip` on a nested value -/
example : extract ⟨.vecVec, .occ, false, false, true, false, .append, .none, false, false⟩ (store (.vecVec [[[1], [2]], [[3]]])) =
    .ok (.vecVec [[[1], [2]], [[3]]]) := by rfl

end Clap.C15
