/-
C15 — Derived parsers are exactly their command plus field extraction, and round-trip.

`try_parse_from = command().try_get_matches_from ∘ from_arg_matches` is the
trait's own definition (derive.rs); the theorems are about the per-shape field
extraction the macro generates, interpreted from rows re-extracted from the
macro source on every run.
-/
import ClapModel
namespace Clap.C15
open Clap Derive Gen

theorem flatten_map_singleton (vs : List Bytes) : (vs.map fun v => [v]).flatten = vs := by
  induction vs with
  | nil => rfl
  | cons x xs ih => simp [ih]

/-- **round trip at the matches level**: for every shape and every value the canonical printer can
express, reading the field back from what the parser stores for that value gives the value -/
theorem roundtrip (v : Val) (hw : WellFormed v = true) (r : DeriveRow) (hr : rowOf (shapeOf v) = some r) :
    extract r (store v) = .ok v := by
  cases v with
  | unit => simp [shapeOf, rowOf, deriveRows] at hr; subst hr; rfl
  | one x => simp [shapeOf, rowOf, deriveRows] at hr; subst hr; rfl
  | opt o => simp [shapeOf, rowOf, deriveRows] at hr; subst hr; cases o <;> rfl
  | optOpt o =>
    simp [shapeOf, rowOf, deriveRows] at hr; subst hr
    cases o with
    | none => rfl
    | some i => cases i <;> rfl
  | vec vs =>
    simp [shapeOf, rowOf, deriveRows] at hr; subst hr
    cases vs with
    | nil => rfl
    | cons x xs => simp [store, extract, removeMany, flatten_map_singleton]
  | optVec o =>
    simp [shapeOf, rowOf, deriveRows] at hr; subst hr
    cases o with
    | none => rfl
    | some vs =>
      cases vs with
      | nil => simp [WellFormed] at hw
      | cons x xs => simp [store, extract, removeMany, flatten_map_singleton]
  | vecVec gs =>
    simp [shapeOf, rowOf, deriveRows] at hr; subst hr
    cases gs with
    | nil => rfl
    | cons g gs => rfl
  | optVecVec o =>
    simp [shapeOf, rowOf, deriveRows] at hr; subst hr
    cases o with
    | none => rfl
    | some gs => rfl

/-- every shape has a row (the table covers `Ty`) -/
theorem rows_cover (t : DTy) : (rowOf t).isSome = true := by cases t <;> decide

/-- **`Option<Option<T>>` by presence and value count** -/
theorem optionOption_presence (r : DeriveRow) (hr : rowOf .optionOption = some r) (v : Bytes) :
    extract r none = .ok (.optOpt none) ∧ extract r (some [[]]) = .ok (.optOpt (some none)) ∧
    extract r (some [[v]]) = .ok (.optOpt (some (some v))) := by
  simp [rowOf, deriveRows] at hr; subst hr
  exact ⟨rfl, rfl, rfl⟩

/-- **`Vec` is empty when absent, `Option<Vec>` is `None` when absent, `Vec<Vec>` keeps occurrences apart** -/
theorem vec_shapes (rv rov rvv : DeriveRow) (h1 : rowOf .vec = some rv) (h2 : rowOf .optionVec = some rov)
    (h3 : rowOf .vecVec = some rvv) (gs : List (List Bytes)) :
    extract rv none = .ok (.vec []) ∧ extract rov none = .ok (.optVec none) ∧
    extract rv (some gs) = .ok (.vec gs.flatten) ∧ extract rvv (some gs) = .ok (.vecVec gs) := by
  simp [rowOf, deriveRows] at h1 h2 h3; subst h1; subst h2; subst h3
  exact ⟨rfl, rfl, rfl, rfl⟩

/-- a required field (`T`) reports `MissingRequiredArgument` exactly when the matches hold no value for it -/
theorem required_missing (r : DeriveRow) (hr : rowOf .other = some r) (e : Entry) :
    (extract r e = .error .missingRequired) ↔ removeOne e = none := by
  simp [rowOf, deriveRows] at hr; subst hr
  simp only [extract]
  cases h : removeOne e <;> simp

/-- **update changes a field only if its id is in the matches** -/
theorem update_frame (r : DeriveRow) (old : Val) : update r old none = .ok old := by
  simp [update, updateGuardedByContainsId]

/-- … and when it is, the field becomes what a fresh parse would give -/
theorem update_assigns (r : DeriveRow) (old : Val) (e : Entry) (h : e.isSome = true) : update r old e = extract r e := by
  simp [update, updateGuardedByContainsId, h]

/-! #### value enums -/

/-- no name or alias is declared by two different variants -/
def NamesDistinct (vs : List Variant) : Prop :=
  ∀ w1 ∈ vs, ∀ w2 ∈ vs, ∀ n, n ∈ w1.names → n ∈ w2.names → w1.id = w2.id

/-- **every name and alias maps back to its variant** -/
theorem value_enum_roundtrip (vs : List Variant) (hd : NamesDistinct vs) (v : Variant) (hv : v ∈ vs) (n : Bytes)
    (hn : n ∈ v.names) : fromStr vs n false = some v.id := by
  unfold fromStr
  cases hf : vs.find? fun w => vmatches w n false with
  | none =>
    have := List.find?_eq_none.1 hf v hv
    simp [vmatches, hn] at this
  | some w =>
    have hw := List.mem_of_find?_eq_some hf
    have hm := List.find?_some hf
    simp only [vmatches, Bool.false_eq_true, ↓reduceIte, List.contains_iff_mem] at hm
    simp [hd w hw v hv n hm hn]

/-- without distinctness the first declaring variant wins (why the hypothesis is needed) -/
example : fromStr [⟨0, [[97]]⟩, ⟨1, [[98], [97]]⟩] [97] false = some 0 := by decide

/-- non-vacuity of `roundtrip` on a nested value -/
example : extract ⟨.vecVec, .occ, false, false, true, false, .append, .none, false, false⟩ (store (.vecVec [[[1], [2]], [[3]]])) =
    .ok (.vecVec [[[1], [2]], [[3]]]) := by rfl

/-! #### `Option<subcommand>` fields under update -/

/-- **an update line without a subcommand leaves an `Option<subcommand>` field alone** - whether it is `Some` or
`None` (the `None` case is the repaired F28: it used to be `MissingSubcommand`) -/
theorem optsub_update_without_subcommand (schema : Bytes → List Bytes) (cur : Option SubVal) :
    updateOptSub schema cur none = .ok cur := by
  cases cur <;> simp [updateOptSub, optSubBuildsOnlyWhenNamed]

theorem lookup_mergeSub (v : SubVal) (l : SubLine) (f : Bytes) (x : Option Bytes) (h : (f, x) ∈ v.fields)
    (hn : lookupGiven l f = none) : (f, x) ∈ (mergeSub v l).fields := by
  unfold mergeSub
  simp only [List.mem_map]
  exact ⟨(f, x), h, by simp [hn]⟩

/-- **updating the current variant changes only the fields named on the line**: a field of the held variant that the
line does not name is still there with its old value; the variant is the same -/
theorem optsub_update_same_variant_frame (schema : Bytes → List Bytes) (v : SubVal) (l : SubLine)
    (hsame : v.name = l.name) (f : Bytes) (x : Option Bytes) (h : (f, x) ∈ v.fields) (hn : lookupGiven l f = none) :
    ∃ v', updateOptSub schema (some v) (some l) = .ok (some v') ∧ v'.name = v.name ∧ (f, x) ∈ v'.fields := by
  refine ⟨mergeSub v l, ?_, rfl, lookup_mergeSub v l f x h hn⟩
  simp [updateOptSub, optSubMergesExisting, updateSub, hsame]

/-- ... and a field the line does name takes the line's value -/
theorem optsub_update_named_field (schema : Bytes → List Bytes) (v : SubVal) (l : SubLine)
    (hsame : v.name = l.name) (f : Bytes) (x : Option Bytes) (y : Bytes) (h : (f, x) ∈ v.fields) (hy : lookupGiven l f = some y) :
    ∃ v', updateOptSub schema (some v) (some l) = .ok (some v') ∧ (f, some y) ∈ v'.fields := by
  refine ⟨mergeSub v l, by simp [updateOptSub, optSubMergesExisting, updateSub, hsame], ?_⟩
  unfold mergeSub
  simp only [List.mem_map]
  exact ⟨(f, x), h, by simp [hy]⟩

/-- naming another variant (or any variant while the field is `None`) builds that variant from the line -/
theorem optsub_update_switch (schema : Bytes → List Bytes) (cur : Option SubVal) (l : SubLine)
    (hother : ∀ v, cur = some v → v.name ≠ l.name) :
    updateOptSub schema cur (some l) = .ok (some (buildSub schema l)) := by
  cases cur with
  | none => rfl
  | some v =>
    have := hother v rfl
    simp [updateOptSub, optSubMergesExisting, updateSub, this]

example : updateOptSub (fun _ => [[97], [98]]) (some ⟨[120], [([97], some [49]), ([98], some [50])]⟩) (some ⟨[120], [([97], [53])]⟩)
    = .ok (some ⟨[120], [([97], some [53]), ([98], some [50])]⟩) := by rfl

end Clap.C15
