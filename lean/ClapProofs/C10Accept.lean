/-
C10 — what a rejection of a well-formed command line can be.

`react` (the one place where an occurrence is checked and stored) fails only for a reason the occurrence itself
gives: its value count is outside the declared range, one of its values is outside the value parser's language, it
repeats a `Set` arg that does not override itself, or it is a help / version flag.  Together with the attribution
refinement of C02 (`loop_clusters`) this characterises every rejection of a well-formed line: it is the failure of
one spelt occurrence - never an `unknown argument`, `invalid subcommand` or `no equals`.
-/
import ClapProofs.C02Short
import ClapProofs.C10
namespace Clap.C10
open Clap Parser

/-- the reason `react` gives for rejecting an occurrence of `a` with values `vals` in state `p` -/
inductive Reason (c : Cmd) (source : Source) (a : Arg) (vals : List Bytes) (p : P) (e : EK) : Prop
  | count (hs : source = .cmdline) (h : verifyNumArgs c a vals.length = .error e)
  | value (raw : Bytes) (h : parseValue a raw = .error e)
  | repeated (he : e = .argumentConflict) (hact : a.getAction = .set ∨ a.getAction = .setTrue ∨ a.getAction = .setFalse)
      (hno : (c.settings.argsOverrideSelf || a.overrides.contains a.id) = false)
  | help (he : e = .displayHelp) (hact : a.getAction = .help ∨ a.getAction = .helpShort ∨ a.getAction = .helpLong)
  | version (he : e = .displayVersion) (hact : a.getAction = .version)

theorem pushArgValues_error (a : Arg) : ∀ (vals : List Bytes) (p : P),
    (∃ ma, p.args.get a.id = some ma ∧ ma.rawVals ≠ []) →
    ∀ e, (pushArgValues a vals p).2 = .error e → ∃ raw ∈ vals, parseValue a raw = .error e
  | [], p, _, e, h => by simp [pushArgValues] at h
  | raw :: rest, p, ⟨ma, hget, hne⟩, e, h => by
    unfold pushArgValues at h
    simp only at h
    cases hpv : parseValue a raw with
    | error e' =>
      simp only [hpv] at h
      simp at h; subst h
      exact ⟨raw, List.mem_cons_self, hpv⟩
    | ok u =>
      simp only [hpv] at h
      obtain ⟨ma', hap, hne'⟩ := MatchedArg.appendVal_isSome ma raw hne
      have hget' : ({ p with curIdx := p.curIdx + 1 } : P).args.get a.id = some ma := hget
      simp only [hget', Option.bind_some, hap] at h
      obtain ⟨r, hr, hp⟩ := pushArgValues_error a rest _ ⟨ma'.pushIndex (p.curIdx + 1), by simp [ArgMap.get_update_self, hget], hne'⟩ e h
      exact ⟨r, List.mem_cons_of_mem _ hr, hp⟩

theorem reactFinish_error (c : Cmd) (a : Arg) (source : Source) (p : P) (vs : List Bytes) (e : EK)
    (h : (reactFinish c a source p vs).2 = .error e) : ∃ raw ∈ vs, parseValue a raw = .error e := by
  obtain ⟨hok, hopen⟩ := C01.startCustomArg_ok c a source p
  unfold reactFinish at h
  cases hs : startCustomArg c a source p with
  | mk p1 r =>
    rw [hs] at hok hopen
    simp only at hok
    subst hok
    simp only [hs] at h
    cases hp : pushArgValues a vs p1 with
    | mk p2 r2 =>
      cases r2 with
      | error e2 =>
        simp only [hp] at h
        simp at h; subst h
        exact pushArgValues_error a vs p1 hopen e2 (by rw [hp])
      | ok u => simp [hp] at h

/-- **every rejection by `react` is justified by the occurrence itself** -/
theorem reactCore_error (c : Cmd) (ident : Option Ident) (source : Source) (a : Arg) (vals : List Bytes)
    (t : Option Nat) (p : P) (e : EK) (h : (reactCore c ident source a vals t p).2 = .error e) :
    Reason c source a vals p e := by
  have rep : ∀ p' vs, (reactReplace c a source p' vs).2 = .error e →
      (∃ raw, parseValue a raw = .error e) ∨
      (e = .argumentConflict ∧ (c.settings.argsOverrideSelf || a.overrides.contains a.id) = false) := by
    intro p' vs h
    unfold reactReplace at h
    simp only at h
    split at h
    · next hc =>
      simp at h; subst h
      refine Or.inr ⟨rfl, ?_⟩
      simp only [Bool.and_eq_true, Bool.not_eq_true'] at hc
      simpa using hc.2
    · obtain ⟨raw, _, hr⟩ := reactFinish_error _ _ _ _ _ _ h
      exact Or.inl ⟨raw, hr⟩
  unfold reactCore at h
  split at h
  · next e' hv =>
    simp at h; subst h
    split at hv
    · next hs => exact .count (by simpa using hs) hv
    · simp at hv
  · simp only at h
    split at h
    · next hact =>
      rcases rep _ _ h with ⟨raw, hr⟩ | ⟨he, hno⟩
      · exact .value raw hr
      · exact .repeated he (Or.inl hact) hno
    · obtain ⟨raw, _, hr⟩ := reactFinish_error _ _ _ _ _ _ h
      exact .value raw hr
    · next hact =>
      rcases rep _ _ h with ⟨raw, hr⟩ | ⟨he, hno⟩
      · exact .value raw hr
      · exact .repeated he (Or.inr (Or.inl hact)) hno
    · next hact =>
      rcases rep _ _ h with ⟨raw, hr⟩ | ⟨he, hno⟩
      · exact .value raw hr
      · exact .repeated he (Or.inr (Or.inr hact)) hno
    · obtain ⟨raw, _, hr⟩ := reactFinish_error _ _ _ _ _ _ h
      exact .value raw hr
    · next hact => simp at h; exact .help h.symm (Or.inl hact)
    · next hact => simp at h; exact .help h.symm (Or.inr (Or.inl hact))
    · next hact => simp at h; exact .help h.symm (Or.inr (Or.inr hact))
    · next hact => simp at h; exact .version h.symm hact

/-- the value parsers only ever answer with value errors -/
theorem parseValue_kinds (a : Arg) (raw : Bytes) (e : EK) (h : parseValue a raw = .error e) :
    e = .invalidValue ∨ e = .invalidUtf8 ∨ e = .valueValidation := by
  have lift : ∀ {α : Type} (r : Values.VRes α), liftVRes r = .error e → e = .invalidValue ∨ e = .invalidUtf8 ∨ e = .valueValidation := by
    intro α r h
    cases r with
    | ok v => simp [liftVRes] at h
    | err ve => simp [liftVRes] at h; subst h; cases ve <;> simp [liftVErr]
  unfold parseValue at h
  split at h
  · split at h <;> simp at h; subst h; simp
  · simp at h
  · exact lift _ h
  · exact lift _ h
  · exact lift _ h
  · exact lift _ h
  · split at h
    · simp at h; subst h; simp
    · split at h <;> simp at h; subst h; simp

/-- every key of the abstract run names something -/
def atomsOk (c : Cmd) : List C02.Atom → Nat → Prop
  | [], _ => True
  | .long n _ :: r, pc => (findLong c n).isSome = true ∧ atomsOk c r pc
  | .short ch _ :: r, pc => (c.getShort ch).isSome = true ∧ atomsOk c r pc
  | .pos _ :: r, pc => (c.getPos pc).isSome = true ∧ atomsOk c r (pc + 1)

theorem findLong_mem {c : Cmd} {n : Bytes} {a : Arg} (hk : findLong c n = some a) : a ∈ c.args := by
  unfold findLong at hk
  split at hk
  · next a' hg => simp at hk; subst hk; exact (C01.getKey_mem hg).1
  · split at hk
    · split at hk
      · next a' hf =>
        simp at hk; subst hk
        have hm : a' ∈ c.args.filter fun a => prefixMatches a n := by rw [hf]; simp
        exact (List.mem_filter.1 hm).1
      · simp at hk
    · simp at hk

/-- an error of the abstract run is the error of one of its `react`s -/
theorem runAtoms_error (c : Cmd) : ∀ (l : List C02.Atom) (pc : Nat) (p : P) (e : EK), p.pending = none → atomsOk c l pc →
    (C02.runAtoms c l pc p).2 = .error e →
    ∃ (a : Arg) (vals : List Bytes) (p' : P), a ∈ c.args ∧ Reason c .cmdline a vals p' e
  | [], _, _, _, _, _, h => by simp [C02.runAtoms] at h
  | at_ :: rest, pc, p, e, hpn, hok, h => by
    have step : ∀ (i : Option Ident) (a : Arg) (vals : List Bytes) (pc' : Nat), a ∈ c.args → atomsOk c rest pc' →
        ((match react c i .cmdline a vals none p with
          | (p1, .error e) => ((p1, .error e) : R LoopEnd)
          | (p1, .ok _) => C02.runAtoms c rest pc' p1).2 = .error e) →
        ∃ (a : Arg) (vals : List Bytes) (p' : P), a ∈ c.args ∧ Reason c .cmdline a vals p' e := by
      intro i a vals pc' hm hok' h
      rw [C02.react_none c _ _ _ _ _ p hpn] at h
      have hp := C01.reactCore_pending c i .cmdline a vals none p
      cases hr : reactCore c i .cmdline a vals none p with
      | mk p1 r =>
        rw [hr] at h hp
        cases r with
        | error e' =>
          simp at h; subst h
          exact ⟨a, vals, p, hm, reactCore_error c i .cmdline a vals none p _ (by rw [hr])⟩
        | ok x => exact runAtoms_error c rest pc' p1 e (by rw [hp]; exact hpn) hok' h
    cases at_ with
    | long n v =>
      obtain ⟨hs, hok'⟩ := hok
      unfold C02.runAtoms at h
      cases hk : findLong c n with
      | none => rw [hk] at hs; simp at hs
      | some a =>
        simp only [hk] at h
        exact step _ a _ pc (findLong_mem hk) hok' h
    | short ch v =>
      obtain ⟨hs, hok'⟩ := hok
      unfold C02.runAtoms at h
      cases hk : c.getShort ch with
      | none => rw [hk] at hs; simp at hs
      | some a =>
        simp only [hk] at h
        exact step _ a _ pc (C01.getKey_mem hk).1 hok' h
    | pos v =>
      obtain ⟨hs, hok'⟩ := hok
      unfold C02.runAtoms at h
      cases hk : c.getPos pc with
      | none => rw [hk] at hs; simp at hs
      | some a =>
        simp only [hk] at h
        exact step _ a _ (pc + 1) (C01.getKey_mem hk).1 hok' h

theorem atomsOk_append_noPos (c : Cmd) : ∀ (l r : List C02.Atom) (pc : Nat),
    (∀ x ∈ l, ∃ ch v, x = C02.Atom.short ch v ∧ (c.getShort ch).isSome = true) → atomsOk c r pc → atomsOk c (l ++ r) pc
  | [], _, _, _, hr => hr
  | x :: l, r, pc, hl, hr => by
    obtain ⟨ch, v, rfl, hs⟩ := hl x List.mem_cons_self
    exact ⟨hs, atomsOk_append_noPos c l r pc (fun y hy => hl y (List.mem_cons_of_mem _ hy)) hr⟩

/-- an admissible command line only uses keys that name something -/
theorem okAll3_atomsOk (c : Cmd) : ∀ (occs : List C02.Occ3) (pc : Nat), C02.okAll3 c occs pc →
    atomsOk c (occs.flatMap C02.Occ3.atoms) pc
  | [], _, _ => trivial
  | .long o :: rest, pc, h => by
    obtain ⟨⟨⟨_, _, _, _, a, hget, _⟩, _⟩, hr⟩ := h
    simp only [C02.SOcc.toL] at hget
    exact ⟨by rw [hget]; rfl, okAll3_atomsOk c rest pc hr⟩
  | .pos v :: rest, pc, h => by
    obtain ⟨_, _, ⟨a, hs, _⟩, hr⟩ := h
    exact ⟨by rw [hs]; rfl, okAll3_atomsOk c rest (pc + 1) hr⟩
  | .cluster o :: rest, pc, h => by
    obtain ⟨⟨_, _, hflags, hopt⟩, hr⟩ := h
    rw [List.flatMap_cons]
    refine atomsOk_append_noPos c _ _ pc ?_ (okAll3_atomsOk c rest pc hr)
    intro x hx
    simp only [C02.Occ3.atoms, C02.COcc.atoms] at hx
    rcases List.mem_append.1 hx with hx | hx
    · obtain ⟨ch, hch, rfl⟩ := List.mem_map.1 hx
      obtain ⟨_, _, a, hg, _⟩ := hflags ch hch
      exact ⟨ch, none, rfl, by rw [hg]; rfl⟩
    · cases ho : o.opt with
      | none => rw [ho] at hx; simp at hx
      | some t =>
        obtain ⟨ch, v, k⟩ := t
        rw [ho] at hx
        simp at hx
        obtain ⟨_, _, a, hg, _⟩ := hopt ch v k ho
        exact ⟨ch, some v, hx, by rw [hg]; rfl⟩

/-- **a well-formed command line is rejected only for a reason one of its occurrences gives** (C10): under the
hypotheses of the attribution refinement, whatever error the parser's caller observes after the token loop is the
rejection, by `react`, of one occurrence of an arg of the command - its value count is outside the declared range, one
of its values is outside the value parser's language, it repeats a `Set`-like arg that does not override itself, or it
is a help / version flag. In particular a well-formed line is never answered `unknown argument`, `invalid
subcommand` or `no equals`, and if every occurrence passes these checks the line is accepted -/
theorem wellformed_rejection_justified (c : Cmd) (wf : C01.WF c) (sp : C02.SimplePos c) (pp : C02.PlainPos c)
    (similar : Bytes → Bytes → Bool) (occs : List C02.Occ3) (ls : LoopSt) (p : P)
    (hok : C02.okAll3 c occs ls.posCounter) (htr : ls.trailing = false) (hst : ls.st = .valuesDone)
    (hfss : p.flagSubSkip = 0) (hpn : p.pending = none) (e : EK)
    (h : C02.obs c (loop c similar ls (occs.flatMap C02.Occ3.spell) p) = .error e) :
    ∃ (a : Arg) (vals : List Bytes) (p' : P), a ∈ c.args ∧ Reason c .cmdline a vals p' e := by
  rw [C02.loop_clusters c wf sp pp similar occs ls p hok htr hst hfss, C02.resolvePending_none c p hpn] at h
  simp only at h
  have h2 : (C02.runAtoms c (occs.flatMap C02.Occ3.atoms) ls.posCounter p).2 = .error e := by
    cases hr : C02.runAtoms c (occs.flatMap C02.Occ3.atoms) ls.posCounter p with
    | mk q r =>
      rw [hr] at h
      cases r with
      | error e' => simp [C02.obsA] at h; subst h; rfl
      | ok x => simp [C02.obsA] at h
  exact runAtoms_error c _ _ p e hpn (okAll3_atomsOk c occs _ hok) h2

/-- the kinds of a justified rejection -/
theorem reason_kinds {c : Cmd} {source : Source} {a : Arg} {vals : List Bytes} {p : P} {e : EK}
    (h : Reason c source a vals p e) :
    e = .invalidValue ∨ e = .invalidUtf8 ∨ e = .valueValidation ∨ e = .wrongNumberOfValues ∨ e = .tooFewValues ∨
    e = .tooManyValues ∨ e = .argumentConflict ∨ e = .displayHelp ∨ e = .displayVersion := by
  cases h with
  | count _ hv =>
    rcases num_args_kinds c a vals.length e hv with h | h | h | h <;> simp [h]
  | value raw hr => rcases parseValue_kinds a raw e hr with h | h | h <;> simp [h]
  | repeated he _ _ => simp [he]
  | help he _ => simp [he]
  | version he _ => simp [he]

end Clap.C10
