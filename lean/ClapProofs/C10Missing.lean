/-
C10 — what a `MissingRequiredArgument` rejection reports (`ClapModel/Usage.lean`: `missingRequired`, the list
`validate_required` hands to `missing_required_error`).

* `missing_are_absent`: every id reported missing is not explicitly present in the matches.
* `error_iff_missing_nonempty`: the validator's verdict (`Validator.validateRequired`, the model the parser theorems
  are about) is `MissingRequiredArgument` exactly when that list is non-empty - the list model and the verdict model
  are two readings of the same loop.
-/
import ClapModel
import ClapProofs.C03Closure
namespace Clap.C10M
open Clap Usage Validator

theorem pass1_spec (c : Cmd) (m : ArgMap) (pot : List (Id × List Id)) (excl : Bool) :
    ∀ (rs acc : List Id) (hi : Nat) (acc' : List Id) (hi' : Nat),
    missingPass1 c m pot excl rs acc hi = some (acc', hi') →
    ∃ ext, acc' = acc ++ ext ∧ requiredLoop c m pot excl rs = .ok (!ext.isEmpty) ∧
      (∀ id ∈ ext, m.checkExplicit id .isPresent = false) ∧ (hi < hi' → ext ≠ []) := by
  intro rs
  induction rs with
  | nil =>
    intro acc hi acc' hi' h
    simp only [missingPass1, Option.some.injEq, Prod.mk.injEq] at h
    obtain ⟨rfl, rfl⟩ := h
    refine ⟨[], by simp, by simp [requiredLoop], ?_, ?_⟩
    · intro id hid; cases hid
    · intro hlt; omega
  | cons r rs ih =>
    intro acc hi acc' hi' h
    unfold missingPass1 at h
    rw [requiredLoop]
    split at h
    · next hp => rw [if_pos hp]; exact ih acc hi acc' hi' h
    · next hp =>
      have hp' : m.checkExplicit r .isPresent = false := by simpa using hp
      rw [if_neg hp]
      split at h
      · next a hf =>
        have hid : a.id = r := (C03.find_mem hf).2
        simp only [hf]
        split at h
        · cases h
        · next ok hok =>
          simp only [hok]
          split at h
          · next hcond =>
            obtain ⟨ext, he, _, hall, _⟩ := ih _ _ acc' hi' h
            refine ⟨a.id :: ext, by simp [he], ?_, ?_, by intro _; simp⟩
            · simp [hcond]
            · intro id hmem
              rcases List.mem_cons.mp hmem with rfl | hmem
              · rw [hid]; exact hp'
              · exact hall id hmem
          · next hcond =>
            obtain ⟨ext, he, hl, hall, hhi⟩ := ih _ _ acc' hi' h
            refine ⟨ext, he, ?_, hall, hhi⟩
            simp only [hcond, Bool.false_eq_true, ↓reduceIte]
            exact hl
      · next hnf =>
        simp only [hnf]
        split at h
        · next g hg =>
          simp only [hg]
          split at h
          · cases h
          · next members hm =>
            simp only [hm]
            split at h
            · next hcond =>
              obtain ⟨ext, he, _, hall, _⟩ := ih _ _ acc' hi' h
              have hgid : g.id = r := by
                have := List.find?_some hg
                simpa using this
              refine ⟨g.id :: ext, by simp [he], ?_, ?_, by intro _; simp⟩
              · simp [hcond]
              · intro id hmem
                rcases List.mem_cons.mp hmem with rfl | hmem
                · rw [hgid]; exact hp'
                · exact hall id hmem
            · next hcond =>
              obtain ⟨ext, he, hl, hall, hhi⟩ := ih _ _ acc' hi' h
              refine ⟨ext, he, ?_, hall, hhi⟩
              simp only [hcond, Bool.false_eq_true, ↓reduceIte]
              exact hl
        · next hng => simp only [hng]; exact ih acc hi acc' hi' h

theorem pass2_spec (m : ArgMap) (excl : Bool) : ∀ (as : List Arg) (acc : List Id) (hi : Nat),
    ∃ ext, (missingPass2 m excl as acc hi).1 = acc ++ ext ∧
      (!ext.isEmpty) = ((as.any fun a => conditionallyMissing m a) && !excl) ∧
      (∀ id ∈ ext, m.checkExplicit id .isPresent = false) ∧ (hi < (missingPass2 m excl as acc hi).2 → ext ≠ []) := by
  intro as
  induction as with
  | nil =>
    intro acc hi
    refine ⟨[], by simp [missingPass2], by simp, ?_, ?_⟩
    · intro id h; cases h
    · simp [missingPass2]
  | cons a as ih =>
    intro acc hi
    unfold missingPass2
    split
    · next hc =>
      obtain ⟨ext, he, _, hall, _⟩ := ih (acc ++ [a.id]) (if a.last then hi else max hi (a.index.getD 0))
      simp only [Bool.and_eq_true, Bool.not_eq_true'] at hc
      refine ⟨a.id :: ext, by simp [he], ?_, ?_, by intro _; simp⟩
      · simp [hc.1, hc.2]
      · intro id hmem
        rcases List.mem_cons.mp hmem with rfl | hmem
        · have := hc.1
          unfold conditionallyMissing at this
          simp only [Bool.and_eq_true, Bool.not_eq_true'] at this
          exact this.1
        · exact hall id hmem
    · next hc =>
      obtain ⟨ext, he, hb, hall, hhi⟩ := ih acc hi
      refine ⟨ext, he, ?_, hall, hhi⟩
      rw [hb]
      simp only [List.any_cons]
      cases hcm : conditionallyMissing m a with
      | false => simp
      | true =>
        cases he' : excl with
        | true => simp
        | false => simp [hcm, he'] at hc

/-- **every id reported missing is absent**: nothing that is explicitly present on the line is named by a
`MissingRequiredArgument` error -/
theorem missing_are_absent (c : Cmd) (m : ArgMap) (pot : List (Id × List Id)) (l : List Id)
    (h : missingRequired c m pot = some l) : ∀ id ∈ l, m.checkExplicit id .isPresent = false := by
  unfold missingRequired at h
  simp only at h
  split at h
  · cases h
  · next acc1 hi1 h1 =>
    obtain ⟨e1, he1, _, hall1, _⟩ := pass1_spec c m pot _ _ [] 0 acc1 hi1 h1
    obtain ⟨e2, he2, _, hall2, _⟩ := pass2_spec m (isExclusivePresent c m) c.args acc1 hi1
    simp only [Option.some.injEq] at h
    subst h
    intro id hid
    rcases List.mem_append.mp hid with hid | hid
    · rw [he2, he1] at hid
      simp only [List.nil_append, List.mem_append] at hid
      rcases hid with hid | hid
      · exact hall1 id hid
      · exact hall2 id hid
    · split at hid
      · cases hid
      · obtain ⟨p, hp, rfl⟩ := List.mem_map.mp hid
        have := (List.mem_filter.mp hp).2
        simp only [Bool.and_eq_true, Bool.not_eq_true'] at this
        exact this.1

/-- **the verdict and the report agree**: when the report can be computed (no internal `expect` fails) on a level
whose positionals are indexed (`_build_self` numbers them), the validator rejects with `MissingRequiredArgument` exactly
when the list of missing ids is non-empty -/
theorem error_iff_missing_nonempty (c : Cmd) (m : ArgMap) (pot : List (Id × List Id)) (l : List Id)
    (hidx : ∀ p ∈ c.positionals, p.index.isSome = true)
    (h : missingRequired c m pot = some l) :
    validateRequired c m pot = .error .missingRequiredArgument ↔ l ≠ [] := by
  unfold missingRequired at h
  simp only at h
  split at h
  · cases h
  · next acc1 hi1 h1 =>
    obtain ⟨e1, he1, hl1, _, hhi1⟩ := pass1_spec c m pot _ _ [] 0 acc1 hi1 h1
    obtain ⟨e2, he2, hb2, _, hhi2⟩ := pass2_spec m (isExclusivePresent c m) c.args acc1 hi1
    simp only [Option.some.injEq] at h
    subst h
    unfold validateRequired
    rw [hl1]
    simp only
    rw [← hb2]
    constructor
    · intro hv hnil
      have hacc : (missingPass2 m (isExclusivePresent c m) c.args acc1 hi1).1 = [] := (List.append_eq_nil_iff.mp hnil).1
      rw [he2, he1] at hacc
      simp only [List.nil_append, List.append_eq_nil_iff] at hacc
      rw [hacc.1, hacc.2] at hv
      simp at hv
    · intro hne
      by_cases h12 : e1 = [] ∧ e2 = []
      · exfalso
        obtain ⟨h1e, h2e⟩ := h12
        -- nothing was pushed, so the highest index stayed 0 and no positional is below it
        have hhi1' : ¬ (0 < hi1) := fun hlt => hhi1 hlt h1e
        have hhi2' : ¬ (hi1 < (missingPass2 m (isExclusivePresent c m) c.args acc1 hi1).2) := fun hlt => hhi2 hlt h2e
        have hzero : (missingPass2 m (isExclusivePresent c m) c.args acc1 hi1).2 = 0 := by omega
        apply hne
        rw [hzero, he2, h2e, he1, h1e]
        simp only [List.append_nil, List.nil_append]
        split
        · rfl
        · simp only [List.map_eq_nil_iff, List.filter_eq_nil_iff]
          intro p hp
          have hsome := hidx p hp
          cases hi : p.index with
          | some i => simp
          | none => rw [hi] at hsome; cases hsome
      · have : (!e1.isEmpty || !e2.isEmpty) = true := by
          cases e1 <;> cases e2 <;> simp_all
        simp [this]

end Clap.C10M
