/-
C10 — what a `MissingRequiredArgument` rejection reports (`ClapModel/Usage.lean`: `missingRequired`, the list
`validate_required` hands to `missing_required_error`).

* `missing_are_absent`: every id reported missing is not explicitly present in the matches.
* `error_iff_missing_nonempty`: the validator's verdict (`Validator.validateRequired`, the model the parser theorems
  are about) is `MissingRequiredArgument` exactly when that list is non-empty - the list model and the verdict model
  are two readings of the same loop.
-/
import ClapModel
import ClapProofs.C03Closure
import ClapProofs.C12Usage
namespace Clap.C10M
open Clap Usage Validator C12U

theorem pass1_spec (c : Cmd) (m : ArgMap) (pot : List (Id × List Id)) (excl : Bool) :
    ∀ (rs acc : List Id) (hi : Nat) (acc' : List Id) (hi' : Nat),
    missingPass1 c m pot excl rs acc hi = some (acc', hi') →
    ∃ ext, acc' = acc ++ ext ∧ requiredLoop c m pot excl rs = .ok (!ext.isEmpty) ∧
      (∀ id ∈ ext, m.checkExplicit id .isPresent = false) ∧ (hi < hi' → ext ≠ []) := by
  intro rs
  induction rs with
  | nil =>
    intro acc hi acc' hi' h
    simp only [missingPass1, Option.some.injEq, Prod.mk.injEq] at h
    obtain ⟨rfl, rfl⟩ := h
    refine ⟨[], by simp, by simp [requiredLoop], ?_, ?_⟩
    · intro id hid; cases hid
    · intro hlt; omega
  | cons r rs ih =>
    intro acc hi acc' hi' h
    unfold missingPass1 at h
    rw [requiredLoop]
    split at h
    · next hp => rw [if_pos hp]; exact ih acc hi acc' hi' h
    · next hp =>
      have hp' : m.checkExplicit r .isPresent = false := by simpa using hp
      rw [if_neg hp]
      split at h
      · next a hf =>
        have hid : a.id = r := (C03.find_mem hf).2
        simp only [hf]
        split at h
        · cases h
        · next ok hok =>
          simp only [hok]
          split at h
          · next hcond =>
            obtain ⟨ext, he, _, hall, _⟩ := ih _ _ acc' hi' h
            refine ⟨a.id :: ext, by simp [he], ?_, ?_, by intro _; simp⟩
            · simp [hcond]
            · intro id hmem
              rcases List.mem_cons.mp hmem with rfl | hmem
              · rw [hid]; exact hp'
              · exact hall id hmem
          · next hcond =>
            obtain ⟨ext, he, hl, hall, hhi⟩ := ih _ _ acc' hi' h
            refine ⟨ext, he, ?_, hall, hhi⟩
            simp only [hcond, Bool.false_eq_true, ↓reduceIte]
            exact hl
      · next hnf =>
        simp only [hnf]
        split at h
        · next g hg =>
          simp only [hg]
          split at h
          · cases h
          · next members hm =>
            simp only [hm]
            split at h
            · next hcond =>
              obtain ⟨ext, he, _, hall, _⟩ := ih _ _ acc' hi' h
              have hgid : g.id = r := by
                have := List.find?_some hg
                simpa using this
              refine ⟨g.id :: ext, by simp [he], ?_, ?_, by intro _; simp⟩
              · simp [hcond]
              · intro id hmem
                rcases List.mem_cons.mp hmem with rfl | hmem
                · rw [hgid]; exact hp'
                · exact hall id hmem
            · next hcond =>
              obtain ⟨ext, he, hl, hall, hhi⟩ := ih _ _ acc' hi' h
              refine ⟨ext, he, ?_, hall, hhi⟩
              simp only [hcond, Bool.false_eq_true, ↓reduceIte]
              exact hl
        · next hng => simp only [hng]; exact ih acc hi acc' hi' h

theorem pass2_spec (m : ArgMap) (excl : Bool) : ∀ (as : List Arg) (acc : List Id) (hi : Nat),
    ∃ ext, (missingPass2 m excl as acc hi).1 = acc ++ ext ∧
      (!ext.isEmpty) = ((as.any fun a => conditionallyMissing m a) && !excl) ∧
      (∀ id ∈ ext, m.checkExplicit id .isPresent = false) ∧ (hi < (missingPass2 m excl as acc hi).2 → ext ≠ []) := by
  intro as
  induction as with
  | nil =>
    intro acc hi
    refine ⟨[], by simp [missingPass2], by simp, ?_, ?_⟩
    · intro id h; cases h
    · simp [missingPass2]
  | cons a as ih =>
    intro acc hi
    unfold missingPass2
    split
    · next hc =>
      obtain ⟨ext, he, _, hall, _⟩ := ih (acc ++ [a.id]) (if a.last then hi else max hi (a.index.getD 0))
      simp only [Bool.and_eq_true, Bool.not_eq_true'] at hc
      refine ⟨a.id :: ext, by simp [he], ?_, ?_, by intro _; simp⟩
      · simp [hc.1, hc.2]
      · intro id hmem
        rcases List.mem_cons.mp hmem with rfl | hmem
        · have := hc.1
          unfold conditionallyMissing at this
          simp only [Bool.and_eq_true, Bool.not_eq_true'] at this
          exact this.1
        · exact hall id hmem
    · next hc =>
      obtain ⟨ext, he, hb, hall, hhi⟩ := ih acc hi
      refine ⟨ext, he, ?_, hall, hhi⟩
      rw [hb]
      simp only [List.any_cons]
      cases hcm : conditionallyMissing m a with
      | false => simp
      | true =>
        cases he' : excl with
        | true => simp
        | false => simp [hcm, he'] at hc

/-- **every id reported missing is absent**: nothing that is explicitly present on the line is named by a
`MissingRequiredArgument` error -/
theorem missing_are_absent (c : Cmd) (m : ArgMap) (pot : List (Id × List Id)) (l : List Id)
    (h : missingRequired c m pot = some l) : ∀ id ∈ l, m.checkExplicit id .isPresent = false := by
  unfold missingRequired at h
  simp only at h
  split at h
  · cases h
  · next acc1 hi1 h1 =>
    obtain ⟨e1, he1, _, hall1, _⟩ := pass1_spec c m pot _ _ [] 0 acc1 hi1 h1
    obtain ⟨e2, he2, _, hall2, _⟩ := pass2_spec m (isExclusivePresent c m) c.args acc1 hi1
    simp only [Option.some.injEq] at h
    subst h
    intro id hid
    rcases List.mem_append.mp hid with hid | hid
    · rw [he2, he1] at hid
      simp only [List.nil_append, List.mem_append] at hid
      rcases hid with hid | hid
      · exact hall1 id hid
      · exact hall2 id hid
    · split at hid
      · cases hid
      · obtain ⟨p, hp, rfl⟩ := List.mem_map.mp hid
        have := (List.mem_filter.mp hp).2
        simp only [Bool.and_eq_true, Bool.not_eq_true'] at this
        exact this.1

/-- **the verdict and the report agree**: when the report can be computed (no internal `expect` fails) on a level
whose positionals are indexed (`_build_self` numbers them), the validator rejects with `MissingRequiredArgument` exactly
when the list of missing ids is non-empty -/
theorem error_iff_missing_nonempty (c : Cmd) (m : ArgMap) (pot : List (Id × List Id)) (l : List Id)
    (hidx : ∀ p ∈ c.positionals, p.index.isSome = true)
    (h : missingRequired c m pot = some l) :
    validateRequired c m pot = .error .missingRequiredArgument ↔ l ≠ [] := by
  unfold missingRequired at h
  simp only at h
  split at h
  · cases h
  · next acc1 hi1 h1 =>
    obtain ⟨e1, he1, hl1, _, hhi1⟩ := pass1_spec c m pot _ _ [] 0 acc1 hi1 h1
    obtain ⟨e2, he2, hb2, _, hhi2⟩ := pass2_spec m (isExclusivePresent c m) c.args acc1 hi1
    simp only [Option.some.injEq] at h
    subst h
    unfold validateRequired
    rw [hl1]
    simp only
    rw [← hb2]
    constructor
    · intro hv hnil
      have hacc : (missingPass2 m (isExclusivePresent c m) c.args acc1 hi1).1 = [] := (List.append_eq_nil_iff.mp hnil).1
      rw [he2, he1] at hacc
      simp only [List.nil_append, List.append_eq_nil_iff] at hacc
      rw [hacc.1, hacc.2] at hv
      simp at hv
    · intro hne
      by_cases h12 : e1 = [] ∧ e2 = []
      · exfalso
        obtain ⟨h1e, h2e⟩ := h12
        -- nothing was pushed, so the highest index stayed 0 and no positional is below it
        have hhi1' : ¬ (0 < hi1) := fun hlt => hhi1 hlt h1e
        have hhi2' : ¬ (hi1 < (missingPass2 m (isExclusivePresent c m) c.args acc1 hi1).2) := fun hlt => hhi2 hlt h2e
        have hzero : (missingPass2 m (isExclusivePresent c m) c.args acc1 hi1).2 = 0 := by omega
        apply hne
        rw [hzero, he2, h2e, he1, h1e]
        simp only [List.append_nil, List.nil_append]
        split
        · rfl
        · simp only [List.map_eq_nil_iff, List.filter_eq_nil_iff]
          intro p hp
          have hsome := hidx p hp
          cases hi : p.index with
          | some i => simp
          | none => rw [hi] at hsome; cases hsome
      · have : (!e1.isEmpty || !e2.isEmpty) = true := by
          cases e1 <;> cases e2 <;> simp_all
        simp [this]

/-! ### the strings of the error -/

/-- where the option strings and positional slots of `get_required_usage_from` come from: an arg among the requested
ids that was not skipped -/
theorem argPass_origin (c : Cmd) (u : UInfo) (members : List Id) (r : Bool) (skip : Arg → Bool) :
    ∀ (reqs : List Id) (opts : List Bytes) (pos : List (Option Bytes)) (opts' : List Bytes) (pos' : List (Option Bytes)),
    argPass c u members r skip reqs opts pos = some (opts', pos') →
    let P := fun (x : Bytes) => ∃ q ∈ reqs, ∃ a, c.find q = some a ∧ skip a = false ∧ x = stylized u a r
    (∀ x ∈ opts', x ∈ opts ∨ P x) ∧ (∀ x, some x ∈ pos' → some x ∈ pos ∨ P x) := by
  intro reqs
  induction reqs with
  | nil =>
    intro opts pos opts' pos' h
    simp only [argPass, Option.some.injEq, Prod.mk.injEq] at h
    rw [← h.1, ← h.2]
    exact ⟨fun x hx => Or.inl hx, fun x hx => Or.inl hx⟩
  | cons q rest ih =>
    intro opts pos opts' pos' h
    have lift : ∀ x, (∃ q' ∈ rest, ∃ a, c.find q' = some a ∧ skip a = false ∧ x = stylized u a r) →
        ∃ q' ∈ q :: rest, ∃ a, c.find q' = some a ∧ skip a = false ∧ x = stylized u a r :=
      fun x ⟨q', hq', rest'⟩ => ⟨q', List.mem_cons_of_mem _ hq', rest'⟩
    unfold argPass at h
    split at h
    · next a hf =>
      split at h
      · obtain ⟨h1, h2⟩ := ih opts pos opts' pos' h
        exact ⟨fun x hx => (h1 x hx).imp id (lift x), fun x hx => (h2 x hx).imp id (lift x)⟩
      · next hskip =>
        have hs : skip a = false := by
          cases hsk : skip a with
          | false => rfl
          | true => simp [hsk] at hskip
        have here : ∃ q' ∈ q :: rest, ∃ a', c.find q' = some a' ∧ skip a' = false ∧ stylized u a r = stylized u a' r :=
          ⟨q, List.mem_cons_self, a, hf, hs, rfl⟩
        split at h
        · obtain ⟨h1, h2⟩ := ih opts _ opts' pos' h
          refine ⟨fun x hx => (h1 x hx).imp id (lift x), ?_⟩
          intro x hx
          rcases h2 x hx with hx' | hx'
          · rcases mem_setSlot _ _ _ _ hx' with hx'' | hx''
            · exact Or.inl hx''
            · cases hx''; exact Or.inr here
          · exact Or.inr (lift x hx')
        · obtain ⟨h1, h2⟩ := ih _ pos opts' pos' h
          refine ⟨?_, fun x hx => (h2 x hx).imp id (lift x)⟩
          intro x hx
          rcases h1 x hx with hx' | hx'
          · rcases mem_setInsert.mp hx' with hx'' | hx''
            · exact Or.inl hx''
            · subst hx''; exact Or.inr here
          · exact Or.inr (lift x hx')
    · split at h
      · obtain ⟨h1, h2⟩ := ih opts pos opts' pos' h
        exact ⟨fun x hx => (h1 x hx).imp id (lift x), fun x hx => (h2 x hx).imp id (lift x)⟩
      · cases h

/-- **every string of a `MissingRequiredArgument` error is justified**: it is the display of a required group none of
whose members is present, or the display (as required) of an argument among the requested ids - the required graph,
what it requires, and the ids found missing - that is NOT explicitly present in the matches -/
theorem requiredUsageFrom_justified (c : Cmd) (u : UInfo) (required incls : List Id) (m : ArgMap) (inclLast : Bool)
    (ps : List Bytes) (h : requiredUsageFrom c u required incls (some m) inclLast = some ps) :
    ∀ x ∈ ps,
      (∃ a, a ∈ c.args ∧ m.checkExplicit a.id .isPresent = false ∧ x = stylized u a true) ∨
      (∃ g, (c.findGroup g).isSome = true ∧ formatGroup c u g = some x) := by
  unfold requiredUsageFrom at h
  simp only at h
  split at h
  · cases h
  · next groups members hg =>
    split at h
    · cases h
    · next opts pos ha =>
      simp only [Option.some.injEq] at h
      subst h
      obtain ⟨o1, o2⟩ := argPass_origin c u members true _ _ [] [] opts pos ha
      have fromP : ∀ (L : List Id) x, (∃ q ∈ L, ∃ a, c.find q = some a ∧
          ((m.checkExplicit a.id .isPresent || (a.index.isSome && a.last && !inclLast)) = false) ∧ x = stylized u a true) →
          ∃ a, a ∈ c.args ∧ m.checkExplicit a.id .isPresent = false ∧ x = stylized u a true := by
        rintro L x ⟨q, _, a, hf, hs, rfl⟩
        simp only [Bool.or_eq_false_iff] at hs
        exact ⟨a, (C03.find_mem hf).1, hs.1, rfl⟩
      intro x hx
      rcases List.mem_append.mp hx with hx | hx
      · rcases List.mem_append.mp hx with hx | hx
        · rcases o1 x hx with hx' | hx'
          · cases hx'
          · exact Or.inl (fromP _ x hx')
        · -- a group string
          right
          rcases groupPass_groups c u _ _ [] [] groups members hg x hx with h0 | h0
          · cases h0
          · exact h0
      · rcases o2 x (mem_filterMap_id.mp hx) with hx' | hx'
        · cases hx'
        · exact Or.inl (fromP _ x hx')

/-- the same for the error as a whole: each string the error lists (`ContextKind::InvalidArg`) names an absent argument
or a group -/
theorem missingRequiredError_justified (c : Cmd) (u : UInfo) (m : ArgMap) (pot : List (Id × List Id))
    (rs : List Bytes) (line : Bytes) (h : missingRequiredError c u m pot = some (rs, line)) :
    ∀ x ∈ rs,
      (∃ a, a ∈ c.args ∧ m.checkExplicit a.id .isPresent = false ∧ x = stylized u a true) ∨
      (∃ g, (c.findGroup g).isSome = true ∧ formatGroup c u g = some x) := by
  unfold missingRequiredError at h
  split at h
  · cases h
  · next missing _ =>
    simp only at h
    split at h
    · cases h
    · next reqArgs hr =>
      cases hl : usageWithTitle c u (requiredIds c m)
          (((m.filter fun p => p.2.checkExplicit .isPresent).map (·.1)).filter
            (fun n => ((c.find n).map fun a => !a.hide).getD false) ++ missing) with
      | none => rw [hl] at h; cases h
      | some l =>
        rw [hl] at h
        simp only [Option.map_some, Option.some.injEq, Prod.mk.injEq] at h
        obtain ⟨rfl, _⟩ := h
        exact requiredUsageFrom_justified c u _ _ m true _ hr

/-! ### what an `ArgumentConflict` error of the validator is about -/

theorem conflictGo_about (c : Cmd) (u : UInfo) (m : ArgMap) (pot : List (Id × List Id)) :
    ∀ (ids : List Id) (ia : Bytes) (prior : List Bytes) (line : Bytes),
    conflictError.go c u m pot ids = some (some (ia, prior, line)) →
    ∃ id ∈ ids, ∃ a confs, c.find id = some a ∧ ia = displayArg u a ∧
      gatherConflicts c pot id = some confs ∧ confs ≠ [] ∧ conflictUsage c u m confs = some line := by
  intro ids
  induction ids with
  | nil => intro ia prior line h; simp [conflictError.go] at h
  | cons id rest ih =>
    intro ia prior line h
    unfold conflictError.go at h
    split at h
    · cases h
    · obtain ⟨id', hid', rest'⟩ := ih ia prior line h
      exact ⟨id', List.mem_cons_of_mem _ hid', rest'⟩
    · next confs hne hg =>
      split at h
      · next others former line' ho hf hl =>
        cases hm : (others.mapM fun i => (c.find i).map (displayArg u)) with
        | none => rw [hm] at h; cases h
        | some strs =>
          rw [hm] at h
          simp only [Option.map_some, Option.some.injEq, Prod.mk.injEq] at h
          obtain ⟨rfl, _, rfl⟩ := h
          exact ⟨id, List.mem_cons_self, former, confs, hf, rfl, hg, hne, hl⟩
      · cases h

/-- **a validator conflict is about an argument that is on the line**: the `InvalidArg` of the error is the display of
an argument whose id is explicitly present in the matches; in the non-exclusive case it has a non-empty list of
gathered conflicts (each of them explicitly present and declared, `C10.conflict_justified`) and the usage line is the
one `build_conflict_err_usage` assembles for them -/
theorem conflictError_about_present (c : Cmd) (u : UInfo) (m : ArgMap) (pot : List (Id × List Id))
    (ia : Bytes) (prior : List Bytes) (line : Bytes)
    (h : conflictError c u m pot = some (some (ia, prior, line))) :
    ∃ a, a ∈ c.args ∧ a.id ∈ explicitIds m ∧ ia = displayArg u a := by
  unfold conflictError at h
  simp only at h
  split at h
  · next a hex =>
    cases hl : usageWithTitle c u (requiredGraph c) [] with
    | none => rw [hl] at h; cases h
    | some l =>
      rw [hl] at h
      simp only [Option.map_some, Option.some.injEq, Prod.mk.injEq] at h
      obtain ⟨rfl, _, _⟩ := h
      split at hex
      · cases hex
      · have hmem := List.mem_of_head? hex
        obtain ⟨id, hid, hf⟩ := List.mem_filterMap.mp hmem
        cases hfi : c.find id with
        | none => rw [hfi] at hf; cases hf
        | some a' =>
          rw [hfi] at hf
          simp only [Option.filter] at hf
          split at hf
          · simp only [Option.some.injEq] at hf
            subst hf
            obtain ⟨hma, hida⟩ := C03.find_mem hfi
            exact ⟨a', hma, hida ▸ hid, rfl⟩
          · cases hf
  · obtain ⟨id, hid, a, confs, hf, hia, _, _, _⟩ := conflictGo_about c u m pot _ ia prior line h
    obtain ⟨hma, hida⟩ := C03.find_mem hf
    exact ⟨a, hma, hida ▸ (List.mem_filter.mp hid).1, hia⟩

end Clap.C10M
