/-
C01 — building establishes the assertions the totality theorem needs: for a definition that meets
clap's checks on what the user wrote, every level of the eagerly built tree is well-formed.
-/
import ClapProofs.C01Total
namespace Clap.C01
open Clap Build

/-! accessors through the `with…` updates -/
@[simp] theorem withArgs_args (c : Cmd) (a : List Arg) : (c.withArgs a).args = a := by cases c; rfl
@[simp] theorem withArgs_groups (c : Cmd) (a : List Arg) : (c.withArgs a).groups = c.groups := by cases c; rfl
@[simp] theorem withArgs_subs (c : Cmd) (a : List Arg) : (c.withArgs a).subs = c.subs := by cases c; rfl
@[simp] theorem withGroups_args (c : Cmd) (g : List Group) : (c.withGroups g).args = c.args := by cases c; rfl
@[simp] theorem withGroups_groups (c : Cmd) (g : List Group) : (c.withGroups g).groups = g := by cases c; rfl
@[simp] theorem withGroups_subs (c : Cmd) (g : List Group) : (c.withGroups g).subs = c.subs := by cases c; rfl
@[simp] theorem withSubs_args (c : Cmd) (s : List Cmd) : (c.withSubs s).args = c.args := by cases c; rfl
@[simp] theorem withSubs_groups (c : Cmd) (s : List Cmd) : (c.withSubs s).groups = c.groups := by cases c; rfl
@[simp] theorem withSubs_subs' (c : Cmd) (s : List Cmd) : (c.withSubs s).subs = s := by cases c; rfl
@[simp] theorem withSettings_args (c : Cmd) (s : Settings) : (c.withSettings s).args = c.args := by cases c; rfl
@[simp] theorem withSettings_groups (c : Cmd) (s : Settings) : (c.withSettings s).groups = c.groups := by cases c; rfl
@[simp] theorem withSettings_subs (c : Cmd) (s : Settings) : (c.withSettings s).subs = c.subs := by cases c; rfl

/-- what clap's debug assertions demand of one level as the user wrote it (the part the parser's totality needs) -/
structure UserLevelOk (c : Cmd) : Prop where
  nodup : (c.args.map (·.id)).Nodup
  noReserved : ∀ a ∈ c.args, a.id ≠ b_help ∧ a.id ≠ b_version
  idxPos : ∀ a ∈ c.args, a.index.isSome = true → a.isPositional = true
  posNoAlias : ∀ a ∈ c.args, a.isPositional = true → a.aliases = []
  groupsOk : ∀ g ∈ c.groups, ∀ n ∈ g.args, (∃ a ∈ c.args, a.id = n) ∨ (∃ g' ∈ c.groups, g'.id = n)

/-- WF and GroupsOk only look at the args and groups of a level -/
theorem wf_congr {c d : Cmd} (ha : d.args = c.args) (hg : d.groups = c.groups) (h : WF c ∧ GroupsOk c) : WF d ∧ GroupsOk d := by
  obtain ⟨⟨h1, h2⟩, h3⟩ := h
  refine ⟨⟨by rw [ha]; exact h1, by rw [ha]; exact h2⟩, ?_⟩
  intro g hgm n hn
  rw [hg] at hgm
  have := h3 g hgm n hn
  unfold Cmd.find Cmd.findGroup at this ⊢
  rw [ha, hg]
  exact this

theorem buildArg_id (a : Arg) : (buildArg a).id = a.id := rfl
theorem buildArg_index (a : Arg) : (buildArg a).index = a.index := rfl
theorem buildArg_long (a : Arg) : (buildArg a).long = a.long := rfl
theorem buildArg_short (a : Arg) : (buildArg a).short = a.short := rfl
theorem buildArg_aliases (a : Arg) : (buildArg a).aliases = a.aliases := rfl

theorem addToGroups_spec (argId : Id) : ∀ (gl : List Id) (groups : List Group),
    (∀ g ∈ groups, ∃ g' ∈ addToGroups groups argId gl, g'.id = g.id) ∧
    (∀ g' ∈ addToGroups groups argId gl, ∀ n ∈ g'.args, n = argId ∨ ∃ g ∈ groups, g.id = g'.id ∧ n ∈ g.args) := by
  intro gl
  induction gl with
  | nil =>
    intro groups
    exact ⟨fun g hg => ⟨g, hg, rfl⟩, fun g' hg' n hn => Or.inr ⟨g', hg', rfl, hn⟩⟩
  | cons x xs ih =>
    intro groups
    unfold addToGroups
    simp only
    split
    · -- the group exists: the member is appended
      obtain ⟨ihA, ihB⟩ := ih (groups.map fun grp => if grp.id == x then { grp with args := grp.args ++ [argId] } else grp)
      constructor
      · intro g hg
        obtain ⟨g', hg', hid⟩ := ihA (if g.id == x then { g with args := g.args ++ [argId] } else g)
          (List.mem_map.2 ⟨g, hg, rfl⟩)
        refine ⟨g', hg', ?_⟩
        rw [hid]; split <;> rfl
      · intro g' hg' n hn
        rcases ihB g' hg' n hn with h | ⟨g1, hg1, hid, hn1⟩
        · exact Or.inl h
        · obtain ⟨g0, hg0, rfl⟩ := List.mem_map.1 hg1
          split at hid
          · split at hn1
            · simp at hn1
              rcases hn1 with h | h
              · exact Or.inr ⟨g0, hg0, hid, h⟩
              · exact Or.inl h
            · next h1 h2 => exact absurd h1 h2
          · split at hn1
            · next h1 h2 => exact absurd h2 h1
            · exact Or.inr ⟨g0, hg0, hid, hn1⟩
    · -- a new group
      obtain ⟨ihA, ihB⟩ := ih (groups ++ [{ id := x, args := [argId] }])
      constructor
      · intro g hg
        exact ihA g (List.mem_append_left _ hg)
      · intro g' hg' n hn
        rcases ihB g' hg' n hn with h | ⟨g1, hg1, hid, hn1⟩
        · exact Or.inl h
        · rcases List.mem_append.1 hg1 with h | h
          · exact Or.inr ⟨g1, h, hid, hn1⟩
          · simp at h; subst h; simp at hn1; exact Or.inl hn1

/-- the per-arg loop of `_build_self`: ids, names and aliases are kept, only positionals get an index; groups keep
their ids and gain only ids of the args -/
theorem buildArgs_spec : ∀ (as : List Arg) (pc : Nat) (gs : List Group),
    (buildArgs as pc gs).1.map (·.id) = as.map (·.id) ∧
    (∀ b ∈ (buildArgs as pc gs).1, ∃ a ∈ as, b.id = a.id ∧ b.long = a.long ∧ b.short = a.short ∧ b.aliases = a.aliases ∧
      (b.index = a.index ∨ a.isPositional = true)) ∧
    (∀ g ∈ gs, ∃ g' ∈ (buildArgs as pc gs).2, g'.id = g.id) ∧
    (∀ g' ∈ (buildArgs as pc gs).2, ∀ n ∈ g'.args, (∃ a ∈ as, a.id = n) ∨ ∃ g ∈ gs, g.id = g'.id ∧ n ∈ g.args) := by
  intro as
  induction as with
  | nil =>
    intro pc gs
    simp only [buildArgs]
    exact ⟨trivial, (by intro b hb; cases hb), fun g hg => ⟨g, hg, rfl⟩, fun g' hg' n hn => Or.inr ⟨g', hg', rfl, hn⟩⟩
  | cons a as ih =>
    intro pc gs
    obtain ⟨aA, aB⟩ := addToGroups_spec a.id a.groups gs
    unfold buildArgs
    simp only
    generalize hgen : (if ((buildArg a).isPositional && (buildArg a).index.isNone) = true
        then ({ buildArg a with index := some pc }, pc + 1) else (buildArg a, pc)) = r
    obtain ⟨a2, pc2⟩ := r
    have ha2 : a2.id = a.id ∧ a2.long = a.long ∧ a2.short = a.short ∧ a2.aliases = a.aliases ∧
        (a2.index = a.index ∨ a.isPositional = true) := by
      split at hgen
      · next hc =>
        have : a2 = { buildArg a with index := some pc } := by simpa using (congrArg Prod.fst hgen).symm
        subst this
        simp only [Bool.and_eq_true] at hc
        exact ⟨rfl, rfl, rfl, rfl, Or.inr (by simpa [Arg.isPositional, buildArg_long, buildArg_short] using hc.1)⟩
      · have : a2 = buildArg a := by simpa using (congrArg Prod.fst hgen).symm
        subst this
        exact ⟨rfl, rfl, rfl, rfl, Or.inl rfl⟩
    obtain ⟨i1, i2, i3, i4⟩ := ih pc2 (addToGroups gs a.id a.groups)
    generalize buildArgs as pc2 (addToGroups gs a.id a.groups) = rr at i1 i2 i3 i4
    obtain ⟨rest, gs2⟩ := rr
    simp only at i1 i2 i3 i4 ⊢
    refine ⟨by simp [ha2.1, i1], ?_, ?_, ?_⟩
    · intro b hb
      rcases List.mem_cons.1 hb with rfl | hb'
      · exact ⟨a, List.mem_cons_self, ha2⟩
      · obtain ⟨a', ha', h'⟩ := i2 b hb'
        exact ⟨a', List.mem_cons_of_mem _ ha', h'⟩
    · intro g hg
      obtain ⟨g1, hg1, hid1⟩ := aA g hg
      obtain ⟨g2, hg2, hid2⟩ := i3 g1 hg1
      exact ⟨g2, hg2, by rw [hid2, hid1]⟩
    · intro g' hg' n hn
      rcases i4 g' hg' n hn with ⟨a', ha', h'⟩ | ⟨g1, hg1, hid, hn1⟩
      · exact Or.inl ⟨a', List.mem_cons_of_mem _ ha', h'⟩
      · rcases aB g1 hg1 n hn1 with h | ⟨g0, hg0, hid0, hn0⟩
        · exact Or.inl ⟨a, List.mem_cons_self, h.symm⟩
        · exact Or.inr ⟨g0, hg0, by rw [hid0, hid], hn0⟩

theorem find_isSome_of_id {c : Cmd} {n : Id} (h : n ∈ c.args.map (·.id)) : (c.find n).isSome = true := by
  unfold Cmd.find
  rw [List.find?_isSome]
  obtain ⟨a, ha, rfl⟩ := List.mem_map.1 h
  exact ⟨a, ha, by simp⟩

theorem findGroup_isSome_of_id {c : Cmd} {n : Id} (h : ∃ g ∈ c.groups, g.id = n) : (c.findGroup n).isSome = true := by
  unfold Cmd.findGroup
  rw [List.find?_isSome]
  obtain ⟨g, hg, rfl⟩ := h
  exact ⟨g, hg, by simp⟩

/-- the args `_check_help_and_version` hands to the per-arg loop: the user's, then possibly `help`, `version` -/
def args2 (c : Cmd) : List Arg :=
  let st0 := c.settings
  let args1 := if !st0.disableHelpFlag then c.args ++ [helpArg] else c.args
  if !(st0.disableVersionFlag || !st0.hasVersion) then args1 ++ [versionArg] else args1

/-- the command-level hyphen switches touch nothing the assertions or the parser's lookups read -/
theorem cmdLevelArg_fields (st : LevelSwitches) (a : Arg) :
    (cmdLevelArg st a).id = a.id ∧ (cmdLevelArg st a).long = a.long ∧ (cmdLevelArg st a).short = a.short ∧
    (cmdLevelArg st a).aliases = a.aliases ∧ (cmdLevelArg st a).index = a.index := by
  unfold cmdLevelArg
  simp only
  split <;> simp

theorem buildSelfCore_args (c : Cmd) : ∃ st, (buildSelfCore c).args = ((buildArgs (args2 c) 1 c.groups).1).map (cmdLevelArg st) := by
  unfold buildSelfCore args2
  simp only
  generalize buildArgs _ 1 c.groups = r
  obtain ⟨a3, g3⟩ := r
  cases c
  exact ⟨_, rfl⟩

theorem buildSelfCore_groups (c : Cmd) : (buildSelfCore c).groups = (buildArgs (args2 c) 1 c.groups).2 := by
  unfold buildSelfCore args2
  simp only
  generalize buildArgs _ 1 c.groups = r
  obtain ⟨a3, g3⟩ := r
  simp

theorem args2_mem (c : Cmd) (a : Arg) (h : a ∈ args2 c) : a ∈ c.args ∨ a = helpArg ∨ a = versionArg := by
  unfold args2 at h
  simp only at h
  split at h
  · rcases List.mem_append.1 h with h | h
    · split at h
      · rcases List.mem_append.1 h with h | h
        · exact Or.inl h
        · simp at h; exact Or.inr (Or.inl h)
      · exact Or.inl h
    · simp at h; exact Or.inr (Or.inr h)
  · split at h
    · rcases List.mem_append.1 h with h | h
      · exact Or.inl h
      · simp at h; exact Or.inr (Or.inl h)
    · exact Or.inl h

theorem args2_sub (c : Cmd) (a : Arg) (h : a ∈ c.args) : a ∈ args2 c := by
  unfold args2
  simp only
  split <;> split <;> simp [h]

theorem nodup_snoc {l : List Id} {x : Id} (h : l.Nodup) (hx : x ∉ l) : (l ++ [x]).Nodup := by
  rw [List.nodup_append]
  refine ⟨h, by simp, ?_⟩
  intro a ha b hb
  simp at hb; subst hb
  intro e; exact hx (e ▸ ha)

theorem args2_nodup (c : Cmd) (h : UserLevelOk c) : ((args2 c).map (·.id)).Nodup := by
  have hh : b_help ∉ c.args.map (·.id) := by
    intro hm; obtain ⟨a, ha, he⟩ := List.mem_map.1 hm; exact (h.noReserved a ha).1 he
  have hv : b_version ∉ c.args.map (·.id) := by
    intro hm; obtain ⟨a, ha, he⟩ := List.mem_map.1 hm; exact (h.noReserved a ha).2 he
  have hne : b_version ≠ b_help := by decide
  have h1 : (c.args.map (·.id) ++ [b_help]).Nodup := nodup_snoc h.nodup hh
  unfold args2
  simp only
  split
  · split
    · simp only [List.map_append, List.map_cons, List.map_nil, helpArg, versionArg]
      exact nodup_snoc h1 (by simp [hv, hne])
    · simp only [List.map_append, List.map_cons, List.map_nil, helpArg]
      exact nodup_snoc h.nodup hv
  · split
    · simp only [List.map_append, List.map_cons, List.map_nil, helpArg]
      exact h1
    · exact h.nodup

/-- **one level of `_build_self` establishes the assertions** -/
theorem buildSelfCore_level (c : Cmd) (h : UserLevelOk c) : WF (buildSelfCore c) ∧ GroupsOk (buildSelfCore c) := by
  obtain ⟨i1, i2, i3, i4⟩ := buildArgs_spec (args2 c) 1 c.groups
  obtain ⟨st, hA⟩ := buildSelfCore_args c
  have hG := buildSelfCore_groups c
  have hids : (buildSelfCore c).args.map (·.id) = (args2 c).map (·.id) := by
    rw [hA, List.map_map, ← i1]
    apply List.map_congr_left
    intro a _
    exact (cmdLevelArg_fields st a).1
  refine ⟨⟨by rw [hids]; exact args2_nodup c h, ?_⟩, ?_⟩
  · intro b hb hidx
    rw [hA] at hb
    obtain ⟨b0, hb0, rfl⟩ := List.mem_map.1 hb
    obtain ⟨f1, f2, f3, f4, f5⟩ := cmdLevelArg_fields st b0
    rw [f5] at hidx
    rw [f2, f4]
    obtain ⟨a, ha, _, hl, hs, hal, hor⟩ := i2 b0 hb0
    have hpos : a.isPositional = true := by
      rcases hor with h1 | h1
      · rcases args2_mem c a ha with h2 | h2 | h2
        · exact h.idxPos a h2 (by rw [← h1]; exact hidx)
        · subst h2; rw [h1] at hidx; simp [helpArg] at hidx
        · subst h2; rw [h1] at hidx; simp [versionArg] at hidx
      · exact h1
    rcases args2_mem c a ha with h2 | h2 | h2
    · refine ⟨?_, by rw [hal]; exact h.posNoAlias a h2 hpos⟩
      rw [hl]
      simp only [Arg.isPositional, Bool.and_eq_true, Option.isNone_iff_eq_none] at hpos
      exact hpos.1
    · subst h2; simp [Arg.isPositional, helpArg] at hpos
    · subst h2; simp [Arg.isPositional, versionArg] at hpos
  · intro g' hg' n hn
    rw [hG] at hg'
    have argCase : ∀ a ∈ args2 c, a.id = n → (buildSelfCore c).find n = none → False := by
      intro a ha hid hnone
      have : ((buildSelfCore c).find n).isSome = true :=
        find_isSome_of_id (by rw [hids]; exact hid ▸ List.mem_map_of_mem ha)
      rw [hnone] at this; simp at this
    rcases i4 g' hg' n hn with ⟨a, ha, hid⟩ | ⟨g, hg, hid, hng⟩
    · left
      exact find_isSome_of_id (by rw [hids]; exact hid ▸ List.mem_map_of_mem ha)
    · rcases h.groupsOk g hg n hng with ⟨a, ha, hid'⟩ | ⟨g0, hg0, hid'⟩
      · left
        exact find_isSome_of_id (by rw [hids]; exact hid' ▸ List.mem_map_of_mem (args2_sub c a ha))
      · right
        obtain ⟨g1, hg1, hid1⟩ := i3 g0 hg0
        exact findGroup_isSome_of_id ⟨g1, by rw [hG]; exact hg1, by rw [hid1, hid']⟩

/-- a level that is not (re)built - already marked `Built` - is well-formed as the user wrote it -/
theorem user_level_wf (c : Cmd) (h : UserLevelOk c) : WF c ∧ GroupsOk c := by
  refine ⟨⟨h.nodup, ?_⟩, ?_⟩
  · intro a ha hidx
    have hpos := h.idxPos a ha hidx
    refine ⟨?_, h.posNoAlias a ha hpos⟩
    simp only [Arg.isPositional, Bool.and_eq_true, Option.isNone_iff_eq_none] at hpos
    exact hpos.1
  · intro g hg n hn
    rcases h.groupsOk g hg n hn with ⟨a, ha, hid⟩ | hgr
    · exact Or.inl (find_isSome_of_id (hid ▸ List.mem_map_of_mem ha))
    · exact Or.inr (findGroup_isSome_of_id hgr)

theorem buildSelf_level (c : Cmd) (h : UserLevelOk c) : WF (buildSelf c) ∧ GroupsOk (buildSelf c) := by
  unfold buildSelf
  split
  · exact user_level_wf c h
  · exact buildSelfCore_level c h

/-! the subcommands a built level hands on -/

def addGlobal (acc : List Arg) (a : Arg) : List Arg := if acc.any (fun x => x.id == a.id) then acc else acc ++ [a]

theorem foldl_addGlobal_spec : ∀ (globals init : List Arg), (init.map (·.id)).Nodup →
    ((globals.foldl addGlobal init).map (·.id)).Nodup ∧
    (∀ x ∈ init, x ∈ globals.foldl addGlobal init) ∧
    (∀ x ∈ globals.foldl addGlobal init, x ∈ init ∨ x ∈ globals) := by
  intro globals
  induction globals with
  | nil => intro init h; exact ⟨h, fun x hx => hx, fun x hx => Or.inl hx⟩
  | cons g gs ih =>
    intro init h
    simp only [List.foldl_cons]
    have hstep : ((addGlobal init g).map (·.id)).Nodup ∧ (∀ x ∈ init, x ∈ addGlobal init g) ∧
        (∀ x ∈ addGlobal init g, x ∈ init ∨ x = g) := by
      unfold addGlobal
      split
      · exact ⟨h, fun x hx => hx, fun x hx => Or.inl hx⟩
      · next hany =>
        refine ⟨?_, fun x hx => List.mem_append_left _ hx, ?_⟩
        · simp only [List.map_append, List.map_cons, List.map_nil]
          apply nodup_snoc h
          intro hm
          obtain ⟨y, hy, he⟩ := List.mem_map.1 hm
          apply hany
          rw [List.any_eq_true]
          exact ⟨y, hy, by simp [he]⟩
        · intro x hx
          rcases List.mem_append.1 hx with hx | hx
          · exact Or.inl hx
          · simp at hx; exact Or.inr hx
    obtain ⟨s1, s2, s3⟩ := hstep
    obtain ⟨r1, r2, r3⟩ := ih (addGlobal init g) s1
    refine ⟨r1, fun x hx => r2 x (s2 x hx), ?_⟩
    intro x hx
    rcases r3 x hx with h' | h'
    · rcases s3 x h' with h'' | h''
      · exact Or.inl h''
      · exact Or.inr (h'' ▸ List.mem_cons_self)
    · exact Or.inr (List.mem_cons_of_mem _ h')

/-- an arg that may be copied into a subcommand as a global -/
def GlobalOk (a : Arg) : Prop :=
  a.id ≠ b_help ∧ a.id ≠ b_version ∧ (a.index.isSome = true → a.isPositional = true) ∧ (a.isPositional = true → a.aliases = [])

theorem propagate_level (globals : List Arg) (hg : ∀ a ∈ globals, GlobalOk a) (f : Bool) (sc : Cmd) (h : UserLevelOk sc) :
    UserLevelOk (propagateGlobals globals f sc) := by
  unfold propagateGlobals
  split
  · exact h
  · obtain ⟨r1, r2, r3⟩ := foldl_addGlobal_spec globals sc.args h.nodup
    have hargs : (sc.withArgs (globals.foldl (fun acc a => if acc.any (fun x => x.id == a.id) then acc else acc ++ [a]) sc.args)).args
        = globals.foldl addGlobal sc.args := by rw [withArgs_args]; rfl
    constructor
    · rw [hargs]; exact r1
    · intro a ha
      rw [hargs] at ha
      rcases r3 a ha with h1 | h1
      · exact h.noReserved a h1
      · exact ⟨(hg a h1).1, (hg a h1).2.1⟩
    · intro a ha
      rw [hargs] at ha
      rcases r3 a ha with h1 | h1
      · exact h.idxPos a h1
      · exact (hg a h1).2.2.1
    · intro a ha
      rw [hargs] at ha
      rcases r3 a ha with h1 | h1
      · exact h.posNoAlias a h1
      · exact (hg a h1).2.2.2
    · intro g hgm n hn
      simp only [withArgs_groups] at hgm
      rcases h.groupsOk g hgm n hn with ⟨a, ha, hid⟩ | hgr
      · exact Or.inl ⟨a, by rw [hargs]; exact r2 a ha, hid⟩
      · exact Or.inr (by simpa using hgr)

theorem helpSub_ok : UserLevelOk helpSub := by
  constructor
  · decide
  · intro a ha
    simp [helpSub, Cmd.args] at ha
    subst ha
    exact ⟨by decide, by decide⟩
  · intro a ha hi
    simp [helpSub, Cmd.args] at ha
    subst ha
    simp at hi
  · intro a ha _
    simp [helpSub, Cmd.args] at ha
    subst ha
    rfl
  · intro g hg
    simp [helpSub, Cmd.groups] at hg

/-- every level of the user's tree meets the per-level conditions -/
def UserTreeOk (c : Cmd) : Prop := ∀ d, Desc c d → UserLevelOk d

theorem UserTreeOk.sub {c sc : Cmd} (h : UserTreeOk c) (hs : sc ∈ c.subs) : UserTreeOk sc :=
  fun d hd => h d (Desc.step c sc d hs hd)

theorem helpSub_tree : UserTreeOk helpSub := by
  intro d hd
  cases hd with
  | refl => exact helpSub_ok
  | step _ sc _ hs _ => simp [helpSub, Cmd.subs] at hs

/-- a tree whose root level was changed only in args and settings (subcommands kept) is still ok if the new root is -/
theorem tree_of_root {c c' : Cmd} (h : UserTreeOk c) (hsubs : c'.subs = c.subs) (hroot : UserLevelOk c') : UserTreeOk c' := by
  intro d hd
  cases hd with
  | refl => exact hroot
  | step _ sc _ hs hrest => exact h d (Desc.step c sc d (hsubs ▸ hs) hrest)

theorem propagateGlobals_subs (globals : List Arg) (f : Bool) (sc : Cmd) : (propagateGlobals globals f sc).subs = sc.subs := by
  unfold propagateGlobals; split <;> simp

theorem withSettings_level {c : Cmd} (s : Settings) (h : UserLevelOk c) : UserLevelOk (c.withSettings s) := by
  constructor
  · simpa using h.nodup
  · simpa using h.noReserved
  · simpa using h.idxPos
  · simpa using h.posNoAlias
  · simpa using h.groupsOk

/-- the subcommands of a built level are again trees the builder can be applied to -/
theorem buildSelf_subs_ok (c : Cmd) (h : UserTreeOk c) : ∀ sc ∈ (buildSelf c).subs, UserTreeOk sc := by
  unfold buildSelf
  split
  · intro sc hsc; exact h.sub hsc
  · intro sc hsc
    have hroot := h c (Desc.refl c)
    unfold buildSelfCore at hsc
    simp only at hsc
    generalize hb : buildArgs _ 1 c.groups = r at hsc
    obtain ⟨a3, g3⟩ := r
    simp only [withSubs_subs', List.mem_map] at hsc
    obtain ⟨sc1, ⟨sc0, hsc0, rfl⟩, rfl⟩ := hsc
    -- `sc0` is one of the user's subcommands or the generated `help`
    have h0 : UserTreeOk sc0 := by
      split at hsc0
      · rcases List.mem_append.1 hsc0 with h1 | h1
        · exact h.sub h1
        · simp at h1; subst h1; exact helpSub_tree
      · exact h.sub hsc0
    -- the globals handed down are user args of this level
    have hglob : ∀ a ∈ (args2 c).filter (·.global), GlobalOk a := by
      intro a ha
      obtain ⟨ha1, ha2⟩ := List.mem_filter.1 ha
      rcases args2_mem c a ha1 with h2 | h2 | h2
      · exact ⟨(hroot.noReserved a h2).1, (hroot.noReserved a h2).2, hroot.idxPos a h2, hroot.posNoAlias a h2⟩
      · subst h2; simp [helpArg] at ha2
      · subst h2; simp [versionArg] at ha2
    apply tree_of_root (c := sc0.withSettings _) (tree_of_root h0 (by simp) (withSettings_level _ (h0 sc0 (Desc.refl sc0))))
      (propagateGlobals_subs _ _ _)
    exact propagate_level _ (by simpa [args2] using hglob) _ _ (withSettings_level _ (h0 sc0 (Desc.refl sc0)))

/-- **building establishes the assertions, at every level and depth**: the eagerly built tree of a definition that
meets clap's checks on what the user wrote is well-formed in the sense the totality theorem needs -/
theorem buildAll_wf : ∀ (n : Nat) (c : Cmd), UserTreeOk c → WFTree (buildAll n c) := by
  intro n
  induction n with
  | zero =>
    intro c h d hd
    exact user_level_wf d (h d hd)
  | succ n ih =>
    intro c h d hd
    unfold buildAll at hd
    simp only at hd
    cases hd with
    | refl =>
      exact wf_congr (by simp) (by simp) (buildSelf_level c (h c (Desc.refl c)))
    | step _ sc _ hs hrest =>
      simp only [withSubs_subs', List.mem_map] at hs
      obtain ⟨sc1, hsc1, rfl⟩ := hs
      exact ih sc1 (buildSelf_subs_ok c h sc1 hsc1) d hrest

/-- **`try_get_matches_from` is total on every definition that meets clap's own checks** (stated on what the user
wrote; no hypothesis about the built tree) -/
theorem tryGetMatchesFrom_total' (similar : Bytes → Bytes → Bool) (depth : Nat) (c : Cmd) (argv : List Bytes)
    (hh : (Build.buildAll (depth + 2) c).height ≤ depth + 3) (hu : UserTreeOk c) :
    ∃ r, Command.tryGetMatchesFrom similar depth c argv = some r ∧ ∀ e, r = .error e → isPanic e = false := by
  unfold Command.tryGetMatchesFrom
  exact doParse_total similar (depth + 2) _ hh (buildAll_wf _ c hu) _

/-! #### building does not deepen the tree -/

theorem height_pos (c : Cmd) : 1 ≤ c.height := by cases c; simp [Cmd.height]

theorem height_eq (c : Cmd) : c.height = 1 + Cmd.heightList c.subs := by cases c; simp [Cmd.height, Cmd.subs]

theorem heightList_le_of_forall (l : List Cmd) (k : Nat) (h : ∀ x ∈ l, x.height ≤ k) : Cmd.heightList l ≤ k := by
  induction l with
  | nil => simp [Cmd.heightList]
  | cons x xs ih =>
    simp only [Cmd.heightList]
    have h1 := h x List.mem_cons_self
    have h2 := ih (fun y hy => h y (List.mem_cons_of_mem _ hy))
    omega

theorem height_of_subs_eq {c d : Cmd} (h : d.subs = c.subs) : d.height = c.height := by
  rw [height_eq d, height_eq c, h]

theorem propagate_height (g : List Arg) (f : Bool) (sc0 : Cmd) (st : Settings) :
    (propagateGlobals g f (sc0.withSettings st)).height = sc0.height :=
  height_of_subs_eq (by rw [propagateGlobals_subs]; simp)

theorem buildSelf_subs_height (c : Cmd) : ∀ sc ∈ (buildSelf c).subs, sc.height ≤ Cmd.heightList c.subs := by
  unfold buildSelf
  split
  · intro sc hsc; exact heightList_ge c.subs hsc
  · intro sc hsc
    unfold buildSelfCore at hsc
    simp only at hsc
    generalize hb : buildArgs _ 1 c.groups = r at hsc
    obtain ⟨a3, g3⟩ := r
    simp only [withSubs_subs', List.mem_map] at hsc
    obtain ⟨sc1, ⟨sc0, hsc0, rfl⟩, rfl⟩ := hsc
    rw [propagate_height]
    split at hsc0
    · next hflag =>
      rcases List.mem_append.1 hsc0 with h1 | h1
      · exact heightList_ge c.subs h1
      · simp at h1; subst h1
        -- the generated `help` leaf: only added when there are subcommands, each of height >= 1
        have hsub : c.hasSubcommands = true := by
          simp only [Bool.not_eq_true', Bool.or_eq_false_iff, Bool.not_eq_false'] at hflag
          simpa using hflag.2
        unfold Cmd.hasSubcommands at hsub
        cases hcs : c.subs with
        | nil => simp [hcs] at hsub
        | cons x xs =>
          have : x.height ≤ Cmd.heightList (x :: xs) := heightList_ge (x :: xs) List.mem_cons_self
          have hx := height_pos x
          have hhs : helpSub.height = 1 := by decide
          omega
    · exact heightList_ge c.subs hsc0

theorem buildAll_height : ∀ (n : Nat) (c : Cmd), (buildAll n c).height ≤ c.height := by
  intro n
  induction n with
  | zero => intro c; exact Nat.le_refl _
  | succ n ih =>
    intro c
    unfold buildAll
    simp only
    rw [height_eq (Cmd.withSubs _ _), height_eq c, withSubs_subs']
    apply Nat.add_le_add_left
    apply heightList_le_of_forall
    intro x hx
    obtain ⟨sc, hsc, rfl⟩ := List.mem_map.1 hx
    exact Nat.le_trans (ih sc) (buildSelf_subs_height c sc hsc)

/-- **totality, stated entirely on the user's definition**: if every level of the definition meets clap's checks
(`UserTreeOk`) and the fuel covers its depth, `try_get_matches_from` returns matches or a clap error for every argv -/
theorem tryGetMatchesFrom_total'' (similar : Bytes → Bytes → Bool) (depth : Nat) (c : Cmd) (argv : List Bytes)
    (hh : c.height ≤ depth + 3) (hu : UserTreeOk c) :
    ∃ r, Command.tryGetMatchesFrom similar depth c argv = some r ∧ ∀ e, r = .error e → isPanic e = false :=
  tryGetMatchesFrom_total' similar depth c argv (Nat.le_trans (buildAll_height _ c) hh) hu

/-! #### the user-level hypothesis is decidable too -/

theorem userLevelB_sound {c : Cmd} (h : c.userLevelB = true) : UserLevelOk c := by
  unfold Cmd.userLevelB at h
  simp only [Bool.and_eq_true, decide_eq_true_eq, List.all_eq_true, Bool.or_eq_true, bne_iff_ne, ne_eq,
    Bool.not_eq_eq_eq_not, Bool.not_true, List.any_eq_true, beq_iff_eq, List.isEmpty_iff] at h
  obtain ⟨⟨⟨⟨h1, h2⟩, h3⟩, h4⟩, h5⟩ := h
  refine ⟨h1, h2, ?_, ?_, ?_⟩
  · intro a ha hi
    rcases h3 a ha with h | h
    · rw [hi] at h; cases h
    · exact h
  · intro a ha hp
    rcases h4 a ha with h | h
    · rw [hp] at h; cases h
    · exact h
  · intro g hg n hn
    rcases h5 g hg n hn with ⟨a, ha, he⟩ | ⟨g', hg', he⟩
    · exact Or.inl ⟨a, ha, he⟩
    · exact Or.inr ⟨g', hg', he⟩

theorem userTreeB_sound : ∀ (fuel : Nat) (c : Cmd), c.userTreeB fuel = true → UserTreeOk c := by
  intro fuel
  induction fuel with
  | zero =>
    intro c h d hd
    unfold Cmd.userTreeB at h
    simp only [Bool.and_eq_true, List.isEmpty_iff] at h
    cases hd with
    | refl => exact userLevelB_sound h.1
    | step _ sc _ hs _ => rw [h.2] at hs; cases hs
  | succ fuel ih =>
    intro c h d hd
    unfold Cmd.userTreeB at h
    simp only [Bool.and_eq_true, List.all_eq_true] at h
    cases hd with
    | refl => exact userLevelB_sound h.1
    | step _ sc _ hs hrest => exact ih sc (h.2 sc hs) d hrest

/-- **totality from a check on the definition as written**: `userTreeB` is evaluated by the driver on every
command the harness generates, before any build -/
theorem tryGetMatchesFrom_total_checked (similar : Bytes → Bytes → Bool) (depth : Nat) (c : Cmd) (argv : List Bytes)
    (hh : c.height ≤ depth + 3) (hu : c.userTreeB (depth + 3) = true) :
    ∃ r, Command.tryGetMatchesFrom similar depth c argv = some r ∧ ∀ e, r = .error e → isPanic e = false :=
  tryGetMatchesFrom_total'' similar depth c argv hh (userTreeB_sound _ c hu)

/-- the hypotheses are met by a command with an option in a group, a multi-valued positional and a flag subcommand -/
example :
    let sub : Cmd := .mk [115] [] (some [83]) none [] [] {} [{ id := [120], short := some [120] }] [] []
    let c : Cmd := .mk [112] [] none none [] [] {}
      [{ id := [111], long := some [111] }, { id := [102], index := some 1, numVals := some ⟨1, none⟩ }]
      [{ id := [103], args := [[111]] }] [sub]
    c.userTreeB 3 = true ∧ c.height ≤ 3 := by
  decide

end Clap.C01
