/-
C03 — `requires`: after a successful validation, what an explicitly present argument requires is present too.
-/
import ClapProofs.C03
namespace Clap.C03
open Clap Parser Validator

/-- `unroll_arg_requires` only ever adds to its result -/
theorem unroll_mono (c : Cmd) (relevant : Pred × Id → Option Id) : ∀ (fuel : Nat) (rvec processed args : List Id) (x : Id),
    x ∈ args → x ∈ unrollArgRequires c relevant fuel rvec processed args := by
  intro fuel
  induction fuel with
  | zero => intro rvec processed args x h; unfold unrollArgRequires; exact h
  | succ fuel ih =>
    intro rvec processed args x h
    cases rvec with
    | nil => unfold unrollArgRequires; exact h
    | cons a rvec =>
      unfold unrollArgRequires
      split
      · exact ih _ _ _ _ h
      · simp only
        split
        · exact ih _ _ _ _ h
        · next arg _ =>
          apply ih
          -- the fold only appends to the second component
          have key : ∀ (rs : List Id) (acc : List Id × List Id), x ∈ acc.2 →
              x ∈ (rs.foldl (fun (acc : List Id × List Id) r =>
                let push := match c.find r with | some req => !req.requires.isEmpty | none => false
                ((if push then r :: acc.1 else acc.1), acc.2 ++ [r])) acc).2 := by
            intro rs
            induction rs with
            | nil => intro acc h; exact h
            | cons r rs ihr => intro acc h; simp only [List.foldl_cons]; apply ihr; simp [h]
          exact key _ _ h

/-- the direct requirements of the arg the unrolling starts from are all in the result -/
theorem unroll_direct (c : Cmd) (relevant : Pred × Id → Option Id) (fuel : Nat) (a : Arg) (hfa : c.find a.id = some a)
    (b : Id) (hb : b ∈ a.requires.filterMap relevant) :
    b ∈ unrollArgRequires c relevant (fuel + 1) [a.id] [] [] := by
  unfold unrollArgRequires
  simp only [List.contains_nil, Bool.false_eq_true, ↓reduceIte, hfa, List.nil_append]
  apply unroll_mono
  have key : ∀ (rs : List Id) (acc : List Id × List Id), (b ∈ acc.2 ∨ b ∈ rs) →
      b ∈ (rs.foldl (fun (acc : List Id × List Id) r =>
        let push := match c.find r with | some req => !req.requires.isEmpty | none => false
        ((if push then r :: acc.1 else acc.1), acc.2 ++ [r])) acc).2 := by
    intro rs
    induction rs with
    | nil => intro acc h; simpa using h
    | cons r rs ihr =>
      intro acc h
      simp only [List.foldl_cons]
      apply ihr
      rcases h with h | h
      · left; simp [h]
      · rcases List.mem_cons.1 h with rfl | h'
        · left; simp
        · right; exact h'
  exact key _ _ (Or.inr hb)

theorem mem_foldl_dedup_extra (extra : List Id) : ∀ (init : List Id) (x : Id), x ∈ extra →
    x ∈ extra.foldl (fun acc i => if acc.contains i then acc else acc ++ [i]) init := by
  induction extra with
  | nil => intro init x h; cases h
  | cons e es ih =>
    intro init x h
    simp only [List.foldl_cons]
    rcases List.mem_cons.1 h with rfl | h'
    · apply mem_foldl_dedup
      split
      · next hc => simpa using hc
      · simp
    · exact ih _ x h'

/-- what an explicitly present arg requires (under a predicate its values satisfy) is walked by `validate_required` -/
theorem requires_in_graph (c : Cmd) (m : ArgMap) (a : Arg) (ma : MatchedArg) (pred : Pred) (b : Id)
    (hfa : c.find a.id = some a) (hma : m.get a.id = some ma) (hex : ma.checkExplicit .isPresent = true)
    (hreq : (pred, b) ∈ a.requires) (hpred : ma.checkExplicit pred = true) :
    b ∈ requiredIds c m := by
  unfold requiredIds
  apply mem_foldl_dedup_extra
  unfold gatherRequires
  -- the matcher entry of `a`
  unfold ArgMap.get at hma
  cases hf : m.find? (fun p => p.1 == a.id) with
  | none => rw [hf] at hma; simp at hma
  | some e =>
    rw [hf] at hma
    have he2 : e.2 = ma := by simpa using hma
    have hem : e ∈ m := List.mem_of_find?_eq_some hf
    have he1 : e.1 = a.id := by simpa using List.find?_some hf
    rw [List.mem_flatMap]
    refine ⟨e, List.mem_filter.2 ⟨hem, by rw [he2]; exact hex⟩, ?_⟩
    simp only [he1, hfa]
    have hfuel : requiresFuel c = ((c.args.map fun a => a.requires.length).sum + 1) + 1 := rfl
    rw [hfuel]
    apply unroll_direct c _ _ a hfa
    rw [List.mem_filterMap]
    exact ⟨(pred, b), hreq, by simp [he2, hpred]⟩

/-- **`requires` holds after a successful parse**: if `a` is explicitly present, declares `requires(b)` or
`requires_if(v, b)` and its values satisfy the condition, then `b` is explicitly present - unless a documented
exemption applies (an exclusive arg is present, something present conflicts with `b` or one of its groups, or a
subcommand negates requirements) -/
theorem requires_present (c : Cmd) (p : P) (hv : validate c p = .ok ()) (a b : Arg) (ma : MatchedArg) (pred : Pred)
    (hfa : c.find a.id = some a) (hfb : c.find b.id = some b) (hma : p.args.get a.id = some ma)
    (hex : ma.checkExplicit .isPresent = true) (hreq : (pred, b.id) ∈ a.requires) (hpred : ma.checkExplicit pred = true) :
    p.args.checkExplicit b.id .isPresent = true ∨
    (c.settings.subcommandNegatesReqs = true ∧ p.sub ≠ []) ∨
    isExclusivePresent c p.args = true ∨
    ∃ pot, potential c p.args = some pot ∧ isMissingRequiredOk c pot b = some true := by
  unfold validate at hv
  cases hp : potential c p.args with
  | none => simp [hp] at hv
  | some pot =>
    simp only [hp] at hv
    split at hv
    · simp at hv
    · split at hv
      · simp at hv
      · cases hvc : validateConflicts c p.args pot with
        | error e => simp [hvc] at hv
        | ok u =>
          simp only [hvc] at hv
          split at hv
          · next hneg =>
            unfold validateRequired at hv
            cases hl : requiredLoop c p.args pot (isExclusivePresent c p.args) (requiredIds c p.args) with
            | error e => simp [hl] at hv
            | ok missing1 =>
              simp only [hl] at hv
              cases missing1 with
              | true => simp at hv
              | false =>
                by_cases hexb : p.args.checkExplicit b.id .isPresent = true
                · exact Or.inl hexb
                · have hex' : p.args.checkExplicit b.id .isPresent = false := by simpa using hexb
                  have := (requiredLoop_ok _ hl b.id (requires_in_graph c p.args a ma pred b.id hfa hma hex hreq hpred) hex').1 b hfb
                  rcases this with h | h
                  · exact Or.inr (Or.inr (Or.inl h))
                  · exact Or.inr (Or.inr (Or.inr ⟨pot, rfl, h⟩))
          · next hneg =>
            right; left
            simp only [Bool.not_eq_true', Bool.not_eq_false', Bool.and_eq_true] at hneg
            have hneg' : c.settings.subcommandNegatesReqs = true ∧ (!p.sub.isEmpty) = true := by simpa using hneg
            exact ⟨hneg'.1, by intro hs; simp [hs] at hneg'⟩

/-- the hypotheses are met: `--a` requires `--b`, both given -/
example :
    let b : Arg := { id := [98], long := some [98] }
    let a : Arg := { id := [97], long := some [97], requires := [(.isPresent, [98])] }
    let c : Cmd := .mk [112] [] none none [] [] {} [a, b] [] []
    let ma : MatchedArg := { source := some .cmdline, rawVals := [[[118]]] }
    let p : P := { args := [([97], ma), ([98], ma)] }
    validate c p = .ok () ∧ c.find a.id = some a ∧ c.find b.id = some b ∧ p.args.get a.id = some ma ∧
      ma.checkExplicit .isPresent = true ∧ (Pred.isPresent, b.id) ∈ a.requires := by
  intro b a c ma p
  exact ⟨by rfl, by rfl, by rfl, by rfl, by rfl, by simp [a, b]⟩

end Clap.C03
