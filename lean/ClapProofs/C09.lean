/-
C09 — Subcommand dispatch follows argv, and global arguments agree at every level.
-/
import ClapModel
import ClapProofs.C02
namespace Clap.C09
open Clap Parser Globals C02

/-! #### dispatch -/

theorem findSubcommand_self (c : Cmd) (sc : Cmd) (h : sc ∈ c.subs) : (c.findSubcommand sc.name).isSome = true := by
  unfold Cmd.findSubcommand
  rw [List.find?_isSome]
  exact ⟨sc, h, by simp [Cmd.aliasesTo]⟩

theorem findSubcommand_alias (c : Cmd) (sc : Cmd) (al : Bytes) (h : sc ∈ c.subs) (ha : al ∈ sc.aliases) :
    (c.findSubcommand al).isSome = true := by
  unfold Cmd.findSubcommand
  rw [List.find?_isSome]
  exact ⟨sc, h, by simp [Cmd.aliasesTo, ha]⟩

/-- **whatever `possible_subcommand` answers names a subcommand of this level**: the
`expect` on `find_subcommand` after the token loop can never fail -/
theorem possibleSubcommand_resolves (c : Cmd) (arg : Bytes) (vaf : Bool) (n : Bytes)
    (h : possibleSubcommand c arg vaf = some n) : (c.findSubcommand n).isSome = true := by
  unfold possibleSubcommand at h
  split at h
  · simp at h
  · split at h
    · simp at h
    · simp only at h
      split at h
      · -- inferred: the single candidate is a name or an alias of some subcommand
        next n' hinf =>
        simp at h; subst h
        split at hinf
        · split at hinf
          · next cands x hx =>
            simp at hinf; subst hinf
            have hmem : x ∈ c.subs.filterMap fun s =>
                if Bytes.startsWith s.name arg then some s.name else (s.aliases.find? fun al => Bytes.startsWith al arg) := by
              rw [hx]; simp
            simp only [List.mem_filterMap] at hmem
            obtain ⟨s, hs, hsx⟩ := hmem
            split at hsx
            · simp at hsx; subst hsx; exact findSubcommand_self c s hs
            · exact findSubcommand_alias c s x hs (List.mem_of_find?_eq_some hsx)
          · simp at hinf
        · simp at hinf
      · -- exact
        next hinf =>
        cases hf : c.findSubcommand arg with
        | none => simp [hf] at h
        | some sc =>
          simp [hf] at h; subst h
          exact findSubcommand_self c sc (List.mem_of_find?_eq_some hf)

/-- an exact name or alias is never shadowed by prefix inference: with at least two
prefix candidates the lookup falls back to the exact match -/
theorem exact_name_dispatches (c : Cmd) (arg : Bytes) (sc : Cmd) (hutf : Utf8.valid arg = true)
    (hnoconf : (c.settings.argsConflictsWithSubcommands && vaf) = false)
    (hexact : c.findSubcommand arg = some sc) (hinf : c.settings.inferSubcommands = false) :
    possibleSubcommand c arg vaf = some sc.name := by
  unfold possibleSubcommand
  simp [hutf, hnoconf, hinf, hexact]

/-- `args_conflicts_with_subcommands` after a valid arg: nothing dispatches -/
theorem no_dispatch_after_arg (c : Cmd) (arg : Bytes) (h : c.settings.argsConflictsWithSubcommands = true) :
    possibleSubcommand c arg true = none := by
  unfold possibleSubcommand
  split
  · rfl
  · simp [h]

/-! #### external subcommands -/

/-- the external subcommand's matches hold exactly the remaining argv, in order, as one occurrence -/
theorem external_verbatim (rest : List Bytes) :
    (externalMatches rest).get [] = some { source := some .cmdline, rawVals := [rest] } := by
  simp [externalMatches, ArgMap.get]

/-! #### global propagation -/

theorem get_insert_self (m : ArgMap) (id : Id) (v : MatchedArg) : (m.insert id v).get id = some v := by
  unfold ArgMap.insert
  by_cases hc : m.contains id = true
  · simp only [hc, ↓reduceIte]
    induction m with
    | nil => simp [ArgMap.contains] at hc
    | cons q qs ih =>
      unfold ArgMap.get at ih ⊢
      simp only [List.map_cons, List.find?_cons]
      by_cases hq : (q.1 == id) = true
      · simp [hq]
      · have hq' : (q.1 == id) = false := by simpa using hq
        simp only [hq', Bool.false_eq_true, ↓reduceIte]
        apply ih
        simpa [ArgMap.contains, hq'] using hc
  · have hc' : m.contains id = false := by simpa using hc
    simp only [hc', Bool.false_eq_true, ↓reduceIte]
    exact ArgMap.get_append_new m id v hc'

theorem get_replace_other (m : ArgMap) (id id' : Id) (v : MatchedArg) (h : (id == id') = false) :
    ArgMap.get (m.map fun p => if p.1 == id then (id, v) else p) id' = m.get id' := by
  induction m with
  | nil => rfl
  | cons q qs ih =>
    unfold ArgMap.get at ih ⊢
    simp only [List.map_cons, List.find?_cons]
    by_cases hq : (q.1 == id) = true
    · have : q.1 = id := by simpa using hq
      have hne : (q.1 == id') = false := by rw [this]; exact h
      simp only [hq, ↓reduceIte, hne, h]
      exact ih
    · have hq' : (q.1 == id) = false := by simpa using hq
      simp only [hq', Bool.false_eq_true, ↓reduceIte]
      by_cases hq2 : (q.1 == id') = true
      · simp [hq2]
      · have hq2' : (q.1 == id') = false := by simpa using hq2
        simp only [hq2']
        exact ih

theorem get_insert_other (m : ArgMap) (id id' : Id) (v : MatchedArg) (h : (id == id') = false) :
    (m.insert id v).get id' = m.get id' := by
  unfold ArgMap.insert
  split
  · exact get_replace_other m id id' v h
  · exact ArgMap.get_append_other m id id' v h

/-- writing a whole map into a level: afterwards the level agrees with the map on every key of the map
(keys of the map unique) -/
theorem writeAll_get (vals : ArgMap) (hk : (keys vals).Nodup) : ∀ (level : ArgMap) (g : Id) (ma : MatchedArg),
    vals.get g = some ma → (vals.foldl (fun (acc : ArgMap) p => acc.insert p.1 p.2) level).get g = some ma := by
  induction vals with
  | nil => intro level g ma h; simp [ArgMap.get] at h
  | cons q qs ih =>
    intro level g ma h
    simp only [keys, List.map_cons, List.nodup_cons] at hk
    simp only [List.foldl_cons]
    by_cases hq : (q.1 == g) = true
    · have hqg : q.1 = g := by simpa using hq
      have hma : q.2 = ma := by simpa [ArgMap.get, List.find?_cons, hq] using h
      -- `g` is not a key of the rest, so later inserts leave it alone
      have hnot : g ∉ keys qs := by rw [← hqg]; exact hk.1
      have frame : ∀ (l : ArgMap) (lv : ArgMap), (∀ x ∈ l, (x.1 == g) = false) →
          (l.foldl (fun (acc : ArgMap) p => acc.insert p.1 p.2) lv).get g = lv.get g := by
        intro l
        induction l with
        | nil => intro lv _; rfl
        | cons y ys ihy =>
          intro lv hall
          simp only [List.foldl_cons]
          rw [ihy _ (fun x hx => hall x (by simp [hx])), get_insert_other _ _ _ _ (hall y (by simp))]
      rw [frame qs _ (by
        intro x hx
        cases hxg : x.1 == g with
        | false => rfl
        | true =>
          exfalso; apply hnot
          have : x.1 = g := by simpa using hxg
          rw [← this]; simp only [keys, List.mem_map]; exact ⟨x, hx, rfl⟩)]
      rw [hqg, get_insert_self, hma]
    · have hq' : (q.1 == g) = false := by simpa using hq
      exact ih hk.2 _ g ma (by simpa [ArgMap.get, List.find?_cons, hq'] using h)

theorem keys_insert_nodup (m : ArgMap) (id : Id) (v : MatchedArg) (hk : (keys m).Nodup) : (keys (m.insert id v)).Nodup := by
  unfold ArgMap.insert
  split
  · next hc =>
    have : keys (m.map fun p => if p.1 == id then (id, v) else p) = keys m := by
      unfold keys
      rw [List.map_map]
      apply List.map_congr_left
      intro p _
      simp only [Function.comp]
      split
      · next hp => simp at hp; simp [hp]
      · rfl
    rw [this]; exact hk
  · next hc => exact keys_append_nodup m id v (by simpa using hc) hk

/-- the `vals_map` accumulated on the way down keeps unique keys -/
theorem collect_nodup (level : ArgMap) : ∀ (globals : List Id) (acc : ArgMap), (keys acc).Nodup →
    (keys (globals.foldl (fun (acc : ArgMap) g =>
      match level.get g with
      | some ma =>
        let rankOpt : Option Source → Nat := fun o => match o with | none => 0 | some s => s.rank + 1
        let toUpdate := match acc.get g with
          | some parent => if rankOpt parent.source > rankOpt ma.source then parent else ma
          | none => ma
        acc.insert g toUpdate
      | none => acc) acc)).Nodup := by
  intro globals
  induction globals with
  | nil => intro acc h; exact h
  | cons g gs ih =>
    intro acc h
    simp only [List.foldl_cons]
    apply ih
    split
    · exact keys_insert_nodup _ _ _ h
    · exact h

/-- **every level of the chain ends up with the same entry for every propagated global**:
all rewritten levels agree with the final `vals_map` on each of its keys -/
theorem globals_agree (globals : List Id) : ∀ (levels : List ArgMap) (vals : ArgMap), (keys vals).Nodup →
    (keys (fillIn globals levels vals).2).Nodup ∧
    ∀ L ∈ (fillIn globals levels vals).1, ∀ g ma, (fillIn globals levels vals).2.get g = some ma → L.get g = some ma := by
  intro levels
  induction levels with
  | nil => intro vals hk; simp [fillIn]; exact hk
  | cons level below ih =>
    intro vals hk
    unfold fillIn
    simp only
    have h1 := collect_nodup level globals vals hk
    obtain ⟨hk2, hagree⟩ := ih _ h1
    refine ⟨hk2, ?_⟩
    intro L hL g ma hg
    rcases List.mem_cons.1 hL with rfl | hL'
    · exact writeAll_get _ hk2 level g ma hg
    · exact hagree L hL' g ma hg

/-- hence any two levels of the chain report the same value and source for a propagated global -/
theorem globals_equal_across_levels (globals : List Id) (levels : List ArgMap) (L1 L2 : ArgMap)
    (h1 : L1 ∈ (fillIn globals levels []).1) (h2 : L2 ∈ (fillIn globals levels []).1) (g : Id) (ma : MatchedArg)
    (hg : (fillIn globals levels []).2.get g = some ma) : L1.get g = L2.get g := by
  obtain ⟨_, hagree⟩ := globals_agree globals levels [] (by simp [keys])
  rw [hagree L1 h1 g ma hg, hagree L2 h2 g ma hg]

end Clap.C09
