/-
C10 — `UnknownArgument` is justified: the lookup functions answer "no matching argument" only for a
flag that names nothing at this level.
-/
import ClapProofs.C01Loop
namespace Clap.C10
open Clap Parser

/-- **an unknown long flag really is unknown**: `parse_long_arg` answers `NoMatchingArg` only when the name is not
valid UTF-8 or names no arg (exactly, by alias, or - with inference - as an unambiguous prefix) and no long flag
subcommand of this level -/
theorem unknown_long_justified (c : Cmd) (longArg : Bytes) (u : Bool) (longValue : Option Bytes) (st : ParseState)
    (pc : Nat) (vaf : Bool) (p : P) (hp : C01.PendingOk c p) (p' : P) (v : Bool)
    (h : parseLongArg c longArg u longValue st pc vaf p = (p', .ok (.noMatchingArg, v))) :
    u = false ∨ (findLong c longArg = none ∧ possibleLongFlagSubcommand c longArg = none) := by
  unfold parseLongArg at h
  split at h
  · simp at h
  · split at h
    · simp at h
    · split at h
      · next hu => left; simpa using hu
      · split at h
        · simp at h
        · split at h
          · next a hf =>
            split at h
            · have hsh := C01.parseOptValue_shape c .long longValue a longValue.isSome p hp
              cases hr : parseOptValue c .long longValue a longValue.isSome p with
              | mk p1 r1 =>
                rw [hr] at hsh h
                cases r1 with
                | error e => simp at h
                | ok r' =>
                  simp at h
                  obtain ⟨_, rfl, _⟩ := h
                  rcases hsh _ rfl with h1 | h1 | ⟨h1 | h1, _⟩ <;> cases h1
            · split at h
              · simp at h
              · have hres := C01.react_result c (some .long) .cmdline a [] none p
                cases hr : Parser.react c (some .long) .cmdline a [] none p with
                | mk p1 r1 =>
                  rw [hr] at hres h
                  cases r1 with
                  | error e => simp at h
                  | ok r' =>
                    have := hres r' rfl
                    subst this
                    simp at h
          · next hf =>
            split at h
            · simp at h
            · next hfs => split at h <;> first | (simp at h; done) | exact Or.inr ⟨hf, hfs⟩

/-- **an unknown short flag really is unknown**: the flag loop answers `NoMatchingArg` only after reaching a
character that is no short flag (or alias) and no short flag subcommand of this level, or bytes that are not UTF-8 -/
theorem unknown_short_justified (c : Cmd) : ∀ (fuel : Nat) (sf : ShortFlags) (consumed : Nat) (ret : ParseResult)
    (vaf : Bool) (p : P), C01.PendingOk c p → (ret = .noArg ∨ ret = .valuesDone) →
    ∀ p' v, shortLoop c sf fuel consumed ret vaf p = (p', .ok (.noMatchingArg, v)) →
      sf.invalid.isSome = true ∨ ∃ ch ∈ sf.chars, c.getShort ch = none ∧ c.findShortSubcmd ch = none := by
  intro fuel
  induction fuel with
  | zero =>
    intro sf consumed ret vaf p _ hret p' v h
    unfold shortLoop at h
    simp at h
    rcases hret with h1 | h1 <;> rw [h1] at h <;> cases h.2.1
  | succ fuel ih =>
    intro sf consumed ret vaf p hp hret p' v h
    unfold shortLoop at h
    simp only at h
    split at h
    · simp at h; rcases hret with h1 | h1 <;> rw [h1] at h <;> cases h.2.1
    · next hnf =>
      -- `.bad`: the remaining bytes are not UTF-8
      left
      unfold ShortFlags.nextFlag at hnf
      split at hnf
      · simp at hnf
      · split at hnf
        · next suf hs => simp [hs]
        · simp at hnf
    · next sf1 ch hnf =>
      have hch : sf.chars = ch :: sf1.chars ∧ sf1.invalid = sf.invalid := by
        unfold ShortFlags.nextFlag at hnf
        split at hnf
        · next c0 cs hc => simp at hnf; rw [hc, ← hnf.1, ← hnf.2]; simp
        · split at hnf <;> simp at hnf
      -- whatever the rest of the cluster shows also shows for the whole cluster
      have lift : (sf1.invalid.isSome = true ∨ ∃ ch' ∈ sf1.chars, c.getShort ch' = none ∧ c.findShortSubcmd ch' = none) →
          sf.invalid.isSome = true ∨ ∃ ch' ∈ sf.chars, c.getShort ch' = none ∧ c.findShortSubcmd ch' = none := by
        intro hh
        rcases hh with hh | ⟨ch', hm, h1, h2⟩
        · left; rw [← hch.2]; exact hh
        · right; exact ⟨ch', by rw [hch.1]; exact List.mem_cons_of_mem _ hm, h1, h2⟩
      split at h
      · next a hg =>
        split at h
        · have h1 := C01.react_pending c (some .short) .cmdline a [] none p hp
          have hres := C01.react_result c (some .short) .cmdline a [] none p
          cases hr : Parser.react c (some .short) .cmdline a [] none p with
          | mk p1 r1 =>
            rw [hr] at h1 hres h
            cases r1 with
            | error e => simp at h
            | ok r' =>
              have := hres r' rfl
              subst this
              exact lift (ih sf1 (consumed + 1) .valuesDone true p1 (C01.PendingOk.of_none h1) (Or.inr rfl) p' v h)
        · generalize shortAttached sf1 = vh at h
          obtain ⟨val, hasEq⟩ := vh
          simp only at h
          have hsh := C01.parseOptValue_shape c .short val a hasEq p hp
          cases hr : parseOptValue c .short val a hasEq p with
          | mk p1 r1 =>
            rw [hr] at hsh h
            cases r1 with
            | error e => simp at h
            | ok r' =>
              cases r' with
              | attachedValueNotConsumed =>
                have hn : p1.pending = none := by
                  rcases hsh _ rfl with h1 | h1 | ⟨_, h1⟩
                  · cases h1
                  · cases h1
                  · exact h1
                exact lift (ih sf1 (consumed + 1) ret true p1 (C01.PendingOk.of_none hn) hret p' v h)
              | noMatchingArg => rcases hsh _ rfl with h1 | h1 | ⟨h1 | h1, _⟩ <;> cases h1
              | _ => simp at h
      · next hg =>
        split at h
        · cases hr : resolvePending c p with
          | mk p1 r1 =>
            rw [hr] at h
            cases r1 <;> simp at h
        · next hfs =>
          right
          exact ⟨ch, by rw [hch.1]; exact List.mem_cons_self, hg, hfs⟩

end Clap.C10
